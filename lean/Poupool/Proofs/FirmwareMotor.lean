/-
Helper lemmas for property C19, motor part: pins follow `m_previous_direction`, `stop`, stall window.
-/
import Poupool.Proofs.Firmware

namespace Poupool.Firmware
open Poupool.FirmwareConst

/-! ### what only `process_direction` (and the `D` event) touches -/

structure MP where
  prevDir : Dir
  pinOpen : Bool
  pinClose : Bool
  deriving DecidableEq, Repr

def mpOf (s : St) : MP := ⟨s.prevDir, s.pinOpen, s.pinClose⟩

theorem mp_emit (s : St) (b : List Nat) : mpOf (emit s b) = mpOf s := rfl
theorem mp_emitLn (s : St) (b : List Nat) : mpOf (emitLn s b) = mpOf s := rfl

theorem mp_setDirection (s : St) (d : Dir) : mpOf (setDirection s d) = mpOf s := by
  cases d <;> simp only [setDirection] <;> (try split) <;> rfl

theorem mp_setLimit (s : St) (d : Dir) : mpOf (setLimit s d) = mpOf s := by
  cases d <;> simp only [setLimit] <;> (try split) <;> rfl

theorem mp_stepCover (s : St) : mpOf (stepCover s) = mpOf s := by
  unfold stepCover; sb_cases

theorem mp_coverIsr (s : St) : mpOf (coverIsr s) = mpOf s := by
  unfold coverIsr
  split
  · exact Eq.trans (b := mpOf (stepCover s)) rfl (mp_stepCover s)
  · rfl

theorem mp_waterIsr (s : St) : mpOf (waterIsr s) = mpOf s := by
  unfold waterIsr; sb_cases

theorem mp_emergencyStop (s : St) : mpOf (emergencyStop s) = mpOf s := rfl

theorem mp_stallCheck (s : St) (now : Nat) : mpOf (stallCheck s now) = mpOf s := by
  unfold stallCheck; sb_cases

theorem mp_envelopeCheck (s : St) : mpOf (envelopeCheck s) = mpOf s := by
  unfold envelopeCheck; sb_cases

theorem mp_ensureConsistency (s : St) (now : Nat) : mpOf (ensureConsistency s now) = mpOf s := by
  unfold ensureConsistency
  split
  · exact Eq.trans (mp_envelopeCheck _) (mp_stallCheck s now)
  · rfl

theorem mp_processStop (s : St) (now : Nat) : mpOf (processStop s now) = mpOf s := by
  unfold processStop; sb_cases

theorem mp_button (s : St) (k : Btn) : mpOf (button s k) = mpOf s := by
  cases k <;> simp only [button] <;> first | exact mp_setDirection _ _ | exact mp_setLimit _ _

theorem mp_debugPrint (s : St) : mpOf (debugPrint s) = mpOf s := by
  unfold debugPrint
  exact foldl_inv (fun a => mpOf a = mpOf s) _
    (fun a lf ha => Eq.trans (Eq.trans (mp_emitLn _ _) (mp_emit _ _)) ha) _ s rfl

theorem mp_runOp (s : St) (op : Op) : mpOf (runOp s op) = mpOf s := by
  cases op with
  | print b => exact mp_emit s b
  | println b => exact mp_emitLn s b
  | printlnPct => exact mp_emitLn s _
  | printlnWater => exact mp_emitLn s _
  | printlnBuf => exact mp_emitLn s _
  | setOpen => exact mp_setDirection s .opn
  | setClose => exact mp_setDirection s .cls
  | setStop => exact mp_setDirection s .stop
  | debug => exact mp_debugPrint s
  | reset => rfl

theorem mp_ops (ops : List Op) (s : St) : mpOf (ops.foldl runOp s) = mpOf s :=
  foldl_inv (fun a => mpOf a = mpOf s) runOp (fun a op ha => Eq.trans (mp_runOp a op) ha) ops s rfl

theorem mp_dispatchCore (s : St) : mpOf (dispatchCore s) = mpOf s := by
  have h := mp_ops (findCmd (cstr s) commands) s
  unfold dispatchCore
  exact Eq.trans (b := mpOf (List.foldl runOp s (findCmd (cstr s) commands))) rfl h

theorem mp_dispatch (s : St) : mpOf (dispatch s) = mpOf s := by
  unfold dispatch
  split
  · exact mp_dispatchCore s
  · exact Eq.trans (mp_dispatchCore _) rfl

theorem mp_bufStore (s : St) (v : Nat) : mpOf (bufStore s v) = mpOf s := by
  unfold bufStore bufWrite; sb_cases

theorem mp_serialStep (s : St) (b : Nat) : mpOf (serialStep s b) = mpOf s := by
  unfold serialStep bufAdd
  by_cases hb : b = 13
  · simp [hb]
  · by_cases hf : s.idx = bufFullAt
    · simp only [hb, hf, if_false, if_true]
      exact Eq.trans (mp_dispatch _) (mp_bufStore _ _)
    · by_cases hg : s.idx ≥ bufIgnoreAt
      · simp only [hb, hf, hg, if_false, if_true]
        exact mp_dispatch _
      · by_cases hn : b = 10
        · subst hn
          simp only [hf, hg, if_false, if_true, show ¬ ((10 : Nat) = 13) by decide]
          exact Eq.trans (mp_dispatch _) (mp_bufStore _ _)
        · simp only [hb, hf, hg, hn, if_false, Bool.false_eq_true]
          exact mp_bufStore _ _

/-! ### the pins always are what `process_direction` last wrote for `m_previous_direction` -/

/-- what the encoder ISR can do: position ±1 or unchanged, direction unchanged or STOP -/
theorem coverIsr_cases (s : St) :
    ∃ p d, coverIsr s = { s with pos := p, dir := d, isrLast := s.clk } ∧ (d = s.dir ∨ d = .stop) ∧
      (p = s.pos ∨ p = wrap32 (s.pos + 1) ∨ p = wrap32 (s.pos - 1)) := by
  unfold coverIsr
  by_cases hdeb : s.clk - s.isrLast > coverDebounceMs
  · simp only [hdeb, if_true]
    unfold stepCover
    cases hr : s.run with
    | opn =>
      simp only []
      by_cases hc : s.lim = Lim.none ∧ atOpenEnd (wrap32 (s.pos + 1)) s.opn = true
      · simp only [hc, and_self, if_true]
        exact ⟨_, _, rfl, Or.inr rfl, Or.inr (Or.inl rfl)⟩
      · simp only [hc, if_false]
        exact ⟨_, _, rfl, Or.inl rfl, Or.inr (Or.inl rfl)⟩
    | cls =>
      simp only []
      by_cases hc : s.lim = Lim.none ∧ atCloseEnd (wrap32 (s.pos - 1)) s.close = true
      · simp only [hc, and_self, if_true]
        exact ⟨_, _, rfl, Or.inr rfl, Or.inr (Or.inr rfl)⟩
      · simp only [hc, if_false]
        exact ⟨_, _, rfl, Or.inl rfl, Or.inr (Or.inr rfl)⟩
    | stop =>
      simp only []
      refine ⟨s.pos, s.dir, ?_, Or.inl rfl, Or.inl rfl⟩
      simp only [hr]
  · simp only [hdeb, if_false]
    exact ⟨s.pos, s.dir, rfl, Or.inl rfl, Or.inl rfl⟩

theorem mp_delayWithPulses (s : St) : mpOf (delayWithPulses s) = mpOf s := by
  unfold delayWithPulses
  have h := foldl_inv (fun a => mpOf a = mpOf s) (delayPulse s.clk s.dpulses)
    (fun a k ha => Eq.trans (Eq.trans (mp_coverIsr _) rfl) ha)
    (List.range s.dpulses) { s with dpulses := 0 } rfl
  exact Eq.trans rfl h

/-- interrupts inside the delay leave the direction alone or set it to STOP -/
theorem delayWithPulses_dir (s : St) : (delayWithPulses s).dir = s.dir ∨ (delayWithPulses s).dir = .stop := by
  unfold delayWithPulses
  have h := foldl_inv (fun a : St => a.dir = s.dir ∨ a.dir = .stop) (delayPulse s.clk s.dpulses)
    (fun a k ha => by
      obtain ⟨p, d, e, hd, _⟩ := coverIsr_cases { a with clk := s.clk + ((k + 1) * relayDelayMs) / (s.dpulses + 1) }
      show (coverIsr _).dir = s.dir ∨ (coverIsr _).dir = .stop
      rw [e]
      rcases hd with hd | hd
      · rcases ha with ha | ha
        · exact Or.inl (hd.trans ha)
        · exact Or.inr (hd.trans ha)
      · exact Or.inr hd)
    (List.range s.dpulses) { s with dpulses := 0 } (Or.inl rfl)
  exact h

theorem delayWithPulses_zero (s : St) (h : s.dpulses = 0) :
    delayWithPulses s = { s with dpulses := 0, clk := s.clk + relayDelayMs } := by
  unfold delayWithPulses
  rw [h]
  rfl

/-- the motor pins are what `process_direction` last wrote for `m_previous_direction` -/
def PinsOK (m : MP) : Prop :=
  match m.prevDir with
  | .opn => m.pinClose = true ∧ m.pinOpen = false
  | .cls => m.pinOpen = true ∧ m.pinClose = false
  | .stop => m.pinOpen = false ∧ m.pinClose = false

def Motor (s : St) : Prop := PinsOK (mpOf s)

theorem motor_of_mp {a b : St} (h : mpOf a = mpOf b) (hb : Motor b) : Motor a := by
  unfold Motor at *
  rw [h]
  exact hb

/-- `process_direction`, with ANY number of interrupts inside its delay: the pins are written for the direction read
at the top, that direction becomes the previous direction, and the direction itself is unchanged or (ISR) STOP -/
theorem processDirection_motor (s : St) (now : Nat) (h : Motor s) :
    Motor (processDirection s now) ∧ (processDirection s now).prevDir = s.dir ∧
    ((processDirection s now).dir = s.dir ∨ (processDirection s now).dir = .stop) ∧
    (s.dpulses = 0 → (processDirection s now).dir = s.dir) := by
  unfold processDirection
  simp only [prevDirRereadsVolatile, Bool.false_eq_true, if_false]
  by_cases hc : s.dir = s.prevDir
  · simp only [hc, ne_eq, not_true_eq_false, if_false]
    exact ⟨h, trivial, Or.inl trivial, fun _ => trivial⟩
  · simp only [ne_eq, hc, not_false_eq_true, if_true]
    cases hdir : s.dir with
    | opn =>
      simp only []
      have hm := congrArg MP.pinClose (mp_delayWithPulses { s with dir := .opn, run := .opn, pinClose := true })
      have hd := delayWithPulses_dir { s with dir := .opn, run := .opn, pinClose := true }
      refine ⟨⟨hm, rfl⟩, by trivial, ?_, ?_⟩
      · rcases hd with hd | hd
        · exact Or.inl hd
        · exact Or.inr hd
      · intro h0
        rw [delayWithPulses_zero _ (by exact h0)]
    | cls =>
      simp only []
      have hm := congrArg MP.pinOpen (mp_delayWithPulses { s with dir := .cls, run := .cls, pinOpen := true })
      have hd := delayWithPulses_dir { s with dir := .cls, run := .cls, pinOpen := true }
      refine ⟨⟨hm, rfl⟩, by trivial, ?_, ?_⟩
      · rcases hd with hd | hd
        · exact Or.inl hd
        · exact Or.inr hd
      · intro h0
        rw [delayWithPulses_zero _ (by exact h0)]
    | stop =>
      simp only []
      exact ⟨⟨rfl, rfl⟩, by trivial, Or.inl (by trivial), fun _ => by trivial⟩

theorem actions_motor (s : St) (btn : Option Btn) (h : Motor s) : Motor (actions s btn) := by
  unfold actions
  refine motor_of_mp (mp_processStop _ _) (motor_of_mp (mp_ensureConsistency _ _) ?_)
  refine (processDirection_motor _ _ ?_).1
  cases btn with
  | none => exact h
  | some k => exact motor_of_mp (mp_button s k) h

theorem step_motor (s : St) (e : Ev) (h : Motor s) : Motor (step s e) := by
  cases e with
  | byte b => exact actions_motor _ _ (motor_of_mp (mp_serialStep s b) h)
  | tick ms => exact actions_motor _ _ (motor_of_mp (b := s) rfl h)
  | adv ms => exact motor_of_mp (b := s) rfl h
  | pulse => exact motor_of_mp (mp_coverIsr s) h
  | wpulse => exact motor_of_mp (mp_waterIsr s) h
  | delayPulses n => exact motor_of_mp (b := s) rfl h
  | btn k => exact actions_motor _ _ h
  | query => exact h

theorem run_motor (evs : List Ev) : ∀ s : St, Motor s → Motor (run s evs) := by
  induction evs with
  | nil => intro s h; exact h
  | cons e es ih => intro s h; exact ih (step s e) (step_motor s e h)

theorem motor_init (p c o : Int) : Motor (init p c o) := ⟨rfl, rfl⟩

/-- pins LOW iff the previous direction is STOP -/
theorem motor_low_iff (s : St) (h : Motor s) : (s.pinOpen = false ∧ s.pinClose = false) ↔ s.prevDir = .stop := by
  unfold Motor PinsOK at h
  simp only [mpOf] at h
  cases hd : s.prevDir <;> rw [hd] at h <;> simp_all

/-! ### stall window -/

/-- events that are neither serial input nor buttons nor interrupts inside delay() -/
def quiet : Ev → Bool
  | .tick _ | .adv _ | .pulse | .wpulse | .query => true
  | _ => false

def pulseCount : List Ev → Int
  | [] => 0
  | .pulse :: r => pulseCount r + 1
  | _ :: r => pulseCount r

/-- the stall window opened at `(t0, p0)` while driving in direction `d` is still open and the position has moved by
at most `n` pulses – or the direction is already STOP -/
def Win (d : Dir) (t0 : Nat) (p0 n : Int) (s : St) : Prop :=
  s.dir = .stop ∨ (s.dir = d ∧ s.prevDir = d ∧ s.prevTime = t0 ∧ s.prevPos = p0 ∧ p0 - n ≤ s.pos ∧ s.pos ≤ p0 + n)

theorem processStop_same (s : St) (now : Nat) :
    (processStop s now).dir = s.dir ∧ (processStop s now).prevDir = s.prevDir ∧
    (processStop s now).prevTime = s.prevTime ∧ (processStop s now).prevPos = s.prevPos ∧
    (processStop s now).pos = s.pos ∧ (processStop s now).nEmergency = s.nEmergency := by
  unfold processStop; (repeat' split) <;> exact ⟨rfl, rfl, rfl, rfl, rfl, rfl⟩

theorem envelopeCheck_same (s : St) :
    ((envelopeCheck s).dir = s.dir ∨ (envelopeCheck s).dir = .stop) ∧ (envelopeCheck s).prevDir = s.prevDir ∧
    (envelopeCheck s).prevTime = s.prevTime ∧ (envelopeCheck s).prevPos = s.prevPos ∧
    (envelopeCheck s).pos = s.pos ∧ (envelopeCheck s).nEmergency ≥ s.nEmergency := by
  unfold envelopeCheck
  (repeat' split)
  · exact ⟨Or.inr rfl, rfl, rfl, rfl, rfl, Nat.le_succ _⟩
  · exact ⟨Or.inl rfl, rfl, rfl, rfl, rfl, Nat.le_refl _⟩
  · exact ⟨Or.inl rfl, rfl, rfl, rfl, rfl, Nat.le_refl _⟩

theorem absC_lt (x : Int) (h1 : -10 < x) (h2 : x < 10) : absC x < 10 := by
  unfold absC
  split
  · omega
  · rw [wrap32_id (by omega) (by omega)]; omega

theorem stallCheck_fires (s : St) (now : Nat) (ht : now - s.prevTime > stallWindowMs)
    (hp : absC (wrap32 (s.pos - s.prevPos)) < stallMinPulses) :
    (stallCheck s now).dir = .stop ∧ (stallCheck s now).nEmergency = s.nEmergency + 1 ∧
    (stallCheck s now).out = s.out ++ (emergencyText ++ crlf) ++ (emergencyTerminator ++ crlf) ∧
    (stallCheck s now).pos = s.pos ∧ (stallCheck s now).lim = s.lim ∧ (stallCheck s now).close = s.close ∧
    (stallCheck s now).opn = s.opn := by
  unfold stallCheck
  rw [if_pos ht]
  simp only [hp, if_true]
  exact ⟨rfl, rfl, rfl, rfl, rfl, rfl, rfl⟩

theorem stallCheck_idle (s : St) (now : Nat) (ht : ¬ now - s.prevTime > stallWindowMs) : stallCheck s now = s := by
  unfold stallCheck; rw [if_neg ht]

/-- everything after the serial part keeps a STOP direction (no button) -/
theorem actions_none_dir_stop (s : St) (h : s.dir = .stop) : (actions s none).dir = .stop := by
  unfold actions
  have h1 : (processDirection s s.clk).dir = .stop := by
    unfold processDirection
    split
    · simp only [h]
    · exact h
  have h2 : (ensureConsistency (processDirection s s.clk) s.clk).dir = .stop := by
    unfold ensureConsistency; rw [if_neg (by simp [h1])]; exact h1
  exact (processStop_same _ _).1.trans h2

theorem coverIsr_dir_stop (s : St) (h : s.dir = .stop) : (coverIsr s).dir = .stop := by
  obtain ⟨p, d, e, hd, _⟩ := coverIsr_cases s
  rw [e]
  rcases hd with hd | hd
  · exact hd.trans h
  · exact hd

theorem win_coverIsr (d : Dir) (t0 : Nat) (p0 n : Int) (s : St) (h : Win d t0 p0 n s)
    (hp0 : -1073741824 ≤ p0 ∧ p0 ≤ 1073741824) (hn : 0 ≤ n ∧ n < 10) : Win d t0 p0 (n + 1) (coverIsr s) := by
  rcases h with h | ⟨h1, h2, h3, h4, h5, h6⟩
  · exact Or.inl (coverIsr_dir_stop s h)
  · have w1 : wrap32 (s.pos + 1) = s.pos + 1 := wrap32_id (by omega) (by omega)
    have w2 : wrap32 (s.pos - 1) = s.pos - 1 := wrap32_id (by omega) (by omega)
    obtain ⟨p, d', e, hd, hp⟩ := coverIsr_cases s
    rw [e, w1, w2] at *
    rcases hd with hd | hd
    · refine Or.inr ⟨hd.trans h1, h2, h3, h4, ?_, ?_⟩
      · show p0 - (n + 1) ≤ p
        rcases hp with hp | hp | hp <;> omega
      · show p ≤ p0 + (n + 1)
        rcases hp with hp | hp | hp <;> omega
    · exact Or.inl hd

/-- one loop iteration without serial input or button: the window stays open, or the direction is STOP -/
theorem win_actions (d : Dir) (t0 : Nat) (p0 n : Int) (s : St) (h : Win d t0 p0 n s)
    (hd : d ≠ .stop) (hn : 0 ≤ n ∧ n < 10) :
    Win d t0 p0 n (actions s none) ∧ (s.clk - t0 > stallWindowMs → (actions s none).dir = .stop) := by
  rcases h with h | ⟨h1, h2, h3, h4, h5, h6⟩
  · exact ⟨Or.inl (actions_none_dir_stop s h), fun _ => actions_none_dir_stop s h⟩
  · unfold actions
    have hpd : processDirection s s.clk = s := by
      unfold processDirection; rw [if_neg (by simp [h1, h2])]
    simp only [hpd]
    have hne : s.dir ≠ .stop := by rw [h1]; exact hd
    unfold ensureConsistency
    rw [if_pos hne]
    obtain ⟨q1, q2, q3, q4, q5, _⟩ := processStop_same (envelopeCheck (stallCheck s s.clk)) s.clk
    obtain ⟨e1, e2, e3, e4, e5, _⟩ := envelopeCheck_same (stallCheck s s.clk)
    by_cases ht : s.clk - s.prevTime > stallWindowMs
    · have hp : absC (wrap32 (s.pos - s.prevPos)) < stallMinPulses := by
        rw [h4, wrap32_id (by omega) (by omega)]
        exact absC_lt _ (by omega) (by omega)
      obtain ⟨f1, _⟩ := stallCheck_fires s s.clk ht hp
      have : (processStop (envelopeCheck (stallCheck s s.clk)) s.clk).dir = .stop := by
        rw [q1]; rcases e1 with e | e
        · rw [e, f1]
        · exact e
      exact ⟨Or.inl this, fun _ => this⟩
    · rw [stallCheck_idle s s.clk ht] at q1 q2 q3 q4 q5 e1 e2 e3 e4 e5 ⊢
      refine ⟨?_, fun hc => absurd (h3 ▸ hc) ht⟩
      rcases e1 with e | e
      · exact Or.inr ⟨by rw [q1, e, h1], by rw [q2, e2, h2], by rw [q3, e3, h3], by rw [q4, e4, h4],
          by rw [q5, e5]; exact h5, by rw [q5, e5]; exact h6⟩
      · exact Or.inl (by rw [q1, e])

theorem win_mono (d : Dir) (t0 : Nat) (p0 n m : Int) (s : St) (h : Win d t0 p0 n s) (hm : n ≤ m) : Win d t0 p0 m s := by
  rcases h with h | ⟨h1, h2, h3, h4, h5, h6⟩
  · exact Or.inl h
  · exact Or.inr ⟨h1, h2, h3, h4, by omega, by omega⟩

theorem pulseCount_nonneg (evs : List Ev) : 0 ≤ pulseCount evs := by
  induction evs with
  | nil => exact Int.le_refl 0
  | cons e es ih => cases e <;> simp only [pulseCount] <;> omega

theorem win_run (d : Dir) (t0 : Nat) (p0 : Int) (hd : d ≠ .stop) (hp0 : -1073741824 ≤ p0 ∧ p0 ≤ 1073741824)
    (evs : List Ev) : ∀ (s : St) (n : Int), Win d t0 p0 n s → (∀ e ∈ evs, quiet e = true) → 0 ≤ n →
      n + pulseCount evs < 10 → Win d t0 p0 (n + pulseCount evs) (run s evs) := by
  induction evs with
  | nil => intro s n h _ _ _; simpa [pulseCount, run] using h
  | cons e es ih =>
    intro s n h hq hn hlt
    have hq' : ∀ e ∈ es, quiet e = true := fun x hx => hq x (List.mem_cons_of_mem _ hx)
    have hqe := hq e (List.mem_cons_self ..)
    have hnn := pulseCount_nonneg es
    show Win d t0 p0 (n + pulseCount (e :: es)) (run (step s e) es)
    cases e with
    | byte b => simp [quiet] at hqe
    | btn k => simp [quiet] at hqe
    | delayPulses k => simp [quiet] at hqe
    | tick ms =>
      simp only [pulseCount] at hlt ⊢
      have h' : Win d t0 p0 n { s with clk := s.clk + ms } := h
      exact ih _ n (win_actions d t0 p0 n _ h' hd ⟨hn, by omega⟩).1 hq' hn hlt
    | adv ms =>
      simp only [pulseCount] at hlt ⊢
      have h' : Win d t0 p0 n { s with clk := s.clk + ms } := h
      exact ih _ n h' hq' hn hlt
    | pulse =>
      simp only [pulseCount] at hlt ⊢
      have h' := win_coverIsr d t0 p0 n s h hp0 ⟨hn, by omega⟩
      have := ih (coverIsr s) (n + 1) h' hq' (by omega) (by omega)
      have e : n + 1 + pulseCount es = n + (pulseCount es + 1) := by omega
      rw [e] at this; exact this
    | wpulse =>
      simp only [pulseCount] at hlt ⊢
      have h' : Win d t0 p0 n (waterIsr s) := by
        unfold waterIsr; (repeat' split) <;> exact h
      exact ih _ n h' hq' hn hlt
    | query =>
      simp only [pulseCount] at hlt ⊢
      exact ih _ n h hq' hn hlt

end Poupool.Firmware
