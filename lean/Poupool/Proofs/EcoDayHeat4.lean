/-
  Symbolic execution of long stretches of eco_waiting polls (a whole day is more than 8600 polls, too many to evaluate
  one by one in an `example`) and the concrete runs of the examples / counterexample of C10 sections (g), (h).
-/
import Poupool.Proofs.EcoDayHeat3

set_option linter.unusedSimpArgs false
set_option linter.unusedVariables false
namespace Poupool.Eco
open Poupool.Generated

/-! ### symbolic execution of the polls of eco_waiting once the quota is used up (for the examples: a whole day is
more than 8600 polls, too many to evaluate one by one) -/

/-- eco_waiting polled at `t` with the pause timer at `cur`, last save at `ls`, last persisted duration `sv` -/
def lateSt (base : Loop) (t cur ls sv : Int) : Loop :=
  { base with now := t, due := t + EcoConfig.pollDelayUs, saved := sv,
              eco := { base.eco with current := { base.eco.current with duration := cur, last := some t },
                                     filtration := { base.eco.filtration with last := some t }, lastSave := ls } }

theorem late_poll (eps : Int) (base : Loop) (t cur ls sv j1 j2 : Int)
    (hp : base.phase = .waiting) (hpump : base.pumpOn = false)
    (hl : base.eco.filtration.delay ≤ base.eco.filtration.duration)
    (hnr : t + EcoConfig.pollDelayUs < base.eco.nextReset) :
    (ecoStep eps (lateSt base t cur ls sv) (.tick 0 j1 j2)).1
      = lateSt base (t + EcoConfig.pollDelayUs) (cur + EcoConfig.pollDelayUs)
          (if EcoConfig.saveIntervalUs < t + EcoConfig.pollDelayUs - ls then t + EcoConfig.pollDelayUs else ls)
          (if EcoConfig.saveIntervalUs < t + EcoConfig.pollDelayUs - ls then base.eco.filtration.duration else sv) := by
  have hpoll := cfg_poll
  have hfw := cfg_fW
  have hT : max (lateSt base t cur ls sv).now (lateSt base t cur ls sv).due + 0 = t + EcoConfig.pollDelayUs := by
    show max t (t + EcoConfig.pollDelayUs) + 0 = _
    omega
  have hr : ¬ (lateSt base t cur ls sv).eco.nextReset ≤ max (lateSt base t cur ls sv).now (lateSt base t cur ls sv).due + 0 := by
    rw [hT]; show ¬ base.eco.nextReset ≤ _; omega
  have hpol : polled eps (lateSt base t cur ls sv) 0 0 1
      = { lateSt base (t + EcoConfig.pollDelayUs) (cur + EcoConfig.pollDelayUs)
          (if EcoConfig.saveIntervalUs < t + EcoConfig.pollDelayUs - ls then t + EcoConfig.pollDelayUs else ls)
          (if EcoConfig.saveIntervalUs < t + EcoConfig.pollDelayUs - ls then base.eco.filtration.duration else sv)
          with due := t + EcoConfig.pollDelayUs } := by
    unfold polled
    rw [hT]
    have hnr' : ¬ base.eco.nextReset ≤ t + EcoConfig.pollDelayUs := by omega
    by_cases hs : EcoConfig.saveIntervalUs < t + EcoConfig.pollDelayUs - ls <;>
      simp [Loop.doUpdate, EcoMode.update, Loop.advance, lateSt, Timer.update, scale_zero, scale_one, hpump, hnr', hs] <;> omega
  have hph : (lateSt base t cur ls sv).phase = .waiting := hp
  have he : (polled eps (lateSt base t cur ls sv) 0 0 1).eco.elapsedOff = false := by
    rw [hpol]
    have : decide (base.eco.filtration.delay ≤ base.eco.filtration.duration) = true := by simp; omega
    show (decide (base.eco.current.delay ≤ cur + EcoConfig.pollDelayUs)
      && !decide (base.eco.filtration.delay ≤ base.eco.filtration.duration)) = false
    rw [this]; simp
  rw [step_waiting_stay eps _ hph 0 j1 j2 hr he, hpol]
  rfl


/-- the instant of the last save and the last persisted duration after `n` more on-time polls -/
def saveAfter (dur : Int) : Nat → Int → Int → Int → Int × Int
  | 0, _, ls, sv => (ls, sv)
  | n + 1, t, ls, sv =>
    if EcoConfig.saveIntervalUs < t + EcoConfig.pollDelayUs - ls
    then saveAfter dur n (t + EcoConfig.pollDelayUs) (t + EcoConfig.pollDelayUs) dur
    else saveAfter dur n (t + EcoConfig.pollDelayUs) ls sv

/-- `n` on-time polls of eco_waiting with the quota used up, all before the reset: only the clock, the pause timer and
the persistence bookkeeping move -/
theorem late_polls (eps : Int) (base : Loop) (hp : base.phase = .waiting) (hpump : base.pumpOn = false)
    (hl : base.eco.filtration.delay ≤ base.eco.filtration.duration) (n : Nat) :
    ∀ (t cur ls sv : Int), t + n * EcoConfig.pollDelayUs < base.eco.nextReset →
      ecoFinal eps (lateSt base t cur ls sv) (List.replicate n (.tick 0 0 0))
        = lateSt base (t + n * EcoConfig.pollDelayUs) (cur + n * EcoConfig.pollDelayUs)
            (saveAfter base.eco.filtration.duration n t ls sv).1 (saveAfter base.eco.filtration.duration n t ls sv).2 := by
  have hpoll := cfg_poll
  induction n with
  | zero => intro t cur ls sv _; simp [ecoFinal, saveAfter]
  | succ n ih =>
    intro t cur ls sv hnr
    have hnr1 : t + EcoConfig.pollDelayUs < base.eco.nextReset := by
      rw [hpoll] at hnr ⊢; omega
    have e1 : ecoFinal eps (lateSt base t cur ls sv) (List.replicate (n + 1) (.tick 0 0 0))
        = ecoFinal eps (ecoStep eps (lateSt base t cur ls sv) (.tick 0 0 0)).1 (List.replicate n (.tick 0 0 0)) := rfl
    rw [e1, late_poll eps base t cur ls sv 0 0 hp hpump hl hnr1, ih _ _ _ _ (by rw [hpoll] at hnr ⊢; omega)]
    have e2 : t + EcoConfig.pollDelayUs + (n : Int) * EcoConfig.pollDelayUs = t + ((n + 1 : Nat) : Int) * EcoConfig.pollDelayUs := by
      rw [hpoll]; omega
    have e3 : cur + EcoConfig.pollDelayUs + (n : Int) * EcoConfig.pollDelayUs = cur + ((n + 1 : Nat) : Int) * EcoConfig.pollDelayUs := by
      rw [hpoll]; omega
    rw [e2, e3]
    simp only [saveAfter]
    split <;> rfl

/-- a polled eco_waiting state is of the form `lateSt` -/
theorem lateSt_self (base : Loop) (h1 : base.due = base.now + EcoConfig.pollDelayUs)
    (h2 : base.eco.current.last = some base.now) (h3 : base.eco.filtration.last = some base.now) :
    lateSt base base.now base.eco.current.duration base.eco.lastSave base.saved = base := by
  obtain ⟨eco, phase, toNormal, now, due, pumpOn, onToday, days, full, saved, gTc, gDc, gNr, gN, gD, gRc, gJ, gWoff, gW, gCredit, gCyc, gU, gPlain⟩ := base
  obtain ⟨filtration, current, nextReset, period, tankNum, tankDen, periodDuration, onD, offD, tankD, lastSave⟩ := eco
  obtain ⟨fd, fl, fdel⟩ := filtration
  obtain ⟨cd, cl, cdel⟩ := current
  simp only at h1 h2 h3
  subst h1 h2 h3
  rfl


/-! ### the run of the examples of section (g): two heating days

Quota 1 s, 8 periods, reset at midnight, eco entered at 23:59:50, every handler at most 1 ms late.  Day 1 (whole): `heat`
arrives 1 s after a poll of the first eco_waiting, three polls of heating_running, `heating_delay`, the delay expires; the
quota is used up, so after the compute delay the pump is stopped and eco_waiting is polled 8632 times until the reset.
Day 2: the same interlude in the first eco_waiting. -/

def hdParams : Params := ⟨1, 8, 0, 1, 0, 86390000000, 0⟩
def hdPolls : List Ev := [.tick 300 0 0, .tick 1000 0 0, .tick 0 0 0]
def hdSeg1 : Seg := ⟨List.replicate 5 (.tick 500 100 100), 1000000, hdPolls, 2000000, 700, 0, 0⟩
def hdA : List Ev := [.tick 0 0 0, .tick 0 0 0]
def hdB : List Ev := [.tick 0 0 0, .tick 0 0 0, .tick 0 0 0]
def hdSeg2 : Seg := ⟨hdA ++ List.replicate 8630 (.tick 0 0 0) ++ hdB, 1000000, hdPolls, 2000000, 700, 0, 0⟩
def hdPost : List Ev := [.tick 10 20 30, .tick 1 2 3]
def hdStart : Loop := (Loop.start 1000 hdParams).1
/-- eco_waiting after the first interlude, first poll done -/
def hdBase : Loop := ecoFinal 1000 hdStart (hdSeg1.evs ++ hdA)
/-- 8630 polls later (23:59:58 of day 1) -/
def hdMid : Loop :=
  lateSt hdBase (hdBase.now + (8630 : Nat) * EcoConfig.pollDelayUs) (hdBase.eco.current.duration + (8630 : Nat) * EcoConfig.pollDelayUs)
    (saveAfter hdBase.eco.filtration.duration 8630 hdBase.now hdBase.eco.lastSave hdBase.saved).1
    (saveAfter hdBase.eco.filtration.duration 8630 hdBase.now hdBase.eco.lastSave hdBase.saved).2

theorem hd_mid : ecoFinal 1000 hdBase (List.replicate 8630 (.tick 0 0 0)) = hdMid := by
  have h := late_polls 1000 hdBase (by decide) (by decide) (by decide) 8630 hdBase.now hdBase.eco.current.duration
    hdBase.eco.lastSave hdBase.saved (by decide)
  rw [lateSt_self hdBase (by decide) (by decide) (by decide)] at h
  exact h

/-- the state in which the second `heat` arrives -/
theorem hd_pre2 : ecoFinal 1000 hdStart (hdSeg1.evs ++ hdSeg2.pre) = ecoFinal 1000 hdMid hdB := by
  have e : hdSeg2.pre = hdA ++ List.replicate 8630 (.tick 0 0 0) ++ hdB := rfl
  rw [e, ← List.append_assoc, ← List.append_assoc, ecoFinal_append, ecoFinal_append]
  have e2 : ecoFinal 1000 hdStart (hdSeg1.evs ++ hdA) = hdBase := rfl
  rw [e2, hd_mid]


theorem hd_pre2' : ecoFinal 1000 (ecoFinal 1000 hdStart hdSeg1.evs) hdSeg2.pre = ecoFinal 1000 hdMid hdB := by
  rw [← ecoFinal_append, hd_pre2]

theorem hd_evs2 : ecoFinal 1000 (ecoFinal 1000 hdStart hdSeg1.evs) hdSeg2.evs
    = ecoFinal 1000 (ecoFinal 1000 hdMid hdB) hdSeg2.inter := by
  have e : hdSeg2.evs = hdSeg2.pre ++ hdSeg2.inter := rfl
  rw [e, ecoFinal_append, hd_pre2']

/-- the side conditions of `C10_quota_heating_days_partial` hold on this run -/
theorem hd_segsOK : SegsOK 1000 hdStart [hdSeg1, hdSeg2] := by
  refine ⟨by decide, ⟨?_, ?_, ?_, ?_, ?_⟩, trivial⟩
  · intro e he
    have e2 : hdSeg2.pre = hdA ++ List.replicate 8630 (.tick 0 0 0) ++ hdB := rfl
    rw [e2] at he
    have : e = .tick 0 0 0 := by
      rcases List.mem_append.mp he with h | h
      · rcases List.mem_append.mp h with h | h
        · simp only [hdA, List.mem_cons, List.mem_nil_iff, or_false] at h
          rcases h with h | h <;> exact h
        · exact List.eq_of_mem_replicate h
      · simp only [hdB, List.mem_cons, List.mem_nil_iff, or_false] at h
        rcases h with h | h | h <;> exact h
    rw [this]; decide
  · rw [hd_pre2']; decide
  · rw [hd_pre2']; decide
  · rw [hd_pre2']; decide
  · rw [hd_pre2', hd_evs2]; decide

/-- the whole run of the example, in terms of the symbolically executed state `hdMid` -/
theorem hd_final : ecoFinal 1000 hdStart (segsEvs [hdSeg1, hdSeg2] ++ hdPost)
    = ecoFinal 1000 (ecoFinal 1000 (ecoFinal 1000 hdMid hdB) hdSeg2.inter) hdPost := by
  have e : segsEvs [hdSeg1, hdSeg2] = hdSeg1.evs ++ hdSeg2.evs := by simp [segsEvs]
  rw [e, ecoFinal_append, ecoFinal_append, hd_evs2]


/-! ### the run of the example with two interludes in one day: quota 7 h, 8 periods; the first interlude as in `hdSeg1`,
then `eco_compute`, eco_waiting, its first poll, `heat` again 3 s later -/

def miParams : Params := ⟨25200, 8, 0, 1, 0, 86390000000, 0⟩
def miSeg1 : Seg := ⟨List.replicate 5 (.tick 500 100 100), 1000000, hdPolls, 2000000, 700, 0, 0⟩
def miSeg2 : Seg := ⟨[.tick 200 0 0, .tick 300 0 0], 3000000, hdPolls, 1000000, 0, 0, 0⟩


/-! ### symbolic execution of the polls of a pause in progress (quota not used up) -/

/-- an on-time poll of eco_waiting before the reset that does not end the pause: quota used up, or pause not over -/
theorem wait_poll (eps : Int) (base : Loop) (t cur ls sv j1 j2 : Int)
    (hp : base.phase = .waiting) (hpump : base.pumpOn = false)
    (hl : base.eco.filtration.delay ≤ base.eco.filtration.duration ∨ cur + EcoConfig.pollDelayUs < base.eco.current.delay)
    (hnr : t + EcoConfig.pollDelayUs < base.eco.nextReset) :
    (ecoStep eps (lateSt base t cur ls sv) (.tick 0 j1 j2)).1
      = lateSt base (t + EcoConfig.pollDelayUs) (cur + EcoConfig.pollDelayUs)
          (if EcoConfig.saveIntervalUs < t + EcoConfig.pollDelayUs - ls then t + EcoConfig.pollDelayUs else ls)
          (if EcoConfig.saveIntervalUs < t + EcoConfig.pollDelayUs - ls then base.eco.filtration.duration else sv) := by
  have hpoll := cfg_poll
  have hfw := cfg_fW
  have hT : max (lateSt base t cur ls sv).now (lateSt base t cur ls sv).due + 0 = t + EcoConfig.pollDelayUs := by
    show max t (t + EcoConfig.pollDelayUs) + 0 = _
    omega
  have hr : ¬ (lateSt base t cur ls sv).eco.nextReset ≤ max (lateSt base t cur ls sv).now (lateSt base t cur ls sv).due + 0 := by
    rw [hT]; show ¬ base.eco.nextReset ≤ _; omega
  have hpol : polled eps (lateSt base t cur ls sv) 0 0 1
      = { lateSt base (t + EcoConfig.pollDelayUs) (cur + EcoConfig.pollDelayUs)
          (if EcoConfig.saveIntervalUs < t + EcoConfig.pollDelayUs - ls then t + EcoConfig.pollDelayUs else ls)
          (if EcoConfig.saveIntervalUs < t + EcoConfig.pollDelayUs - ls then base.eco.filtration.duration else sv)
          with due := t + EcoConfig.pollDelayUs } := by
    unfold polled
    rw [hT]
    have hnr' : ¬ base.eco.nextReset ≤ t + EcoConfig.pollDelayUs := by omega
    by_cases hs : EcoConfig.saveIntervalUs < t + EcoConfig.pollDelayUs - ls <;>
      simp [Loop.doUpdate, EcoMode.update, Loop.advance, lateSt, Timer.update, scale_zero, scale_one, hpump, hnr', hs] <;> omega
  have hph : (lateSt base t cur ls sv).phase = .waiting := hp
  have he : (polled eps (lateSt base t cur ls sv) 0 0 1).eco.elapsedOff = false := by
    rw [hpol]
    show (decide (base.eco.current.delay ≤ cur + EcoConfig.pollDelayUs)
      && !decide (base.eco.filtration.delay ≤ base.eco.filtration.duration)) = false
    rcases hl with hl | hl
    · have : decide (base.eco.filtration.delay ≤ base.eco.filtration.duration) = true := by simp; omega
      rw [this]; simp
    · have : decide (base.eco.current.delay ≤ cur + EcoConfig.pollDelayUs) = false := by simp; omega
      rw [this]; simp
  rw [step_waiting_stay eps _ hph 0 j1 j2 hr he, hpol]
  rfl

/-- `n` on-time polls of eco_waiting, all before the reset and before the end of the pause -/
theorem wait_polls (eps : Int) (base : Loop) (hp : base.phase = .waiting) (hpump : base.pumpOn = false) (n : Nat) :
    ∀ (t cur ls sv : Int), t + n * EcoConfig.pollDelayUs < base.eco.nextReset →
      cur + n * EcoConfig.pollDelayUs < base.eco.current.delay →
      ecoFinal eps (lateSt base t cur ls sv) (List.replicate n (.tick 0 0 0))
        = lateSt base (t + n * EcoConfig.pollDelayUs) (cur + n * EcoConfig.pollDelayUs)
            (saveAfter base.eco.filtration.duration n t ls sv).1 (saveAfter base.eco.filtration.duration n t ls sv).2 := by
  have hpoll := cfg_poll
  induction n with
  | zero => intro t cur ls sv _ _; simp [ecoFinal, saveAfter]
  | succ n ih =>
    intro t cur ls sv hnr hcur
    have hnr1 : t + EcoConfig.pollDelayUs < base.eco.nextReset := by
      rw [hpoll] at hnr ⊢; omega
    have hc1 : cur + EcoConfig.pollDelayUs < base.eco.current.delay := by
      rw [hpoll] at hcur ⊢; omega
    have e1 : ecoFinal eps (lateSt base t cur ls sv) (List.replicate (n + 1) (.tick 0 0 0))
        = ecoFinal eps (ecoStep eps (lateSt base t cur ls sv) (.tick 0 0 0)).1 (List.replicate n (.tick 0 0 0)) := rfl
    rw [e1, wait_poll eps base t cur ls sv 0 0 hp hpump (Or.inr hc1) hnr1,
      ih _ _ _ _ (by rw [hpoll] at hnr ⊢; omega) (by rw [hpoll] at hcur ⊢; omega)]
    have e2 : t + EcoConfig.pollDelayUs + (n : Int) * EcoConfig.pollDelayUs = t + ((n + 1 : Nat) : Int) * EcoConfig.pollDelayUs := by
      rw [hpoll]; omega
    have e3 : cur + EcoConfig.pollDelayUs + (n : Int) * EcoConfig.pollDelayUs = cur + ((n + 1 : Nat) : Int) * EcoConfig.pollDelayUs := by
      rw [hpoll]; omega
    rw [e2, e3]
    simp only [saveAfter]
    split <;> rfl

/-! ### the run of `C10_quota_monitor_upper_three_interludes_counterexample`: quota 600 s, one period, every handler on
time; eco entered at 23:59:50; three interludes (20 s of heating + the 60 s delay each) at the beginning of the whole day;
the pause of the plan made after the third one is polled 8561 times, then the pump runs until the accounted duration
reaches the quota -/

def ceParams : Params := ⟨600, 1, 0, 1, 0, 86390000000, 0⟩
def cePolls : List Ev := [.tick 0 0 0, .tick 0 0 0, .tick 0 0 0]
def ceSeg1 : Seg := ⟨List.replicate 5 (.tick 0 0 0), 1000000, cePolls, 2000000, 0, 0, 0⟩
def ceSegK : Seg := ⟨[.tick 0 0 0, .tick 0 0 0], 1000000, cePolls, 2000000, 0, 0, 0⟩
def ceSegs : List Seg := [ceSeg1, ceSegK, ceSegK]
def ceA : List Ev := [.tick 0 0 0, .tick 0 0 0]
def cePost : List Ev := ceA ++ List.replicate 8559 (.tick 0 0 0) ++ List.replicate 55 (.tick 0 0 0)
def ceStart : Loop := (Loop.start 0 ceParams).1
def ceBase : Loop := ecoFinal 0 ceStart (segsEvs ceSegs ++ ceA)
def ceMid : Loop :=
  lateSt ceBase (ceBase.now + (8559 : Nat) * EcoConfig.pollDelayUs) (ceBase.eco.current.duration + (8559 : Nat) * EcoConfig.pollDelayUs)
    (saveAfter ceBase.eco.filtration.duration 8559 ceBase.now ceBase.eco.lastSave ceBase.saved).1
    (saveAfter ceBase.eco.filtration.duration 8559 ceBase.now ceBase.eco.lastSave ceBase.saved).2

theorem ce_mid : ecoFinal 0 ceBase (List.replicate 8559 (.tick 0 0 0)) = ceMid := by
  have h := wait_polls 0 ceBase (by decide) (by decide) 8559 ceBase.now ceBase.eco.current.duration
    ceBase.eco.lastSave ceBase.saved (by decide) (by decide)
  rw [lateSt_self ceBase (by decide) (by decide) (by decide)] at h
  exact h

theorem ce_final : ecoFinal 0 ceStart (segsEvs ceSegs ++ cePost) = ecoFinal 0 ceMid (List.replicate 55 (.tick 0 0 0)) := by
  have e : cePost = ceA ++ List.replicate 8559 (.tick 0 0 0) ++ List.replicate 55 (.tick 0 0 0) := rfl
  rw [e, ← List.append_assoc, ← List.append_assoc, ecoFinal_append, ecoFinal_append]
  have e2 : ecoFinal 0 ceStart (segsEvs ceSegs ++ ceA) = ceBase := rfl
  rw [e2, ce_mid]

theorem ce_post_ok : ∀ e ∈ cePost, TickOK 0 e := by
  intro e he
  have e2 : cePost = ceA ++ List.replicate 8559 (.tick 0 0 0) ++ List.replicate 55 (.tick 0 0 0) := rfl
  rw [e2] at he
  have : e = .tick 0 0 0 := by
    rcases List.mem_append.mp he with h | h
    · rcases List.mem_append.mp h with h | h
      · simp only [ceA, List.mem_cons, List.mem_nil_iff, or_false] at h
        rcases h with h | h <;> exact h
      · exact List.eq_of_mem_replicate h
    · exact List.eq_of_mem_replicate h
  rw [this]; decide

end Poupool.Eco
