/-
  C11 helper lemmas: the persistence rule of `EcoMode.update`, order independence of the restore, the
  dispatcher's `once` rule, monotone counters.
-/
import Poupool.Proofs.EcoArith
set_option linter.unusedVariables false
namespace Poupool.Eco
open Poupool.Generated

theorem cfg_save : EcoConfig.saveIntervalUs = 300000000 := by decide
theorem cfg_keep : EcoConfig.keepElapsed = true := by decide

/-! ### persistence rule -/

/-- an operation on the EcoMode of a running process: a poll (`update(now, factor)`) or a state change (`clear`) -/
inductive POp
  | update (now fnum fden : Int)
  | clear
  deriving Repr, DecidableEq

/-- EcoMode + ghost: `filtration.duration` when `/status/filtration/duration` was last published, time of the last poll -/
structure PSt where
  e : EcoMode
  saved : Int
  tnow : Int

def PSt.step (s : PSt) : POp → PSt
  | .update now fnum fden =>
    let r := s.e.update now fnum fden
    { e := r.1, saved := if r.2.persisted.isSome then r.1.filtration.duration else s.saved, tnow := now }
  | .clear => { s with e := s.e.clear }

/-- polls at non-decreasing instants, factors in [0, 1] -/
def opsOK : Int → List POp → Prop
  | _, [] => True
  | t, .update now fnum fden :: r => t ≤ now ∧ 0 ≤ fnum ∧ fnum ≤ fden ∧ 0 < fden ∧ opsOK now r
  | t, .clear :: r => opsOK t r

structure PInv (s : PSt) : Prop where
  h1 : s.e.lastSave ≤ s.tnow
  h2 : ∀ l, s.e.filtration.last = some l → l = s.tnow
  h3 : s.saved ≤ s.e.filtration.duration
  h4 : s.e.filtration.duration - s.saved ≤ s.tnow - s.e.lastSave
  h5 : s.tnow - s.e.lastSave ≤ EcoConfig.saveIntervalUs

theorem pstep_inv (s : PSt) (h : PInv s) (op : POp) (hok : opsOK s.tnow [op]) : PInv (s.step op) := by
  obtain ⟨h1, h2, h3, h4, h5⟩ := h
  have hsv := cfg_save
  cases op with
  | clear =>
    refine ⟨h1, ?_, h3, h4, h5⟩
    intro l hl; simp [PSt.step, EcoMode.clear, Timer.clear] at hl
  | update now fnum fden =>
    obtain ⟨ht, hf0, hf1, hfd, _⟩ := hok
    simp only [PSt.step, EcoMode.update]
    by_cases hr : s.e.nextReset ≤ now
    · -- reset: duration 0, saved
      simp only [hr, decide_true, Bool.or_true, if_true, Option.isSome_some, Timer.reset]
      refine ⟨by simp, ?_, by simp, by simp, by simp; omega⟩
      intro l hl; simp at hl
    · simp only [hr, decide_false, Bool.or_false, Bool.false_eq_true, if_false]
      cases hl : s.e.filtration.last with
      | none =>
        by_cases hs : EcoConfig.saveIntervalUs < now - s.e.lastSave
        · simp only [hs, decide_true, if_true, Option.isSome_some, Timer.update, hl]
          refine ⟨by simp, ?_, by simp, by simp, by simp; omega⟩
          intro l h'; simp at h' ⊢; omega
        · simp only [hs, decide_false, Bool.false_eq_true, if_false, Option.isSome_none, Timer.update, hl]
          refine ⟨by simp; omega, ?_, by simpa using h3, by simp; omega, by simp; omega⟩
          intro l h'; simp at h' ⊢; omega
      | some l0 =>
        have hl0 := h2 l0 hl
        have hsc := scale_bounds (now - l0) fnum fden (by omega) hf0 hf1 hfd
        by_cases hs : EcoConfig.saveIntervalUs < now - s.e.lastSave
        · simp only [hs, decide_true, if_true, Option.isSome_some, Timer.update, hl]
          refine ⟨by simp, ?_, by simp, by simp, by simp; omega⟩
          intro l h'; simp at h' ⊢; omega
        · simp only [hs, decide_false, Bool.false_eq_true, if_false, Option.isSome_none, Timer.update, hl]
          refine ⟨by simp; omega, ?_, by simp; omega, by simp; omega, by simp; omega⟩
          intro l h'; simp at h' ⊢; omega

theorem prun_inv : ∀ (ops : List POp) (s : PSt), PInv s → opsOK s.tnow ops → PInv (ops.foldl PSt.step s) := by
  intro ops
  induction ops with
  | nil => intro s h _; exact h
  | cons op r ih =>
    intro s h hok
    show PInv (r.foldl PSt.step (s.step op))
    cases op with
    | clear => exact ih _ (pstep_inv s h .clear trivial) hok
    | update now fnum fden =>
      obtain ⟨a, b, c, d, e⟩ := hok
      exact ih _ (pstep_inv s h (.update now fnum fden) ⟨a, b, c, d, trivial⟩) e

/-! ### settings and the restore in any order -/

inductive SMsg
  | daily (s : Int)            -- /settings/filtration/duration  -> Filtration.duration
  | restore (v : Int)          -- /status/filtration/duration    -> Filtration.restore_duration
  | period (p : Int)
  | tank (n d : Int)
  | resetHour (now h : Int)
  deriving Repr, DecidableEq

def applyMsg (e : EcoMode) : SMsg → EcoMode
  | .daily s => e.fltDuration s
  | .restore v => e.restore v
  | .period p => e.setPeriod p
  | .tank n d => e.setTank n d
  | .resetHour now h => e.setResetHour now h

/-- the accounted duration after a list of messages: the value of the last restore, else the initial one -/
def durAfter (d0 : Int) : List SMsg → Int
  | [] => d0
  | .restore v :: ms => durAfter (v * US) ms
  | _ :: ms => durAfter d0 ms

theorem foldl_duration (ms : List SMsg) : ∀ e : EcoMode,
    (ms.foldl applyMsg e).filtration.duration = durAfter e.filtration.duration ms := by
  have hk := cfg_keep
  induction ms with
  | nil => intro e; rfl
  | cons m r ih =>
    intro e
    show (r.foldl applyMsg (applyMsg e m)).filtration.duration = _
    rw [ih]
    cases m <;> simp [applyMsg, durAfter, EcoMode.fltDuration, hk, EcoMode.setDaily, EcoMode.recompute, Timer.setDuration,
      Timer.setDelay, EcoMode.restore, EcoMode.setPeriod, EcoMode.setTank, EcoMode.setResetHour]

theorem durAfter_of_mem (v : Int) : ∀ (ms : List SMsg) (d0 : Int), SMsg.restore v ∈ ms → (∀ w, SMsg.restore w ∈ ms → w = v) →
    durAfter d0 ms = v * US := by
  intro ms
  induction ms with
  | nil => intro d0 h; cases h
  | cons m r ih =>
    intro d0 hm hall
    by_cases hr : SMsg.restore v ∈ r
    · cases m <;> simp only [durAfter] <;> exact ih _ hr (fun w hw => hall w (List.mem_cons_of_mem _ hw))
    · have hmv : m = SMsg.restore v := by
        rcases List.mem_cons.mp hm with h | h
        · exact h.symm
        · exact absurd h hr
      subst hmv
      simp only [durAfter]
      -- no restore at all in r
      have hno : ∀ w, SMsg.restore w ∉ r := by
        intro w hw
        have := hall w (List.mem_cons_of_mem _ hw)
        subst this; exact hr hw
      clear hm hall hr ih
      induction r generalizing v with
      | nil => rfl
      | cons x xs ih2 =>
        cases x with
        | restore w => exact absurd (List.mem_cons_self ..) (hno w)
        | daily _ => simp only [durAfter]; exact ih2 v (fun w hw => hno w (List.mem_cons_of_mem _ hw))
        | period _ => simp only [durAfter]; exact ih2 v (fun w hw => hno w (List.mem_cons_of_mem _ hw))
        | tank _ _ => simp only [durAfter]; exact ih2 v (fun w hw => hno w (List.mem_cons_of_mem _ hw))
        | resetHour _ _ => simp only [durAfter]; exact ih2 v (fun w hw => hno w (List.mem_cons_of_mem _ hw))

/-! ### dispatcher `once` -/

theorem applied_deleted (t : Topic) : ∀ (ts : List Topic) (d : Disp), d.deleted.contains t = true → Disp.applied t d ts = 0 := by
  intro ts
  induction ts with
  | nil => intro d _; rfl
  | cons x xs ih =>
    intro d hd
    unfold Disp.applied Disp.dispatch
    by_cases hx : d.deleted.contains x = true
    · simp only [hx, if_true, Bool.false_and, Bool.false_eq_true, if_false, Nat.zero_add]
      exact ih d hd
    · simp only [hx, Bool.false_eq_true, if_false, Bool.true_and]
      have hne : (x == t) = false := by
        cases hxt : (x == t) with
        | false => rfl
        | true => have := eq_of_beq hxt; subst this; exact absurd hd hx
      simp only [hne, Bool.false_eq_true, if_false, Nat.zero_add]
      apply ih
      split
      · have hm : t ∈ d.deleted := by simpa using hd
        simp [hm]
      · exact hd

theorem applied_le_one (t : Topic) (ho : t.once = true) : ∀ (ts : List Topic) (d : Disp), Disp.applied t d ts ≤ 1 := by
  intro ts
  induction ts with
  | nil => intro d; exact Nat.zero_le _
  | cons x xs ih =>
    intro d
    unfold Disp.applied Disp.dispatch
    by_cases hx : d.deleted.contains x = true
    · simp only [hx, if_true, Bool.false_and, Bool.false_eq_true, if_false, Nat.zero_add]
      exact ih d
    · simp only [hx, Bool.false_eq_true, if_false, Bool.true_and]
      cases hxt : (x == t) with
      | false => simp only [Bool.false_eq_true, if_false, Nat.zero_add]; exact ih _
      | true =>
        have := eq_of_beq hxt; subst this
        simp only [if_true, ho]
        have := applied_deleted x xs { deleted := x :: d.deleted } (by simp)
        omega

/-! ### monotone counters -/

def headIs : List Int → Option Int → Prop
  | [], r => r = none
  | a :: _, r => r = some a

structure CInv (c : Counter) (pending : Bool) : Prop where
  hq : 0 < c.q
  hmono : nonDecreasing c.pubs = true
  hhead : headIs c.pubs c.retained
  hval : pending = false → ∀ v, c.retained = some v → v ≤ divNearest c.total c.q

theorem counter_run : ∀ (evs : List CEv) (c : Counter) (p : Bool), CInv c p → restoreFirst p evs = true →
    (∀ d, CEv.add d ∈ evs → 0 ≤ d) → nonDecreasing (c.run evs).pubs = true := by
  intro evs
  induction evs with
  | nil => intro c p h _ _; exact h.hmono
  | cons e r ih =>
    intro c p h hrf hpos
    show nonDecreasing ((c.step e).run r).pubs = true
    obtain ⟨hq, hmono, hhead, hval⟩ := h
    cases e with
    | kill =>
      exact ih _ true ⟨hq, hmono, hhead, fun hp => by cases hp⟩ (by simpa [restoreFirst] using hrf)
        (fun d hd => hpos d (List.mem_cons_of_mem _ hd))
    | restore =>
      refine ih _ false ?_ (by simpa [restoreFirst] using hrf) (fun d hd => hpos d (List.mem_cons_of_mem _ hd))
      cases hr : c.retained with
      | none =>
        simp only [Counter.step, hr]
        exact ⟨hq, hmono, hhead, fun _ v hv => by rw [hr] at hv; cases hv⟩
      | some v =>
        simp only [Counter.step, hr]
        refine ⟨hq, hmono, by simpa [hr] using hhead, fun _ w hw => ?_⟩
        simp only at hw
        cases hw
        simp only [divNearest_mul_self v c.q hq]; exact Int.le_refl _
    | add d =>
      simp only [restoreFirst, Bool.and_eq_true, Bool.not_eq_true'] at hrf
      obtain ⟨hp, hrf⟩ := hrf
      have hd := hpos d (List.mem_cons_self ..)
      refine ih _ p ?_ hrf (fun d hd => hpos d (List.mem_cons_of_mem _ hd))
      have hm := divNearest_mono c.total (c.total + d) c.q hq (by omega)
      simp only [Counter.step]
      refine ⟨hq, ?_, rfl, fun _ w hw => ?_⟩
      · cases hpubs : c.pubs with
        | nil => simp [nonDecreasing]
        | cons a rest =>
          simp only [nonDecreasing, Bool.and_eq_true, decide_eq_true_eq]
          rw [hpubs] at hmono hhead
          refine ⟨?_, hmono⟩
          have := hval hp a hhead
          omega
      · simp only at hw; cases hw; exact Int.le_refl _

end Poupool.Eco
