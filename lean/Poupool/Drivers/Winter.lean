import Poupool.Model.Winter
open Poupool.Winter
def optInt (s : String) : Option (Option Int) := if s == "none" then some none else (s.toInt?).map some
def step (line : String) : String :=
  match (line.splitOn " ").filter (· ≠ "") with
  | ["poll", tis, period, temp, thr] =>
      match tis.toInt?, period.toInt?, optInt temp, thr.toInt? with
      | some tis, some p, some t, some th => (match poll tis p t th with | .rearm => "rearm" | .stir => "stir")
      | _, _, _, _ => "bad-op"
  | "timed" :: delay :: ts =>
      match delay.toInt?, ts.mapM (·.toInt?) with
      | some d, some ts =>
          let (acts, _) := ts.foldl (fun (acc : List String × Timer) now =>
            let (a, t') := timedPoll acc.2 d now
            (acc.1 ++ [match a with | .rearm => "rearm" | .halt => "halt"], t')) ([], { dur := 0, last := none })
          " ".intercalate acts
      | _, _ => "bad-op"
  | _ => "bad-op"
partial def loop (h : IO.FS.Stream) : IO Unit := do
  let line ← h.getLine
  if line.isEmpty then return ()
  IO.println (step line.trimAscii.toString)
  loop h
def main : IO Unit := do loop (← IO.getStdin)
