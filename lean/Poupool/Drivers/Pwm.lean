/-
Line-protocol driver for Model/Pwm.lean (run with `lake env lean --run Poupool/Drivers/Pwm.lean`).
One op per input line, one canonical output line per op.

  new <period n> <period d> <minrt n> <minrt d> <secdur> <start_us>   PWM.__init__ (PWM.SECURITY_DURATION = secdur)
  tick <now_us>            do_run at that instant
  cancel <now_us>          do_cancel at that instant
  value <n> <d>            pwm.value = n/d
  period <n> <d>           pwm.period = n/d
  pc <sp n> <sp d> <cur n> <cur d> <pterm n> <pterm d> <scale n> <scale d>     PController.compute
  ph <enable 0|1> <userpterm n> <d> <setpoint n> <d> <current n> <d>           Disinfection pH duty
  orp <enable 0|1> <userpterm n> <d> <setpoint n> <d> <current n> <d>          Disinfection chlorine duty
  duty <value n> <d> <period n> <d> <minrt n> <d>                              dutyOn

State line:  S <pump 0|1> <state 0|1> <duration n/d> <last n/d|-> <sec.duration us> <sec.last us|-> <securityReset us>
Number line: R <n/d>
-/
import Poupool.Model.Pwm
import Poupool.Generated.PwmConfig

open Poupool.Pwm

def ratStr (r : Rat) : String := s!"{r.num}/{r.den}"

def optRat : Option Rat → String
  | some r => ratStr r
  | none => "-"

def optInt : Option Int → String
  | some r => toString r
  | none => "-"

def b01 (b : Bool) : String := if b then "1" else "0"

def showState (s : PwmState) : String :=
  s!"S {b01 s.pumpOn} {b01 s.state} {ratStr s.duration} {optRat s.last} {s.sec.duration} {optInt s.sec.last} {s.securityReset}"

def ratOf (n d : Int) : Rat := (n : Rat) / (d : Rat)

def dummy : PwmState := PwmState.init Poupool.Generated.pwmCfg 120 3 0 0

partial def loop (h : IO.FS.Stream) (out : IO.FS.Stream) (s : PwmState) : IO Unit := do
  let line ← h.getLine
  if line.isEmpty then return
  let ws := (line.trimAscii.toString.splitOn " ").filter (· ≠ "")
  let c := Poupool.Generated.pwmCfg
  let ints := (ws.drop 1).map (fun w => w.toInt?.getD 0)
  let g (i : Nat) : Int := ints.getD i 0
  let r (i : Nat) : Rat := ratOf (g i) (g (i + 1))
  match ws.head? with
  | none => loop h out s
  | some "new" =>
    let s' := PwmState.init c (r 0) (r 2) (g 4) (g 5)
    out.putStrLn (showState s'); loop h out s'
  | some "tick" =>
    let s' := tick c (g 0) s
    out.putStrLn (showState s'); loop h out s'
  | some "cancel" =>
    let s' := cancel (g 0) s
    out.putStrLn (showState s'); loop h out s'
  | some "value" =>
    let s' := setValue (r 0) s
    out.putStrLn (showState s'); loop h out s'
  | some "period" =>
    let s' := setPeriod (r 0) s
    out.putStrLn (showState s'); loop h out s'
  | some "pc" =>
    out.putStrLn ("R " ++ ratStr (compute c (r 0) (r 2) (r 4) (r 6))); loop h out s
  | some "ph" =>
    out.putStrLn ("R " ++ ratStr (phDuty c (g 0 != 0) (r 1) (r 3) (r 5))); loop h out s
  | some "orp" =>
    out.putStrLn ("R " ++ ratStr (orpDuty c (g 0 != 0) (r 1) (r 3) (r 5))); loop h out s
  | some "duty" =>
    out.putStrLn ("R " ++ ratStr (dutyOn (r 0) (r 2) (r 4))); loop h out s
  | some other =>
    out.putStrLn ("E unknown op " ++ other); loop h out s

def main : IO Unit := do
  let h ← IO.getStdin
  let out ← IO.getStdout
  loop h out dummy
