import Poupool.Model.Guards
open Poupool.Guards
def step (line : String) : String :=
  match (line.splitOn " ").filter (· ≠ "") with
  | ["tank_is_low", s] => toString (tankIsLow s)
  | ["tank_is_high", s] => toString (tankIsHigh s)
  | ["pump_stopped_in_standby", n] => match n.toInt? with | some n => toString (pumpStoppedInStandby n) | none => "bad-op"
  | ["filtration_allow_heating", s] => toString (allowHeating s)
  | ["filtration_ready_for_heating", s] => toString (readyForHeating s)
  | ["filtration_is_wintering", s] => toString (isWintering s)
  | ["filtration_allow_swim", s] => toString (allowSwim s)
  | ["start_backwash", now, last, p, h] =>
      match now.toInt?, last.toInt?, p.toInt? with
      | some now, some last, some p => toString (startBackwash now last p (h == "1"))
      | _, _, _ => "bad-op"
  | ["force_empty", a, b, c] =>
      (match forceEmpty (a == "1") (b == "1") (c == "1") with | .nothing => "nothing" | .haltFiltration => "halt" | .startFill => "fill")
  | "set_mode" :: el :: eh :: ol :: oh :: modes =>
      match el.toInt?, eh.toInt?, ol.toInt?, oh.toInt? with
      | some el, some eh, some ol, some oh => let r := levelsAfter el eh ol oh modes; s!"{r.1} {r.2}"
      | _, _, _, _ => "bad-op"
  | _ => "bad-op"
partial def loop (h : IO.FS.Stream) : IO Unit := do
  let line ← h.getLine
  if line.isEmpty then return ()
  IO.println (step line.trimAscii.toString)
  loop h
def main : IO Unit := do loop (← IO.getStdin)
