import Poupool.Model.Reader
/-! line protocol: `<maxlen> <nsensors> | r11,r12,.. ; r21,..` (x = None) → the windows and means after all reads -/
open Poupool.Reader

def parseVal (s : String) : Option Int := if s == "x" then none else s.toInt?

def showW (w : List Int) : String := "[" ++ ",".intercalate (w.map toString) ++ "]"
def showM : Option (Int × Nat) → String
  | none => "none"
  | some (s, n) => s!"{s}/{n}"

def handle (line : String) : String :=
  match line.trimAscii.toString.splitOn "|" with
  | [hd, body] =>
      match (hd.trimAscii.toString.splitOn " ").filter (· != "") with
      | [ml, n] =>
          match ml.toNat?, n.toNat? with
          | some ml, some n =>
              let reads := (body.trimAscii.toString.splitOn ";").filter (fun s => s.trimAscii.toString != "") |>.map fun r => (r.trimAscii.toString.splitOn ",").map fun s => parseVal s.trimAscii.toString
              let ws := run ml n reads
              " ".intercalate (ws.map fun w => showW w ++ ":" ++ showM (mean w))
          | _, _ => "bad-op"
      | _ => "bad-op"
  | _ => "bad-op"

partial def loop (h : IO.FS.Stream) : IO Unit := do
  let line ← h.getLine
  if line.isEmpty then return ()
  IO.println (handle line)
  loop h

def main : IO Unit := do loop (← IO.getStdin)
