import Poupool.Model.Sensor
open Poupool.Sensor

/-- line: `low high r1 … rn` with `N` for a failed attempt; answer: `num den ms` -/
def step (line : String) : String :=
  match (line.splitOn " ").filter (· ≠ "") with
  | lo :: hi :: rs =>
      match lo.toInt?, hi.toInt? with
      | some lo, some hi =>
          let reads? : Option (List (Option Int)) := rs.mapM fun r => if r == "N" then some none else (r.toInt?).map some
          match reads? with
          | some reads => let v := value { low := lo, high := hi } reads; s!"{v.1} {v.2} {elapsedMs reads}"
          | none => "bad-op"
      | _, _ => "bad-op"
  | _ => "bad-op"

partial def loop (h : IO.FS.Stream) : IO Unit := do
  let line ← h.getLine
  if line.isEmpty then return ()
  IO.println (step line.trimAscii.toString)
  loop h

def main : IO Unit := do loop (← IO.getStdin)
