import Poupool.Model.Timed
import Poupool.Generated.ActorsReach
/-! Line-protocol driver for the step-level correspondence of the timed (timer-view) models with the real controllers.

  input : `<Actor> <plain|fire> <msg> <preLeaf> <preArmed|-1> <postLeaf> <postArmed|-1> <touched 0|1> <delay half-seconds|-1> [k=v,...]`
  output: `ok` | `ok-unknown-duration` | `bad <reason>`

  A real handler execution is accepted iff SOME certified state with the observed (phase, armed call) has, under the
  model's `step` for that message, an outcome with the observed (phase, armed call, touched-or-not), and – when the handler
  armed a call – the observed delay is one of the delays the generated table `durAt` allows there. -/
open Poupool Poupool.Timed

structure Entry where
  D : ActorDesc
  B : Buckets
  durAt : List (LeafId × MsgId × List Dur)

def table : List (String × Entry) := [
  ("Filtration", ⟨Gen.filtrationTimerDesc, Gen.filtrationTimerReach, Gen.filtrationDurAt⟩),
  ("Tank", ⟨Gen.tankTimerDesc, Gen.tankTimerReach, Gen.tankDurAt⟩),
  ("Heating", ⟨Gen.heatingTimerDesc, Gen.heatingTimerReach, Gen.heatingDurAt⟩),
  ("Disinfection", ⟨Gen.disinfectionTimerDesc, Gen.disinfectionTimerReach, Gen.disinfectionDurAt⟩),
  ("Swim", ⟨Gen.swimTimerDesc, Gen.swimTimerReach, Gen.swimDurAt⟩),
  ("Light", ⟨Gen.lightTimerDesc, Gen.lightTimerReach, Gen.lightDurAt⟩),
  ("Arduino", ⟨Gen.arduinoTimerDesc, Gen.arduinoTimerReach, Gen.arduinoDurAt⟩),
  ("Heater", ⟨Gen.heaterTimerDesc, Gen.heaterTimerReach, Gen.heaterDurAt⟩),
  ("PWM", ⟨Gen.pwmTimerDesc, Gen.pwmTimerReach, Gen.pwmDurAt⟩)]

def optOf (i : Int) : Option Nat := if i < 0 then none else some i.toNat

def parseSettings (s : String) : String → Nat :=
  let kvs := (s.splitOn ",").filterMap fun kv =>
    match kv.splitOn "=" with
    | [k, v] => v.toNat?.map fun n => (k, n)
    | _ => none
  fun x => ((kvs.find? (·.1 == x)).map (·.2)).getD 0

def check (E : Entry) (kind : String) (m preLeaf : Nat) (preArmed : Option Nat) (postLeaf : Nat) (postArmed : Option Nat)
    (touched : Bool) (delay : Int) (σ : String → Nat) : String :=
  let X := E.D.nMsgs
  let C : TCfg := { D := E.D, X := X, durAt := E.durAt, lag := 0 }
  let pres := (statesOf E.B).filter fun s => s.leaf == preLeaf && s.armed == preArmed
  if pres.isEmpty then "bad pre-state-not-certified"
  else
    let durOK : String :=
      match postArmed with
      | none => "ok"
      | some m' =>
          match candidates C postLeaf m' with
          | none => "bad no-arm-site-known-to-the-model"
          | some ds =>
              if ds.any (fun d => match d with | .unknown _ => true | _ => false) then "ok-unknown-duration"
              else if delay ≥ 0 && (ds.map (resolve σ 0)).contains delay.toNat then "ok"
              else s!"bad duration {delay} not in {ds.map (resolve σ 0)}"
    if kind == "plain" then
      if !E.D.plainMsgs.contains m then
        (if !touched && postLeaf == preLeaf && postArmed == preArmed then "ok" else "bad message-not-in-the-plain-alphabet-acted")
      else
        let found := pres.any fun s =>
          (step E.D { s with armed := some X } (.plain m)).any fun s0 =>
            s0.leaf == postLeaf &&
              (if touched then s0.armed != some X && s0.armed == postArmed else s0.armed == some X && postArmed == preArmed)
        if !found then "bad no-matching-outcome"
        else if touched then durOK else "ok"
    else
      if preArmed != some m then "bad fired-call-is-not-the-armed-one"
      else
        let found := pres.any fun s => (step E.D s (.delayed m)).any fun s' => s'.leaf == postLeaf && s'.armed == postArmed
        if !found then "bad no-matching-outcome" else durOK

def handle (line : String) : String :=
  match (line.trimAscii.toString.splitOn " ").filter (· != "") with
  | actor :: kind :: m :: pl :: pa :: ql :: qa :: t :: d :: rest =>
      match table.find? (·.1 == actor), m.toNat?, pl.toNat?, pa.toInt?, ql.toNat?, qa.toInt?, t.toNat?, d.toInt? with
      | some (_, E), some m, some pl, some pa, some ql, some qa, some t, some d =>
          check E kind m pl (optOf pa) ql (optOf qa) (t == 1) d (parseSettings (rest.headD ""))
      | _, _, _, _, _, _, _, _ => "bad-op"
  | _ => "bad-op"

partial def loop (h : IO.FS.Stream) : IO Unit := do
  let line ← h.getLine
  if line.isEmpty then return ()
  IO.println (handle line)
  loop h

def main : IO Unit := do loop (← IO.getStdin)
