import Poupool.Model.Actor
import Poupool.Generated.ActorsReach
/-! Line-protocol driver for the step-level correspondence of the SAFETY-view models with the real controllers.

  input : `<Actor> <plain|fire> <msg> <obs idx,idx,..|-> <preLeaf> <preArmed|-1> <preVals v,v,..|-> <postLeaf> <postArmed|-1> <postVals|->`
  output: `ok` | `bad <reason>`

  `obs` are the indices of the observable variables (own output devices, last published state); the knowledge (ghost)
  variables are existentially quantified: the execution is accepted iff SOME certified state with the observed phase, armed
  call and observable values has, under the model's `step` for that message, an outcome with the observed phase, armed call
  and observable values. -/
open Poupool

structure Entry where
  D : ActorDesc
  B : Buckets

def table : List (String × Entry) := [
  ("Filtration", ⟨Gen.filtrationSafetyDesc, Gen.filtrationSafetyReach⟩),
  ("Tank", ⟨Gen.tankSafetyDesc, Gen.tankSafetyReach⟩),
  ("Heating", ⟨Gen.heatingSafetyDesc, Gen.heatingSafetyReach⟩),
  ("Disinfection", ⟨Gen.disinfectionSafetyDesc, Gen.disinfectionSafetyReach⟩),
  ("Swim", ⟨Gen.swimSafetyDesc, Gen.swimSafetyReach⟩),
  ("Light", ⟨Gen.lightSafetyDesc, Gen.lightSafetyReach⟩),
  ("Arduino", ⟨Gen.arduinoSafetyDesc, Gen.arduinoSafetyReach⟩),
  ("Heater", ⟨Gen.heaterSafetyDesc, Gen.heaterSafetyReach⟩),
  ("PWM", ⟨Gen.pwmSafetyDesc, Gen.pwmSafetyReach⟩)]

def optOf (i : Int) : Option Nat := if i < 0 then none else some i.toNat

def parseInts (s : String) : List Int := if s == "-" then [] else (s.splitOn ",").filterMap (·.toInt?)
def parseNats (s : String) : List Nat := if s == "-" then [] else (s.splitOn ",").filterMap (·.toNat?)

def proj (obs : List Nat) (s : St) : List Int := obs.map fun i => getNth s.vars i

def check (E : Entry) (kind : String) (m : Nat) (obs : List Nat) (preLeaf : Nat) (preArmed : Option Nat) (preVals : List Int)
    (postLeaf : Nat) (postArmed : Option Nat) (postVals : List Int) : String :=
  let pres := (statesOf E.B).filter fun s => s.leaf == preLeaf && s.armed == preArmed && proj obs s == preVals
  if pres.isEmpty then "bad pre-state-not-certified"
  else
    let okPost := fun (s' : St) => s'.leaf == postLeaf && s'.armed == postArmed && proj obs s' == postVals
    if kind == "plain" then
      if !E.D.plainMsgs.contains m then
        (if postLeaf == preLeaf && postArmed == preArmed && postVals == preVals then "ok" else "bad message-not-in-the-plain-alphabet-acted")
      else if pres.any fun s => (step E.D s (.plain m)).any okPost then "ok" else "bad no-matching-outcome"
    else
      if preArmed != some m then "bad fired-call-is-not-the-armed-one"
      else if pres.any fun s => (step E.D s (.delayed m)).any okPost then "ok" else "bad no-matching-outcome"

def handle (line : String) : String :=
  match (line.trimAscii.toString.splitOn " ").filter (· != "") with
  | [actor, kind, m, obs, pl, pa, pv, ql, qa, qv] =>
      match table.find? (·.1 == actor), m.toNat?, pl.toNat?, pa.toInt?, ql.toNat?, qa.toInt? with
      | some (_, E), some m, some pl, some pa, some ql, some qa =>
          check E kind m (parseNats obs) pl (optOf pa) (parseInts pv) ql (optOf qa) (parseInts qv)
      | _, _, _, _, _, _ => "bad-op"
  | _ => "bad-op"

partial def loop (h : IO.FS.Stream) : IO Unit := do
  let line ← h.getLine
  if line.isEmpty then return ()
  IO.println (handle line)
  loop h

def main : IO Unit := do loop (← IO.getStdin)
