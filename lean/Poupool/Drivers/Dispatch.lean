/-
Line-protocol driver for Model/Dispatch.lean over the generated table (C14 correspondence, C15(c)).

  R                                                   reset the once-state          -> ok
  D x<topic hex> x<payload hex> <dec> <low> <num>     one delivery                  -> none | tell <target> x<method hex> <val>
      <dec>  -            payload.decode("utf-8") raised          | x<hex of the decoded string (utf-8)>
      <low>  x<hex>       data.lower()   (utf-8 hex)   ("-" if not decoded)
      <num>  -            float(data) raised | nan | inf | -inf | <num>/<den>   (exact value of the double)
  <val>   int:<k> | float:<n>/<d> | float:inf | float:-inf | float:nan | bool:true | bool:false | str:x<hex> | none

Python's decode / lower / float are supplied as DATA on each line: they are the abstract parameters of the model.
-/
import Poupool.Generated.Dispatch

open Poupool.Dispatch Poupool.Generated.Dispatch

def hexDigit (c : Char) : Option Nat :=
  if '0' ≤ c ∧ c ≤ '9' then some (c.toNat - '0'.toNat)
  else if 'a' ≤ c ∧ c ≤ 'f' then some (c.toNat - 'a'.toNat + 10)
  else none

def unhexList : List Char → ByteArray → Option ByteArray
  | [], acc => some acc
  | a :: b :: rest, acc =>
    match hexDigit a, hexDigit b with
    | some x, some y => unhexList rest (acc.push (UInt8.ofNat (x * 16 + y)))
    | _, _ => none
  | _, _ => none

/-- `x<hex>` -> bytes -/
def unhex (s : String) : Option ByteArray :=
  match s.toList with
  | 'x' :: rest => unhexList rest ByteArray.empty
  | _ => none

def hexChar (n : Nat) : Char := if n < 10 then Char.ofNat (n + 48) else Char.ofNat (n - 10 + 97)

def hexOf (b : ByteArray) : String :=
  "x" ++ String.ofList (b.toList.foldr (fun u acc => hexChar (u.toNat / 16) :: hexChar (u.toNat % 16) :: acc) [])

def unhexStr (s : String) : Option String := (unhex s).bind String.fromUTF8?

def parseInt (s : String) : Option Int := s.toInt?

def parseNum (s : String) : Option (Option PyNum) :=
  if s == "-" then some none
  else if s == "nan" then some (some .nan)
  else if s == "inf" then some (some .pinf)
  else if s == "-inf" then some (some .ninf)
  else
    match s.splitOn "/" with
    | [n, d] =>
      match parseInt n, d.toNat? with
      | some n, some d => if h : 0 < d then some (some (.fin ⟨n, d, h⟩)) else none
      | _, _ => none
    | _ => none

def showNum : PyNum → String
  | .fin v => s!"{v.num}/{v.den}"
  | .pinf => "inf"
  | .ninf => "-inf"
  | .nan => "nan"

def showVal : Val → String
  | .int k => s!"int:{k}"
  | .float x => "float:" ++ showNum x
  | .bool b => if b then "bool:true" else "bool:false"
  | .str s => "str:" ++ hexOf s.toUTF8
  | .none => "none"

def step (st : State) (line : String) : State × String :=
  match line.splitOn " " with
  | ["R"] => ({}, "ok")
  | ["D", t, p, dec, low, num] =>
    match unhexStr t, unhex p, parseNum num with
    | some topic, some payload, some pn =>
      let decoded : Option (Option String) := if dec == "-" then some none else (unhexStr dec).map some
      let lowered : Option String := if low == "-" then some "" else unhexStr low
      match decoded, lowered with
      | some d, some l =>
        let r := dispatch table boolTrue (fun _ => pn) (fun _ => l) (fun _ => d) st topic payload
        (r.1, match r.2 with
          | none => "none"
          | some tl => s!"tell {tl.target} {hexOf tl.method.toUTF8} {showVal tl.arg}")
      | _, _ => (st, "error bad-dec-or-low")
    | _, _, _ => (st, "error bad-field")
  | _ => (st, "error bad-line")

partial def loop (h : IO.FS.Stream) (out : IO.FS.Stream) (st : State) : IO Unit := do
  let line ← h.getLine
  if line.isEmpty then return ()
  let l := String.ofList (line.toList.filter (fun c => c != (Char.ofNat 10) && c != (Char.ofNat 13)))
  let (st', o) := step st l
  out.putStrLn o
  loop h out st'

def main : IO Unit := do
  let stdin ← IO.getStdin
  let stdout ← IO.getStdout
  loop stdin stdout {}
