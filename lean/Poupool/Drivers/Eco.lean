/-
  Line-protocol driver for Model/Eco.lean (C10 / C11 correspondence).  One op per line on stdin, one or more
  answer lines on stdout; all numbers are decimal integers (µs, seconds, numerators / denominators).

  EcoMode ops (one current instance):
    new NOW | daily US | period N | reset_hour NOW H | tank NUM DEN | update NOW FNUM FDEN | compute NOW
    restore S | fduration S | clear | setcur US
      -> "E dur last delay cdur clast cdelay nextReset period tnum tden pd on off tank lastSave assertOk elOn elOff"
         (`last` = -1 for None) ; update additionally appends " | reset persisted next remaining" (persisted -1 = none)
  Loop ops:
    loop DAILYS PERIOD TNUM TDEN RESETH START ELAPSEDS EPS
    tickat T T1 T2      absolute times of the timer handler and of the (up to two) self-sent messages after it (0 = none)
    heatat T | heatendat T
    quiet 0|1           1: plain polls (no transition, nothing persisted, no reset) are not printed
      -> "R t what pump dur persisted reset" per handler, then "S phase now due pump onToday dur j0 ndays"
    days  -> "D on full plain dur u lb ub cyc n j" one line per finished day (oldest first; the ghost bounds of C10_quota_whole_day_partial), then "D onToday open"
  C11 ops:
    disp T1 T2 ...      topics fd|ht|wc|ds delivered to a fresh dispatcher -> "A 0/1 ..." handler called?
    counter Q ev ...    ev = a<d> | k | r   -> "C total retained pubs(oldest first)..."
-/
import Poupool.Model.Eco
open Poupool.Eco

def optI : Option Int → Int
  | some v => v
  | none => -1

def b2s (b : Bool) : String := if b then "1" else "0"

def showEco (e : EcoMode) : String :=
  s!"E {e.filtration.duration} {optI e.filtration.last} {e.filtration.delay} {e.current.duration} {optI e.current.last} {e.current.delay} {e.nextReset} {e.period} {e.tankNum} {e.tankDen} {e.periodDuration} {e.onD} {e.offD} {e.tankD} {e.lastSave} {b2s e.assertOk} {b2s e.elapsedOn} {b2s e.elapsedOff}"

def showRec (r : Rec) : String :=
  s!"R {r.t} {r.what} {b2s r.pumpOn} {r.duration} {optI r.persisted} {b2s r.reset}"

def plainPoll (r : Rec) : Bool := r.what.startsWith "poll_" && r.persisted.isNone && !r.reset

structure St where
  eco : EcoMode := EcoMode.init 0
  loop : Loop := default
  eps : Int := 0
  quiet : Bool := false

def showLoop (s : Loop) (j0 : Int) : String :=
  s!"S {s.phase.name} {s.now} {s.due} {b2s s.pumpOn} {s.onToday} {s.eco.filtration.duration} {j0} {s.days.length}"

def num (s : String) : Int := s.toInt!

def emitRecs (st : St) (rs : List Rec) : IO Unit := do
  let single := rs.length == 1
  for r in rs do
    if !(st.quiet && single && plainPoll r) then IO.println (showRec r)

def parseCEv (s : String) : CEv :=
  if s == "k" then .kill else if s == "r" then .restore else .add (num (s.drop 1).toString)

def parseTopic (s : String) : Topic :=
  if s == "fd" then .filtrationDuration else if s == "ht" then .heatingTotal else if s == "wc" then .waterCounter else .dailySetting

def handle (st : St) (line : String) : IO St := do
  let w := (line.splitOn " ").filter (· ≠ "")
  match w with
  | ["new", n] => let e := EcoMode.init (num n); IO.println (showEco e); pure { st with eco := e }
  | ["daily", d] => let e := st.eco.setDaily (num d); IO.println (showEco e); pure { st with eco := e }
  | ["period", p] => let e := st.eco.setPeriod (num p); IO.println (showEco e); pure { st with eco := e }
  | ["reset_hour", n, h] => let e := st.eco.setResetHour (num n) (num h); IO.println (showEco e); pure { st with eco := e }
  | ["tank", a, b] => let e := st.eco.setTank (num a) (num b); IO.println (showEco e); pure { st with eco := e }
  | ["update", n, a, b] =>
    let (e, o) := st.eco.update (num n) (num a) (num b)
    IO.println (showEco e ++ s!" | {b2s o.reset} {optI o.persisted} {o.next} {o.remaining}")
    pure { st with eco := e }
  | ["compute", n] => let e := st.eco.compute (num n); IO.println (showEco e); pure { st with eco := e }
  | ["restore", v] => let e := st.eco.restore (num v); IO.println (showEco e); pure { st with eco := e }
  | ["fduration", v] => let e := st.eco.fltDuration (num v); IO.println (showEco e); pure { st with eco := e }
  | ["clear"] => let e := st.eco.clear; IO.println (showEco e); pure { st with eco := e }
  | ["setcur", v] => let e := st.eco.setCurrent (num v); IO.println (showEco e); pure { st with eco := e }
  | ["loop", d, p, tn, td, rh, s0, el, eps] =>
    let prm : Params := { dailyS := num d, period := num p, tankNum := num tn, tankDen := num td, resetHour := num rh, start := num s0, elapsedS := num el }
    let (l, r) := Loop.start (num eps) prm
    IO.println (showRec r)
    IO.println (showLoop l 0)
    pure { st with loop := l, eps := num eps }
  | ["quiet", q] => pure { st with quiet := q == "1" }
  | ["tickat", t, t1, t2] =>
    let l := st.loop
    let t := num t; let t1 := num t1; let t2 := num t2
    let j0 := t - max l.now l.due
    let j1 := if t1 == 0 then 0 else t1 - t
    let j2 := if t2 == 0 then 0 else t2 - t1
    let (l', rs) := ecoStep st.eps l (.tick j0 j1 j2)
    emitRecs st rs
    IO.println (showLoop l' j0)
    pure { st with loop := l' }
  | ["heatat", t] =>
    let l := st.loop
    let (l', rs) := ecoStep st.eps l (.heat (num t - l.now))
    emitRecs st rs
    IO.println (showLoop l' 0)
    pure { st with loop := l' }
  | ["heatendat", t] =>
    let l := st.loop
    let (l', rs) := ecoStep st.eps l (.heatEnd (num t - l.now))
    emitRecs st rs
    IO.println (showLoop l' 0)
    pure { st with loop := l' }
  | ["days"] =>
    for r in st.loop.days.reverse do IO.println s!"D {r.on} {b2s r.full} {b2s r.plain} {r.dur} {r.u} {r.lb} {r.ub} {r.cyc} {r.n} {r.j}"
    IO.println s!"D {st.loop.onToday} open"
    pure st
  | "disp" :: ts =>
    let mut d : Disp := { deleted := [] }
    let mut out := "A"
    for t in ts do
      let (a, d') := d.dispatch (parseTopic t)
      d := d'
      out := out ++ " " ++ b2s a
    IO.println out
    pure st
  | "counter" :: q :: evs =>
    let c : Counter := { q := num q, total := 0, retained := none, pubs := [] }
    let c := c.run (evs.map parseCEv)
    IO.println (s!"C {c.total} {optI c.retained}" ++ String.join (c.pubs.reverse.map (fun v => s!" {v}")))
    pure st
  | [] => pure st
  | _ => IO.println s!"? {line}"; pure st

partial def loopIO (st : St) : IO Unit := do
  let stdin ← IO.getStdin
  let line ← stdin.getLine
  if line.isEmpty then return
  let st ← handle st (line.trimAsciiEnd).toString
  loopIO st

def main : IO Unit := loopIO {}
