import Poupool.Model.Cover
open Poupool.Cover
def showAct : Act → String
  | .poll => "poll" | .doneAfter2s => "done2" | .doneNow => "done0"
def step (line : String) : String :=
  match (line.splitOn " ").filter (· ≠ "") with
  | ["open", p] => match p.toInt? with | some p => s!"{showAct (openingPoll p)} {decade p}" | none => "bad-op"
  | ["close", p, e] => match p.toInt?, e.toInt? with | some p, some e => s!"{showAct (closingPoll p e)} {decade p}" | _, _ => "bad-op"
  | _ => "bad-op"
partial def loop (h : IO.FS.Stream) : IO Unit := do
  let line ← h.getLine
  if line.isEmpty then return ()
  IO.println (step line.trimAscii.toString)
  loop h
def main : IO Unit := do loop (← IO.getStdin)
