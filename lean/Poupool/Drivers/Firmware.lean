/-
Line-protocol driver of the firmware model: consumes the same event lines as /verif/firmware/build/cover_host and
prints the same canonical lines.   lake env lean --run Poupool/Drivers/Firmware.lean < events
Extra line (not understood by the host binary; the check plays it with the REAL ArduinoDevice.__send against the host
binary):   X <cmd>   the Python driver sends <cmd> -> `X <cmd> res=<reply|None> val=<int|None|-> <state>`
-/
import Poupool.Model.Firmware
open Poupool.Firmware

def hexDigit (n : Nat) : Char := if n < 10 then Char.ofNat (48 + n) else Char.ofNat (87 + n)

def escByte (c : Nat) : String :=
  if 32 ≤ c ∧ c ≤ 126 ∧ c ≠ 92 then String.singleton (Char.ofNat c)
  else "\\x" ++ String.singleton (hexDigit (c / 16)) ++ String.singleton (hexDigit (c % 16))

def esc (l : List Nat) : String := String.join (l.map escByte)

def dirS : Dir → String
  | .opn => "O" | .cls => "C" | .stop => "S"
def limS : Lim → String
  | .opn => "O" | .cls => "C" | .none => "N"
def b01 (b : Bool) : String := if b then "1" else "0"

def stateLine (s : St) : String :=
  s!"po={b01 s.pinOpen} pc={b01 s.pinClose} d={dirS s.dir} r={dirS s.run} p={s.pos} c={s.close} o={s.opn} " ++
  s!"sl={limS s.lim} pd={dirS s.prevDir} pp={s.prevPos} pt={s.prevTime} ds={s.doStop} bi={s.idx} w={s.water} " ++
  s!"t={s.clk} ee={s.eePos},{s.eeClose},{s.eeOpen} pct={pct s} out={esc s.out}"

def parseBtn (pin kind : String) : Option Btn :=
  match pin, kind with
  | "6", "p" => some .openPressed
  | "7", "p" => some .closePressed
  | "6", "r" => some .released
  | "7", "r" => some .released
  | "8", "d" => some .saveOpenPressed
  | "9", "d" => some .saveClosePressed
  | "8", "r" => some .saveReleased
  | "9", "r" => some .saveReleased
  | _, _ => none

def parseEv (ws : List String) : Option Ev :=
  match ws with
  | ["B", n] => n.toNat?.map Ev.byte
  | ["L", n] => n.toNat?.map Ev.tick
  | ["T", n] => n.toNat?.map Ev.adv
  | ["P"] => some .pulse
  | ["W"] => some .wpulse
  | ["D", n] => n.toNat?.map Ev.delayPulses
  | ["K", p, k] => (parseBtn p k).map Ev.btn
  | ["Q"] => some .query
  | _ => none

structure D where
  st : St
  started : Bool
  nstream : Nat
  pending : List (List Nat)   -- unread driver-side text, newest chunk first

def flatPending (d : D) : List Nat := d.pending.reverse.flatten

partial def loop (h : IO.FS.Stream) (out : IO.FS.Stream) (d : D) : IO Unit := do
  let raw ← h.getLine
  if raw.isEmpty then return
  let line := raw.trimAsciiEnd.toString
  if line.isEmpty then
    loop h out d
  else
  let ws := line.splitOn " "
  match ws with
  | ["R"] =>
    out.putStrLn s!"# R {d.nstream}"
    loop h out { st := init (-1) (-1) (-1), started := false, nstream := d.nstream + 1, pending := [] }
  | ["E", p, c, o] =>
    match d.started, p.toInt?, c.toInt?, o.toInt? with
    | false, some p, some c, some o =>
      let s := init (wrap32 p) (wrap32 c) (wrap32 o)
      out.putStrLn s!"{line} {stateLine s}"
      loop h out { d with st := s, started := true }
    | _, _, _, _ =>
      out.putStrLn s!"BAD EVENT {line}"
      loop h out d
  | ["X", cmd] =>
    let bytes := cmd.toList.map Char.toNat
    let r := driverSend d.st (flatPending d) bytes
    let res := match r.2.1 with
      | none => "None"
      | some l => esc l
    let val :=
      if cmd = "position" ∨ cmd = "water" then
        (match pyValue bytes r.2.1 with
         | none => "None"
         | some v => toString v)
      else "-"
    out.putStrLn s!"{line} res={res} val={val} {stateLine r.1}"
    loop h out { d with st := r.1, started := true, pending := [r.2.2] }
  | _ =>
    match parseEv ws with
    | none =>
      out.putStrLn s!"BAD EVENT {line}"
      loop h out d
    | some e =>
      let s := step d.st e
      out.putStrLn s!"{line} {stateLine s}"
      loop h out { d with st := { s with out := [] }, started := true, pending := pyNewlines s.out :: d.pending }

def main : IO Unit := do
  let h ← IO.getStdin
  let out ← IO.getStdout
  loop h out { st := init (-1) (-1) (-1), started := false, nstream := 0, pending := [] }
