import Poupool.Model.Heating
open Poupool.Heating

def optInt (s : String) : Option (Option Int) := if s == "none" then some none else (s.toInt?).map some
def b (s : String) : Bool := s == "1"

def step (line : String) : String :=
  match (line.splitOn " ").filter (· ≠ "") with
  | ["wait", hd, hu, hm, en, ns, sh, sp, mt, now, pool, air, ready, allow] =>
      match hd.toInt?, hu.toInt?, hm.toInt?, ns.toInt?, sh.toInt?, sp.toInt?, mt.toInt?, now.toInt?, optInt pool, optInt air with
      | some hd, some hu, some hm, some ns, some sh, some sp, some mt, some now, some pool, some air =>
          let c : Cfg := { hystDown := hd, hystUp := hu, hystMin := hm }
          let s : St := { enable := b en, nextStart := ns, startHour := sh, setpoint := sp, minTemp := mt }
          let (a, s') := waitingPoll c s now pool air (b ready) (b allow)
          let an := match a with | .rearm => "rearm" | .skipToday => "skip" | .heat => "heat"
          s!"{an} {s'.nextStart}"
      | _, _, _, _, _, _, _, _, _, _ => "bad-op"
  | ["heat", hd, hu, hm, en, sp, mt, pool, air] =>
      match hd.toInt?, hu.toInt?, hm.toInt?, sp.toInt?, mt.toInt?, optInt pool, optInt air with
      | some hd, some hu, some hm, some sp, some mt, some pool, some air =>
          let c : Cfg := { hystDown := hd, hystUp := hu, hystMin := hm }
          let s : St := { enable := b en, nextStart := 0, startHour := 0, setpoint := sp, minTemp := mt }
          match heatingPoll c s pool air with | .rearm => "rearm" | .stop => "stop"
      | _, _, _, _, _, _, _ => "bad-op"
  | ["exit", sh, now] =>
      match sh.toInt?, now.toInt? with
      | some sh, some now => s!"{nextDayStart now sh}"
      | _, _ => "bad-op"
  | ["setpoint", ns, now] =>
      match ns.toInt?, now.toInt? with
      | some ns, some now =>
          let s : St := { enable := true, nextStart := ns, startHour := 0, setpoint := 0, minTemp := 0 }
          s!"{(setSetpoint s now 1).nextStart}"
      | _, _ => "bad-op"
  | ["starthour", h, now] =>
      match h.toInt?, now.toInt? with
      | some h, some now =>
          let s : St := { enable := true, nextStart := 0, startHour := 0, setpoint := 0, minTemp := 0 }
          s!"{(setStartHour s now h).nextStart}"
      | _, _ => "bad-op"
  | _ => "bad-op"

partial def loop (h : IO.FS.Stream) : IO Unit := do
  let line ← h.getLine
  if line.isEmpty then return ()
  IO.println (step line.trimAscii.toString)
  loop h

def main : IO Unit := do loop (← IO.getStdin)
