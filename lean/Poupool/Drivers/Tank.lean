import Poupool.Model.Tank
open Poupool.Tank

def showAct : Act → String
  | .rearm n => s!"rearm {n}"
  | .toLow => "low"
  | .toNormal => "normal"
  | .toHigh => "high"
  | .emergency => "emergency"

def step (line : String) : String :=
  match (line.splitOn " ").filter (· ≠ "") with
  | [op, h, tis, tooLow, low, high, hyst] =>
      match h.toInt?, tis.toInt?, tooLow.toInt?, low.toInt?, high.toInt?, hyst.toInt? with
      | some h, some tis, some tl, some lo, some hi, some hy =>
          let c : Cfg := { hyst := hy, tooLow := tl, low := lo, high := hi }
          match op with
          | "fill" => showAct (pollFill c h tis)
          | "low" => showAct (pollLow c h tis)
          | "normal" => showAct (pollNormal c h)
          | "high" => showAct (pollHigh c h)
          | "enterfill" => let r := enterFill c h; s!"{r.1} {r.2}"
          | _ => "bad-op"
      | _, _, _, _, _, _ => "bad-op"
  | _ => "bad-op"

partial def loop (h : IO.FS.Stream) : IO Unit := do
  let line ← h.getLine
  if line.isEmpty then return ()
  IO.println (step line.trimAscii.toString)
  loop h

def main : IO Unit := do loop (← IO.getStdin)
