/-
Model of `controller/dispatcher.py` (property C14, and C15(c)).

Python's `bytes.decode("utf-8")`, `float()`, `str.lower()` are ABSTRACT parameters of `dispatch`
(`decode`, `parse`, `lower`): no theorem depends on Python's number grammar or Unicode tables.
`PyNum` is what `float()` can return: a finite rational (every IEEE double is one), +inf, -inf, nan.
`parse s = none` models `float(s)` raising.  An exception anywhere inside the `try:` of
`Dispatcher.dispatch` means: nothing is told and the mapping is unchanged (the `del` of a once-entry comes after
`defer`).  Import-free, executable (used by Drivers/Dispatch.lean).
-/
namespace Poupool.Dispatch

/-- exact rational `num/den`, `den > 0` -/
structure Q where
  num : Int
  den : Nat
  pos : 0 < den
deriving DecidableEq

/-- constructor used by the generated tables -/
def q (n : Int) (d : Nat) (h : 0 < d := by decide) : Q := ⟨n, d, h⟩

def Q.ofInt (k : Int) : Q := ⟨k, 1, Nat.one_pos⟩

/-- `a ≤ b` by cross-multiplication (denominators are positive) -/
def Q.le (a b : Q) : Prop := a.num * (b.den : Int) ≤ b.num * (a.den : Int)
instance : LE Q := ⟨Q.le⟩
instance (a b : Q) : Decidable (a ≤ b) := inferInstanceAs (Decidable (a.num * (b.den : Int) ≤ b.num * (a.den : Int)))

def Q.isInt (a : Q) : Bool := a.den == 1

/-- Python `int(x)` of a finite float: truncation toward zero -/
def Q.trunc (a : Q) : Int := a.num.tdiv a.den

inductive PyNum where
  | fin (v : Q)
  | pinf
  | ninf
  | nan
deriving DecidableEq

/-- Python `lo <= x` for a finite `lo` -/
def PyNum.geQ (x : PyNum) (lo : Q) : Bool :=
  match x with
  | .fin v => decide (lo ≤ v)
  | .pinf => true
  | .ninf => false
  | .nan => false

/-- Python `x <= hi` for a finite `hi` -/
def PyNum.leQ (x : PyNum) (hi : Q) : Bool :=
  match x with
  | .fin v => decide (v ≤ hi)
  | .pinf => false
  | .ninf => true
  | .nan => false

inductive Pred where
  | between (lo hi : Q)
  | greaterEqual (lo : Q)
  | inSet (s : List String) (caseInsensitive : Bool)
  | always
deriving DecidableEq

inductive MethodSel where
  | const (name : String)
  | identity
deriving DecidableEq

inductive Conv where
  | toInt | toFloat | toBool | toString | none
deriving DecidableEq

inductive Val where
  | int (k : Int)
  | float (x : PyNum)
  | bool (b : Bool)
  | str (s : String)
  | none
deriving DecidableEq

structure Entry where
  topic : String
  target : String
  pred : Pred
  method : MethodSel
  conv : Conv
  once : Bool
deriving DecidableEq

structure Tell where
  target : String
  method : String
  arg : Val
deriving DecidableEq

/-- the part of the dispatcher's state that changes: once-topics already consumed (`del self.__mapping[topic]`) -/
structure State where
  removed : List String := []
deriving DecidableEq

/-- `predicate(data)`: `none` = raised -/
def evalPred (parse : String → Option PyNum) (lower : String → String) (p : Pred) (data : String) : Option Bool :=
  match p with
  | .between lo hi => (parse data).map fun x => x.geQ lo && x.leQ hi
  | .greaterEqual lo => (parse data).map fun x => x.geQ lo
  | .inSet s ci => some (s.contains (if ci then lower data else data))
  | .always => some true

/-- `value(data)`: `none` = raised (`int(float("inf"))` OverflowError, `int(float("nan"))` ValueError, bad literal) -/
def evalConv (boolTrue : List String) (parse : String → Option PyNum) (lower : String → String) (c : Conv)
    (data : String) : Option Val :=
  match c with
  | .toInt =>
    match parse data with
    | some (.fin v) => some (.int v.trunc)
    | _ => Option.none
  | .toFloat => (parse data).map Val.float
  | .toBool => some (.bool (boolTrue.contains (lower data)))
  | .toString => some (.str data)
  | .none => some Val.none

def methodName (m : MethodSel) (data : String) : String :=
  match m with
  | .const n => n
  | .identity => data

def lookup (table : List Entry) (s : State) (topic : String) : Option Entry :=
  if s.removed.contains topic then none else table.find? (fun e => e.topic == topic)

/-- `Dispatcher.dispatch(topic, payload)`: new state and what is told (`func.defer(param)`), if anything. -/
def dispatch (table : List Entry) (boolTrue : List String)
    (parse : String → Option PyNum) (lower : String → String) (decode : ByteArray → Option String)
    (s : State) (topic : String) (payload : ByteArray) : State × Option Tell :=
  match lookup table s topic with
  | none => (s, none)
  | some e =>
    match decode payload with
    | none => (s, none)
    | some data =>
      match evalPred parse lower e.pred data with
      | some true =>
        match evalConv boolTrue parse lower e.conv data with
        | none => (s, none)
        | some v =>
          (if e.once then { removed := topic :: s.removed } else s,
           some { target := e.target, method := methodName e.method data, arg := v })
      | _ => (s, none)

/-- a sequence of deliveries; result: the tells, each with the topic that caused it -/
def run (table : List Entry) (boolTrue : List String)
    (parse : String → Option PyNum) (lower : String → String) (decode : ByteArray → Option String) :
    State → List (String × ByteArray) → List (String × Tell)
  | _, [] => []
  | s, (t, p) :: rest =>
    let r := dispatch table boolTrue parse lower decode s t p
    (match r.2 with
     | some tl => [(t, tl)]
     | none => []) ++ run table boolTrue parse lower decode r.1 rest

/-! ### what a told value must satisfy, per (predicate, converter) combination -/

/-- The claim of C14(2) on the value, for the combinations that occur; any other combination is `False`
(so a new kind of entry forces a review). -/
def ValueOk (e : Entry) (v : Val) : Prop :=
  match e.pred, e.conv with
  | .between lo hi, .toInt => ∃ k, v = .int k ∧ lo ≤ Q.ofInt k ∧ Q.ofInt k ≤ hi
  | .between lo hi, .toFloat => ∃ x, v = .float (.fin x) ∧ lo ≤ x ∧ x ≤ hi
  | .greaterEqual lo, .toInt => ∃ k, v = .int k ∧ lo ≤ Q.ofInt k
  | .inSet _ _, .toBool => ∃ b, v = .bool b
  | .inSet _ false, .none => v = .none
  | .always, .toString => ∃ s, v = .str s
  | _, _ => False

/-- only the setter / trigger of the topic: the constant name, or (mode topics) one of the whitelisted strings -/
def MethodOk (e : Entry) (m : String) : Prop :=
  match e.method with
  | .const n => m = n
  | .identity => ∃ s, e.pred = .inSet s false ∧ m ∈ s

/-- well-formedness of an entry, decidable on the table: integer bounds where the value is truncated, mode topics
are exact-match whitelists without converter, switches are const-method case-insensitive whitelists. -/
def Entry.wf (e : Entry) : Bool :=
  match e.pred, e.conv, e.method with
  | .between lo hi, .toInt, .const _ => lo.isInt && hi.isInt
  | .between _ _, .toFloat, .const _ => true
  | .greaterEqual lo, .toInt, .const _ => lo.isInt
  | .inSet _ _, .toBool, .const _ => true
  | .inSet _ false, .none, .identity => true
  | .always, .toString, .const _ => true
  | _, _, _ => false

/-! ### table queries used by the table-fact theorems -/

def entryOf (table : List Entry) (topic : String) : Option Entry := table.find? (fun e => e.topic == topic)

/-- integer range of a `between`+`to_int` topic -/
def intRange (table : List Entry) (topic : String) : Option (Int × Int) :=
  match entryOf table topic with
  | some e =>
    match e.pred, e.conv with
    | .between lo hi, .toInt => if lo.isInt && hi.isInt then some (lo.num, hi.num) else none
    | _, _ => none
  | none => none

/-- rational range (num, den, num, den) of a `between`+`to_float` topic -/
def floatRange (table : List Entry) (topic : String) : Option (Q × Q) :=
  match entryOf table topic with
  | some e =>
    match e.pred, e.conv with
    | .between lo hi, .toFloat => some (lo, hi)
    | _, _ => none
  | none => none

def onceTopics (table : List Entry) : List String := (table.filter (·.once)).map (·.topic)

def isNumeric (e : Entry) : Bool := e.conv == .toInt || e.conv == .toFloat

def hasFiniteUpper (e : Entry) : Bool :=
  match e.pred with
  | .between _ _ => true
  | _ => false

/-! ### arithmetic of the setters that can raise (C14(5)) -/

inductive TdUnit where
  | seconds | minutes | hours | days
deriving DecidableEq

inductive Prim where
  | td (u : TdUnit)            -- timedelta(<unit>=value)
  | hourReplace                -- datetime.replace(hour=value)
  | strptimeGuarded            -- strptime(value, ..) inside try/except ValueError
  | strptimeUnguarded
  | assertPeriodDuration       -- EcoMode: assert self.period_duration > timedelta()
  | divByPeriod                -- EcoMode: self.filtration.delay / self.period
  | unknown (what : String)    -- anything the scan does not know: never considered safe
deriving DecidableEq

def TdUnit.seconds_per : TdUnit → Int
  | .seconds => 1
  | .minutes => 60
  | .hours => 3600
  | .days => 86400

/-- `timedelta(<unit>=k)` for an int `k` raises OverflowError iff the normalised day count leaves ±999999999 -/
def tdOk (u : TdUnit) (k : Int) : Prop :=
  -999999999 ≤ (k * u.seconds_per) / 86400 ∧ (k * u.seconds_per) / 86400 ≤ 999999999

instance (u : TdUnit) (k : Int) : Decidable (tdOk u k) := inferInstanceAs (Decidable (_ ∧ _))

/-- `timedelta / int` : round-half-even of the microsecond count (CPython `_divide_and_round`), `b > 0` -/
def divRoundHalfEven (a : Int) (b : Int) : Int :=
  let qf := a / b
  let r := a % b
  if 2 * r > b then qf + 1
  else if 2 * r < b then qf
  else if qf % 2 == 0 then qf else qf + 1

/-- when is the primitive safe on an int value `k` (strings: only the guarded strptime is) -/
def primSafeInt (p : Prim) (k : Int) : Prop :=
  match p with
  | .td u => tdOk u k
  | .hourReplace => 0 ≤ k ∧ k ≤ 23
  | .divByPeriod => k ≠ 0
  | _ => False

/-- decidable sufficient check on a range `[lo, hi]` -/
def guardOkInt (p : Prim) (lo hi : Int) : Bool :=
  match p with
  | .td u => decide (tdOk u lo) && decide (tdOk u hi)
  | .hourReplace => decide (0 ≤ lo) && decide (hi ≤ 23)
  | .divByPeriod => decide (0 < lo)
  | _ => false

/-- the check of one primitive against one table entry that can call the setter -/
def guardOkEntry (table : List Entry) (p : Prim) (e : Entry) : Bool :=
  match p with
  | .strptimeGuarded => true
  | .assertPeriodDuration =>
    -- both operands of `daily / period` come from the table: daily ≥ 1 s, 1 ≤ period ≤ daily in µs
    match intRange table "/settings/filtration/duration", intRange table "/settings/filtration/period" with
    | some (dlo, _), some (plo, phi) => decide (0 < plo) && decide (phi ≤ dlo * 1000000)
    | _, _ => false
  | p =>
    match e.pred, e.conv with
    | .between lo hi, .toInt => lo.isInt && hi.isInt && guardOkInt p lo.num hi.num
    | _, _ => false

def callers (table : List Entry) (target method : String) : List Entry :=
  table.filter (fun e => e.target == target && e.method == .const method)

/-- the check run on every (target, method, prim) of the scan: some entry calls the setter and every entry that
does passes -/
def guardOk (table : List Entry) (tmp : String × String × Prim) : Bool :=
  !(callers table tmp.1 tmp.2.1).isEmpty && (callers table tmp.1 tmp.2.1).all (guardOkEntry table tmp.2.2)

/-- primitives for which `guardOkEntry` yields an arithmetic guarantee on the int value -/
def Prim.isIntGuard : Prim → Bool
  | .td _ => true
  | .hourReplace => true
  | .divByPeriod => true
  | _ => false

end Poupool.Dispatch
