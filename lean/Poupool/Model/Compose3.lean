import Poupool.Model.Compose
/-!
  Composition of THREE generated actor models in a chain  A → B → C  (A = top master, B = slave of A and master
  of C, C = bottom slave), in ONE execution.

  `Model/Compose.lean` composes one generated master with one generated slave and treats everybody else as an
  adversarial third party.  A chain property ("A halted ∧ everything served ⇒ C halted") needs both links in the
  same run.  The triple is built from two pair specifications `SAB` (DM = A, DX = B) and `SBC` (DM = B, DX = C) that
  agree on B (`TSpec.agree : SAB.DX = SBC.DM`).  State: the three actor states, B's FIFO inbox (entries tagged "from
  A?"), C's FIFO inbox (entries tagged "from B?"), the effects of A's current handler not yet performed (`todoA`)
  and those of B's current handler (`todoB`).

  Steps (`TStep`):
  * `aBegin`   A takes any message of its alphabet when `todoA = []`: one outcome of `stepE` of A, its effects
               become `todoA` (= `CStep.mBegin` of `SAB`);
  * `aTell` / `aEmit` / `aAsk`   A's next effect, replayed against B's inbox exactly as `CStep.mTell/mEmit/mAsk` of
               `SAB` (an answer that makes A's ghost variable a "known halted" value needs B's inbox free of A's
               messages and B halted);
  * `otherB`   a third party (dispatcher, B's own timers / self-tells, other actors) queues any message of B's
               alphabet for B;
  * `bServe`   B serves the head of its inbox, only when `todoB = []` (B is a single-threaded actor: it starts the
               next handler after the previous one has performed all its effects).  The outcome is one outcome of
               `stepE` of B: the new state of B, and the effects of the handler, which become `todoB`.  This one
               step is BOTH `CStep.deliver` of `SAB` (by `stepE_proj` the state component of a `stepE` outcome is a
               `step` outcome) and `CStep.mBegin` of `SBC`.  A start message of B that does not come from A is
               guarded by B's question to A, answered between two handlers of A (`todoA = []`): refused (B
               unchanged, no effect) unless A's phase is in `SAB.allowed`;
  * `bTell` / `bEmit` / `bAsk`   B's next effect, replayed against C's inbox exactly as in `SBC`;
  * `otherC`   a third party queues any message of C's alphabet for C;
  * `cServe`   C serves the head of its inbox with `step` of C; a start message that does not come from B is
               guarded by C's question to B, answered between two handlers of B (`todoB = []`): refused unless B's
               phase is in `SBC.allowed` (= `CStep.deliver` of `SBC`).

  The projections onto the two pair systems are proved in `Proofs/Compose3.lean`.
  Import-free (apart from `Model/Compose.lean`) and executable (`run3`).
-/
namespace Poupool.Compose3
open Poupool Poupool.Compose

/-- two pair specifications sharing the middle actor -/
structure TSpec where
  SAB : CSpec                     -- A (master) / B (slave)
  SBC : CSpec                     -- B (master) / C (slave)
  agree : SAB.DX = SBC.DM         -- the same generated description of B in both

abbrev TSpec.DA (S : TSpec) : ActorDesc := S.SAB.DM
abbrev TSpec.DB (S : TSpec) : ActorDesc := S.SBC.DM
abbrev TSpec.DC (S : TSpec) : ActorDesc := S.SBC.DX

structure TSt where
  a : St                          -- top master (state after its current / last handler)
  b : St                          -- middle actor (state after its current / last handler)
  c : St                          -- bottom slave
  inboxB : List (Bool × Msg)      -- B's inbox: (from A?, message); the head is served next
  inboxC : List (Bool × Msg)      -- C's inbox: (from B?, message)
  todoA : List Eff                -- effects of A's current handler not yet performed ([] = between handlers)
  todoB : List Eff                -- effects of B's current handler not yet performed
  deriving Repr

/-- what the pair system `SAB` sees of a triple state -/
def projAB (g : TSt) : CSt := { m := g.a, x := g.b, inbox := g.inboxB, todo := g.todoA }

/-- what the pair system `SBC` sees of a triple state -/
def projBC (g : TSt) : CSt := { m := g.b, x := g.c, inbox := g.inboxC, todo := g.todoB }

inductive TStep (S : TSpec) : TSt → TSt → Prop
  /-- A takes the next message of ITS alphabet: one outcome of the generated handler with its effects -/
  | aBegin (g : TSt) (msg : Msg) (a' : St) (effs : List Eff) (hidle : g.todoA = [])
      (hmsg : msg ∈ allMsgs S.DA) (h : (a', effs) ∈ stepE S.DA g.a msg) :
      TStep S g { g with a := a', todoA := effs }
  /-- A's next effect: a tell to B -/
  | aTell (g : TSt) (t : Nat) (rest : List Eff) (msg : Msg) (h : g.todoA = .emit t :: rest)
      (ht : S.SAB.tells.lookup t = some msg) :
      TStep S g { g with inboxB := g.inboxB ++ [(true, msg)], todoA := rest }
  /-- A's next effect: any other emitted tag -/
  | aEmit (g : TSt) (t : Nat) (rest : List Eff) (h : g.todoA = .emit t :: rest)
      (ht : S.SAB.tells.lookup t = none) :
      TStep S g { g with todoA := rest }
  /-- A's next effect: a question, answered `ans`; an answer that is an observation "B halted" needs B's inbox
      free of A's messages and B halted (B's state is the one after its current / last handler) -/
  | aAsk (g : TSt) (ans : Bool) (t f : List (VarId × Int)) (rest : List Eff) (h : g.todoA = .ask ans t f :: rest)
      (hq : askHalting S.SAB (if ans then t else f) = true → noMaster g.inboxB ∧ S.SAB.isHalt g.b = true) :
      TStep S g { g with todoA := rest }
  /-- anybody else queues a message for B -/
  | otherB (g : TSt) (m : Msg) (hm : m ∈ allMsgs S.DB) :
      TStep S g { g with inboxB := g.inboxB ++ [(false, m)] }
  /-- B, between two handlers, serves the head of its inbox with `stepE` of ITS generated description: new state
      and the effects of the handler (towards C).  A foreign start message is guarded by a question to A, answered
      between two handlers of A: refused (nothing happens) unless A's phase is allowed. -/
  | bServe (g : TSt) (e : Bool × Msg) (rest : List (Bool × Msg)) (b' : St) (effs : List Eff)
      (h : g.inboxB = e :: rest) (hidle : g.todoB = []) (hm : e.2 ∈ allMsgs S.DB)
      (hs : if e.1 = false ∧ S.SAB.isStart e.2 = true then
              g.todoA = [] ∧
                (if S.SAB.allowed.contains g.a.leaf then (b', effs) ∈ stepE S.DB g.b e.2 else b' = g.b ∧ effs = [])
            else (b', effs) ∈ stepE S.DB g.b e.2) :
      TStep S g { g with b := b', inboxB := rest, todoB := effs }
  /-- B's next effect: a tell to C -/
  | bTell (g : TSt) (t : Nat) (rest : List Eff) (msg : Msg) (h : g.todoB = .emit t :: rest)
      (ht : S.SBC.tells.lookup t = some msg) :
      TStep S g { g with inboxC := g.inboxC ++ [(true, msg)], todoB := rest }
  /-- B's next effect: any other emitted tag -/
  | bEmit (g : TSt) (t : Nat) (rest : List Eff) (h : g.todoB = .emit t :: rest)
      (ht : S.SBC.tells.lookup t = none) :
      TStep S g { g with todoB := rest }
  /-- B's next effect: a question, answered `ans`; an observation "C halted" needs C's inbox free of B's
      messages and C halted -/
  | bAsk (g : TSt) (ans : Bool) (t f : List (VarId × Int)) (rest : List Eff) (h : g.todoB = .ask ans t f :: rest)
      (hq : askHalting S.SBC (if ans then t else f) = true → noMaster g.inboxC ∧ S.SBC.isHalt g.c = true) :
      TStep S g { g with todoB := rest }
  /-- anybody else queues a message for C -/
  | otherC (g : TSt) (m : Msg) (hm : m ∈ allMsgs S.DC) :
      TStep S g { g with inboxC := g.inboxC ++ [(false, m)] }
  /-- C serves the head of its inbox with ITS generated `step`; a foreign start message is guarded by a question
      to B, answered between two handlers of B: refused unless B's phase is allowed -/
  | cServe (g : TSt) (e : Bool × Msg) (rest : List (Bool × Msg)) (c' : St)
      (h : g.inboxC = e :: rest) (hm : e.2 ∈ allMsgs S.DC)
      (hs : if e.1 = false ∧ S.SBC.isStart e.2 = true then
              g.todoB = [] ∧ (if S.SBC.allowed.contains g.b.leaf then c' ∈ step S.DC g.c e.2 else c' = g.c)
            else c' ∈ step S.DC g.c e.2) :
      TStep S g { g with c := c', inboxC := rest }

def tinit (S : TSpec) : TSt :=
  { a := initSt S.DA, b := initSt S.DB, c := initSt S.DC, inboxB := [], inboxC := [], todoA := [], todoB := [] }

inductive TReach (S : TSpec) : TSt → Prop
  | init : TReach S (tinit S)
  | step {g g' : TSt} : TReach S g → TStep S g g' → TReach S g'

/-! ## an executable scheduler (used to exhibit concrete runs of the chain)

  Everything that is a step of one of the two pair systems is executed by the pair scheduler `Compose.act` on the
  projection and written back (`liftAB` / `liftBC`); only B's service is new. -/

/-- write the `SAB` view back into a triple state -/
def liftAB (g : TSt) (p : CSt) : TSt := { g with a := p.m, b := p.x, inboxB := p.inbox, todoA := p.todo }

/-- write the `SBC` view back into a triple state -/
def liftBC (g : TSt) (p : CSt) : TSt := { g with b := p.m, c := p.x, inboxC := p.inbox, todoB := p.todo }

inductive Act3
  /-- A handles `msg`; of the possible outcomes take the first satisfying `pick` -/
  | a (msg : Msg) (pick : St × List Eff → Bool)
  /-- A performs the next effect / all the remaining effects of its handler -/
  | effA
  | drainA
  /-- a third party queues `m` for B -/
  | otherB (m : Msg)
  /-- B serves the head of its inbox; of the possible outcomes take the first satisfying `pick` -/
  | serveB (pick : St × List Eff → Bool)
  /-- B performs the next effect / all the remaining effects of its handler -/
  | effB
  | drainB
  /-- a third party queues `m` for C -/
  | otherC (m : Msg)
  /-- C serves the head of its inbox / its whole inbox (each time the first outcome satisfying `pick`) -/
  | deliverC (pick : St → Bool)
  | serveC (pick : St → Bool)

/-- B serves the head of its inbox -/
def serveB1 (S : TSpec) (pick : St × List Eff → Bool) (g : TSt) : Option TSt :=
  match g.inboxB with
  | [] => none
  | e :: rest =>
      if g.todoB.isEmpty && (allMsgs S.DB).contains e.2 then
        if !e.1 && S.SAB.isStart e.2 then
          if g.todoA.isEmpty then
            if S.SAB.allowed.contains g.a.leaf then
              ((stepE S.DB g.b e.2).find? pick).map fun (b', effs) =>
                { g with b := b', inboxB := rest, todoB := effs }
            else some { g with inboxB := rest }
          else none
        else ((stepE S.DB g.b e.2).find? pick).map fun (b', effs) =>
          { g with b := b', inboxB := rest, todoB := effs }
      else none

def act3 (S : TSpec) (g : TSt) : Act3 → Option TSt
  | .a msg pick => (act S.SAB (projAB g) (.master msg pick)).map (liftAB g)
  | .effA => (eff1 S.SAB (projAB g)).map (liftAB g)
  | .drainA => (drainN S.SAB g.todoA.length (projAB g)).map (liftAB g)
  | .otherB m => if (allMsgs S.DB).contains m then some { g with inboxB := g.inboxB ++ [(false, m)] } else none
  | .serveB pick => serveB1 S pick g
  | .effB => (eff1 S.SBC (projBC g)).map (liftBC g)
  | .drainB => (drainN S.SBC g.todoB.length (projBC g)).map (liftBC g)
  | .otherC m => if (allMsgs S.DC).contains m then some { g with inboxC := g.inboxC ++ [(false, m)] } else none
  | .deliverC pick => (deliver1 S.SBC pick (projBC g)).map (liftBC g)
  | .serveC pick => (serveN S.SBC pick g.inboxC.length (projBC g)).map (liftBC g)

def run3 (S : TSpec) : List Act3 → TSt → Option TSt
  | [], g => some g
  | a :: as, g =>
      match act3 S g a with
      | some g' => run3 S as g'
      | none => none

end Poupool.Compose3
