import Poupool.Model.Actor
/-!
  Timed semantics of one controller (C05–C08, C13, C17: "ends on time", "at least", "polled every").

  The untimed model (`Model/Actor.lean`) keeps, in `St.armed`, the delayed call that carries the current token.  Here every
  event happens at an instant; the timed state remembers WHEN that call was armed and with which delay.  Whether a handler
  armed (or cancelled) a delayed call is observed by running it from a state whose slot holds a *sentinel* message `X` that
  occurs in no program (`fresh`): the slot still holds `X` afterwards iff the handler did not touch it (`exec` never reads
  the slot).  Scheduling assumption (ε-prompt delivery, the one the property statements make): the armed call is
  delivered no earlier than `armedAt + delay` and nothing happens later than `armedAt + delay + lag` while it is armed.

  Durations: `durAt` (generated) lists, for (phase the handler ends in, armed message), the delays of all `do_delay` sites
  that can arm it there, resolved on the running code; a `.setting x` delay is whatever the environment supplies at that
  instant (`σ x`), `.unknown` is anything.
-/
namespace Poupool.Timed
open Poupool

/-- does the statement name message `x` in a `do_delay` / `@do_repeat`? -/
def usesMsg (x : MsgId) : Stmt → Bool
  | .seq a b => usesMsg x a || usesMsg x b
  | .ite _ t e => usesMsg x t || usesMsg x e
  | .choose a b => usesMsg x a || usesMsg x b
  | .forSetting _ _ b => usesMsg x b
  | .delay m => m == x
  | .doRepeat b p => usesMsg x b || p == x
  | .scope b => usesMsg x b
  | _ => false

/-- the sentinel occurs in no program of the actor -/
def fresh (D : ActorDesc) (x : MsgId) : Bool :=
  D.callbacks.all (fun p => !usesMsg x p) && D.methods.all (fun (_, p) => !usesMsg x p) && !usesMsg x (.opaque 999)

structure TCfg where
  D : ActorDesc
  X : MsgId
  durAt : List (LeafId × MsgId × List Dur)
  lag : Nat

structure TSt where
  s : St
  now : Nat          -- instant of the last event (half seconds)
  armedAt : Nat      -- instant at which the delayed call carrying the current token was armed
  armedDur : Nat     -- its delay
  touched : Bool     -- the last event armed or cancelled the delayed call
  deriving Repr, DecidableEq

def resolve (σ : String → Nat) (any : Nat) : Dur → Nat
  | .halfSeconds n => n
  | .setting x => σ x
  | .unknown _ => any

/-- the delays with which `m` can be armed by a handler that ends in phase `leaf`; `none`: no site known = anything -/
def candidates (C : TCfg) (leaf : LeafId) (m : MsgId) : Option (List Dur) :=
  (C.durAt.find? fun (l, m', _) => l == leaf && m' == m).map (·.2.2)

def allowed (C : TCfg) (σ : String → Nat) (any : Nat) (s : St) (d : Nat) : Prop :=
  match s.armed with
  | none => True
  | some m =>
      match candidates C s.leaf m with
      | none => True
      | some ds => d ∈ ds.map (resolve σ any)

instance (C : TCfg) (σ : String → Nat) (any : Nat) (s : St) (d : Nat) : Decidable (allowed C σ any s d) := by
  unfold allowed
  split
  · infer_instance
  · split <;> infer_instance

/-- put the caller's slot back where the handler left the sentinel -/
def unsent (X : MsgId) (a : Option MsgId) (s : St) : St :=
  if s.armed = some X then { s with armed := a } else s

/-- a plain message handled at `τ`; `d` = the delay of the call it arms, if it arms one -/
def tplain (C : TCfg) (ts : TSt) (m : MsgId) (τ d : Nat) : List TSt :=
  (step C.D { ts.s with armed := some C.X } (.plain m)).map fun s0 =>
    if s0.armed = some C.X then
      { s := { s0 with armed := ts.s.armed }, now := τ, armedAt := ts.armedAt, armedDur := ts.armedDur, touched := false }
    else { s := s0, now := τ, armedAt := τ, armedDur := d, touched := true }

/-- the armed delayed call is delivered at `τ` -/
def tfire (C : TCfg) (ts : TSt) (τ d : Nat) : List TSt :=
  match ts.s.armed with
  | none => []
  | some m => (step C.D ts.s (.delayed m)).map fun s' => { s := s', now := τ, armedAt := τ, armedDur := d, touched := true }

/-- an event with what the environment supplies: `σ` = the value of every duration setting as the handler reads it -/
inductive TEv
  | plain (m : MsgId) (σ : String → Nat)
  | fire (σ : String → Nat)

def TEv.settings : TEv → String → Nat
  | .plain _ σ => σ
  | .fire σ => σ

/-- one timed step -/
inductive TStep (C : TCfg) : TSt → TEv → TSt → Prop
  | plain {ts ts' : TSt} (m : MsgId) (τ d : Nat) (σ : String → Nat) (any : Nat) :
      m ∈ C.D.plainMsgs → ts.now ≤ τ →
      (ts.s.armed.isSome = true → τ ≤ ts.armedAt + ts.armedDur + C.lag) →
      ts' ∈ tplain C ts m τ d → (ts'.touched = true → allowed C σ any ts'.s d) → TStep C ts (.plain m σ) ts'
  | fire {ts ts' : TSt} (τ d : Nat) (σ : String → Nat) (any : Nat) :
      ts.now ≤ τ → ts.armedAt + ts.armedDur ≤ τ → τ ≤ ts.armedAt + ts.armedDur + C.lag →
      ts' ∈ tfire C ts τ d → allowed C σ any ts'.s d → TStep C ts (.fire σ) ts'

def tinit (C : TCfg) : TSt := { s := initSt C.D, now := 0, armedAt := 0, armedDur := 0, touched := false }

inductive TReach (C : TCfg) : TSt → Prop
  | init : TReach C (tinit C)
  | step {ts ts' : TSt} (e : TEv) : TReach C ts → TStep C ts e ts' → TReach C ts'

/-- a stretch of consecutive timed steps -/
inductive TPath (C : TCfg) : TSt → List TEv → TSt → Prop
  | nil (ts : TSt) : TPath C ts [] ts
  | cons {ts ts1 ts2 : TSt} {e : TEv} {es : List TEv} : TStep C ts e ts1 → TPath C ts1 es ts2 → TPath C ts (e :: es) ts2

end Poupool.Timed
