/-!
  The guard methods of the transition tables as functions of the OTHER controller's phase (or of a setting), and the
  due-date test of the automatic backwash.  Each domain is finite; the correspondence (checks/guards_common.py) is
  EXHAUSTIVE: the real method is evaluated with the other controller set to every one of its phases.
-/
namespace Poupool.Guards

/-- Filtration.tank_is_low: the tank is halted, low or (still) filling -/
def tankIsLow (tank : String) : Bool := tank == "halt" || tank == "low" || tank == "fill"

/-- Filtration.tank_is_high -/
def tankIsHigh (tank : String) : Bool := tank == "high"

/-- Filtration.pump_stopped_in_standby -/
def pumpStoppedInStandby (speedStandby : Int) : Bool := speedStandby == 0

/-- Heating.filtration_allow_heating -/
def allowHeating (filtration : String) : Bool := filtration == "heating_running"

/-- Heating.filtration_ready_for_heating -/
def readyForHeating (filtration : String) : Bool := filtration == "eco_waiting" || filtration == "eco_normal"

/-- Swim.filtration_is_wintering -/
def isWintering (filtration : String) : Bool := filtration == "wintering_waiting" || filtration == "wintering_stir"

/-- Swim.filtration_allow_swim (includes wintering: open finding swim-user-request-in-wintering) -/
def allowSwim (filtration : String) : Bool :=
  filtration == "overflow_normal" || filtration == "standby_normal" || filtration == "comfort" || isWintering filtration

/-- Filtration.__start_backwash: due (whole days, `timedelta(period)`) and the tank is high; times in microseconds -/
def startBackwash (now last : Int) (periodDays : Int) (tankHigh : Bool) : Bool :=
  decide (now - last ≥ periodDays * 86400000000) && tankHigh

/-- Tank.force_empty(value): what it requests, from the previous flag, the new flag and whether the tank is halted -/
inductive ForceAct | nothing | haltFiltration | startFill
  deriving Repr, DecidableEq

def forceEmpty (previous value tankHalted : Bool) : ForceAct :=
  if !previous && value && !tankHalted then .haltFiltration
  else if previous && !value && tankHalted then .startFill
  else .nothing

/-- Tank.set_mode(mode): the level set in force afterwards depends only on the LAST mode set ("eco" → eco set, anything
    else → overflow set), whatever was set before; returns (low, high) -/
def levelsAfter (ecoLow ecoHigh ovLow ovHigh : Int) : List String → Int × Int
  | [] => (ecoLow, ecoHigh)
  | modes => if modes.getLast! == "eco" then (ecoLow, ecoHigh) else (ovLow, ovHigh)

end Poupool.Guards
