/-!
  Blocking model for C09.  An actor blocked in `Future.get()` without timeout on a callee that never answers is
  blocked for ever; a set of actors deadlocks iff there is a cycle of such timeout-less waits.  A wait can only
  arise at an ask site of the code, i.e. along an edge of the (regenerated) strict ask graph.  If that graph admits a
  rank function that strictly decreases along every edge, no cycle of waits can ever exist – whatever the
  interleaving, the commands and the timers.
-/
namespace Poupool.Blocking

/-- a non-empty path in a relation given as an edge list -/
inductive Path (E : List (Nat × Nat)) : Nat → Nat → Prop
  | single {a b : Nat} : (a, b) ∈ E → Path E a b
  | cons {a b c : Nat} : (a, b) ∈ E → Path E b c → Path E a c

def rankOK (rank : List Nat) (E : List (Nat × Nat)) : Bool :=
  E.all fun (a, b) => rank.getD b 0 < rank.getD a 0

theorem rankOK_edge {rank : List Nat} {E : List (Nat × Nat)} (h : rankOK rank E = true) {a b : Nat}
    (hab : (a, b) ∈ E) : rank.getD b 0 < rank.getD a 0 := by
  have := (List.all_eq_true.mp h) (a, b) hab
  simpa using this

theorem rank_decreases {rank : List Nat} {E : List (Nat × Nat)} (h : rankOK rank E = true) {a b : Nat}
    (p : Path E a b) : rank.getD b 0 < rank.getD a 0 := by
  induction p with
  | single hab => exact rankOK_edge h hab
  | cons hab _ ih => exact Nat.lt_trans ih (rankOK_edge h hab)

/-- no cycle in a ranked graph -/
theorem no_cycle {rank : List Nat} {E : List (Nat × Nat)} (h : rankOK rank E = true) (a : Nat) : ¬ Path E a a := by
  intro p
  exact Nat.lt_irrefl _ (rank_decreases h p)

/-- sub-relation: every current wait is an ask site -/
theorem path_mono {E W : List (Nat × Nat)} (hsub : ∀ e ∈ W, e ∈ E) {a b : Nat} (p : Path W a b) : Path E a b := by
  induction p with
  | single h => exact Path.single (hsub _ h)
  | cons h _ ih => exact Path.cons (hsub _ h) ih

/-- **No deadlock.** `W` = the timeout-less waits in progress at some instant of some execution. -/
theorem no_deadlock {rank : List Nat} {E : List (Nat × Nat)} (h : rankOK rank E = true)
    (W : List (Nat × Nat)) (hsub : ∀ e ∈ W, e ∈ E) (a : Nat) : ¬ Path W a a :=
  fun p => no_cycle h a (path_mono hsub p)

/-! ## liveness skeleton: every actor eventually answers

`Responsive E a`: every actor that `a` may wait for without timeout is itself responsive.  Reading: the handlers of `a`
consist of finitely many statements (the translated programs have no loops; device calls are assumed to return); the
only places where a handler can block for ever are its timeout-less asks; if every callee eventually answers, the
handler finishes, so `a` serves its inbox in FIFO order and eventually answers every question and processes every
request queued for it.  In a ranked graph EVERY actor is responsive (well-founded induction on the rank). -/
inductive Responsive (E : List (Nat × Nat)) : Nat → Prop
  | mk (a : Nat) : (∀ b, (a, b) ∈ E → Responsive E b) → Responsive E a

theorem all_responsive {rank : List Nat} {E : List (Nat × Nat)} (h : rankOK rank E = true) :
    ∀ a, Responsive E a := by
  -- strong induction on the rank of `a`
  have key : ∀ n a, rank.getD a 0 ≤ n → Responsive E a := by
    intro n
    induction n with
    | zero =>
        intro a ha
        refine Responsive.mk a ?_
        intro b hab
        have := rankOK_edge h hab
        omega
    | succ n ih =>
        intro a ha
        refine Responsive.mk a ?_
        intro b hab
        have := rankOK_edge h hab
        exact ih b (by omega)
  intro a
  exact key (rank.getD a 0) a (Nat.le_refl _)

end Poupool.Blocking
