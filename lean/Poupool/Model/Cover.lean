/-!
  Decisions of the cover polls of Filtration (controller/filtration.py: do_repeat_opening, do_repeat_closing).
  `position` is the percentage reported by the Arduino (0..100, C19), `eco` the configured cover position for eco.
  Tied to the code by an EXHAUSTIVE differential test (every position 0..100 × every eco position 0..100) of the real
  methods with a stubbed Arduino answer (checks/c12.py).
-/
namespace Poupool.Cover

inductive Act
  | poll                -- do_delay(5, same poll)
  | doneAfter2s         -- do_delay(2, "opened"/"closed")
  | doneNow             -- self._proxy.closed.defer()
  deriving Repr, DecidableEq

def openingPoll (position : Int) : Act := if position = 100 then .doneAfter2s else .poll

def closingPoll (position eco : Int) : Act :=
  if position ≤ eco then (if eco = 0 then .doneAfter2s else .doneNow) else .poll

/-- the state string published by the polls: `<phase>_<10·⌊p/10⌋>` -/
def decade (position : Int) : Int := position / 10 * 10

end Poupool.Cover
