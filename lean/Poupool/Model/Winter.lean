/-!
  Decisions of the wintering polls (Filtration.do_repeat_wintering_waiting, Swim.do_repeat_wintering_waiting) and of the
  timed swim mode (Swim.do_repeat_timed with util.Timer).  Temperatures in milli-degrees, times in microseconds.
  Tied to the code by the differential correspondence of checks/c17.py / checks/c13.py (real methods, stubbed reader).
-/
namespace Poupool.Winter

inductive Act | rearm | stir
  deriving Repr, DecidableEq

/-- `if time_in_state > period: if temperature is None or temperature <= threshold: stir` -/
def poll (tis period : Int) (temp : Option Int) (threshold : Int) : Act :=
  if tis > period then
    match temp with
    | none => .stir
    | some t => if t ≤ threshold then .stir else .rearm
  else .rearm

/-- util.Timer as used by the timed swim mode: (accumulated duration, last update) -/
structure Timer where
  dur : Int
  last : Option Int
  deriving Repr, DecidableEq

def Timer.update (t : Timer) (now : Int) : Timer :=
  match t.last with
  | none => { t with last := some now }
  | some l => { dur := t.dur + (now - l), last := some now }

inductive SwimAct | rearm | halt
  deriving Repr, DecidableEq

/-- do_repeat_timed: pump on, timer.update(now), `elapsed()` = duration ≥ delay → halt -/
def timedPoll (t : Timer) (delay now : Int) : SwimAct × Timer :=
  let t' := t.update now
  (if t'.dur ≥ delay then .halt else .rearm, t')

/-- the timer after a sequence of polls (on_enter_timed resets it) -/
def runPolls (ts : List Int) : Timer := ts.foldl Timer.update { dur := 0, last := none }

end Poupool.Winter
