/-!
  Hand-written model of the Tank controller's decisions (controller/tank.py: on_enter_fill, do_repeat_fill/low/
  normal/high).  Heights and thresholds are integers in one fixed unit (only their order matters), times in
  microseconds.  Tied to the code by the differential correspondence of checks/tank_common.py (the REAL poll methods
  are called with a stubbed sensor on boundary grids and random inputs, same lines go to Drivers/Tank.lean).
-/
namespace Poupool.Tank

structure Cfg where
  hyst : Int
  tooLow : Int
  low : Int
  high : Int
  deriving Repr

inductive Act
  | rearm (halfSeconds : Nat)      -- do_delay(n/2 s, same poll)
  | toLow | toNormal | toHigh      -- self._proxy.<x>.defer()
  | emergency                      -- Filtration.halt.defer(); self._proxy.halt.defer()
  deriving Repr, DecidableEq

def twoHours : Int := 2 * 3600 * 1000000
def sixHours : Int := 6 * 3600 * 1000000

/-- on_enter_fill: (valve switched on?, continue polling?) -/
def enterFill (c : Cfg) (h : Int) : Bool × Bool := if h < c.tooLow then (true, true) else (false, false)

def pollFill (c : Cfg) (h tis : Int) : Act :=
  if tis > twoHours then .emergency
  else if h > c.tooLow then .toLow
  else .rearm 10

def pollLow (c : Cfg) (h tis : Int) : Act :=
  if tis > sixHours then .emergency
  else if h ≥ c.low + c.hyst then .toNormal
  else if h < c.tooLow then .emergency
  else .rearm 10

def pollNormal (c : Cfg) (h : Int) : Act :=
  if h < c.low - c.hyst then .toLow
  else if h ≥ c.high + c.hyst then .toHigh
  else .rearm 20

def pollHigh (c : Cfg) (h : Int) : Act :=
  if h < c.high - c.hyst then .toNormal else .rearm 20

/-- a valid threshold configuration (decidable; satisfied by config.ini for both level sets) -/
def Valid (c : Cfg) : Prop := 0 ≤ c.hyst ∧ c.tooLow ≤ c.low - c.hyst ∧ c.low + c.hyst ≤ c.high - c.hyst

instance (c : Cfg) : Decidable (Valid c) := by unfold Valid; infer_instance

end Poupool.Tank
