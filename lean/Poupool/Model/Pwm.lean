/-
Model of the dosing PWM and P-controller of /repo/controller/disinfection.py (classes `PWM`, `PController`)
and of `Timer` / `constrain` of /repo/controller/util.py.  Import-free and executable.

Numbers.  Python keeps the PWM phase bookkeeping (`__last`, `__duration`, `value`, `period`, `duty_on`) in
binary64 floats of SECONDS and the security timer in `datetime`/`timedelta` (integer MICROSECONDS).
Here: the float quantities are exact rationals (`Rat` of Lean core, no Mathlib), the datetime quantities are
`Int` microseconds.  Float rounding is outside the model; the correspondence check only feeds inputs on which
binary64 arithmetic is exact (tick times multiples of 1/64 s = 15625 us, dyadic duties, integer periods).
`time.time()` and `datetime.now()` read inside one `do_run` are modelled as the same instant `nowUs`.

Constants that the source fixes (unit keyword of the security delay, reset period, constrain bounds, the
negation in `ph_pterm`, constructor arguments, config.ini values) are NOT written here: they are fields of
`Cfg`, instantiated by the regenerated `Poupool/Generated/PwmConfig.lean`.
-/
namespace Poupool.Pwm

/-- Everything read from the source by translate/pwm_config.py. -/
structure Cfg where
  /-- config.ini [disinfection] security_duration (the configured number, unit-less as in the file) -/
  securityDuration : Int
  /-- microseconds per unit of the `timedelta(<kw>=PWM.SECURITY_DURATION)` keyword the code applies -/
  securityUnitUs : Int
  /-- `timedelta(days=1)` of `__security_reset`, in microseconds (same at both sites) -/
  resetPeriodUs : Int
  /-- defaults of `PWM.__init__(…, period=120, min_runtime=3)` -/
  defaultPeriod : Rat
  defaultMinRuntime : Rat
  /-- `self.do_delay(1, …)` at the end of do_run, microseconds -/
  tickDelayUs : Int
  /-- config.ini ph_pwm_period / cl_pwm_period -/
  phPeriod : Int
  clPeriod : Int
  /-- `constrain(…, lo, hi)` in `PController.compute` -/
  pcLo : Rat
  pcHi : Rat
  /-- `PController.__init__(pterm=0.1, scale=1.0)` -/
  pcDefaultPterm : Rat
  pcDefaultScale : Rat
  /-- `PController(pterm=-1.0)` / setpoint 7 for pH; `PController(pterm=1.0, scale=0.005)` / 600 for ORP -/
  phCtorPterm : Rat
  phScale : Rat
  phSetpoint0 : Rat
  orpCtorPterm : Rat
  orpScale : Rat
  orpSetpoint0 : Rat
  /-- sign applied by `Disinfection.ph_pterm` (`pterm = -value` → -1) and `orp_pterm` (`= value` → 1) -/
  phPtermSign : Rat
  orpPtermSign : Rat
  /-- the normalised text of do_run / do_cancel / compute / Timer matched the shape this model mirrors -/
  shapeOk : Bool

/-- util.constrain: `min(max(x, out_min), out_max)` -/
def constrain (x lo hi : Rat) : Rat :=
  let m := if x < lo then lo else x
  if hi < m then hi else m

/-! ### util.Timer (durations in microseconds) -/

structure Timer where
  duration : Int
  last : Option Int
  delay : Int
deriving Repr, DecidableEq

namespace Timer
/-- `Timer(name)` followed by `timer.delay = d` (the setter calls `reset`) -/
def mk' (delay : Int) : Timer := { duration := 0, last := none, delay := delay }
def clear (t : Timer) : Timer := { t with last := none }
def reset (t : Timer) : Timer := { t with last := none, duration := 0 }
/-- `update(now, factor)`; the debug print and `__last_print` have no effect on the state we keep -/
def update (t : Timer) (now : Int) (factor : Int) : Timer :=
  { t with
    duration := match t.last with
      | some l => t.duration + factor * (now - l)
      | none => t.duration
    last := some now }
def elapsed (t : Timer) : Bool := decide (t.duration ≥ t.delay)
end Timer

/-! ### PWM -/

structure PwmState where
  /-- `__last` : `time.time()` of the previous do_run (seconds) -/
  last : Option Rat
  /-- `__duration` (seconds) -/
  duration : Rat
  /-- `__state` -/
  state : Bool
  /-- `__security_duration` -/
  sec : Timer
  /-- `__security_reset` (microseconds) -/
  securityReset : Int
  period : Rat
  minRuntime : Rat
  value : Rat
  /-- what the pump device was last told (`pump.on()` / `pump.off()`) -/
  pumpOn : Bool

/-- seconds as float of an instant given in microseconds -/
def secs (us : Int) : Rat := (us : Rat) / 1000000

/-- `PWM.__init__` at instant `startUs`, with `PWM.SECURITY_DURATION = secDur` -/
def PwmState.init (c : Cfg) (period minRt : Rat) (secDur : Int) (startUs : Int) : PwmState :=
  { last := none, duration := 0, state := false,
    sec := Timer.mk' (secDur * c.securityUnitUs),
    securityReset := startUs + c.resetPeriodUs,
    period := period, minRuntime := minRt, value := 0, pumpOn := false }

/-- the minimum-run-time rounding of do_run -/
def dutyOn (value period minRt : Rat) : Rat :=
  let d := value * period
  if d ≠ 0 ∧ d < minRt then minRt
  else if d > period - minRt then period
  else d

/-- the body of `if self.__last is not None:` -/
def block (nowUs : Int) (l : Rat) (s : PwmState) : PwmState :=
  let now := secs nowUs
  let dur := constrain (s.duration + (now - l)) 0 s.period
  let on := dutyOn s.value s.period s.minRuntime
  let off := s.period - on
  if s.state then
    let sec := s.sec.update nowUs 1
    let ok := !sec.elapsed
    -- `done = self.__duration >= duty_on and self.__duration >= self.__min_runtime`
    if ((dur ≥ on ∧ dur ≥ s.minRuntime) ∧ on ≠ s.period) ∨ ok = false then
      { s with duration := 0, state := false, pumpOn := false, sec := sec }
    else
      { s with duration := dur, sec := sec }
  else
    let sec := s.sec.update nowUs 0
    let ok := !sec.elapsed
    if dur ≥ off ∧ off ≠ s.period ∧ ok = true then
      { s with duration := 0, state := true, pumpOn := true, sec := sec }
    else
      { s with duration := dur, sec := sec }

/-- `if datetime.now() > self.__security_reset: reset(); __security_reset += 1 day` -/
def dailyReset (c : Cfg) (nowUs : Int) (s : PwmState) : PwmState :=
  if nowUs > s.securityReset then
    { s with sec := s.sec.reset, securityReset := s.securityReset + c.resetPeriodUs }
  else s

/-- `PWM.do_run` at instant `nowUs` -/
def tick (c : Cfg) (nowUs : Int) (s : PwmState) : PwmState :=
  let s1 := match s.last with
    | some l => block nowUs l s
    | none => s
  let s2 := dailyReset c nowUs s1
  { s2 with last := some (secs nowUs) }

/-- `PWM.do_cancel` at instant `nowUs`: `if self.__state: self.__security_duration.update(datetime.now())`, then
clear / reset of the phase / `pump.off()` -/
def cancel (nowUs : Int) (s : PwmState) : PwmState :=
  let sec := if s.state then s.sec.update nowUs 1 else s.sec
  { s with sec := sec.clear, last := none, duration := 0, state := false, pumpOn := false }

def setValue (v : Rat) (s : PwmState) : PwmState := { s with value := v }
def setPeriod (p : Rat) (s : PwmState) : PwmState := { s with period := p }

/-! ### PController -/

/-- `PController.compute` -/
def compute (c : Cfg) (setpoint current pterm scale : Rat) : Rat :=
  constrain ((pterm * scale) * (setpoint - current)) c.pcLo c.pcHi

/-- `x.compute() if enable else 0` of `on_enter_running_adjusting` -/
def feedback (enable : Bool) (x : Rat) : Rat := if enable then x else 0

/-- pH duty after `Disinfection.ph_pterm(userPterm)` and `ph_setpoint(setpoint)` -/
def phDuty (c : Cfg) (enable : Bool) (userPterm setpoint ph : Rat) : Rat :=
  feedback enable (compute c setpoint ph (c.phPtermSign * userPterm) c.phScale)

/-- chlorine duty after `Disinfection.orp_pterm(userPterm)` and `orp_setpoint(setpoint)` -/
def orpDuty (c : Cfg) (enable : Bool) (userPterm setpoint orp : Rat) : Rat :=
  feedback enable (compute c setpoint orp (c.orpPtermSign * userPterm) c.orpScale)

end Poupool.Pwm
