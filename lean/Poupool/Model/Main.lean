/-!
  Model of poupool.py's supervision loop and shutdown path (C18), and of SwimPumpDevice (controller/device.py).

  `World`: which outputs are energised, whether controllers are still running (only a running controller can energise
  an output), whether the cover motor is commanded.  The `finally:` block is a list of operations read from the source
  (Generated/Main.lean); `offAll` switches every REGISTERED pump/valve off.
-/
namespace Poupool.Main

structure World where
  on : List String            -- energised outputs
  actorsRunning : Bool
  coverMoving : Bool
  deriving Repr

inductive Op
  | stopAll                   -- pykka.ActorRegistry.stop_all() (blocking)
  | offAll (pumps valves : Bool)
  | stopDevices
  | cleanup
  | other
  deriving Repr, DecidableEq

def parseOp (s : String) : Op :=
  if s == "stopAll" then .stopAll
  else if s == "offAll:PV" then .offAll true true
  else if s == "offAll:P" then .offAll true false
  else if s == "offAll:V" then .offAll false true
  else if s == "stopDevices" then .stopDevices
  else if s == "cleanup" then .cleanup
  else .other

/-- one step of the environment between two shutdown operations: while controllers run they may energise anything -/
def mayEnergise (w : World) (extra : List String) : World :=
  if w.actorsRunning then { w with on := w.on ++ extra, coverMoving := true } else w

def applyOp (pumps valves : List String) (w : World) : Op → World
  | .stopAll => { w with actorsRunning := false }
  | .offAll p v =>
      let names := (if p then pumps else []) ++ (if v then valves else [])
      { w with on := w.on.filter fun n => !names.contains n }
  | .stopDevices => { w with coverMoving := false }
  | .cleanup => w
  | .other => w

/-- the shutdown path with an adversarial environment step before every operation -/
def shutdown (pumps valves : List String) (ops : List Op) (env : List (List String)) (w : World) : World :=
  match ops, env with
  | [], _ => w
  | op :: rest, [] => shutdown pumps valves rest [] (applyOp pumps valves w op)
  | op :: rest, e :: es => shutdown pumps valves rest es (applyOp pumps valves (mayEnergise w e) op)

/-- the shape the proof needs: stop_all first, then off() for pumps and valves, then stop() of the devices -/
def opsOK (ops : List Op) : Bool :=
  match ops with
  | .stopAll :: .offAll true true :: .stopDevices :: _ => true
  | _ => false

theorem shutdown_all_off (pumps valves : List String) (ops : List Op) (hops : opsOK ops = true)
    (env : List (List String)) (w : World) (outputs : List String)
    (hreg : ∀ n ∈ outputs, n ∈ pumps ∨ n ∈ valves) :
    let w' := shutdown pumps valves ops env w
    (∀ n ∈ outputs, n ∉ w'.on) ∧ w'.coverMoving = false ∧ w'.actorsRunning = false := by
  -- unfold the three leading operations
  match ops, hops with
  | .stopAll :: .offAll true true :: .stopDevices :: rest, _ =>
    -- helper facts about the tail: once controllers are stopped nothing changes any more
    have tail : ∀ (ops : List Op) (env : List (List String)) (w : World),
        w.actorsRunning = false → (∀ n ∈ outputs, n ∉ w.on) → w.coverMoving = false →
        (∀ n ∈ outputs, n ∉ (shutdown pumps valves ops env w).on) ∧
        (shutdown pumps valves ops env w).coverMoving = false ∧ (shutdown pumps valves ops env w).actorsRunning = false := by
      intro ops
      induction ops with
      | nil => intro env w h1 h2 h3; cases env <;> exact ⟨h2, h3, h1⟩
      | cons op rest ih =>
          intro env w h1 h2 h3
          have step : ∀ w0 : World, w0.actorsRunning = false → (∀ n ∈ outputs, n ∉ w0.on) → w0.coverMoving = false →
              (applyOp pumps valves w0 op).actorsRunning = false ∧ (∀ n ∈ outputs, n ∉ (applyOp pumps valves w0 op).on) ∧
              (applyOp pumps valves w0 op).coverMoving = false := by
            intro w0 a b c
            cases op <;> simp_all [applyOp]
          cases env with
          | nil =>
              obtain ⟨a, b, c⟩ := step w h1 h2 h3
              exact ih [] _ a b c
          | cons e es =>
              have hm : mayEnergise w e = w := by simp [mayEnergise, h1]
              obtain ⟨a, b, c⟩ := step w h1 h2 h3
              simp only [shutdown, hm]
              exact ih es _ a b c
    -- the three leading operations
    intro w'
    cases env with
    | nil =>
        simp only [w', shutdown, applyOp]
        apply tail
        · rfl
        · intro n hn hmem
          simp only [List.mem_filter, ite_true, List.contains_eq_mem, List.mem_append, Bool.not_eq_true',
            decide_eq_false_iff_not, not_or] at hmem
          rcases hreg n hn with h | h
          · exact hmem.2.1 h
          · exact hmem.2.2 h
        · rfl
    | cons e1 es1 =>
        cases es1 with
        | nil =>
            simp only [w', shutdown, applyOp]
            apply tail
            · rfl
            · intro n hn hmem
              simp only [List.mem_filter, ite_true, List.contains_eq_mem, List.mem_append, Bool.not_eq_true',
                decide_eq_false_iff_not, not_or] at hmem
              rcases hreg n hn with h | h
              · exact hmem.2.1 h
              · exact hmem.2.2 h
            · rfl
        | cons e2 es2 =>
            have hm2 : ∀ x : World, x.actorsRunning = false → mayEnergise x e2 = x := by
              intro x hx; simp [mayEnergise, hx]
            cases es2 with
            | nil =>
                simp only [w', shutdown, applyOp]
                rw [hm2 _ rfl]
                apply tail
                · rfl
                · intro n hn hmem
                  simp only [List.mem_filter, ite_true, List.contains_eq_mem, List.mem_append, Bool.not_eq_true',
                    decide_eq_false_iff_not, not_or] at hmem
                  rcases hreg n hn with h | h
                  · exact hmem.2.1 h
                  · exact hmem.2.2 h
                · rfl
            | cons e3 es3 =>
                simp only [w', shutdown, applyOp]
                rw [hm2 _ rfl]
                have hm3 : ∀ x : World, x.actorsRunning = false → mayEnergise x e3 = x := by
                  intro x hx; simp [mayEnergise, hx]
                rw [hm3 _ rfl]
                apply tail
                · rfl
                · intro n hn hmem
                  simp only [List.mem_filter, ite_true, List.contains_eq_mem, List.mem_append, Bool.not_eq_true',
                    decide_eq_false_iff_not, not_or] at hmem
                  rcases hreg n hn with h | h
                  · exact hmem.2.1 h
                  · exact hmem.2.2 h
                · rfl

/-! ## SwimPumpDevice -/
structure Swim where
  speed : Int        -- cached speed (-1 initially)
  relay : Bool
  dac : Int          -- last value written (percent)
  deriving Repr, DecidableEq

/-- `speed(value)`: `fails` = how many of the (up to three) DAC writes raise OSError; hasDac = a DAC was detected -/
def Swim.setSpeed (s : Swim) (value : Int) (hasDac : Bool) (fails : Nat) : Swim :=
  if s.speed == value then s
  else
    let relay := if s.speed ≤ 0 && value > 0 then true else if s.speed != 0 && value == 0 then false else s.relay
    if hasDac && fails ≥ 3 then { s with relay := relay }
    else { speed := value, relay := relay, dac := if hasDac then value else s.dac }

/-- `off()` after the fix: the relay is switched off first, then speed(0) -/
def Swim.off (s : Swim) (hasDac : Bool) (fails : Nat) : Swim := ({ s with relay := false }).setSpeed 0 hasDac fails

def Swim.on (s : Swim) (hasDac : Bool) (fails : Nat) : Swim := s.setSpeed 100 hasDac fails

theorem swim_off_deenergises (s : Swim) (hasDac : Bool) (fails : Nat) : (s.off hasDac fails).relay = false := by
  unfold Swim.off Swim.setSpeed
  by_cases h : s.speed == 0 <;> simp [h] <;> split <;> simp_all

end Poupool.Main
