/-!
  Hand-written model of `TankSensorDevice.value` (controller/device.py) with `util.mapping` / `util.constrain`:
  ten read attempts of the ADC, a failed attempt (`OSError`) is skipped after 0.5 s, a successful one is followed by
  0.05 s; the mean of the successful readings (0 when there is none) is mapped linearly from [low, high] to [0, 100] and
  clamped.  The result is an exact fraction `num / den` (`den > 0`); the real code computes the same expression in
  binary64.  Tied to the code by the shape of the three functions (translate/sensor_shape in checks/sensor_common.py) and
  by the differential correspondence on fault patterns (exact on the clamped results and on the elapsed time, within
  float rounding on the others).
-/
namespace Poupool.Sensor

structure Cfg where
  low : Int
  high : Int
  deriving Repr

/-- a configuration the mapping is meant for (config.ini: 83 / 1665) -/
def Valid (c : Cfg) : Prop := 0 ≤ c.low ∧ c.low < c.high

instance (c : Cfg) : Decidable (Valid c) := by unfold Valid; infer_instance

/-- the successful readings, in order (`values`) -/
def good (reads : List (Option Int)) : List Int := reads.filterMap id

def total : List Int → Int
  | [] => 0
  | x :: xs => x + total xs

/-- milliseconds spent in the loop: 50 after a reading, 500 after a failure -/
def elapsedMs : List (Option Int) → Nat
  | [] => 0
  | some _ :: rs => 50 + elapsedMs rs
  | none :: rs => 500 + elapsedMs rs

/-- `sum(values) / len(values) if values else 0` as (numerator, denominator) -/
def mean (reads : List (Option Int)) : Int × Int :=
  let g := good reads
  if g = [] then (0, 1) else (total g, g.length)

/-- `constrain(mapping(value, low, high, 0, 100), 0, 100)` as a fraction num / den with den > 0 -/
def value (c : Cfg) (reads : List (Option Int)) : Int × Int :=
  let (s, n) := mean reads
  let num := (s - c.low * n) * 100
  let den := n * (c.high - c.low)
  if num < 0 then (0, 1) else if num > 100 * den then (100, 1) else (num, den)

/-- `value < p` for an integer percentage p (what the Tank polls compare with) -/
def below (v : Int × Int) (p : Int) : Prop := v.1 < p * v.2

instance (v : Int × Int) (p : Int) : Decidable (below v p) := by unfold below; infer_instance

end Poupool.Sensor
