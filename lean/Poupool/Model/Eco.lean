/-
  Model of the eco-mode scheduler of poupool (C10, C11).

  * `Timer`, `EcoMode`  — controller/util.py `Timer`, controller/filtration.py `EcoMode`, statement by statement.
    All times are `Int` microseconds (absolute times: µs since an epoch that is a midnight).  Python's
    `timedelta / int`, `timedelta * float`, `round(x.total_seconds())` round to the nearest microsecond / second,
    ties to even: `divNearest`.  A float factor / tank percentage is the exact rational `float.as_integer_ratio()`
    (that is what CPython multiplies with), so the model is exact for EVERY float, not only dyadic ones.
    `int(a / b)` on two timedeltas is a correctly rounded float quotient truncated; for |a|,|b| < 2^50 µs and a
    quotient < 2^20 it equals the integer floor quotient (quotients differ from an integer by ≥ 1/b ≫ ulp).
  * `Loop`, `ecoStep`, `ecoRun` — the closed loop eco_compute → eco_waiting / eco_normal → eco_tank → …, the
    daily reset → reload → eco_compute, the heating interlude (heating_running, heating_delay_none), driven by
    one event per timer expiry (`tick`) with the lateness of every handler as input.  Ghost fields (prefix `g`)
    only record history for the proofs; they never influence the behaviour.
  * persistence (`/status/filtration/duration`), dispatcher `once` rule, Heating total and water counter (C11).

  The constants come from Generated/EcoConfig.lean (regenerated from the source on every run).
-/
import Poupool.Generated.EcoConfig

namespace Poupool.Eco
open Poupool.Generated

def US : Int := 1000000
def DAY : Int := 86400000000
def HOUR : Int := 3600000000

/-- CPython `divide_nearest` / `_PyLong_DivmodNear` for a positive divisor: nearest, ties to even. -/
def divNearest (a b : Int) : Int :=
  if 2 * (a % b) > b ∨ (2 * (a % b) = b ∧ (a / b) % 2 = 1) then a / b + 1 else a / b

/-- `factor * timedelta` (int factor: `fden = 1`, exact; float factor: its integer ratio). -/
def scale (x fnum fden : Int) : Int := divNearest (x * fnum) fden

/-- `round(td.total_seconds())`. -/
def roundSeconds (us : Int) : Int := divNearest us US

/-! ## util.Timer -/

structure Timer where
  duration : Int
  last : Option Int
  delay : Int
  deriving Repr, DecidableEq, Inhabited

namespace Timer
def init : Timer := ⟨0, none, 0⟩
def clear (t : Timer) : Timer := { t with last := none }
def reset (t : Timer) : Timer := { t with last := none, duration := 0 }
/-- `delay` setter: also resets. -/
def setDelay (t : Timer) (d : Int) : Timer := { t with delay := d, last := none, duration := 0 }
def setDuration (t : Timer) (d : Int) : Timer := { t with duration := d }
def remaining (t : Timer) : Int := max 0 (t.delay - t.duration)
def elapsed (t : Timer) : Bool := decide (t.delay ≤ t.duration)
def update (t : Timer) (now fnum fden : Int) : Timer :=
  match t.last with
  | some l => { t with duration := t.duration + scale (now - l) fnum fden, last := some now }
  | none => { t with last := some now }
end Timer

/-! ## filtration.EcoMode -/

structure EcoMode where
  filtration : Timer
  current : Timer
  nextReset : Int
  period : Int
  tankNum : Int
  tankDen : Int
  periodDuration : Int
  onD : Int
  offD : Int
  tankD : Int
  lastSave : Int
  deriving Repr, DecidableEq, Inhabited

/-- `tm.replace(hour=h, minute=0, second=0, microsecond=0)`, plus a day if that is in the past. -/
def nextResetAt (now hour : Int) : Int :=
  let nr := now - now % DAY + hour * HOUR
  if nr < now then nr + DAY else nr

namespace EcoMode

/-- `EcoMode.__init__` at time `now` (note: `period_duration` is overwritten with one hour). -/
def init (now : Int) : EcoMode where
  filtration := Timer.init.setDelay EcoConfig.defaultDailyUs
  current := Timer.init
  nextReset := nextResetAt now EcoConfig.defaultResetHour
  period := EcoConfig.defaultPeriod
  tankNum := EcoConfig.defaultTankNum
  tankDen := EcoConfig.defaultTankDen
  periodDuration := HOUR
  onD := 0
  offD := 0
  tankD := 0
  lastSave := now

/-- the two `assert self.period_duration > timedelta()` hold -/
def assertOk (e : EcoMode) : Bool := decide (0 < e.periodDuration)

def recompute (e : EcoMode) : EcoMode := { e with periodDuration := divNearest e.filtration.delay e.period }
def setPeriod (e : EcoMode) (p : Int) : EcoMode := recompute { e with period := p }
def setDaily (e : EcoMode) (d : Int) : EcoMode := recompute { e with filtration := e.filtration.setDelay d }
def setResetHour (e : EcoMode) (now hour : Int) : EcoMode := { e with nextReset := nextResetAt now hour }
def setTank (e : EcoMode) (num den : Int) : EcoMode := { e with tankNum := num, tankDen := den }
def setCurrent (e : EcoMode) (d : Int) : EcoMode := { e with current := e.current.setDelay d }
def clear (e : EcoMode) : EcoMode := { e with filtration := e.filtration.clear, current := e.current.setDelay 0 }

def remainingDuration (e : EcoMode) : Int := max 0 (e.filtration.delay - e.filtration.duration)
def remainingPeriods (e : EcoMode) : Int := max 1 (e.remainingDuration / e.periodDuration)
def remainingTime (e : EcoMode) (now : Int) : Int := max 0 (e.nextReset - now)

/-- `on_duration` before the tank share is taken off -/
def onTotal (e : EcoMode) (now : Int) : Int :=
  let o := min (e.remainingTime now) (divNearest e.remainingDuration e.remainingPeriods)
  if o < EcoConfig.minOnUs then EcoConfig.minOnUs else o

def offOf (e : EcoMode) (now : Int) : Int :=
  let o := divNearest (e.remainingTime now - e.remainingDuration) e.remainingPeriods
  if EcoConfig.offClamp && decide (o < 0) then 0 else o

def tankOf (e : EcoMode) (now : Int) : Int :=
  let t := scale (e.onTotal now) e.tankNum e.tankDen
  if t < EcoConfig.tankMinUs then EcoConfig.tankMinUs else t

def compute (e : EcoMode) (now : Int) : EcoMode :=
  let on := e.onTotal now
  let tank := e.tankOf now
  { e with onD := if tank < on then on - tank else on, offD := e.offOf now, tankD := tank }

structure UpdateOut where
  reset : Bool
  persisted : Option Int   -- payload of /status/filtration/duration (seconds)
  next : Int               -- /status/filtration/next (seconds)
  remaining : Int          -- /status/filtration/remaining (seconds)
  deriving Repr, DecidableEq, Inhabited

def update (e : EcoMode) (now fnum fden : Int) : EcoMode × UpdateOut :=
  let cur := e.current.update now 1 1
  let fil := e.filtration.update now fnum fden
  let next := roundSeconds cur.remaining
  let rem := max 0 (Int.tdiv (fil.delay - fil.duration) US)
  let reset := decide (e.nextReset ≤ now)
  let fil' := if reset then fil.reset else fil
  let nr := if reset then e.nextReset + DAY else e.nextReset
  let save := decide (EcoConfig.saveIntervalUs < now - e.lastSave) || reset
  ({ e with current := cur, filtration := fil', nextReset := nr, lastSave := if save then now else e.lastSave },
   { reset := reset, persisted := if save then some (roundSeconds fil'.duration) else none, next := next, remaining := rem })

def elapsedOn (e : EcoMode) : Bool := e.current.elapsed || e.filtration.elapsed
def elapsedOff (e : EcoMode) : Bool := e.current.elapsed && !e.filtration.elapsed

/-- `Filtration.restore_duration(value)` -/
def restore (e : EcoMode) (seconds : Int) : EcoMode := { e with filtration := e.filtration.setDuration (seconds * US) }

/-- `Filtration.duration(value)`: new daily duration, today's elapsed time is put back (if the source does). -/
def fltDuration (e : EcoMode) (seconds : Int) : EcoMode :=
  let cur := e.filtration.duration
  let e' := e.setDaily (seconds * US)
  if EcoConfig.keepElapsed then { e' with filtration := e'.filtration.setDuration cur } else e'

end EcoMode

/-! ## closed loop -/

inductive Phase | compute | waiting | normal | tank | heating | heatDelay
  deriving Repr, DecidableEq, Inhabited

def Phase.name : Phase → String
  | .compute => "eco_compute" | .waiting => "eco_waiting" | .normal => "eco_normal" | .tank => "eco_tank"
  | .heating => "heating_running" | .heatDelay => "heating_delay"

/-- One input event.  `tick j0 j1 j2`: the armed timer fires `j0` after it is due (and not before the last
handler); the messages the handler sends to itself (a trigger, or `reload` then `reloaded`) are handled `j1`, `j2`
later.  `heat dt` / `heatEnd dt`: the Heating actor asks `heat` / tells `heating_delay` `dt` after the last handler. -/
inductive Ev
  | tick (j0 j1 j2 : Int)
  | heat (dt : Int)
  | heatEnd (dt : Int)
  deriving Repr, DecidableEq, Inhabited

/-- a finished day (between two reset polls) -/
structure DayRec where
  on : Int          -- pump-on time
  full : Bool       -- the day started at a reset
  plain : Bool      -- ghost: no heating interlude during the day
  dur : Int         -- ghost: filtration.duration just before the reset
  u : Int           -- ghost: allowance for pump-on time that is not in `dur`
  lb : Int          -- ghost: lower bound claimed for `dur`
  ub : Int          -- ghost: upper bound claimed for `dur`
  cyc : Int         -- ghost: completed normal+tank cycles since the last compute
  n : Int           -- ghost: number of periods of the last plan
  j : Int           -- ghost: allowance for compute delay and handler lateness since the last compute
  deriving Repr, Inhabited

/-- the slack of the lower bound: allowance `j`, one poll (+ eps) of overshoot per pause, rounding of the plan -/
def slackOf (eps j n : Int) : Int := j + n * (EcoConfig.pollDelayUs + eps) + n

structure Loop where
  eco : EcoMode
  phase : Phase
  toNormal : Bool        -- in `compute`: the armed trigger is eco_normal (else eco_waiting)
  now : Int              -- time of the last handler
  due : Int              -- nominal expiry of the armed timer
  pumpOn : Bool
  onToday : Int          -- pump-on time since the last reset poll
  days : List DayRec     -- finished days, latest first
  full : Bool            -- the current day started at a reset
  saved : Int            -- ghost: filtration.duration (µs) when /status/filtration/duration was last published
  -- ghosts of the last plan (compute)
  gTc : Int              -- its time
  gDc : Int              -- filtration.duration then
  gNr : Int              -- next reset then
  gN : Int               -- remaining_periods
  gD : Int               -- remaining_duration
  gRc : Int              -- remaining_time
  gJ : Int               -- allowance: compute delay + handler lateness since
  gWoff : Int            -- Σ over the completed pauses of (off + poll + eps)
  gW : Int               -- completed pauses
  gCredit : Int          -- Σ over the completed cycles of (on + tank)
  gCyc : Int             -- completed cycles
  gU : Int               -- allowance for today's pump-on time that is not accounted in filtration.duration
  gPlain : Bool          -- no heating interlude today
  deriving Repr, Inhabited

/-- one line of the trace: time, handler, pump on afterwards, filtration.duration afterwards, persisted payload -/
structure Rec where
  t : Int
  what : String
  pumpOn : Bool
  duration : Int
  persisted : Option Int
  reset : Bool
  deriving Repr, Inhabited

namespace Loop

def advance (s : Loop) (t : Int) : Loop :=
  { s with now := t, onToday := s.onToday + (if s.pumpOn then t - s.now else 0) }

/-- bookkeeping when `update` reported a reset (any handler): the day is finished. -/
def roll (s : Loop) (eps durBefore : Int) : Loop :=
  { s with days := { on := s.onToday, full := s.full, plain := s.gPlain, dur := durBefore, u := s.gU,
                     lb := min s.eco.filtration.delay (s.gDc + s.gRc) - slackOf eps s.gJ s.gN,
                     ub := s.eco.filtration.delay + EcoConfig.pollDelayUs + eps,
                     cyc := s.gCyc, n := s.gN, j := s.gJ } :: s.days,
           onToday := 0, full := true, gU := 0, gPlain := true }

/-- `eco_mode.update(now, factor)` inside a handler at `s.now`. -/
def doUpdate (s : Loop) (eps fnum fden : Int) : Loop × EcoMode.UpdateOut :=
  let before := (s.eco.filtration.update s.now fnum fden).duration
  let r := s.eco.update s.now fnum fden
  let s1 := { s with eco := r.1, saved := if r.2.persisted.isSome then r.1.filtration.duration else s.saved }
  (if r.2.reset then s1.roll eps before else s1, r.2)

def mkRec (s : Loop) (what : String) (o : Option EcoMode.UpdateOut) : Rec :=
  { t := s.now, what := what, pumpOn := s.pumpOn, duration := s.eco.filtration.duration,
    persisted := match o with | some u => u.persisted | none => none,
    reset := match o with | some u => u.reset | none => false }

/-- `on_enter_eco_compute` at `s.now` (the state change cleared the timers). -/
def enterCompute (s : Loop) (eps : Int) : Loop × Rec :=
  let s0 := { s with eco := s.eco.clear }
  let r := s0.doUpdate eps EcoConfig.factorComputeNum EcoConfig.factorComputeDen
  let s1 := r.1
  let e := s1.eco.compute s1.now
  let toN := !(decide (0 < e.offD)) && decide (0 < e.onD)
  let s2 := { s1 with eco := e, phase := .compute, toNormal := toN, due := s1.now + EcoConfig.computeDelayUs,
                      gTc := s1.now, gDc := e.filtration.duration, gNr := e.nextReset, gN := s1.eco.remainingPeriods,
                      gD := s1.eco.remainingDuration, gRc := s1.eco.remainingTime s1.now,
                      gJ := EcoConfig.computeDelayUs + eps, gWoff := 0, gW := 0, gCredit := 0, gCyc := 0,
                      gU := s1.gU + (EcoConfig.computeDelayUs + eps) }
  (s2, s2.mkRec "eco>eco_compute" (some r.2))

def enterWaiting (s : Loop) (eps : Int) : Loop × Rec :=
  let s1 := { s with eco := (s.eco.clear).setCurrent s.eco.offD, phase := .waiting, pumpOn := false, due := s.now,
                     gJ := s.gJ + 2 * eps, gU := s.gU + eps }
  (s1, s1.mkRec "eco_waiting" none)

def enterNormal (s : Loop) (eps : Int) : Loop × Rec :=
  let s1 := { s with eco := (s.eco.clear).setCurrent s.eco.onD, phase := .normal, pumpOn := true, due := s.now,
                     gJ := s.gJ + 2 * eps, gU := s.gU + eps }
  (s1, s1.mkRec "eco_normal" none)

def enterTank (s : Loop) (eps : Int) : Loop × Rec :=
  let s1 := { s with eco := (s.eco.clear).setCurrent s.eco.tankD, phase := .tank, pumpOn := true, due := s.now,
                     gJ := s.gJ + 2 * eps, gU := s.gU + 2 * eps }
  (s1, s1.mkRec "eco_tank" none)

/-- `__reload_eco`: `reload` handled `j1` later (state change to reload_eco: timers cleared), then `reloaded` (sent by
on_enter_reload; back to eco, i.e. eco_compute) `j2` after that. -/
def reloadEco (s : Loop) (eps j1 j2 : Int) : Loop × List Rec :=
  let s1 := s.advance (s.now + j1)
  let s1 := { s1 with eco := s1.eco.clear, gU := s1.gU + 2 * eps }
  let r1 := s1.mkRec "reload" none
  let s2 := s1.advance (s1.now + j2)
  let r := s2.enterCompute eps
  (r.1, [r1, r.2])

end Loop

open Loop in
/-- One event.  `eps` only feeds the ghost allowances (it is the bound on the lateness assumed by the theorems). -/
def ecoStep (eps : Int) (s0 : Loop) : Ev → Loop × List Rec
  | .tick j0 j1 j2 =>
    let s := s0.advance (max s0.now s0.due + j0)
    match s.phase with
    | .compute =>
      let r := if s.toNormal then s.enterNormal eps else s.enterWaiting eps
      (r.1, [r.2])
    | .heatDelay =>
      let r := s.enterCompute eps
      (r.1, [{ r.2 with what := "heating_delayed>eco_compute" }])
    | .heating =>
      let r := s.doUpdate eps EcoConfig.factorHeatingNum EcoConfig.factorHeatingDen
      let s2 := { r.1 with due := r.1.now + EcoConfig.pollDelayUs }
      (s2, [s2.mkRec "poll_heating_running" (some r.2)])
    | .waiting =>
      let u := s.doUpdate eps EcoConfig.factorWaitingNum EcoConfig.factorWaitingDen
      let s1 := u.1
      let r := s1.mkRec "poll_eco_waiting" (some u.2)
      if u.2.reset then
        let x := s1.reloadEco eps j1 j2
        (x.1, r :: x.2)
      else if s1.eco.elapsedOff then
        let s1' := { s1 with gW := s1.gW + 1, gWoff := s1.gWoff + (s1.eco.offD + EcoConfig.pollDelayUs + eps) }
        let x := (s1'.advance (s1'.now + j1)).enterNormal eps
        (x.1, [r, x.2])
      else ({ s1 with due := s1.now + EcoConfig.pollDelayUs }, [r])
    | .normal =>
      let u := s.doUpdate eps EcoConfig.factorNormalNum EcoConfig.factorNormalDen
      let s1 := u.1
      let r := s1.mkRec "poll_eco_normal" (some u.2)
      if u.2.reset then
        let x := s1.reloadEco eps j1 j2
        (x.1, r :: x.2)
      else if s1.eco.elapsedOn && decide (0 < s1.eco.tankD) then
        let x := (s1.advance (s1.now + j1)).enterTank eps
        (x.1, [r, x.2])
      else ({ s1 with due := s1.now + EcoConfig.pollDelayUs }, [r])
    | .tank =>
      let u := s.doUpdate eps EcoConfig.factorTankNum EcoConfig.factorTankDen
      let s1 := u.1
      let r := s1.mkRec "poll_eco_tank" (some u.2)
      if u.2.reset then
        let x := s1.reloadEco eps j1 j2
        (x.1, r :: x.2)
      else if s1.eco.elapsedOn then
        let s1' := { s1 with gCyc := s1.gCyc + 1, gCredit := s1.gCredit + (s1.eco.onD + s1.eco.tankD) }
        let x := (s1'.advance (s1'.now + j1)).enterWaiting eps
        (x.1, [r, x.2])
      else ({ s1 with due := s1.now + EcoConfig.pollDelayUs }, [r])
  | .heat dt =>
    let s := s0.advance (s0.now + dt)
    match s.phase with
    | .waiting | .normal =>
      -- state change (eco_mode.clear), on_enter_heating_running (clear again), pump speed 2, first poll armed now
      let s1 := { s with eco := s.eco.clear.clear, phase := .heating, pumpOn := true, due := s.now, gPlain := false }
      (s1, [s1.mkRec "heat>heating_running" none])
    | _ => (s, [s.mkRec "heat(ignored)" none])
  | .heatEnd dt =>
    let s := s0.advance (s0.now + dt)
    match s.phase with
    | .heating =>
      let s1 := { s with eco := s.eco.clear, phase := .heatDelay, due := s.now + EcoConfig.heatingDelayToEcoUs }
      (s1, [s1.mkRec "heating_delay" none])
    | _ => (s, [s.mkRec "heating_delay(ignored)" none])

def ecoRun (eps : Int) : Loop → List Ev → Loop × List Rec
  | s, [] => (s, [])
  | s, e :: es =>
    let (s1, r1) := ecoStep eps s e
    let (s2, r2) := ecoRun eps s1 es
    (s2, r1 ++ r2)

/-- the state after the events (what the theorems talk about) -/
def ecoFinal (eps : Int) (s : Loop) (evs : List Ev) : Loop := evs.foldl (fun s e => (ecoStep eps s e).1) s

/-- Parameters of a run: the settings as the dispatcher delivers them, the instant the pool enters eco, the
filtration time already accounted today. -/
structure Params where
  dailyS : Int
  period : Int
  tankNum : Int
  tankDen : Int
  resetHour : Int
  start : Int        -- absolute time (µs) of the `eco` request
  elapsedS : Int     -- restored /status/filtration/duration
  deriving Repr, Inhabited

/-- the settings applied to a fresh EcoMode (any order gives the same state, see C11), then `eco` at `start`. -/
def Params.ecoMode (p : Params) : EcoMode :=
  ((((EcoMode.init p.start).setPeriod p.period).setTank p.tankNum p.tankDen).setResetHour p.start p.resetHour
    |>.fltDuration p.dailyS).restore p.elapsedS

def Loop.start (eps : Int) (p : Params) : Loop × Rec :=
  let s0 : Loop := { eco := p.ecoMode, phase := .compute, toNormal := false, now := p.start, due := p.start, pumpOn := false,
                     onToday := 0, days := [], full := false, saved := p.elapsedS * US, gTc := p.start, gDc := 0, gNr := 0,
                     gN := 1, gD := 0, gRc := 0, gJ := 0, gWoff := 0, gW := 0, gCredit := 0, gCyc := 0, gU := 0, gPlain := true }
  s0.enterCompute eps

/-! ## C11: dispatcher `once`, counters -/

inductive Topic | filtrationDuration | heatingTotal | waterCounter | dailySetting
  deriving Repr, DecidableEq, Inhabited

def Topic.once : Topic → Bool
  | .filtrationDuration => EcoConfig.onceFiltrationDuration
  | .heatingTotal => EcoConfig.onceHeatingTotal
  | .waterCounter => EcoConfig.onceWaterCounter
  | .dailySetting => EcoConfig.onceDailySetting

/-- the dispatcher of one process: the topics whose entry has been deleted -/
structure Disp where
  deleted : List Topic
  deriving Repr, Inhabited

/-- `Dispatcher.dispatch` for a payload that passes the predicate: is the handler called?  and the new mapping -/
def Disp.dispatch (d : Disp) (t : Topic) : Bool × Disp :=
  if d.deleted.contains t then (false, d)
  else (true, if t.once then { deleted := t :: d.deleted } else d)

/-- number of times the handler of `t` is called for a list of (valid) deliveries -/
def Disp.applied (t : Topic) : Disp → List Topic → Nat
  | _, [] => 0
  | d, x :: xs =>
    let (a, d') := d.dispatch x
    (if a && x == t then 1 else 0) + Disp.applied t d' xs

/-- A monotone counter persisted through a retained topic.  Heating total: `total` in µs, `q = US` (the payload
is `round(total.total_seconds())`, the restore `timedelta(seconds=v)`); water counter: `q = 1`. -/
structure Counter where
  q : Int
  total : Int              -- value held by the process
  retained : Option Int    -- broker: last retained publish
  pubs : List Int          -- all publishes, latest first
  deriving Repr, Inhabited

inductive CEv
  | add (d : Int)          -- the counter advances by d and is published (Duration.stop / water delta)
  | kill                   -- process killed, fresh process: total = 0
  | restore                -- the retained value (if any) is delivered and applied
  deriving Repr, DecidableEq, Inhabited

def Counter.step (c : Counter) : CEv → Counter
  | .add d => let v := divNearest (c.total + d) c.q
              { c with total := c.total + d, retained := some v, pubs := v :: c.pubs }
  | .kill => { c with total := 0 }
  | .restore => match c.retained with
    | some v => { c with total := v * c.q }
    | none => c

def Counter.run (c : Counter) (evs : List CEv) : Counter := evs.foldl Counter.step c

/-- after every `kill` the `restore` comes before the first `add` (the restore precedes the first post-restart
publish); `p` = a restore is pending -/
def restoreFirst : Bool → List CEv → Bool
  | _, [] => true
  | _, .kill :: es => restoreFirst true es
  | _, .restore :: es => restoreFirst false es
  | p, .add _ :: es => !p && restoreFirst p es

def nonDecreasing : List Int → Bool   -- latest first
  | a :: b :: r => decide (b ≤ a) && nonDecreasing (b :: r)
  | _ => true

end Poupool.Eco
