/-!
  Model of controller/sensor.py's `BaseReader` / `MovingAverage` (the thermostats and the dosing loops decide on these
  averages): one bounded window per sensor; `do_read` appends every reading that is not `None` to the window of ITS sensor
  and skips a missing reading without touching anything else.  Readings are integers here (the differential feeds the
  real class integers; nothing in the class depends on the numeric type).
-/
namespace Poupool.Reader

/-- `collections.deque(maxlen=n).append(v)` -/
def push (maxlen : Nat) (l : List Int) (v : Int) : List Int :=
  let l' := l ++ [v]
  l'.drop (l'.length - maxlen)

/-- one `do_read()`: `vals[i]` is the reading of sensor `i` (`none` = the driver returned None) -/
def doRead (maxlen : Nat) : List (List Int) → List (Option Int) → List (List Int)
  | [], _ => []
  | w :: ws, [] => w :: ws
  | w :: ws, v :: vs => (match v with | some x => push maxlen w x | none => w) :: doRead maxlen ws vs

def init (n : Nat) : List (List Int) := List.replicate n []

def run (maxlen n : Nat) (reads : List (List (Option Int))) : List (List Int) := reads.foldl (doRead maxlen) (init n)

/-- `MovingAverage.mean()` as an exact fraction (sum, count); `none` for an empty window -/
def mean (w : List Int) : Option (Int × Nat) := if w.isEmpty then none else some (w.sum, w.length)

/-- specification: the valid readings of sensor `i`, in order -/
def valid (i : Nat) (reads : List (List (Option Int))) : List Int := reads.filterMap fun r => (r.getD i none)

/-- the last `n` elements -/
def lastN (n : Nat) (l : List Int) : List Int := l.drop (l.length - n)

/-- specification helper: replace the reading of sensor `j` in read number `k` by `v` (`none` = the reading goes missing) -/
def setReading (k j : Nat) (v : Option Int) : List (List (Option Int)) → List (List (Option Int))
  | [] => []
  | r :: rs => match k with
    | 0 => r.set j v :: rs
    | k + 1 => r :: setReading k j v rs

end Poupool.Reader
