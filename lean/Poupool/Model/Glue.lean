import Poupool.Model.Actor
/-!
  Master / slave glue: how a fact about the master ("the last thing I told X was `halt`, or X told me it is
  halted") becomes a fact about the slave X once X's inbox has been served (FIFO inboxes, pykka).

  * the slave is ANY generated per-actor model `D` (its state evolves by `step D`);
  * its inbox is a FIFO list of messages tagged with their origin: the master, or anybody else (the dispatcher,
    the slave's own timers and self-tells, third actors);
  * the master's knowledge is the ghost bit: it is set when the master tells `halt` or when X answers
    `is_halt() = True` (pykka answers a query only after everything queued before it has been processed, and the
    master, being blocked in `get()`, has nothing else in flight), cleared when the master tells anything else
    or sits in a phase (`allowed`) in which X may legitimately start on somebody else's request;
  * messages that can take X out of its halt phase (`isStart`) and do not come from the master are guarded by a
    synchronous question to the master: they are only effective while the master is in an `allowed` phase.
-/
namespace Poupool.Glue
open Poupool

structure GSt where
  x : St
  inbox : List (Bool × Msg)      -- (from the master?, message); the head is served next
  ghost : Bool
  allowed : Bool
  deriving Repr

structure Spec where
  D : ActorDesc
  isHaltMsg : Msg → Bool          -- the master's messages that send X to its halt phase
  isHalt : St → Bool
  isStart : Msg → Bool

def noMaster (l : List (Bool × Msg)) : Prop := ∀ e ∈ l, e.1 = false

inductive GStep (S : Spec) : GSt → GSt → Prop
  /-- master: `X.halt.defer()`; it may be entering an allowed phase in the same handler (`a'`) -/
  | mHalt (g : GSt) (m : Msg) (a' : Bool) (hh : S.isHaltMsg m = true) (hm : m ∈ allMsgs S.D) :
      GStep S g { g with inbox := g.inbox ++ [(true, m)], ghost := !a', allowed := a' }
  /-- master: `X.is_halt().get()` answered True -/
  | mObserve (g : GSt) (a' : Bool) (h1 : noMaster g.inbox) (h2 : S.isHalt g.x = true) :
      GStep S g { g with ghost := !a', allowed := a' }
  /-- master tells X anything else -/
  | mTell (g : GSt) (m : Msg) (a' : Bool) (hm : m ∈ allMsgs S.D) :
      GStep S g { g with inbox := g.inbox ++ [(true, m)], ghost := false, allowed := a' }
  /-- master changes phase without talking to X -/
  | mMove (g : GSt) (a' : Bool) :
      GStep S g { g with ghost := g.ghost && !a', allowed := a' }
  /-- anybody else queues a message for X -/
  | other (g : GSt) (m : Msg) (hm : m ∈ allMsgs S.D) :
      GStep S g { g with inbox := g.inbox ++ [(false, m)] }
  /-- X serves the head of its inbox; a start message that is not the master's is refused (its guard asks the
      master) unless the master is in an allowed phase -/
  | deliver (g : GSt) (e : Bool × Msg) (rest : List (Bool × Msg)) (s' : St)
      (h : g.inbox = e :: rest) (hm : e.2 ∈ allMsgs S.D)
      (hs : if e.1 = false ∧ S.isStart e.2 = true ∧ g.allowed = false then s' = g.x else s' ∈ step S.D g.x e.2) :
      GStep S g { g with x := s', inbox := rest }

inductive GReach (S : Spec) : GSt → Prop
  | init (a : Bool) : GReach S { x := initSt S.D, inbox := [], ghost := false, allowed := a }
  | step {g g' : GSt} : GReach S g → GStep S g g' → GReach S g'

/-- the last message of the master still waiting in the inbox -/
def lastMaster : List (Bool × Msg) → Option Msg
  | [] => none
  | (b, m) :: rest =>
      match lastMaster rest with
      | some m' => some m'
      | none => if b then some m else none

theorem lastMaster_append (l : List (Bool × Msg)) (b : Bool) (m : Msg) :
    lastMaster (l ++ [(b, m)]) = if b then some m else lastMaster l := by
  induction l with
  | nil => cases b <;> simp [lastMaster]
  | cons e rest ih =>
      obtain ⟨b', m'⟩ := e
      simp only [List.cons_append, lastMaster, ih]
      cases b <;> simp

theorem lastMaster_none_of_noMaster {l : List (Bool × Msg)} (h : noMaster l) : lastMaster l = none := by
  induction l with
  | nil => rfl
  | cons e rest ih =>
      obtain ⟨b, m⟩ := e
      have hb : b = false := h (b, m) (by simp)
      have hr : noMaster rest := fun e he => h e (by simp [he])
      simp [lastMaster, ih hr, hb]

/-- The slave's state in the glue system is a reachable state of its own per-actor model. -/
theorem greach_x (S : Spec) {g : GSt} (h : GReach S g) : Reach S.D g.x := by
  induction h with
  | init a => exact Reach.init
  | @step g0 g1 _ hs ih =>
      cases hs with
      | mHalt => exact ih
      | mObserve => exact ih
      | mTell => exact ih
      | mMove => exact ih
      | other => exact ih
      | deliver e rest s' h hm hs =>
          by_cases hc : e.1 = false ∧ S.isStart e.2 = true ∧ g0.allowed = false
          · rw [if_pos hc] at hs
            subst hs
            exact ih
          · rw [if_neg hc] at hs
            exact Reach.step e.2 ih hm hs

def Inv (S : Spec) (g : GSt) : Prop :=
  (g.ghost = true → g.allowed = false) ∧
  (g.ghost = true →
    match lastMaster g.inbox with
    | some m => S.isHaltMsg m = true
    | none => S.isHalt g.x = true)

/-- Hypotheses on the slave, both decidable on its certificate:
    H1 processing `halt` always ends in the halt phase;
    H2 in the halt phase no message other than a start message leaves the halt phase. -/
structure SlaveOK (S : Spec) : Prop where
  h1 : ∀ s s' m, Reach S.D s → S.isHaltMsg m = true → s' ∈ step S.D s m → S.isHalt s' = true
  h2 : ∀ s s' m, Reach S.D s → S.isHalt s = true → m ∈ allMsgs S.D → S.isStart m = false →
        s' ∈ step S.D s m → S.isHalt s' = true

theorem inv_of_reach (S : Spec) (ok : SlaveOK S) {g : GSt} (h : GReach S g) : Inv S g := by
  induction h with
  | init a => exact ⟨by simp, by simp⟩
  | @step g g' hr hs ih =>
      have hx := greach_x S hr
      obtain ⟨ia, ig⟩ := ih
      cases hs with
      | mHalt m a' hh hm =>
          refine ⟨by cases a' <;> simp, ?_⟩
          intro _
          simp [lastMaster_append, hh]
      | mObserve a' h1 h2 =>
          refine ⟨by cases a' <;> simp, ?_⟩
          intro _
          simp only [lastMaster_none_of_noMaster h1]
          exact h2
      | mTell m a' hm => exact ⟨by simp, by simp⟩
      | mMove a' =>
          refine ⟨by cases a' <;> simp, ?_⟩
          intro hg
          simp only [Bool.and_eq_true] at hg
          exact ig hg.1
      | other m hm =>
          refine ⟨ia, ?_⟩
          intro hg
          have := ig hg
          simp only [lastMaster_append, Bool.false_eq_true, if_false]
          exact this
      | deliver e rest s' hin hm hs =>
          refine ⟨ia, ?_⟩
          intro hg
          have hgal := ia hg
          have hI := ig hg
          obtain ⟨b, m⟩ := e
          simp only [hin, lastMaster] at hI
          simp only at hs hm ⊢
          cases hlr : lastMaster rest with
          | some m' =>
              simp only [hlr] at hI ⊢
              exact hI
          | none =>
              simp only [hlr] at hI ⊢
              cases b with
              | true =>
                  -- the head was the master's last message: it is `halt`
                  simp only [Bool.true_eq_false, false_and, if_false] at hs
                  exact ok.h1 _ _ _ hx hI hs
              | false =>
                  simp only [Bool.false_eq_true, if_false] at hI
                  by_cases hst : S.isStart m = true
                  · -- a foreign start message while the master is not in an allowed phase: refused
                    simp only [hst, hgal, and_self, if_true] at hs
                    subst hs
                    exact hI
                  · have hst' : S.isStart m = false := by simpa using hst
                    simp only [hst', Bool.false_eq_true, false_and, and_false, if_false] at hs
                    exact ok.h2 _ _ _ hx hI hm hst' hs

/-- **Glue theorem.** In every reachable state of the pair, for every interleaving: if the master knows X to be
    halted and none of the master's messages is still waiting in X's inbox, then X is in its halt phase. -/
theorem halted_when_served (S : Spec) (ok : SlaveOK S) {g : GSt} (h : GReach S g)
    (hg : g.ghost = true) (hserved : noMaster g.inbox) : S.isHalt g.x = true := by
  have := (inv_of_reach S ok h).2 hg
  simpa only [lastMaster_none_of_noMaster hserved] using this

end Poupool.Glue
