/-!
  Hand-written model of the scheduled-heating policy (controller/heating.py: do_repeat_waiting, do_repeat_heating,
  on_exit_heating, setpoint, start_hour, __set_next_start).  Temperatures in milli-degrees (Int), time in microseconds
  since a local midnight (no DST).  Tied to the code by the differential correspondence of checks/c16.py (the REAL
  methods are called on the real actor with stubbed temperature reader / Filtration answers).
-/
namespace Poupool.Heating

def day : Int := 86400 * 1000000
def hourUs : Int := 3600 * 1000000

structure Cfg where
  hystDown : Int
  hystUp : Int
  hystMin : Int
  deriving Repr

structure St where
  enable : Bool
  nextStart : Int
  startHour : Int
  setpoint : Int
  minTemp : Int
  deriving Repr

/-- `tm.replace(hour=h, minute=0, ...) + 1 day` -/
def nextDayStart (now : Int) (hour : Int) : Int := (now - now % day) + hour * hourUs + day

inductive WaitAct | rearm | skipToday | heat
  deriving Repr, DecidableEq

/-- `temp is not None and (temp - HYSTERESIS_DOWN) >= setpoint` -/
def poolReached (c : Cfg) (s : St) : Option Int → Bool
  | some t => decide (t - c.hystDown ≥ s.setpoint)
  | none => false

/-- `temp is not None and temp < min_temp` -/
def airTooCold (s : St) : Option Int → Bool
  | some a => decide (a < s.minTemp)
  | none => false

/-- `temperature is None or temperature >= setpoint + HYSTERESIS_UP` -/
def poolDone (c : Cfg) (s : St) : Option Int → Bool
  | some t => decide (t ≥ s.setpoint + c.hystUp)
  | none => true

/-- `temperature is not None and temperature < min_temp - HYSTERESIS_MIN_TEMP` -/
def airStop (c : Cfg) (s : St) : Option Int → Bool
  | some a => decide (a < s.minTemp - c.hystMin)
  | none => false

/-- do_repeat_waiting.  `ready` = Filtration is in eco_waiting/eco_normal; `allow` = after `Filtration.heat()` it is in
    heating_running.  Returns the action and the new state. -/
def waitingPoll (c : Cfg) (s : St) (now : Int) (pool air : Option Int) (ready allow : Bool) : WaitAct × St :=
  if !s.enable then (.rearm, s)
  else if now < s.nextStart then (.rearm, s)
  else if poolReached c s pool then
    (.skipToday, { s with nextStart := nextDayStart now s.startHour })
  else if airTooCold s air then (.rearm, s)
  else if !ready then (.rearm, s)
  else if allow then (.heat, s) else (.rearm, s)

inductive HeatAct | rearm | stop
  deriving Repr, DecidableEq

/-- do_repeat_heating -/
def heatingPoll (c : Cfg) (s : St) (pool air : Option Int) : HeatAct :=
  if !s.enable then .stop
  else if poolDone c s pool then .stop
  else if airStop c s air then .stop
  else .rearm

/-- on_exit_heating -/
def exitHeating (s : St) (now : Int) : St := { s with nextStart := nextDayStart now s.startHour }

/-- setpoint(value) -/
def setSetpoint (s : St) (now : Int) (v : Int) : St :=
  { s with setpoint := v, nextStart := if s.nextStart > now then s.nextStart - day else s.nextStart }

/-- start_hour(value) -/
def setStartHour (s : St) (now : Int) (h : Int) : St :=
  let ns := nextDayStart now h
  { s with startHour := h, nextStart := if ns < now then ns - day else ns }

end Poupool.Heating
