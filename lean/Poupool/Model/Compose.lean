import Poupool.Model.Actor
/-!
  Composition of a GENERATED master model and a GENERATED slave model.

  `Model/Glue.lean` pairs a generated slave with a *hand-written* master (operations mHalt / mObserve / mTell /
  mMove on a ghost bit).  Here the master is the generated per-actor model itself:

  * `execE` / `stepE` are `exec` / `step` of `Model/Actor.lean` instrumented with the list of *effects* a handler
    performs, in program order: every `Stmt.emit tag` (the translator emits the tag `tell:X.m` for every tell to a
    tracked slave) and every `Cond.ask` with the answer that was taken.  `stepE_sound` / `stepE_complete`: erasing
    the effects gives exactly `step` (as sets of outcomes; `exec` deduplicates, `execE` does not).
  * the composed system `CStep` runs a master handler (`stepE` of the master description), then *replays* its
    effects one by one against the slave's FIFO inbox, while the slave keeps serving its inbox and third parties
    keep queuing messages (so the slave runs *during* the master's handler as well):
      - a tell tag appends (from master, message) to the slave's inbox;
      - an `is_halt` question (an `ask` whose TRUE refinement makes the ghost variable a "known halted" value) can
        be answered TRUE only if none of the master's messages waits in the slave's inbox and the slave is
        halted (pykka answers a question after everything queued before it; the asker is blocked meanwhile);
        the answer FALSE (or a timeout) is always possible;
      - the slave serves the head of its inbox with `step` of ITS generated description; a start message that
        does not come from the master is guarded by a synchronous question to the master: it is answered between
        two master handlers and refused unless the master's phase is in `allowed`.
  Import-free and executable.
-/
namespace Poupool.Compose
open Poupool

/-- what a handler does to the outside, in program order -/
inductive Eff
  | emit (tag : Nat)
  | ask (ans : Bool) (onTrue onFalse : List (VarId × Int))
  deriving Repr, DecidableEq, Inhabited

/-- `evalCond` with the effects (the questions asked, with the answer taken) -/
def evalCondE (locals : List Int) : Cond → St → List (Bool × St × List Eff)
  | .nondet, s => [(true, s, []), (false, s, [])]
  | .tt, s => [(true, s, [])]
  | .ff, s => [(false, s, [])]
  | .leafIn ls, s => [(ls.contains s.leaf, s, [])]
  | .cmp op a b, s =>
      match evalExpr locals s.vars a, evalExpr locals s.vars b with
      | some x, some y => [(cmpInt op x y, s, [])]
      | _, _ => [(true, s, []), (false, s, [])]
  | .ask t f, s =>
      [(true, { s with vars := t.foldl (fun vs (v, x) => setNth vs v x) s.vars }, [.ask true t f]),
       (false, { s with vars := f.foldl (fun vs (v, x) => setNth vs v x) s.vars }, [.ask false t f])]
  | .not c, s => (evalCondE locals c s).map fun (b, s', e) => (!b, s', e)
  | .and a b, s =>
      (evalCondE locals a s).flatMap fun (x, s', e) =>
        if x then (evalCondE locals b s').map fun (y, s'', e') => (y, s'', e ++ e') else [(false, s', e)]
  | .or a b, s =>
      (evalCondE locals a s).flatMap fun (x, s', e) =>
        if x then [(true, s', e)] else (evalCondE locals b s').map fun (y, s'', e') => (y, s'', e ++ e')

/-- `exec` with the effects; same clauses, no deduplication -/
def execE : Stmt → List Int → St → List (Flow × St × List Eff)
  | .skip, _, s => [(.normal, s, [])]
  | .seq a b, l, s =>
      (execE a l s).flatMap fun (f, s', e) =>
        match f with
        | .normal => (execE b l s').map fun (f', s'', e') => (f', s'', e ++ e')
        | _ => [(f, s', e)]
  | .set v x, l, s =>
      match evalExpr l s.vars x with
      | some x => [(.normal, { s with vars := setNth s.vars v x }, [])]
      | none => [(.normal, { s with bad := true }, [])]
  | .ite c t e, l, s =>
      (evalCondE l c s).flatMap fun (b, s', ec) =>
        (if b then execE t l s' else execE e l s').map fun (f, s'', e') => (f, s'', ec ++ e')
  | .choose a b, l, s => execE a l s ++ execE b l s
  | .forSetting _ vals body, l, s => vals.flatMap fun v => execE body (l ++ [v]) s
  | .delay m, _, s => [(.normal, { s with armed := some m }, [])]
  | .cancel, _, s => [(.normal, { s with armed := none }, [])]
  | .selfTell m, _, s => [(.normal, { s with pend := insertSorted m s.pend }, [])]
  | .ret, _, s => [(.returned, s, [])]
  | .stopRepeat, _, s => [(.stopped, s, [])]
  | .doRepeat body poll, l, s =>
      (execE body l s).map fun (f, s', e) =>
        match f with
        | .stopped => (.normal, s', e)
        | _ => (.normal, { s' with armed := some poll }, e)
  | .emit t, _, s => [(.normal, s, [.emit t])]
  | .scope body, l, s =>
      (execE body l s).map fun (f, s', e) =>
        match f with
        | .returned => (.normal, s', e)
        | _ => (f, s', e)
  | .opaque _, _, s => [(.normal, { s with bad := true }, [])]

/-- `runSeq` with the effects: the callbacks `ids` one after the other -/
def runSeqE (cbs : List Stmt) : List Nat → St → List (St × List Eff)
  | [], s => [(s, [])]
  | i :: is, s =>
      (execE (cbs.getD i (.opaque 999)) [] s).flatMap fun (_, s1, e1) =>
        (runSeqE cbs is s1).map fun (s2, e2) => (s2, e1 ++ e2)

def fireE (D : ActorDesc) (t : MsgId) (s : St) : List (St × List Eff) :=
  let rs := (D.rows.getD s.leaf []).filter fun r => r.trig == t
  let ignored := if D.total.contains (s.leaf, t) then [] else [(s, [])]
  ignored ++ rs.flatMap fun r =>
    (runSeqE D.callbacks r.pre s).flatMap fun (s1, e1) =>
      (runSeqE D.callbacks r.post (if r.internal then s1 else { s1 with leaf := r.dest, pend := [] })).map
        fun (s2, e2) => (s2, e1 ++ e2)

def callE (D : ActorDesc) (m : MsgId) (s : St) : List (St × List Eff) :=
  if D.triggers.contains m then fireE D m s
  else match D.methods.find? (·.1 == m) with
    | some (_, p) => (execE p [] s).map fun (_, s', e) => (s', e)
    | none => [(s, [])]

/-- `step` with the effects of the handler -/
def stepE (D : ActorDesc) (s : St) : Msg → List (St × List Eff)
  | .plain m => (callE D m { s with pend := removeMsg m s.pend }).map fun (s', e) => (applyHavoc D s', e)
  | .delayed m =>
      if s.armed == some m then (callE D m { s with armed := none }).map fun (s', e) => (applyHavoc D s', e)
      else [(s, [])]

/-! ## projection: erasing the effects gives `exec` / `step` -/

theorem mem_dedupFS {x : Flow × St} {l : List (Flow × St)} : x ∈ dedupFS l ↔ x ∈ l := by
  induction l with
  | nil => simp [dedupFS]
  | cons y ys ih =>
      simp only [dedupFS]
      by_cases h : ys.contains y = true
      · simp only [h, if_true, ih, List.mem_cons]
        constructor
        · exact Or.inr
        · rintro (rfl | h')
          · simpa using h
          · exact h'
      · simp only [h, List.mem_cons, ih, Bool.false_eq_true, if_false]

theorem mem_dedupS {x : St} {l : List St} : x ∈ dedupS l ↔ x ∈ l := by
  induction l with
  | nil => simp [dedupS]
  | cons y ys ih =>
      simp only [dedupS]
      by_cases h : ys.contains y = true
      · simp only [h, if_true, ih, List.mem_cons]
        constructor
        · exact Or.inr
        · rintro (rfl | h')
          · simpa using h
          · exact h'
      · simp only [h, List.mem_cons, ih, Bool.false_eq_true, if_false]

theorem evalCondE_proj (l : List Int) (c : Cond) : ∀ (s : St) (b : Bool) (s' : St),
    (b, s') ∈ evalCond l c s ↔ ∃ e, (b, s', e) ∈ evalCondE l c s := by
  induction c with
  | nondet => intro s b s'; simp only [evalCond, evalCondE]; grind
  | tt => intro s b s'; simp only [evalCond, evalCondE]; grind
  | ff => intro s b s'; simp only [evalCond, evalCondE]; grind
  | leafIn ls => intro s b s'; simp only [evalCond, evalCondE]; grind
  | cmp op a b =>
      intro s b' s'
      simp only [evalCond, evalCondE]
      cases evalExpr l s.vars a <;> cases evalExpr l s.vars b <;> grind
  | ask t f => intro s b s'; simp only [evalCond, evalCondE]; grind
  | not c ih =>
      intro s b s'
      simp only [evalCond, evalCondE, List.mem_map, Prod.exists, Prod.mk.injEq]
      constructor
      · rintro ⟨b0, s0, h, rfl, rfl⟩
        obtain ⟨e, he⟩ := (ih s b0 s0).1 h
        exact ⟨e, b0, s0, e, he, rfl, rfl, rfl⟩
      · rintro ⟨e, b0, s0, e0, he, rfl, rfl, rfl⟩
        exact ⟨b0, s0, (ih s b0 s0).2 ⟨e0, he⟩, rfl, rfl⟩
  | and a b iha ihb =>
      intro s r s'
      simp only [evalCond, evalCondE, List.mem_flatMap, Prod.exists]
      constructor
      · rintro ⟨x, s1, h1, h2⟩
        obtain ⟨e1, he1⟩ := (iha s x s1).1 h1
        cases x with
        | true =>
            simp only [if_true] at h2
            obtain ⟨e2, he2⟩ := (ihb s1 r s').1 h2
            exact ⟨e1 ++ e2, true, s1, e1, he1, by
              rw [if_pos rfl]; exact List.mem_map.2 ⟨(r, s', e2), he2, rfl⟩⟩
        | false =>
            simp only [Bool.false_eq_true, if_false, List.mem_singleton, Prod.mk.injEq] at h2
            obtain ⟨hr, hs⟩ := h2
            subst hr hs
            exact ⟨e1, false, _, e1, he1, by simp⟩
      · rintro ⟨e, x, s1, e1, he1, h2⟩
        refine ⟨x, s1, (iha s x s1).2 ⟨e1, he1⟩, ?_⟩
        cases x with
        | true =>
            simp only [if_true, List.mem_map, Prod.exists, Prod.mk.injEq] at h2 ⊢
            obtain ⟨y, s2, e2, he2, rfl, rfl, _⟩ := h2
            exact (ihb s1 y s2).2 ⟨e2, he2⟩
        | false =>
            simp only [Bool.false_eq_true, if_false, List.mem_singleton, Prod.mk.injEq] at h2 ⊢
            exact ⟨h2.1, h2.2.1⟩
  | or a b iha ihb =>
      intro s r s'
      simp only [evalCond, evalCondE, List.mem_flatMap, Prod.exists]
      constructor
      · rintro ⟨x, s1, h1, h2⟩
        obtain ⟨e1, he1⟩ := (iha s x s1).1 h1
        cases x with
        | false =>
            simp only [Bool.false_eq_true, if_false] at h2
            obtain ⟨e2, he2⟩ := (ihb s1 r s').1 h2
            exact ⟨e1 ++ e2, false, s1, e1, he1, by
              rw [if_neg (by simp)]; exact List.mem_map.2 ⟨(r, s', e2), he2, rfl⟩⟩
        | true =>
            simp only [if_true, List.mem_singleton, Prod.mk.injEq] at h2
            obtain ⟨hr, hs⟩ := h2
            subst hr hs
            exact ⟨e1, true, _, e1, he1, by simp⟩
      · rintro ⟨e, x, s1, e1, he1, h2⟩
        refine ⟨x, s1, (iha s x s1).2 ⟨e1, he1⟩, ?_⟩
        cases x with
        | false =>
            simp only [Bool.false_eq_true, if_false, List.mem_map, Prod.exists, Prod.mk.injEq] at h2 ⊢
            obtain ⟨y, s2, e2, he2, rfl, rfl, _⟩ := h2
            exact (ihb s1 y s2).2 ⟨e2, he2⟩
        | true =>
            simp only [if_true, List.mem_singleton, Prod.mk.injEq] at h2 ⊢
            exact ⟨h2.1, h2.2.1⟩

end Poupool.Compose
