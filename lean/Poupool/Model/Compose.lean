import Poupool.Model.Actor
/-!
  Composition of a GENERATED master model and a GENERATED slave model.

  `Model/Glue.lean` pairs a generated slave with a *hand-written* master (operations mHalt / mObserve / mTell /
  mMove on a ghost bit).  Here the master is the generated per-actor model itself:

  * `execE` / `stepE` are `exec` / `step` of `Model/Actor.lean` instrumented with the list of *effects* a handler
    performs, in program order: every `Stmt.emit tag` (the translator emits the tag `tell:X.m` for every tell to a
    tracked slave) and every `Cond.ask` with the answer that was taken.  `stepE_sound` / `stepE_complete`: erasing
    the effects gives exactly `step` (as sets of outcomes; `exec` deduplicates, `execE` does not).
  * the composed system `CStep` runs a master handler (`stepE` of the master description), then *replays* its
    effects one by one against the slave's FIFO inbox, while the slave keeps serving its inbox and third parties
    keep queuing messages (so the slave runs *during* the master's handler as well):
      - a tell tag appends (from master, message) to the slave's inbox;
      - an answer to a question that is an *observation* of the slave (the refinement of that answer makes the
        ghost variable a "known halted" value: `is_halt()` TRUE, `is_heating()` FALSE) is possible only if none of
        the master's messages waits in the slave's inbox and the slave is halted (pykka answers a question after
        everything queued before it; the asker is blocked meanwhile); any other answer, or a timeout, is always
        possible;
      - the slave serves the head of its inbox with `step` of ITS generated description; a start message that
        does not come from the master is guarded by a synchronous question to the master: it is answered between
        two master handlers and refused unless the master's phase is in `allowed`.
  Import-free and executable.
-/
namespace Poupool.Compose
open Poupool

/-- what a handler does to the outside, in program order -/
inductive Eff
  | emit (tag : Nat)
  | ask (ans : Bool) (onTrue onFalse : List (VarId × Int))
  deriving Repr, DecidableEq, Inhabited

/-- `evalCond` with the effects (the questions asked, with the answer taken) -/
def evalCondE (locals : List Int) : Cond → St → List (Bool × St × List Eff)
  | .nondet, s => [(true, s, []), (false, s, [])]
  | .tt, s => [(true, s, [])]
  | .ff, s => [(false, s, [])]
  | .leafIn ls, s => [(ls.contains s.leaf, s, [])]
  | .cmp op a b, s =>
      match evalExpr locals s.vars a, evalExpr locals s.vars b with
      | some x, some y => [(cmpInt op x y, s, [])]
      | _, _ => [(true, s, []), (false, s, [])]
  | .ask t f, s =>
      [(true, { s with vars := t.foldl (fun vs (v, x) => setNth vs v x) s.vars }, [.ask true t f]),
       (false, { s with vars := f.foldl (fun vs (v, x) => setNth vs v x) s.vars }, [.ask false t f])]
  | .not c, s => (evalCondE locals c s).map fun (b, s', e) => (!b, s', e)
  | .and a b, s =>
      (evalCondE locals a s).flatMap fun (x, s', e) =>
        if x then (evalCondE locals b s').map fun (y, s'', e') => (y, s'', e ++ e') else [(false, s', e)]
  | .or a b, s =>
      (evalCondE locals a s).flatMap fun (x, s', e) =>
        if x then [(true, s', e)] else (evalCondE locals b s').map fun (y, s'', e') => (y, s'', e ++ e')

/-- `exec` with the effects; same clauses, no deduplication -/
def execE : Stmt → List Int → St → List (Flow × St × List Eff)
  | .skip, _, s => [(.normal, s, [])]
  | .seq a b, l, s =>
      (execE a l s).flatMap fun (f, s', e) =>
        match f with
        | .normal => (execE b l s').map fun (f', s'', e') => (f', s'', e ++ e')
        | _ => [(f, s', e)]
  | .set v x, l, s =>
      match evalExpr l s.vars x with
      | some x => [(.normal, { s with vars := setNth s.vars v x }, [])]
      | none => [(.normal, { s with bad := true }, [])]
  | .ite c t e, l, s =>
      (evalCondE l c s).flatMap fun (b, s', ec) =>
        (if b then execE t l s' else execE e l s').map fun (f, s'', e') => (f, s'', ec ++ e')
  | .choose a b, l, s => execE a l s ++ execE b l s
  | .forSetting _ vals body, l, s => vals.flatMap fun v => execE body (l ++ [v]) s
  | .delay m, _, s => [(.normal, { s with armed := some m }, [])]
  | .cancel, _, s => [(.normal, { s with armed := none }, [])]
  | .selfTell m, _, s => [(.normal, { s with pend := insertSorted m s.pend }, [])]
  | .ret, _, s => [(.returned, s, [])]
  | .stopRepeat, _, s => [(.stopped, s, [])]
  | .doRepeat body poll, l, s =>
      (execE body l s).map fun (f, s', e) =>
        match f with
        | .stopped => (.normal, s', e)
        | _ => (.normal, { s' with armed := some poll }, e)
  | .emit t, _, s => [(.normal, s, [.emit t])]
  | .scope body, l, s =>
      (execE body l s).map fun (f, s', e) =>
        match f with
        | .returned => (.normal, s', e)
        | _ => (f, s', e)
  | .opaque _, _, s => [(.normal, { s with bad := true }, [])]

/-- `runSeq` with the effects: the callbacks `ids` one after the other -/
def runSeqE (cbs : List Stmt) : List Nat → St → List (St × List Eff)
  | [], s => [(s, [])]
  | i :: is, s =>
      (execE (cbs.getD i (.opaque 999)) [] s).flatMap fun (_, s1, e1) =>
        (runSeqE cbs is s1).map fun (s2, e2) => (s2, e1 ++ e2)

def fireE (D : ActorDesc) (t : MsgId) (s : St) : List (St × List Eff) :=
  let rs := (D.rows.getD s.leaf []).filter fun r => r.trig == t
  let ignored := if D.total.contains (s.leaf, t) then [] else [(s, [])]
  ignored ++ rs.flatMap fun r =>
    (runSeqE D.callbacks r.pre s).flatMap fun (s1, e1) =>
      (runSeqE D.callbacks r.post (if r.internal then s1 else { s1 with leaf := r.dest, pend := [] })).map
        fun (s2, e2) => (s2, e1 ++ e2)

def callE (D : ActorDesc) (m : MsgId) (s : St) : List (St × List Eff) :=
  if D.triggers.contains m then fireE D m s
  else match D.methods.find? (·.1 == m) with
    | some (_, p) => (execE p [] s).map fun (_, s', e) => (s', e)
    | none => [(s, [])]

/-- `step` with the effects of the handler -/
def stepE (D : ActorDesc) (s : St) : Msg → List (St × List Eff)
  | .plain m => (callE D m { s with pend := removeMsg m s.pend }).map fun (s', e) => (applyHavoc D s', e)
  | .delayed m =>
      if s.armed == some m then (callE D m { s with armed := none }).map fun (s', e) => (applyHavoc D s', e)
      else [(s, [])]

/-! ## projection: erasing the effects gives `exec` / `step` -/

theorem mem_dedupFS {x : Flow × St} {l : List (Flow × St)} : x ∈ dedupFS l ↔ x ∈ l := by
  induction l with
  | nil => simp [dedupFS]
  | cons y ys ih =>
      simp only [dedupFS]
      by_cases h : ys.contains y = true
      · simp only [h, if_true, ih, List.mem_cons]
        constructor
        · exact Or.inr
        · rintro (rfl | h')
          · simpa using h
          · exact h'
      · simp only [h, List.mem_cons, ih, Bool.false_eq_true, if_false]

theorem mem_dedupS {x : St} {l : List St} : x ∈ dedupS l ↔ x ∈ l := by
  induction l with
  | nil => simp [dedupS]
  | cons y ys ih =>
      simp only [dedupS]
      by_cases h : ys.contains y = true
      · simp only [h, if_true, ih, List.mem_cons]
        constructor
        · exact Or.inr
        · rintro (rfl | h')
          · simpa using h
          · exact h'
      · simp only [h, List.mem_cons, ih, Bool.false_eq_true, if_false]

theorem evalCondE_proj (l : List Int) (c : Cond) : ∀ (s : St) (b : Bool) (s' : St),
    (b, s') ∈ evalCond l c s ↔ ∃ e, (b, s', e) ∈ evalCondE l c s := by
  induction c with
  | nondet => intro s b s'; simp only [evalCond, evalCondE]; grind
  | tt => intro s b s'; simp only [evalCond, evalCondE]; grind
  | ff => intro s b s'; simp only [evalCond, evalCondE]; grind
  | leafIn ls => intro s b s'; simp only [evalCond, evalCondE]; grind
  | cmp op a b =>
      intro s b' s'
      simp only [evalCond, evalCondE]
      cases evalExpr l s.vars a <;> cases evalExpr l s.vars b <;> grind
  | ask t f => intro s b s'; simp only [evalCond, evalCondE]; grind
  | not c ih =>
      intro s b s'
      simp only [evalCond, evalCondE, List.mem_map, Prod.exists, Prod.mk.injEq]
      constructor
      · rintro ⟨b0, s0, h, rfl, rfl⟩
        obtain ⟨e, he⟩ := (ih s b0 s0).1 h
        exact ⟨e, b0, s0, e, he, rfl, rfl, rfl⟩
      · rintro ⟨e, b0, s0, e0, he, rfl, rfl, rfl⟩
        exact ⟨b0, s0, (ih s b0 s0).2 ⟨e0, he⟩, rfl, rfl⟩
  | and a b iha ihb =>
      intro s r s'
      simp only [evalCond, evalCondE, List.mem_flatMap, Prod.exists]
      constructor
      · rintro ⟨x, s1, h1, h2⟩
        obtain ⟨e1, he1⟩ := (iha s x s1).1 h1
        cases x with
        | true =>
            simp only [if_true] at h2
            obtain ⟨e2, he2⟩ := (ihb s1 r s').1 h2
            exact ⟨e1 ++ e2, true, s1, e1, he1, by
              rw [if_pos rfl]; exact List.mem_map.2 ⟨(r, s', e2), he2, rfl⟩⟩
        | false =>
            simp only [Bool.false_eq_true, if_false, List.mem_singleton, Prod.mk.injEq] at h2
            obtain ⟨hr, hs⟩ := h2
            subst hr hs
            exact ⟨e1, false, _, e1, he1, by simp⟩
      · rintro ⟨e, x, s1, e1, he1, h2⟩
        refine ⟨x, s1, (iha s x s1).2 ⟨e1, he1⟩, ?_⟩
        cases x with
        | true =>
            simp only [if_true, List.mem_map, Prod.exists, Prod.mk.injEq] at h2 ⊢
            obtain ⟨y, s2, e2, he2, rfl, rfl, _⟩ := h2
            exact (ihb s1 y s2).2 ⟨e2, he2⟩
        | false =>
            simp only [Bool.false_eq_true, if_false, List.mem_singleton, Prod.mk.injEq] at h2 ⊢
            exact ⟨h2.1, h2.2.1⟩
  | or a b iha ihb =>
      intro s r s'
      simp only [evalCond, evalCondE, List.mem_flatMap, Prod.exists]
      constructor
      · rintro ⟨x, s1, h1, h2⟩
        obtain ⟨e1, he1⟩ := (iha s x s1).1 h1
        cases x with
        | false =>
            simp only [Bool.false_eq_true, if_false] at h2
            obtain ⟨e2, he2⟩ := (ihb s1 r s').1 h2
            exact ⟨e1 ++ e2, false, s1, e1, he1, by
              rw [if_neg (by simp)]; exact List.mem_map.2 ⟨(r, s', e2), he2, rfl⟩⟩
        | true =>
            simp only [if_true, List.mem_singleton, Prod.mk.injEq] at h2
            obtain ⟨hr, hs⟩ := h2
            subst hr hs
            exact ⟨e1, true, _, e1, he1, by simp⟩
      · rintro ⟨e, x, s1, e1, he1, h2⟩
        refine ⟨x, s1, (iha s x s1).2 ⟨e1, he1⟩, ?_⟩
        cases x with
        | false =>
            simp only [Bool.false_eq_true, if_false, List.mem_map, Prod.exists, Prod.mk.injEq] at h2 ⊢
            obtain ⟨y, s2, e2, he2, rfl, rfl, _⟩ := h2
            exact (ihb s1 y s2).2 ⟨e2, he2⟩
        | true =>
            simp only [if_true, List.mem_singleton, Prod.mk.injEq] at h2 ⊢
            exact ⟨h2.1, h2.2.1⟩

theorem execE_proj (p : Stmt) : ∀ (l : List Int) (s : St) (f : Flow) (s' : St),
    (f, s') ∈ exec p l s ↔ ∃ e, (f, s', e) ∈ execE p l s := by
  induction p with
  | skip => intro l s f s'; simp only [exec, execE]; grind
  | seq a b iha ihb =>
      intro l s f s'
      simp only [exec, execE, List.mem_flatMap, mem_dedupFS, Prod.exists]
      constructor
      · rintro ⟨f1, s1, h1, h2⟩
        obtain ⟨e1, he1⟩ := (iha l s f1 s1).1 h1
        cases f1 with
        | normal =>
            simp only at h2
            obtain ⟨e2, he2⟩ := (ihb l s1 f s').1 h2
            exact ⟨e1 ++ e2, .normal, s1, e1, he1, List.mem_map.2 ⟨(f, s', e2), he2, rfl⟩⟩
        | returned =>
            simp only [List.mem_singleton, Prod.mk.injEq] at h2
            obtain ⟨hf, hs⟩ := h2
            subst hf hs
            exact ⟨e1, .returned, _, e1, he1, by simp⟩
        | stopped =>
            simp only [List.mem_singleton, Prod.mk.injEq] at h2
            obtain ⟨hf, hs⟩ := h2
            subst hf hs
            exact ⟨e1, .stopped, _, e1, he1, by simp⟩
      · rintro ⟨e, f1, s1, e1, he1, h2⟩
        refine ⟨f1, s1, (iha l s f1 s1).2 ⟨e1, he1⟩, ?_⟩
        cases f1 with
        | normal =>
            simp only [List.mem_map, Prod.exists, Prod.mk.injEq] at h2 ⊢
            obtain ⟨f2, s2, e2, he2, rfl, rfl, _⟩ := h2
            exact (ihb l s1 f2 s2).2 ⟨e2, he2⟩
        | returned =>
            simp only [List.mem_singleton, Prod.mk.injEq] at h2 ⊢
            exact ⟨h2.1, h2.2.1⟩
        | stopped =>
            simp only [List.mem_singleton, Prod.mk.injEq] at h2 ⊢
            exact ⟨h2.1, h2.2.1⟩
  | set v x =>
      intro l s f s'
      simp only [exec, execE]
      cases evalExpr l s.vars x <;> grind
  | ite c t e iht ihe =>
      intro l s f s'
      simp only [exec, execE, List.mem_flatMap, Prod.exists]
      constructor
      · rintro ⟨b, s1, h1, h2⟩
        obtain ⟨ec, hec⟩ := (evalCondE_proj l c s b s1).1 h1
        cases b with
        | true =>
            simp only [if_true] at h2
            obtain ⟨e2, he2⟩ := (iht l s1 f s').1 h2
            exact ⟨ec ++ e2, true, s1, ec, hec, by
              rw [if_pos rfl]; exact List.mem_map.2 ⟨(f, s', e2), he2, rfl⟩⟩
        | false =>
            simp only [Bool.false_eq_true, if_false] at h2
            obtain ⟨e2, he2⟩ := (ihe l s1 f s').1 h2
            exact ⟨ec ++ e2, false, s1, ec, hec, by
              rw [if_neg (by simp)]; exact List.mem_map.2 ⟨(f, s', e2), he2, rfl⟩⟩
      · rintro ⟨e0, b, s1, ec, hec, h2⟩
        refine ⟨b, s1, (evalCondE_proj l c s b s1).2 ⟨ec, hec⟩, ?_⟩
        cases b with
        | true =>
            simp only [if_true, List.mem_map, Prod.exists, Prod.mk.injEq] at h2 ⊢
            obtain ⟨f2, s2, e2, he2, rfl, rfl, _⟩ := h2
            exact (iht l s1 f2 s2).2 ⟨e2, he2⟩
        | false =>
            simp only [Bool.false_eq_true, if_false, List.mem_map, Prod.exists, Prod.mk.injEq] at h2 ⊢
            obtain ⟨f2, s2, e2, he2, rfl, rfl, _⟩ := h2
            exact (ihe l s1 f2 s2).2 ⟨e2, he2⟩
  | choose a b iha ihb =>
      intro l s f s'
      simp only [exec, execE, List.mem_append, iha l s f s', ihb l s f s']
      constructor
      · rintro (⟨e, h⟩ | ⟨e, h⟩)
        · exact ⟨e, Or.inl h⟩
        · exact ⟨e, Or.inr h⟩
      · rintro ⟨e, h | h⟩
        · exact Or.inl ⟨e, h⟩
        · exact Or.inr ⟨e, h⟩
  | forSetting loc vals body ih =>
      intro l s f s'
      simp only [exec, execE, List.mem_flatMap]
      constructor
      · rintro ⟨v, hv, h⟩
        obtain ⟨e, he⟩ := (ih (l ++ [v]) s f s').1 h
        exact ⟨e, v, hv, he⟩
      · rintro ⟨e, v, hv, he⟩
        exact ⟨v, hv, (ih (l ++ [v]) s f s').2 ⟨e, he⟩⟩
  | delay m => intro l s f s'; simp only [exec, execE]; grind
  | cancel => intro l s f s'; simp only [exec, execE]; grind
  | selfTell m => intro l s f s'; simp only [exec, execE]; grind
  | ret => intro l s f s'; simp only [exec, execE]; grind
  | stopRepeat => intro l s f s'; simp only [exec, execE]; grind
  | doRepeat body poll ih =>
      intro l s f s'
      simp only [exec, execE, List.mem_map, Prod.exists]
      constructor
      · rintro ⟨f1, s1, h1, h2⟩
        obtain ⟨e1, he1⟩ := (ih l s f1 s1).1 h1
        refine ⟨e1, f1, s1, e1, he1, ?_⟩
        cases f1 <;> simp_all
      · rintro ⟨e, f1, s1, e1, he1, h2⟩
        refine ⟨f1, s1, (ih l s f1 s1).2 ⟨e1, he1⟩, ?_⟩
        cases f1 <;> simp_all
  | emit t => intro l s f s'; simp only [exec, execE]; grind
  | scope body ih =>
      intro l s f s'
      simp only [exec, execE, List.mem_map, Prod.exists]
      constructor
      · rintro ⟨f1, s1, h1, h2⟩
        obtain ⟨e1, he1⟩ := (ih l s f1 s1).1 h1
        refine ⟨e1, f1, s1, e1, he1, ?_⟩
        cases f1 <;> simp_all
      · rintro ⟨e, f1, s1, e1, he1, h2⟩
        refine ⟨f1, s1, (ih l s f1 s1).2 ⟨e1, he1⟩, ?_⟩
        cases f1 <;> simp_all
  | «opaque» t => intro l s f s'; simp only [exec, execE]; grind

theorem runSeqE_proj_aux (cbs : List Stmt) (ids : List Nat) : ∀ (acc : List St) (s' : St),
    s' ∈ ids.foldl (fun acc i => dedupS (acc.flatMap fun st =>
        (exec (cbs.getD i (.opaque 999)) [] st).map (·.2))) acc ↔
      ∃ s0 ∈ acc, ∃ e, (s', e) ∈ runSeqE cbs ids s0 := by
  induction ids with
  | nil =>
      intro acc s'
      simp only [List.foldl_nil, runSeqE, List.mem_singleton, Prod.mk.injEq]
      constructor
      · intro h; exact ⟨s', h, [], rfl, rfl⟩
      · rintro ⟨s0, h, e, rfl, _⟩; exact h
  | cons i is ih =>
      intro acc s'
      simp only [List.foldl_cons]
      rw [ih]
      simp only [mem_dedupS, List.mem_flatMap, List.mem_map, Prod.exists, runSeqE]
      constructor
      · rintro ⟨s1, ⟨s0, h0, f, s1', hx, rfl⟩, e2, he2⟩
        obtain ⟨e1, he1⟩ := (execE_proj _ [] s0 f s1').1 hx
        exact ⟨s0, h0, e1 ++ e2, f, s1', e1, he1, s', e2, he2, rfl⟩
      · rintro ⟨s0, h0, e, f, s1, e1, he1, s2, e2, he2, h⟩
        simp only [Prod.mk.injEq] at h
        obtain ⟨rfl, _⟩ := h
        exact ⟨s1, ⟨s0, h0, f, s1, (execE_proj _ [] s0 f s1).2 ⟨e1, he1⟩, rfl⟩, e2, he2⟩

theorem runSeqE_proj (cbs : List Stmt) (ids : List Nat) (s s' : St) :
    s' ∈ runSeq cbs ids s ↔ ∃ e, (s', e) ∈ runSeqE cbs ids s := by
  simp only [runSeq]
  rw [runSeqE_proj_aux]
  simp

theorem fireE_proj (D : ActorDesc) (t : MsgId) (s s' : St) :
    s' ∈ fire D t s ↔ ∃ e, (s', e) ∈ fireE D t s := by
  simp only [fire, fireE, List.mem_append, List.mem_flatMap, List.mem_map, Prod.exists, runSeqE_proj]
  constructor
  · rintro (h | ⟨r, hr, s1, ⟨e1, he1⟩, e2, he2⟩)
    · refine ⟨[], Or.inl ?_⟩
      by_cases hc : D.total.contains (s.leaf, t) = true
      · simp only [hc, if_true, List.not_mem_nil] at h
      · simp only [hc, Bool.false_eq_true, if_false, List.mem_singleton] at h ⊢
        rw [h]
    · exact ⟨e1 ++ e2, Or.inr ⟨r, hr, s1, e1, he1, s', e2, he2, rfl⟩⟩
  · rintro ⟨e, h | ⟨r, hr, s1, e1, he1, s2, e2, he2, h⟩⟩
    · left
      by_cases hc : D.total.contains (s.leaf, t) = true
      · simp only [hc, if_true, List.not_mem_nil] at h
      · simp only [hc, Bool.false_eq_true, if_false, List.mem_singleton, Prod.mk.injEq] at h ⊢
        exact h.1
    · simp only [Prod.mk.injEq] at h
      obtain ⟨rfl, _⟩ := h
      exact Or.inr ⟨r, hr, s1, ⟨e1, he1⟩, e2, he2⟩

theorem callE_proj (D : ActorDesc) (m : MsgId) (s s' : St) :
    s' ∈ call D m s ↔ ∃ e, (s', e) ∈ callE D m s := by
  simp only [call, callE]
  by_cases ht : D.triggers.contains m = true
  · simp only [ht, if_true]
    exact fireE_proj D m s s'
  · simp only [ht, Bool.false_eq_true, if_false]
    cases hf : D.methods.find? (·.1 == m) with
    | none => simp
    | some mp =>
        obtain ⟨m', p⟩ := mp
        simp only [List.mem_map, Prod.exists]
        constructor
        · rintro ⟨f, s1, h, rfl⟩
          obtain ⟨e, he⟩ := (execE_proj _ [] s f s1).1 h
          exact ⟨e, f, s1, e, he, rfl⟩
        · rintro ⟨e, f, s1, e1, he, h⟩
          simp only [Prod.mk.injEq] at h
          obtain ⟨rfl, _⟩ := h
          exact ⟨f, s1, (execE_proj _ [] s f s1).2 ⟨e1, he⟩, rfl⟩

/-- **Projection.** Erasing the effects of `stepE` gives exactly the outcomes of `step`. -/
theorem stepE_proj (D : ActorDesc) (s : St) (m : Msg) (s' : St) :
    s' ∈ step D s m ↔ ∃ e, (s', e) ∈ stepE D s m := by
  cases m with
  | plain m =>
      simp only [step, stepE, List.mem_map, Prod.exists, callE_proj]
      constructor
      · rintro ⟨s1, ⟨e, he⟩, rfl⟩
        exact ⟨e, s1, e, he, rfl⟩
      · rintro ⟨e, s1, e1, he, h⟩
        simp only [Prod.mk.injEq] at h
        exact ⟨s1, ⟨e1, he⟩, h.1⟩
  | delayed m =>
      simp only [step, stepE]
      split
      · simp only [List.mem_map, Prod.exists, callE_proj]
        constructor
        · rintro ⟨s1, ⟨e, he⟩, rfl⟩
          exact ⟨e, s1, e, he, rfl⟩
        · rintro ⟨e, s1, e1, he, h⟩
          simp only [Prod.mk.injEq] at h
          exact ⟨s1, ⟨e1, he⟩, h.1⟩
      · simp

theorem stepE_sound {D : ActorDesc} {s : St} {m : Msg} {s' : St} {e : List Eff}
    (h : (s', e) ∈ stepE D s m) : s' ∈ step D s m := (stepE_proj D s m s').2 ⟨e, h⟩

theorem stepE_complete {D : ActorDesc} {s : St} {m : Msg} {s' : St}
    (h : s' ∈ step D s m) : ∃ e, (s', e) ∈ stepE D s m := (stepE_proj D s m s').1 h

/-! ## the composed system: generated master + generated slave, one tracked ghost variable -/

/-- One master/slave pair.  Everything except the two generated descriptions is *reading instructions* for the
    master's effects: which variable is the master's knowledge about X, which of its values mean "X is known to be
    halted", which emitted tags are tells to X (with the message X receives). -/
structure CSpec where
  DM : ActorDesc                  -- generated master
  DX : ActorDesc                  -- generated slave
  v : VarId                       -- the master's ghost variable about X
  isG : Int → Bool                -- its values that mean "X halted" (told a halt-class message last / answered is_halt)
  tells : List (Nat × Msg)        -- emitted tag ↦ message queued for X (ALL the master's tells of triggers to X)
  isHaltMsg : Msg → Bool          -- halt-class messages of X
  isHalt : St → Bool              -- X's halted states
  isStart : Msg → Bool            -- messages that can take X out of its halted states
  allowed : List LeafId           -- master phases in which X's own start guard can be true

/-- the value a refinement list finally gives to variable `v`, if it assigns it at all -/
def lastAssign (v : VarId) : List (VarId × Int) → Option Int
  | [] => none
  | (w, x) :: t =>
      match lastAssign v t with
      | some y => some y
      | none => if w = v then some x else none

/-- is this question an `X.is_halt()`: does its TRUE answer make the ghost variable a "known halted" value? -/
def askHalting (S : CSpec) (t : List (VarId × Int)) : Bool :=
  match lastAssign S.v t with
  | some x => S.isG x
  | none => false

def noMaster (l : List (Bool × Msg)) : Prop := ∀ e ∈ l, e.1 = false

structure CSt where
  m : St                          -- master (state after its current / last handler)
  x : St                          -- slave
  inbox : List (Bool × Msg)       -- slave inbox: (from the master?, message); the head is served next
  todo : List Eff                 -- effects of the master's current handler not yet performed ([] = between handlers)
  deriving Repr

inductive CStep (S : CSpec) : CSt → CSt → Prop
  /-- the master takes the next message of ITS alphabet: one outcome of the generated handler with its effects -/
  | mBegin (g : CSt) (msg : Msg) (m' : St) (effs : List Eff) (hidle : g.todo = [])
      (hmsg : msg ∈ allMsgs S.DM) (h : (m', effs) ∈ stepE S.DM g.m msg) :
      CStep S g { g with m := m', todo := effs }
  /-- next effect: a tell to X -/
  | mTell (g : CSt) (t : Nat) (rest : List Eff) (msg : Msg) (h : g.todo = .emit t :: rest)
      (ht : S.tells.lookup t = some msg) :
      CStep S g { g with inbox := g.inbox ++ [(true, msg)], todo := rest }
  /-- next effect: any other emitted tag (device writes, publishes, tells to other actors) -/
  | mEmit (g : CSt) (t : Nat) (rest : List Eff) (h : g.todo = .emit t :: rest) (ht : S.tells.lookup t = none) :
      CStep S g { g with todo := rest }
  /-- next effect: a question, answered `ans`.  If the refinement of that answer makes the ghost variable a "known
      halted" value (`X.is_halt()` answered TRUE, `X.is_heating()` answered FALSE, …) the answer is an observation
      of X: it needs X's inbox free of master messages and X halted.  Every other answer (and a timeout, which is
      a branch without question in the generated program) is always possible. -/
  | mAsk (g : CSt) (ans : Bool) (t f : List (VarId × Int)) (rest : List Eff) (h : g.todo = .ask ans t f :: rest)
      (hq : askHalting S (if ans then t else f) = true → noMaster g.inbox ∧ S.isHalt g.x = true) :
      CStep S g { g with todo := rest }
  /-- anybody else (dispatcher, X's own timers and self-tells, third actors, the master's untracked calls) queues
      a message for X -/
  | other (g : CSt) (m : Msg) (hm : m ∈ allMsgs S.DX) :
      CStep S g { g with inbox := g.inbox ++ [(false, m)] }
  /-- X serves the head of its inbox with ITS generated `step`; a foreign start message is guarded by a question
      to the master, answered between two master handlers: refused unless the master's phase is allowed -/
  | deliver (g : CSt) (e : Bool × Msg) (rest : List (Bool × Msg)) (x' : St)
      (h : g.inbox = e :: rest) (hm : e.2 ∈ allMsgs S.DX)
      (hs : if e.1 = false ∧ S.isStart e.2 = true then
              g.todo = [] ∧ (if S.allowed.contains g.m.leaf then x' ∈ step S.DX g.x e.2 else x' = g.x)
            else x' ∈ step S.DX g.x e.2) :
      CStep S g { g with x := x', inbox := rest }

def cinit (S : CSpec) : CSt := { m := initSt S.DM, x := initSt S.DX, inbox := [], todo := [] }

inductive CReach (S : CSpec) : CSt → Prop
  | init : CReach S (cinit S)
  | step {g g' : CSt} : CReach S g → CStep S g g' → CReach S g'

/-- abstract reading of one effect: after it, is the last *relevant* thing the master did towards X a halt-class
    tell or an observed `is_halt() = True`?  (telling a start message destroys the knowledge; telling a message
    that is neither halt-class nor a start message keeps it: by H2 such a message cannot un-halt X) -/
def ghost1 (S : CSpec) (a : Bool) : Eff → Bool
  | .emit t =>
      match S.tells.lookup t with
      | some m => if S.isHaltMsg m then true else if S.isStart m then false else a
      | none => a
  | .ask ans t f => a || askHalting S (if ans then t else f)

def ghostAfter (S : CSpec) (a : Bool) (effs : List Eff) : Bool := effs.foldl (ghost1 S) a

/-! ## an executable scheduler (used to exhibit concrete composed runs) -/

inductive Act
  /-- the master handles `msg`; of the possible outcomes of the generated handler take the first satisfying `pick` -/
  | master (msg : Msg) (pick : St × List Eff → Bool)
  /-- the master performs the next effect of its handler (fails if it is an observation that is not possible now) -/
  | eff
  /-- the master performs all the remaining effects of its handler -/
  | drain
  /-- a third party queues `m` for the slave -/
  | other (m : Msg)
  /-- the slave serves the head of its inbox; of the possible outcomes take the first satisfying `pick` -/
  | deliver (pick : St → Bool)
  /-- the slave serves its whole inbox (each time the first outcome satisfying `pick`) -/
  | serve (pick : St → Bool)

/-- the master performs the next effect of its handler -/
def eff1 (S : CSpec) (g : CSt) : Option CSt :=
  match g.todo with
  | [] => none
  | .emit t :: rest =>
      match S.tells.lookup t with
      | some msg => some { g with inbox := g.inbox ++ [(true, msg)], todo := rest }
      | none => some { g with todo := rest }
  | .ask ans t f :: rest =>
      if !askHalting S (if ans then t else f) || (g.inbox.all (fun e => !e.1) && S.isHalt g.x) then
        some { g with todo := rest }
      else none

def drainN (S : CSpec) : Nat → CSt → Option CSt
  | 0, g => some g
  | n + 1, g =>
      if g.todo.isEmpty then some g
      else match eff1 S g with
        | some g' => drainN S n g'
        | none => none

/-- the slave serves the head of its inbox -/
def deliver1 (S : CSpec) (pick : St → Bool) (g : CSt) : Option CSt :=
  match g.inbox with
  | [] => none
  | e :: rest =>
      if (allMsgs S.DX).contains e.2 then
        if !e.1 && S.isStart e.2 then
          if g.todo.isEmpty then
            if S.allowed.contains g.m.leaf then
              ((step S.DX g.x e.2).find? pick).map fun x' => { g with x := x', inbox := rest }
            else some { g with inbox := rest }
          else none
        else ((step S.DX g.x e.2).find? pick).map fun x' => { g with x := x', inbox := rest }
      else none

def serveN (S : CSpec) (pick : St → Bool) : Nat → CSt → Option CSt
  | 0, g => some g
  | n + 1, g =>
      if g.inbox.isEmpty then some g
      else match deliver1 S pick g with
        | some g' => serveN S pick n g'
        | none => none

def act (S : CSpec) (g : CSt) : Act → Option CSt
  | .master msg pick =>
      if g.todo.isEmpty && (allMsgs S.DM).contains msg then
        ((stepE S.DM g.m msg).find? pick).map fun (m', effs) => { g with m := m', todo := effs }
      else none
  | .eff => eff1 S g
  | .drain => drainN S g.todo.length g
  | .other m =>
      if (allMsgs S.DX).contains m then some { g with inbox := g.inbox ++ [(false, m)] } else none
  | .deliver pick => deliver1 S pick g
  | .serve pick => serveN S pick g.inbox.length g

def run (S : CSpec) : List Act → CSt → Option CSt
  | [], g => some g
  | a :: as, g =>
      match act S g a with
      | some g' => run S as g'
      | none => none

end Poupool.Compose
