/-
Executable model of the cover firmware `arduino/cover/cover.ino` (property C19).

* Constants, end-point comparison operators and the serial command table come from
  `Poupool/Generated/FirmwareConst.lean`, regenerated from the sketch on every run.
* `long` is 32 bit on the AVR: positions are `Int`s kept in the int32 range by `wrap32`, applied after every signed
  operation of the sketch (C++ signed overflow is undefined behaviour; the model and the host build, compiled with
  `-fwrapv`, wrap; the theorems state the no-overflow preconditions where the value matters).
* `unsigned long` times are `Nat` with truncating subtraction: equal to the 32-bit modular arithmetic of the sketch as
  long as `millis()` has not wrapped (49.7 days) – noted, not modelled.  `m_do_stop_time = 0` doubles as "no stop
  pending" in the sketch, hence a stop at `millis() = 0` is never saved – the model does the same.
* Interrupts: the encoder ISR runs between loop iterations (`Ev.pulse`) and inside the `delay(100)` of
  `process_direction` (`Ev.delayPulses n`, consumed by the next delay; pulse k of n fires at t0 + k*100/(n+1)), which
  is where pre-emption matters (before the fix the sketch re-read the volatile `m_direction` after the delay and lost
  a STOP raised by the ISR; see `processDirection`).  `delay(100)` advances
  the clock by 100 ms (the loop-local `now` was read before).  Pre-emption between other statements is not modelled.
* Buttons: the InputDebounce library is not part of the repository; its callbacks are events (`Btn`), delivered where
  `button.process(now)` stands in `loop()`.
* Ghost fields (`oobWrite`, `oobRead`, `nDispatch`, `nEmergency`) are not in the sketch; they record what the
  theorems talk about.
-/
import Poupool.Generated.FirmwareConst

namespace Poupool.Firmware
open Poupool.FirmwareConst

inductive Dir | opn | cls | stop
  deriving DecidableEq, Repr, Inhabited

inductive Lim | opn | cls | none
  deriving DecidableEq, Repr, Inhabited

/-- button callbacks of the sketch's `Button` class -/
inductive Btn | openPressed | closePressed | released | saveOpenPressed | saveClosePressed | saveReleased
  deriving DecidableEq, Repr

/-- two's complement wrap to int32 -/
def wrap32 (x : Int) : Int := (x + 2147483648) % 4294967296 - 2147483648

structure St where
  -- ReadBuffer<char, S>
  idx : Nat
  buf : List Nat
  oobWrite : Bool   -- ghost: a write `m_buffer[i]` with `i ≥ S` happened
  oobRead : Bool    -- ghost: strcmp / println ran over a buffer without NUL
  -- Cover
  pos : Int
  close : Int
  opn : Int
  dir : Dir
  run : Dir
  lim : Lim
  prevPos : Int
  prevTime : Nat
  doStop : Nat
  prevDir : Dir
  -- pins (true = HIGH)
  pinOpen : Bool
  pinClose : Bool
  -- Water
  water : Nat
  -- statics of the two ISRs
  isrLast : Nat
  wisrLast : Nat
  -- millis()
  clk : Nat
  -- EEPROM block 0
  eePos : Int
  eeClose : Int
  eeOpen : Int
  -- encoder interrupts that will fire inside the next delay()
  dpulses : Nat
  -- Serial output (bytes, oldest first)
  out : List Nat
  nDispatch : Nat    -- ghost: number of command dispatches so far
  nEmergency : Nat   -- ghost: number of emergency_stop() calls so far
  lastCmd : List Nat -- ghost: the C string `strcmp` saw at the last dispatch
  deriving Repr

/-- state after power-up and `setup()` with the EEPROM block holding `(p, c, o)` -/
def init (p c o : Int) : St :=
  { idx := 0, buf := List.replicate bufSize 0, oobWrite := false, oobRead := false,
    pos := p, close := c, opn := o, dir := .stop, run := .stop, lim := .none,
    prevPos := 0, prevTime := 0, doStop := 0, prevDir := .stop, pinOpen := false, pinClose := false,
    water := 0, isrLast := 0, wisrLast := 0, clk := 0, eePos := p, eeClose := c, eeOpen := o,
    dpulses := 0, out := [], nDispatch := 0, nEmergency := 0, lastCmd := [] }

/-! ### Serial printing -/

def decAux : Nat → Nat → List Nat → List Nat
  | 0, _, acc => acc
  | fuel + 1, n, acc => if n < 10 then (48 + n) :: acc else decAux fuel (n / 10) ((48 + n % 10) :: acc)

/-- `Print::print(unsigned long)` -/
def decNat (n : Nat) : List Nat := decAux (n + 1) n []

/-- `Print::print(long)` -/
def decInt (v : Int) : List Nat := if v < 0 then 45 :: decNat (-v).toNat else decNat v.toNat

def crlf : List Nat := [13, 10]

def emit (s : St) (b : List Nat) : St := { s with out := s.out ++ b }
def emitLn (s : St) (b : List Nat) : St := { s with out := s.out ++ (b ++ crlf) }

/-! ### ReadBuffer -/

/-- `m_buffer[i] = v` -/
def bufWrite (s : St) (i v : Nat) : St :=
  if i < bufSize then { s with buf := s.buf.set i v } else { s with oobWrite := true }

/-- `m_buffer[m_position++] = v` -/
def bufStore (s : St) (v : Nat) : St := { bufWrite s s.idx v with idx := s.idx + 1 }

/-- `ReadBuffer::add`; the Boolean is the return value -/
def bufAdd (s : St) (b : Nat) : St × Bool :=
  if b = 13 then (s, false)
  else if s.idx = bufFullAt then (bufStore s 0, true)
  else if s.idx ≥ bufIgnoreAt then (s, true)
  else if b = 10 then (bufStore s 0, true)
  else (bufStore s b, false)

/-- `ReadBuffer::clear` -/
def bufClear (s : St) : St := { s with buf := List.replicate bufSize 0, idx := 0 }

/-- the C string in the buffer -/
def cstr (s : St) : List Nat := s.buf.takeWhile (fun x => x != 0)

/-! ### Cover -/

/-- `get_position_percentage` (before the conversion to `byte`): all arithmetic in int32 with wrap-around, C++
truncating division, then the `constrain` macro. -/
def pctLong (s : St) : Int :=
  let diff := wrap32 (s.opn - s.close)
  if diff = 0 then 0
  else
    let q := wrap32 (Int.tdiv (wrap32 (pctMul * wrap32 (s.pos - s.close))) diff)
    if q < pctLo then pctLo else if q > pctHi then pctHi else q

/-- `get_position_percentage` as the `byte` it returns -/
def pct (s : St) : Nat := (pctLong s % 256).toNat

def setDirection (s : St) : Dir → St
  | .opn => if s.lim ≠ .none ∨ s.pos < s.opn then { s with dir := .opn } else s
  | .cls => if s.lim ≠ .none ∨ s.pos > s.close then { s with dir := .cls } else s
  | .stop => { s with dir := .stop }

def setLimit (s : St) : Dir → St
  | .opn => { s with lim := .opn }
  | .cls => { s with lim := .cls }
  | .stop =>
    let s1 : St := match s.lim with
      | .opn => { s with opn := s.pos }
      | .cls => { s with close := s.pos }
      | .none => s
    { s1 with lim := .none, eePos := s1.pos, eeClose := s1.close, eeOpen := s1.opn }

/-- the end-point tests of `step()` with the operators read from the sketch -/
def atOpenEnd (p o : Int) : Bool :=
  if stepOpenStrict then decide (p > wrap32 (o + stepOpenOffset)) else decide (p ≥ wrap32 (o + stepOpenOffset))
def atCloseEnd (p c : Int) : Bool :=
  if stepCloseStrict then decide (p < wrap32 (c + stepCloseOffset)) else decide (p ≤ wrap32 (c + stepCloseOffset))

/-- `Cover::step` (called by the ISR) -/
def stepCover (s : St) : St :=
  match s.run with
  | .opn =>
    let p := wrap32 (s.pos + 1)
    if s.lim = .none ∧ atOpenEnd p s.opn = true then { s with pos := p, dir := .stop } else { s with pos := p }
  | .cls =>
    let p := wrap32 (s.pos - 1)
    if s.lim = .none ∧ atCloseEnd p s.close = true then { s with pos := p, dir := .stop } else { s with pos := p }
  | .stop => s

/-- `cover_isr` at the current `millis()` -/
def coverIsr (s : St) : St :=
  let s1 := if s.clk - s.isrLast > coverDebounceMs then stepCover s else s
  { s1 with isrLast := s.clk }

/-- `water_isr` -/
def waterIsr (s : St) : St :=
  let s1 : St := if s.clk - s.wisrLast > waterDebounceMs then { s with water := (s.water + 1) % 4294967296 } else s
  { s1 with wisrLast := s.clk }

/-- pulse `k+1` of `n` inside a delay that started at `t0` -/
def delayPulse (t0 n : Nat) (s : St) (k : Nat) : St :=
  coverIsr { s with clk := t0 + ((k + 1) * relayDelayMs) / (n + 1) }

/-- `delay(relayDelayMs)` with `s.dpulses` encoder interrupts firing inside it -/
def delayWithPulses (s : St) : St :=
  let t0 := s.clk
  let n := s.dpulses
  let s1 := (List.range n).foldl (delayPulse t0 n) { s with dpulses := 0 }
  { s1 with clk := t0 + relayDelayMs }

/-- `process_direction(now)`.  The direction is read at the top; what is stored in `m_previous_direction` at the end is
that value (`prevDirRereadsVolatile = false`, the sketch since the fix "does not lose a stop raised during the relay
delay") or the volatile `m_direction` read again after the delay (`true`, the sketch before it) – read from the source
by the translator. -/
def processDirection (s : St) (now : Nat) : St :=
  if s.dir ≠ s.prevDir then
    let s1 : St := match s.dir with
      | .opn =>
        let a := delayWithPulses { s with run := .opn, pinClose := true }
        { a with pinOpen := false, prevPos := a.pos, prevTime := now, doStop := 0 }
      | .cls =>
        let a := delayWithPulses { s with run := .cls, pinOpen := true }
        { a with pinClose := false, prevPos := a.pos, prevTime := now, doStop := 0 }
      | .stop => { s with pinClose := false, pinOpen := false, doStop := now }
    { s1 with prevDir := if prevDirRereadsVolatile then s1.dir else s.dir }
  else s

def emergencyStop (s : St) : St :=
  emitLn (emitLn { s with dir := .stop, nEmergency := s.nEmergency + 1 } emergencyText) emergencyTerminator

/-- the Arduino `abs` macro on a long -/
def absC (x : Int) : Int := if x > 0 then x else wrap32 (-x)

def outsideEnvelope (s : St) : Bool :=
  decide (s.pos < wrap32 (s.close - maxPulseMargin)) || decide (s.pos > wrap32 (s.opn + maxPulseMargin))

/-- the rotation / pulse check of `ensure_consistency` -/
def stallCheck (s : St) (now : Nat) : St :=
  if now - s.prevTime > stallWindowMs then
    let s1 := if absC (wrap32 (s.pos - s.prevPos)) < stallMinPulses then emergencyStop s else s
    { s1 with prevPos := s.pos, prevTime := now }
  else s

/-- the position consistency check of `ensure_consistency` -/
def envelopeCheck (s : St) : St :=
  if s.lim = .none then (if outsideEnvelope s = true then emergencyStop s else s) else s

def ensureConsistency (s : St) (now : Nat) : St :=
  if s.dir ≠ .stop then envelopeCheck (stallCheck s now) else s

def processStop (s : St) (now : Nat) : St :=
  if s.doStop ≠ 0 then
    if now - s.doStop > maxRunningMarginMs then
      { s with doStop := 0, run := .stop, eePos := s.pos, eeClose := s.close, eeOpen := s.opn }
    else s
  else s

/-! ### Command dispatch -/

def fieldVal (s : St) : Field → Int
  | .fPosition => s.pos
  | .fOpen => s.opn
  | .fClose => s.close

def debugPrint (s : St) : St :=
  debugFields.foldl (fun s lf => emitLn (emit s lf.1) (decInt (fieldVal s lf.2))) s

def runOp (s : St) : Op → St
  | .print b => emit s b
  | .println b => emitLn s b
  | .printlnPct => emitLn s (decNat (pct s))
  | .printlnWater => emitLn s (decNat s.water)
  | .printlnBuf => emitLn s (cstr s)
  | .setOpen => setDirection s .opn
  | .setClose => setDirection s .cls
  | .setStop => setDirection s .stop
  | .debug => debugPrint s
  | .reset => { s with pos := 0, close := 0, opn := 0 }

/-- the `strcmp` chain -/
def findCmd (c : List Nat) : List (List Nat × List Op) → List Op
  | [] => errorOps
  | (n, ops) :: r => if c = n then ops else findCmd c r

/-- body of `if (buffer.add(...)) { ... }` -/
def dispatchCore (s : St) : St :=
  let s1 := (findCmd (cstr s) commands).foldl runOp s
  let s2 := emitLn s1 terminator
  { bufClear s2 with nDispatch := s2.nDispatch + 1, lastCmd := cstr s }

/-- the same, recording (ghost) whether `strcmp` found a NUL inside the buffer -/
def dispatch (s : St) : St :=
  dispatchCore (if s.buf.any (fun x => x == 0) then s else { s with oobRead := true })

/-- `if (Serial.available() > 0) { ... }` with byte `b` available -/
def serialStep (s : St) (b : Nat) : St :=
  if (bufAdd s b).2 = true then dispatch (bufAdd s b).1 else (bufAdd s b).1

def button (s : St) : Btn → St
  | .openPressed => setDirection s .opn
  | .closePressed => setDirection s .cls
  | .released => setDirection s .stop
  | .saveOpenPressed => setLimit s .opn
  | .saveClosePressed => setLimit s .cls
  | .saveReleased => setLimit s .stop

/-- everything in `loop()` after the serial part, at `now = millis()` -/
def actions (s : St) (btn : Option Btn) : St :=
  let now := s.clk
  let s1 := match btn with
    | none => s
    | some k => button s k
  processStop (ensureConsistency (processDirection s1 now) now) now

/-- one iteration of `loop()` -/
def loopIter (s : St) (byte : Option Nat) (btn : Option Btn) : St :=
  match byte with
  | none => actions s btn
  | some b => actions (serialStep s b) btn

/-! ### Events (same line protocol as the host build of the sketch) -/

inductive Ev
  | byte (b : Nat)          -- `B b`
  | tick (ms : Nat)         -- `L ms`
  | adv (ms : Nat)          -- `T ms`
  | pulse                   -- `P`
  | wpulse                  -- `W`
  | delayPulses (n : Nat)   -- `D n`
  | btn (k : Btn)           -- `K pin kind`
  | query                   -- `Q`
  deriving Repr

def step (s : St) : Ev → St
  | .byte b => loopIter s (some b) none
  | .tick ms => loopIter { s with clk := s.clk + ms } none none
  | .adv ms => { s with clk := s.clk + ms }
  | .pulse => coverIsr s
  | .wpulse => waterIsr s
  | .delayPulses n => { s with dpulses := n }
  | .btn k => loopIter s none (some k)
  | .query => s

def run (s : St) (evs : List Ev) : St := evs.foldl step s

/-! ### The Python side: `ArduinoDevice.__send` (controller/device.py) over a `TextIOWrapper` in universal-newline
mode.  `pending` holds the bytes the firmware has printed and the driver has not read yet. -/

/-- universal newlines: `\r\n` and a lone `\r` become `\n` -/
def pyNewlines : List Nat → List Nat
  | [] => []
  | 13 :: 10 :: r => 10 :: pyNewlines r
  | 13 :: r => 10 :: pyNewlines r
  | c :: r => c :: pyNewlines r

/-- `readline()`: up to and including the first `\n`, or everything (a timeout of the serial port ends the line) -/
def pyReadline : List Nat → List Nat × List Nat
  | [] => ([], [])
  | c :: r => if c = 10 then ([10], r) else ((c :: (pyReadline r).1), (pyReadline r).2)

def pyIsSpace (c : Nat) : Bool := c = 32 || (9 ≤ c && c ≤ 13) || (28 ≤ c && c ≤ 31) || c = 133 || c = 160

def pyStrip (l : List Nat) : List Nat := ((l.dropWhile pyIsSpace).reverse.dropWhile pyIsSpace).reverse

/-- the flush loop: `read = readline(); while read.strip() != "": read = readline()` -/
def pyFlush : Nat → List Nat → List Nat
  | 0, p => p
  | fuel + 1, p => if pyStrip (pyReadline p).1 = [] then (pyReadline p).2 else pyFlush fuel (pyReadline p).2

/-- the receive loop; returns (last line kept, the line that ended the loop, rest) -/
def pyReceive : Nat → Option (List Nat) → List Nat → List Nat → Option (List Nat) × List Nat × List Nat
  | 0, resp, read, p => (resp, read, p)
  | fuel + 1, resp, read, p =>
    if [42, 42, 42].isPrefixOf read then (resp, read, p)
    else pyReceive fuel (some (pyStrip read)) (pyReadline p).1 (pyReadline p).2

/-- what `__send(value)` returns, given the text the driver sees after having written the command -/
def pyParse (value : List Nat) (p : List Nat) : Option (List Nat) × List Nat :=
  let r := pyReceive 20 none (pyReadline p).1 (pyReadline p).2
  match r.1 with
  | none => (none, r.2.2)     -- `None.startswith` raises, caught, reconnect, `return None`
  | some resp => if pyStrip r.2.1 = [42, 42, 42] ∧ value.isPrefixOf resp = true then (some resp, r.2.2) else (none, r.2.2)

/-- `str.replace(pat, "")` -/
def pyRemoveAll (pat : List Nat) : Nat → List Nat → List Nat
  | 0, l => l
  | _, [] => []
  | fuel + 1, c :: r =>
    if pat ≠ [] ∧ pat.isPrefixOf (c :: r) = true then pyRemoveAll pat fuel ((c :: r).drop pat.length)
    else c :: pyRemoveAll pat fuel r

def pyDigits : List Nat → Option Nat → Option Nat
  | [], acc => acc
  | c :: r, acc => if 48 ≤ c ∧ c ≤ 57 then pyDigits r (some (acc.getD 0 * 10 + (c - 48))) else none

/-- `int(s)` for plain decimal text with optional sign and surrounding white space (no underscores) -/
def pyInt (l : List Nat) : Option Int :=
  match pyStrip l with
  | [] => none
  | c :: r =>
    if c = 45 then (pyDigits r none).map (fun n => -(n : Int))
    else if c = 43 then (pyDigits r none).map (fun n => (n : Int))
    else (pyDigits (c :: r) none).map (fun n => (n : Int))

/-- `int(value.replace(cmd + " ", "")) if value else None` (cover_position / water_counter) -/
def pyValue (cmd : List Nat) (resp : Option (List Nat)) : Option Int :=
  match resp with
  | none => none
  | some [] => none
  | some r => pyInt (pyRemoveAll (cmd ++ [32]) (r.length + 1) r)

/-- feed the bytes of `cmd ++ "\n"`, one loop iteration each -/
def sendBytes (s : St) (cmd : List Nat) : St := (cmd ++ [10]).foldl (fun s b => step s (.byte b)) s

/-- `ArduinoDevice.__send(cmd)` against the firmware in state `s` with unread text `pending`
(already newline-translated): (firmware state with `out` emptied, reply, unread text afterwards) -/
def driverSend (s : St) (pending : List Nat) (cmd : List Nat) : St × Option (List Nat) × List Nat :=
  let p1 := pyFlush (pending.length + 1) pending
  let s1 := sendBytes { s with out := [] } cmd
  let r := pyParse cmd (p1 ++ pyNewlines s1.out)
  ({ s1 with out := [] }, r.1, r.2)

end Poupool.Firmware
