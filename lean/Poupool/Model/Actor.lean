/-
  Per-actor model: one controller = one hierarchical FSM (rows generated from the running `transitions`
  machine) + one program per Python method (generated from the AST), interpreted over a finite *modelled*
  state.  Everything that is not modelled (sensor values, answers of other actors, settings, time) is
  nondeterministic: the interpreter returns the list of ALL possible outcomes.  Hence every behaviour of the
  real actor, for every message order and every environment, projects onto a path of this model; an
  invariant of the model is an invariant of the actor.

  Import-free and executable (the fixpoint is computed by compiled code, the certificate is checked by the
  kernel).
-/
namespace Poupool

abbrev VarId := Nat
abbrev MsgId := Nat
abbrev LeafId := Nat

inductive CmpOp | lt | le | eq | ne | gt | ge
  deriving Repr, DecidableEq, Inhabited

/-- Integer expressions over bound locals (setting values); `unknown` = not modelled. -/
inductive Expr
  | const (n : Int)
  | loc (i : Nat)
  | var (v : VarId)
  | min (a b : Expr)
  | unknown
  deriving Repr, DecidableEq, Inhabited

inductive Cond
  | nondet
  | tt
  | ff
  | leafIn (ls : List LeafId)
  | cmp (op : CmpOp) (a b : Expr)
  /-- a synchronous question to another actor (`other.is_x().get()`): both answers are possible; each answer
      refines the knowledge (ghost) variables about that actor: it is given after everything sent so far has
      been processed. -/
  | ask (onTrue : List (VarId × Int)) (onFalse : List (VarId × Int))
  | not (c : Cond)
  | and (a b : Cond)
  | or (a b : Cond)
  deriving Repr, DecidableEq, Inhabited

inductive Stmt
  | skip
  | seq (a b : Stmt)
  | set (v : VarId) (e : Expr)
  | ite (c : Cond) (t e : Stmt)
  | choose (a b : Stmt)
  /-- read a setting once: the body runs with local `loc` bound to any of the accepted values -/
  | forSetting (loc : Nat) (vals : List Int) (body : Stmt)
  /-- `do_delay(d, m)` (also the first poll of a `@do_repeat` state): the single timer slot now holds `m` -/
  | delay (m : MsgId)
  | cancel
  | selfTell (m : MsgId)
  | ret
  | stopRepeat
  /-- body of a `@do_repeat()` wrapped `on_enter_*`: run, then arm the poll unless StopRepeatException -/
  | doRepeat (body : Stmt) (poll : MsgId)
  | emit (tag : Nat)
  /-- an inlined callee: a `return` inside ends the callee only -/
  | scope (body : Stmt)
  /-- a construct the translator does not understand: may do anything (all checkers fail on it) -/
  | opaque (tag : Nat)
  deriving Repr, DecidableEq, Inhabited

inductive Flow | normal | returned | stopped
  deriving Repr, DecidableEq, Inhabited

/-- Modelled state of one actor. -/
structure St where
  leaf : LeafId
  vars : List Int            -- device outputs written by this actor, ghost "last request" variables, last published state
  armed : Option MsgId       -- the delayed call carrying the current token (exact: do_delay/do_cancel invalidate)
  pend : List MsgId          -- MUST-pending unguarded self-tells issued since the current phase was entered (sorted set)
  bad : Bool                 -- an `opaque` statement was executed
  deriving Repr, DecidableEq, Inhabited, Hashable

def setNth : List Int → Nat → Int → List Int
  | [], _, _ => []
  | _ :: xs, 0, v => v :: xs
  | x :: xs, n + 1, v => x :: setNth xs n v

def getNth (l : List Int) (n : Nat) : Int := l.getD n 0

def insertSorted (m : Nat) : List Nat → List Nat
  | [] => [m]
  | x :: xs => if m < x then m :: x :: xs else if m = x then x :: xs else x :: insertSorted m xs

def evalExpr (locals : List Int) (vars : List Int) : Expr → Option Int
  | .const n => some n
  | .loc i => locals[i]?
  | .var v => vars[v]?
  | .min a b =>
      match evalExpr locals vars a, evalExpr locals vars b with
      | some x, some y => some (if x ≤ y then x else y)
      | _, _ => none
  | .unknown => none

def cmpInt : CmpOp → Int → Int → Bool
  | .lt, a, b => a < b
  | .le, a, b => a ≤ b
  | .eq, a, b => a == b
  | .ne, a, b => a != b
  | .gt, a, b => a > b
  | .ge, a, b => a ≥ b

/-- All possible (value, refined state) of a condition. -/
def evalCond (locals : List Int) : Cond → St → List (Bool × St)
  | .nondet, s => [(true, s), (false, s)]
  | .tt, s => [(true, s)]
  | .ff, s => [(false, s)]
  | .leafIn ls, s => [(ls.contains s.leaf, s)]
  | .cmp op a b, s =>
      match evalExpr locals s.vars a, evalExpr locals s.vars b with
      | some x, some y => [(cmpInt op x y, s)]
      | _, _ => [(true, s), (false, s)]
  | .ask t f, s =>
      [(true, { s with vars := t.foldl (fun vs (v, x) => setNth vs v x) s.vars }),
       (false, { s with vars := f.foldl (fun vs (v, x) => setNth vs v x) s.vars })]
  | .not c, s => (evalCond locals c s).map fun (b, s') => (!b, s')
  | .and a b, s =>
      (evalCond locals a s).flatMap fun (x, s') =>
        if x then evalCond locals b s' else [(false, s')]
  | .or a b, s =>
      (evalCond locals a s).flatMap fun (x, s') =>
        if x then [(true, s')] else evalCond locals b s'

def dedupFS : List (Flow × St) → List (Flow × St)
  | [] => []
  | x :: xs => if xs.contains x then dedupFS xs else x :: dedupFS xs

def dedupS : List St → List St
  | [] => []
  | x :: xs => if xs.contains x then dedupS xs else x :: dedupS xs

/-- All possible outcomes of a statement. -/
def exec : Stmt → List Int → St → List (Flow × St)
  | .skip, _, s => [(.normal, s)]
  | .seq a b, l, s =>
      (dedupFS (exec a l s)).flatMap fun (f, s') =>
        match f with
        | .normal => exec b l s'
        | _ => [(f, s')]
  | .set v e, l, s =>
      match evalExpr l s.vars e with
      | some x => [(.normal, { s with vars := setNth s.vars v x })]
      | none => [(.normal, { s with bad := true })]
  | .ite c t e, l, s =>
      (evalCond l c s).flatMap fun (b, s') => if b then exec t l s' else exec e l s'
  | .choose a b, l, s => exec a l s ++ exec b l s
  | .forSetting _ vals body, l, s =>
      vals.flatMap fun v => exec body (l ++ [v]) s
  | .delay m, _, s => [(.normal, { s with armed := some m })]
  | .cancel, _, s => [(.normal, { s with armed := none })]
  | .selfTell m, _, s => [(.normal, { s with pend := insertSorted m s.pend })]
  | .ret, _, s => [(.returned, s)]
  | .stopRepeat, _, s => [(.stopped, s)]
  | .doRepeat body poll, l, s =>
      (exec body l s).map fun (f, s') =>
        match f with
        | .stopped => (.normal, s')
        | _ => (.normal, { s' with armed := some poll })
  | .emit _, _, s => [(.normal, s)]
  | .scope body, l, s =>
      (exec body l s).map fun (f, s') =>
        match f with
        | .returned => (.normal, s')
        | _ => (f, s')
  | .opaque _, _, s => [(.normal, { s with bad := true })]

/-- duration of a `do_delay`, resolved by the translator: a number of half seconds (class constants and config.ini
    values evaluated on the running code), or a duration setting (`self.__x.total_seconds()`) -/
inductive Dur
  | halfSeconds (n : Nat)
  | setting (name : String)
  | unknown (src : String)
  deriving Repr, DecidableEq, Inhabited

/-- One row of the flattened transition table: what the real machine does for `trigger` in leaf `src` under
    one valuation of the guards of that trigger (obtained by executing the machine). `pre` are the callbacks
    run before the state changes (before_state_change, before, exits), `post` those after (enters, after). -/
structure Row where
  src : LeafId
  trig : MsgId
  dest : LeafId
  internal : Bool
  pre : List Nat      -- callback ids
  post : List Nat
  /-- guard literals common to every guard valuation under which this row fires: (guard id, required value) -/
  req : List (Nat × Bool)
  deriving Repr, DecidableEq, Inhabited

structure ActorDesc where
  nLeaves : Nat
  nVars : Nat
  nMsgs : Nat
  initLeaf : LeafId
  initVars : List Int
  rows : List (List Row)      -- indexed by source leaf
  /-- for every trigger name: is it total in leaf `l` (some row fires under every guard valuation)? -/
  total : List (LeafId × MsgId)
  /-- program of callback `i` -/
  callbacks : List Stmt
  /-- message id ↦ program, for messages that are plain method calls (polls, setters) -/
  methods : List (MsgId × Stmt)
  /-- message ids that are FSM triggers -/
  triggers : List MsgId
  /-- messages somebody sends as a plain call (dispatcher, other actors, unguarded self-tells) -/
  plainMsgs : List MsgId
  /-- messages some `do_delay`/`@do_repeat` names -/
  delayedMsgs : List MsgId
  /-- poll methods (`do_repeat_<phase>`) with the leaves of the phase they belong to -/
  pollOwner : List (MsgId × List LeafId)
  /-- knowledge variables that are forgotten whenever a handler ends in one of the given leaves (phases in which
      the other actor may start on its own or on a third party's request) -/
  havoc : List (VarId × List LeafId × Int)
  deriving Repr, Inhabited

def runSeq (cbs : List Stmt) (ids : List Nat) (s : St) : List St :=
  ids.foldl (fun acc i => dedupS (acc.flatMap fun st => (exec (cbs.getD i (.opaque 999)) [] st).map (·.2))) [s]

/-- fire a trigger: every row of (leaf, trigger) is possible (its guards are not modelled); no row ⇒ ignored -/
def fire (D : ActorDesc) (t : MsgId) (s : St) : List St :=
  let rs := (D.rows.getD s.leaf []).filter fun r => r.trig == t
  let ignored := if D.total.contains (s.leaf, t) then [] else [s]
  ignored ++ rs.flatMap fun r =>
    (runSeq D.callbacks r.pre s).flatMap fun s1 =>
      runSeq D.callbacks r.post (if r.internal then s1 else { s1 with leaf := r.dest, pend := [] })

def removeMsg (m : MsgId) (l : List MsgId) : List MsgId := l.filter (· != m)

/-- run message `m` (a trigger or a method) as a plain call -/
def call (D : ActorDesc) (m : MsgId) (s : St) : List St :=
  if D.triggers.contains m then fire D m s
  else match D.methods.find? (·.1 == m) with
    | some (_, p) => (exec p [] s).map (·.2)
    | none => [s]

/-- Messages an actor can receive: a plain call (from anybody, incl. its own unguarded self-tells) or a
    delayed call `do_delayed(token, m)`, which runs only if it carries the current token. -/
inductive Msg
  | plain (m : MsgId)
  | delayed (m : MsgId)
  deriving Repr, DecidableEq, Inhabited

def applyHavoc (D : ActorDesc) (s : St) : St :=
  { s with vars := D.havoc.foldl (fun vs (v, ls, x) => if ls.contains s.leaf then setNth vs v x else vs) s.vars }

def step (D : ActorDesc) (s : St) : Msg → List St
  | .plain m => (call D m { s with pend := removeMsg m s.pend }).map (applyHavoc D)
  | .delayed m =>
      if s.armed == some m then (call D m { s with armed := none }).map (applyHavoc D) else [s]

def allMsgs (D : ActorDesc) : List Msg :=
  D.plainMsgs.map Msg.plain ++ D.delayedMsgs.map Msg.delayed

def initSt (D : ActorDesc) : St :=
  { leaf := D.initLeaf, vars := D.initVars, armed := none, pend := [], bad := false }

/-- Reachability for EVERY message sequence (any length, any order, any environment). -/
inductive Reach (D : ActorDesc) : St → Prop
  | init : Reach D (initSt D)
  | step {s s' : St} (m : Msg) : Reach D s → m ∈ allMsgs D → s' ∈ step D s m → Reach D s'

/-- cheap fingerprint used to pre-filter before the structural comparison (no injectivity needed) -/
def fp (s : St) : Nat :=
  let a := match s.armed with | none => 0 | some m => m + 1
  let p := s.pend.foldl (fun acc m => acc * 67 + m + 1) 0
  s.vars.foldl (fun acc v => acc * 131 + (v + 2).toNat) (a * 211 + p)

/-- The certificate: candidate reachable states, bucketed by leaf, each with its fingerprint. -/
abbrev Buckets := List (List (Nat × St))

/-- bucket of a state: by leaf and fingerprint (keeps buckets, and the kernel's work per lookup, small) -/
def bkey (s : St) : Nat := s.leaf * 8 + fp s % 8

def memB (B : Buckets) (s : St) : Bool :=
  let h := fp s
  (B.getD (bkey s) []).any fun (h', t) => h' == h && t == s

def statesOf (B : Buckets) : List St := B.flatMap fun b => b.map (·.2)

/-- every successor of every state of bucket `l` is in the certificate -/
def leafClosed (D : ActorDesc) (B : Buckets) (l : Nat) : Bool :=
  (B.getD l []).all fun (_, s) => (allMsgs D).all fun m => (step D s m).all (memB B)

/-- contains the initial state and is closed under `step` for every message of the alphabet -/
def closed (D : ActorDesc) (B : Buckets) : Bool :=
  memB B (initSt D) && (List.range B.length).all (leafClosed D B)

theorem memB_mem {B : Buckets} {s : St} (h : memB B s = true) : s ∈ statesOf B := by
  simp only [memB, List.any_eq_true, Bool.and_eq_true, beq_iff_eq] at h
  obtain ⟨⟨h', t⟩, hmem, _, ht⟩ := h
  simp only [statesOf, List.mem_flatMap, List.mem_map]
  subst ht
  refine ⟨B.getD (bkey t) [], ?_, ⟨(h', t), hmem, rfl⟩⟩
  by_cases hl : bkey t < B.length
  · simp [List.getD, hl]
  · simp [List.getD, List.getElem?_eq_none (Nat.le_of_not_lt hl)] at hmem

theorem mem_statesOf {B : Buckets} {s : St} (h : s ∈ statesOf B) : ∃ b ∈ B, ∃ x ∈ b, x.2 = s := by
  simp only [statesOf, List.mem_flatMap, List.mem_map] at h
  obtain ⟨b, hb, x, hx, rfl⟩ := h
  exact ⟨b, hb, x, hx, rfl⟩

theorem reach_mem_of_closed (D : ActorDesc) (B : Buckets) (h : closed D B = true) :
    ∀ s, Reach D s → memB B s = true := by
  intro s hs
  simp only [closed, Bool.and_eq_true, List.all_eq_true, List.mem_range] at h
  obtain ⟨h0, hc⟩ := h
  induction hs with
  | init => exact h0
  | @step s s' m _ hm hs' ih =>
      -- `s` sits in bucket `bkey s`
      have hmem := ih
      simp only [memB, List.any_eq_true, Bool.and_eq_true, beq_iff_eq] at hmem
      obtain ⟨⟨h', t⟩, hin, _, ht⟩ := hmem
      have hlt : bkey s < B.length := by
        by_cases hl : bkey s < B.length
        · exact hl
        · simp [List.getD, List.getElem?_eq_none (Nat.le_of_not_lt hl)] at hin
      have hl := hc (bkey s) hlt
      simp only [leafClosed, List.all_eq_true] at hl
      have hst := hl (h', t) hin
      simp only at ht hst
      subst ht
      exact hst m hm _ hs'

/-- The certificate pattern: a closed finite set all of whose members satisfy `P` proves `P` for every
    reachable state, i.e. for every message sequence of every length. -/
theorem invariant_of_closed (D : ActorDesc) (B : Buckets) (P : St → Bool)
    (hc : closed D B = true) (hP : (statesOf B).all P = true) : ∀ s, Reach D s → P s = true := by
  intro s hs
  have hm := memB_mem (reach_mem_of_closed D B hc s hs)
  exact (List.all_eq_true.mp hP) s hm

end Poupool
