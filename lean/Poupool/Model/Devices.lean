/-!
  GPIO-level contract of the output devices (controller/device.py): relays are active low.
  `SwitchDevice.on()` writes False (energised), `.off()` writes True; `PumpDevice.speed(v)` writes the four
  speed-select pins as `[i != v for i in 0..3]`, i.e. exactly pin `v` is low; `.off()` = `speed(0)`, `.on()` = `speed(3)`.
  Exhaustively compared with the real classes on a recording GPIO (checks/c01.py).
-/
namespace Poupool.Devices

def switchLevel (on : Bool) : Bool := !on

def pumpLevels (speed : Nat) : List Bool := (List.range 4).map fun i => i != speed

/-- the speed a pin pattern selects: the index of the single low pin -/
def selected (levels : List Bool) : Option Nat :=
  match (List.range levels.length).filter fun i => levels.getD i true == false with
  | [i] => some i
  | _ => none

end Poupool.Devices
