/-
C14  No MQTT payload can crash a controller or bypass validation.

All theorems are about `Generated.Dispatch.table` (regenerated from controller/dispatcher.py on every run and validated
by probing the real predicates / converters) and `Model.Dispatch.dispatch`, for ALL topics, payloads (ByteArray),
once-states and ALL functions `parse`/`lower`/`decode` standing for Python's float()/str.lower()/bytes.decode().

THEOREM  (1) totality, unknown topics are silent                       C14_dispatch_total
         (2) what is told is the table's target/method and a validated value    C14_tell_is_validated
             no name of pykka's actor API can be called by name        C14_told_method_never_actor_api
         (3) once-topics are told at most once along any sequence       C14_once_at_most_once (+ C14_once_topics)
         (4) table facts other properties rely on                       C14_fact_*
         (5) arithmetic guards of the setters that can raise            C14_setter_guards_*
             (timedelta overflow, replace(hour=), daily/period > 0, strptime only inside try/except)
VALIDATED ONLY (checks/c14.py, not a theorem): that Model.dispatch is what Dispatcher.dispatch does (correspondence on
structured + random payloads), that the AST scan behind `setterPrims` found every raising primitive, and everything
else a setter does downstream (FSM triggers, device calls, asks): monitor with the REAL controllers in many states,
no actor may die and `halt` must still be processed.
-/
import Poupool.Proofs.Dispatch
import Poupool.Generated.Dispatch

namespace Poupool.C14
open Poupool.Dispatch Poupool.Generated.Dispatch

/-! ## (1) totality -/

/-- `dispatch` is a total function (it returns for every input); a topic that is not in the table tells nothing and
changes nothing; whenever nothing is told the state is unchanged. -/
theorem C14_dispatch_total (parse : String → Option PyNum) (lower : String → String)
    (decode : ByteArray → Option String) (s : State) (topic : String) (payload : ByteArray) :
    ∃ s' r, dispatch table boolTrue parse lower decode s topic payload = (s', r) ∧
      ((∀ e ∈ table, e.topic ≠ topic) → s' = s ∧ r = none) ∧ (r = none → s' = s) := by
  refine ⟨(dispatch table boolTrue parse lower decode s topic payload).1,
    (dispatch table boolTrue parse lower decode s topic payload).2, rfl, ?_, ?_⟩
  · intro h
    rw [dispatch_unknown (lookup_none_of_not_mem h)]
    exact ⟨rfl, rfl⟩
  · intro h
    exact dispatch_none_state h

/-- non-vacuity: a known topic with an acceptable payload does tell -/
example : (dispatch table boolTrue (fun _ => some (.fin (q 5 2))) id (fun _ => some "2.5") {} "/settings/filtration/speed/eco"
    ByteArray.empty).2 = some ⟨"filtration", "speed_eco", .int 2⟩ := by decide

/-! ## (2) validation -/

theorem C14_table_wellformed : table.all Entry.wf = true := by decide

theorem C14_topics_unique : (table.map (·.topic)).Nodup := by decide

/-- If anything is told, then the topic has an entry in the table, the target is that entry's controller, the method
is that entry's setter (mode topics: one of the whitelisted trigger names) and the value satisfies the entry's
predicate: `lo ≤ v ≤ hi` finite for `between`; for `to_int` the truncated integer itself is inside `[lo, hi]`
(integer bounds, so inside `[⌈lo⌉, ⌊hi⌋]`); `≥ lo` finite for `greater_equal`. -/
theorem C14_tell_is_validated (parse : String → Option PyNum) (lower : String → String)
    (decode : ByteArray → Option String) (s s' : State) (topic : String) (payload : ByteArray) (tl : Tell)
    (h : dispatch table boolTrue parse lower decode s topic payload = (s', some tl)) :
    ∃ e ∈ table, e.topic = topic ∧ tl.target = e.target ∧ MethodOk e tl.method ∧ ValueOk e tl.arg := by
  obtain ⟨e, data, hl, _, hp, hv, ht, hm, _⟩ := dispatch_tell_inv h
  obtain ⟨hmem, htopic, _, _⟩ := lookup_some hl
  have hwf : e.wf = true := (List.all_eq_true.1 C14_table_wellformed) e hmem
  exact ⟨e, hmem, htopic, ht, hm ▸ method_ok hwf hp, value_ok hwf hp hv⟩

example : ∃ e ∈ table, e.topic = "/settings/filtration/speed/eco" ∧ ValueOk e (.int 2) ∧ MethodOk e "speed_eco" :=
  ⟨⟨"/settings/filtration/speed/eco", "filtration", .between (q 1 1) (q 3 1), .const "speed_eco", .toInt, false⟩,
    by decide, rfl, ⟨2, rfl, by decide, by decide⟩, rfl⟩

/-- names the dispatcher may call never collide with pykka's actor API (`stop`, `__class__`, `on_failure`, ...) -/
def safeNames (e : Entry) : Bool :=
  match e.method, e.pred with
  | .const n, _ => !actorApi.contains n
  | .identity, .inSet s false => s.all (fun m => !actorApi.contains m)
  | .identity, _ => false

theorem C14_table_names_safe : table.all safeNames = true := by decide

/-- No payload can make the dispatcher call a method of pykka's actor API (e.g. `stop`) on a controller. -/
theorem C14_told_method_never_actor_api (parse : String → Option PyNum) (lower : String → String)
    (decode : ByteArray → Option String) (s s' : State) (topic : String) (payload : ByteArray) (tl : Tell)
    (h : dispatch table boolTrue parse lower decode s topic payload = (s', some tl)) :
    actorApi.contains tl.method = false := by
  obtain ⟨e, hmem, _, _, hm, _⟩ := C14_tell_is_validated parse lower decode s s' topic payload tl h
  have hs : safeNames e = true := (List.all_eq_true.1 C14_table_names_safe) e hmem
  obtain ⟨topic', target, pred, method, conv, once⟩ := e
  simp only [MethodOk] at hm
  simp only [safeNames] at hs
  cases method with
  | const n =>
    simp only at hm hs
    rw [hm]; simpa using hs
  | identity =>
    simp only at hm
    obtain ⟨S, hpred, hin⟩ := hm
    subst hpred
    simp only [List.all_eq_true] at hs
    simpa using hs _ hin

example : actorApi.contains "stop" = true ∧ actorApi.contains "__class__" = true := by decide

/-! ## (3) once -/

theorem C14_once_topics :
    onceTopics table = ["/status/filtration/duration", "/status/heating/total_seconds", "/status/water/counter"] := by
  decide

theorem C14_once_entries : ∀ t ∈ onceTopics table, (entryOf table t).any (·.once) = true := by decide

/-- Along ANY sequence of deliveries (any topics, payloads, from any dispatcher state) each restore-only topic
(`once`) is told at most once. -/
theorem C14_once_at_most_once (parse : String → Option PyNum) (lower : String → String)
    (decode : ByteArray → Option String) (s : State) (msgs : List (String × ByteArray)) (t : String)
    (ht : t ∈ onceTopics table) :
    ((run table boolTrue parse lower decode s msgs).filter (fun x => x.1 == t)).length ≤ 1 := by
  have h := C14_once_entries t ht
  cases he : entryOf table t with
  | none => simp [he] at h
  | some e =>
    simp [he] at h
    exact run_once_at_most_once he h msgs s

/-- non-vacuity: the first delivery is told, the second is not -/
example : ((run table boolTrue (fun _ => some (.fin (q 42 1))) id (fun _ => some "42") {}
    [("/status/water/counter", ByteArray.empty), ("/status/water/counter", ByteArray.empty)]).map (·.2)) =
    [⟨"arduino", "restore_water_counter", .int 42⟩] := by decide

/-! ## (4) table facts other properties rely on -/

theorem C14_fact_speed_eco : intRange table "/settings/filtration/speed/eco" = some (1, 3) := by decide
theorem C14_fact_speed_standby : intRange table "/settings/filtration/speed/standby" = some (0, 2) := by decide
theorem C14_fact_speed_overflow : intRange table "/settings/filtration/speed/overflow" = some (1, 4) := by decide
theorem C14_fact_duration : intRange table "/settings/filtration/duration" = some (1, 172800) := by decide
theorem C14_fact_period : intRange table "/settings/filtration/period" = some (1, 10) := by decide
theorem C14_fact_reset_hour : intRange table "/settings/filtration/reset_hour" = some (0, 23) := by decide
theorem C14_fact_stir_duration : intRange table "/settings/filtration/stir_duration" = some (0, 600) := by decide
theorem C14_fact_stir_period : intRange table "/settings/filtration/stir_period" = some (0, 7200) := by decide
theorem C14_fact_boost_duration : intRange table "/settings/filtration/boost_duration" = some (0, 600) := by decide
theorem C14_fact_backwash_period : intRange table "/settings/filtration/backwash/period" = some (0, 90) := by decide
theorem C14_fact_backwash_duration :
    intRange table "/settings/filtration/backwash/backwash_duration" = some (0, 300) := by decide
theorem C14_fact_rinse_duration :
    intRange table "/settings/filtration/backwash/rinse_duration" = some (0, 300) := by decide
theorem C14_fact_restore_duration : intRange table "/status/filtration/duration" = some (0, 86400) := by decide
theorem C14_fact_cover_position : intRange table "/settings/cover/position/eco" = some (0, 100) := by decide
theorem C14_fact_swim_timer : intRange table "/settings/swim/timer" = some (1, 60) := by decide
theorem C14_fact_swim_speed : intRange table "/settings/swim/speed" = some (1, 100) := by decide
theorem C14_fact_heating_start_hour : intRange table "/settings/heating/start_hour" = some (0, 23) := by decide
theorem C14_fact_heating_min_temp : intRange table "/settings/heating/min_temp" = some (5, 25) := by decide
theorem C14_fact_heating_total_seconds :
    intRange table "/status/heating/total_seconds" = some (0, 3153600000) := by decide
theorem C14_fact_orp_setpoint : intRange table "/settings/disinfection/orp/setpoint" = some (500, 800) := by decide
theorem C14_fact_tank_percentage :
    floatRange table "/settings/filtration/tank_percentage" = some (q 0 1, q 1 2) := by decide
theorem C14_fact_heater_setpoint : floatRange table "/settings/heater/setpoint" = some (q 0 1, q 30 1) := by decide
theorem C14_fact_heating_setpoint : floatRange table "/settings/heating/setpoint" = some (q 10 1, q 32 1) := by decide
theorem C14_fact_ph_setpoint : floatRange table "/settings/disinfection/ph/setpoint" = some (q 6 1, q 8 1) := by decide
theorem C14_fact_ph_pterm : floatRange table "/settings/disinfection/ph/pterm" = some (q 0 1, q 10 1) := by decide
theorem C14_fact_orp_pterm : floatRange table "/settings/disinfection/orp/pterm" = some (q 0 1, q 10 1) := by decide

/-- every numeric topic has a finite upper bound, except the water counter (`greater_equal(0)`, unbounded above) -/
theorem C14_fact_numeric_upper_bounds :
    ∀ e ∈ table, isNumeric e = true →
      hasFiniteUpper e = true ∨ (e.topic = "/status/water/counter" ∧ e.pred = .greaterEqual (q 0 1)) := by decide

/-- topic ↦ (controller, method): the routing the other properties rely on (`.identity`: the payload names the trigger) -/
def expectedRouting : List (String × String × MethodSel) := [
      ("/settings/mode", "filtration", .identity),
      ("/settings/filtration/duration", "filtration", .const "duration"),
      ("/settings/filtration/period", "filtration", .const "period"),
      ("/settings/filtration/reset_hour", "filtration", .const "reset_hour"),
      ("/settings/filtration/tank_percentage", "filtration", .const "tank_percentage"),
      ("/settings/filtration/stir_duration", "filtration", .const "stir_duration"),
      ("/settings/filtration/stir_period", "filtration", .const "stir_period"),
      ("/settings/filtration/boost_duration", "filtration", .const "boost_duration"),
      ("/settings/filtration/backwash/period", "filtration", .const "backwash_period"),
      ("/settings/filtration/backwash/backwash_duration", "filtration", .const "backwash_backwash_duration"),
      ("/settings/filtration/backwash/rinse_duration", "filtration", .const "backwash_rinse_duration"),
      ("/status/filtration/backwash/last", "filtration", .const "backwash_last"),
      ("/status/filtration/duration", "filtration", .const "restore_duration"),
      ("/settings/filtration/speed/eco", "filtration", .const "speed_eco"),
      ("/settings/filtration/speed/standby", "filtration", .const "speed_standby"),
      ("/settings/filtration/speed/overflow", "filtration", .const "speed_overflow"),
      ("/settings/filtration/overflow_in_comfort", "filtration", .const "overflow_in_comfort"),
      ("/settings/cover/position/eco", "filtration", .const "cover_position_eco"),
      ("/settings/tank/force_empty", "tank", .const "force_empty"),
      ("/settings/swim/mode", "swim", .identity),
      ("/settings/swim/timer", "swim", .const "timer"),
      ("/settings/swim/speed", "swim", .const "speed"),
      ("/settings/light/mode", "light", .identity),
      ("/settings/heater/setpoint", "heater", .const "setpoint"),
      ("/settings/heating/enable", "heating", .const "enable"),
      ("/settings/heating/setpoint", "heating", .const "setpoint"),
      ("/settings/heating/start_hour", "heating", .const "start_hour"),
      ("/settings/heating/min_temp", "heating", .const "min_temp"),
      ("/status/heating/total_seconds", "heating", .const "total_seconds"),
      ("/settings/disinfection/ph/enable", "disinfection", .const "ph_enable"),
      ("/settings/disinfection/ph/setpoint", "disinfection", .const "ph_setpoint"),
      ("/settings/disinfection/ph/pterm", "disinfection", .const "ph_pterm"),
      ("/settings/disinfection/orp/enable", "disinfection", .const "orp_enable"),
      ("/settings/disinfection/orp/setpoint", "disinfection", .const "orp_setpoint"),
      ("/settings/disinfection/orp/pterm", "disinfection", .const "orp_pterm"),
      ("/status/water/counter", "arduino", .const "restore_water_counter")]

/-- every topic is routed to its controller and method, and there is no other topic (by lookup: insensitive to the order of
    the entries in `register`) -/
theorem C14_fact_routing :
    (expectedRouting.all fun (t, tg, m) => (entryOf table t).map (fun e => (e.target, e.method)) == some (tg, m)) = true ∧
    table.length = expectedRouting.length := by decide


/-- the mode whitelists -/
theorem C14_fact_modes :
    (entryOf table "/settings/mode").map (·.pred) =
      some (.inSet ["halt", "eco", "standby", "overflow", "comfort", "sweep", "wash", "wintering"] false) ∧
    (entryOf table "/settings/swim/mode").map (·.pred) = some (.inSet ["halt", "timed", "continuous"] false) ∧
    (entryOf table "/settings/light/mode").map (·.pred) = some (.inSet ["halt", "on"] false) := by decide

/-- the only topic whose payload is forwarded without any validation (its setter must therefore guard itself) -/
theorem C14_fact_unvalidated_topics :
    (table.filter (fun e => e.pred == .always)).map (·.topic) = ["/status/filtration/backwash/last"] := by decide

/-! ## (5) the arithmetic of the setters that can raise

`setterPrims` is the list of raising primitives the told value reaches inside the setters (AST taint scan of the
tree under test; validated only).  The theorems say the table's ranges imply every guard. -/

/-- every primitive found by the scan passes the decidable guard check against every entry that can call it
(in particular: no unguarded `strptime`, nothing the scan does not know) -/
theorem C14_setter_guards_checked : setterPrims.all (guardOk table) = true := by decide

/-- `timedelta(<unit>=v)` cannot overflow, `replace(hour=v)` gets 0..23, the period divisor is non-zero:
for every scanned primitive with an arithmetic guard, every value the dispatcher can tell (`ValueOk`) through any
entry calling that setter satisfies the guard. -/
theorem C14_setter_guards_arith :
    ∀ tmp ∈ setterPrims, tmp.2.2.isIntGuard = true →
      (∃ e ∈ table, e.target = tmp.1 ∧ e.method = .const tmp.2.1) ∧
      ∀ e ∈ table, e.target = tmp.1 → e.method = .const tmp.2.1 →
        ∀ v, ValueOk e v → ∃ k, v = .int k ∧ primSafeInt tmp.2.2 k := by
  intro tmp hmem hk
  exact guardOk_sound ((List.all_eq_true.1 C14_setter_guards_checked) tmp hmem) hk

example : (("swim", "timer", Prim.td .minutes) ∈ setterPrims) ∧ primSafeInt (.td .minutes) 60 :=
  ⟨by decide, by show tdOk .minutes 60; decide⟩

/-- `assert self.period_duration > timedelta()` in EcoMode holds: `daily / period` (round-half-even, in µs) is
positive for every daily duration and period the dispatcher accepts. -/
theorem C14_setter_guards_period_duration_positive (d p : Int)
    (hd : ∃ r, intRange table "/settings/filtration/duration" = some r ∧ r.1 ≤ d ∧ d ≤ r.2)
    (hp : ∃ r, intRange table "/settings/filtration/period" = some r ∧ r.1 ≤ p ∧ p ≤ r.2) :
    0 < divRoundHalfEven (d * 1000000) p := by
  obtain ⟨r, hr, h1, h2⟩ := hd
  obtain ⟨r', hr', h1', h2'⟩ := hp
  rw [C14_fact_duration] at hr
  rw [C14_fact_period] at hr'
  cases hr; cases hr'
  simp only at h1 h2 h1' h2'
  exact divRound_pos (by omega) (by omega)

example : divRoundHalfEven (1 * 1000000) 10 = 100000 := by decide

/-- the only string-valued setter parses its argument inside `try/except ValueError` -/
theorem C14_setter_guards_strptime :
    ∀ tmp ∈ setterPrims, tmp.2.2 ≠ .strptimeUnguarded ∧
      (tmp.2.1 = "backwash_last" → tmp.2.2 = .strptimeGuarded) := by decide

example : ("filtration", "backwash_last", Prim.strptimeGuarded) ∈ setterPrims := by decide

end Poupool.C14
