import Poupool.Properties.C01
/-!
# C13  Counter-current pump runs only while the pool is open, or in wintering
* `swim_relay_only_in_running_phases`: the relay is energised only in Swim's `timed`, `continuous`, `wintering_stir`.
* `swim_start_is_guarded`: every row out of Swim's `halt` is guarded (`filtration_allow_swim` /
  `filtration_is_wintering`); a refused request changes nothing (C12.refused_request_changes_nothing).
* `filtration_knows_swim_halted`: for every message sequence, in `halt`, every `eco_*`, `heating_*`, `wash_*`,
  `opening_*` phase and in `closing` Filtration's last word to Swim is `halt` (or Swim answered halted).
  With `C01.glue_swim` and `C01.swim_off_when_halted`: settled ⇒ the relay is off in those phases.
* OPEN FINDING (known_findings.json `swim-user-request-in-wintering`): `filtration_allow_swim` also accepts while
  Filtration is wintering, so "a request in any other mode is refused" is false there: `swim_guard_allows_wintering`.
-/
namespace Poupool.C13
open Poupool Poupool.Gen

def relayOK (s : St) : Bool :=
  !s.bad && (s.v Swim.v_dev_swim == 0 || s.leaf == Swim.leaf_timed || s.leaf == Swim.leaf_continuous ||
    s.leaf == Swim.leaf_wintering_stir)

theorem swim_relay_only_in_running_phases : ∀ s, Reach swimSafetyDesc s → relayOK s = true :=
  invariant_of_closed _ _ _ Cert.swimSafety_closed (by decide +kernel)

example : (statesOf swimSafetyReach).any (fun s => s.v Swim.v_dev_swim == 1) = true := by decide +kernel

def startGuarded : Bool :=
  (swimRows.getD Swim.leaf_halt []).all fun r =>
    (r.dest == Swim.leaf_halt) ||
    ((r.trig == Swim.m_timed || r.trig == Swim.m_continuous) && r.req.contains (Swim.g_filtration_allow_swim, true)) ||
    (r.trig == Swim.m_wintering && r.req.contains (Swim.g_filtration_is_wintering, true))

theorem swim_start_is_guarded : startGuarded = true := by decide +kernel

def neverList (l : Nat) : Bool :=
  [Filtration.leaf_halt, Filtration.leaf_eco_compute, Filtration.leaf_eco_normal, Filtration.leaf_eco_tank,
   Filtration.leaf_eco_waiting, Filtration.leaf_heating_running, Filtration.leaf_heating_delay_none,
   Filtration.leaf_heating_delay_standby, Filtration.leaf_heating_delay_overflow, Filtration.leaf_wash_backwash,
   Filtration.leaf_wash_rinse, Filtration.leaf_opening_standby, Filtration.leaf_opening_overflow,
   Filtration.leaf_closing].contains l

def knowsSwimHalted (s : St) : Bool := !s.bad && (!neverList s.leaf || s.v Filtration.v_rq_Swim == N.halt_)

theorem filtration_knows_swim_halted : ∀ s, Reach filtrationSafetyDesc s → knowsSwimHalted s = true :=
  invariant_of_closed _ _ _ Cert.filtrationSafety_closed (by decide +kernel)

/-- the phases in which Swim's guard can be true (regenerated from `filtration_allow_swim`'s source) -/
def swimAllowedLeaves : List Nat :=
  match filtrationSafetyDesc.havoc.find? (·.1 == Filtration.v_rq_Swim) with
  | some (_, ls, _) => ls
  | none => []

/-- open finding: the guard includes the two wintering phases -/
theorem swim_guard_allows_wintering :
    swimAllowedLeaves.contains Filtration.leaf_wintering_waiting = true ∧
    swimAllowedLeaves.contains Filtration.leaf_wintering_stir = true := by decide +kernel

/-- apart from wintering, the guard allows exactly the open stable modes of the statement -/
theorem swim_guard_open_modes_partial :
    (swimAllowedLeaves.filter fun l => !(l == Filtration.leaf_wintering_waiting || l == Filtration.leaf_wintering_stir))
      = [Filtration.leaf_standby_normal, Filtration.leaf_overflow_normal, Filtration.leaf_comfort] := by decide +kernel

end Poupool.C13
