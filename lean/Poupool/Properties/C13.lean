import Poupool.Properties.C01
import Poupool.Model.Winter
import Poupool.Proofs.EcoArith
/-!
# C13  Counter-current pump runs only while the pool is open, or in wintering
* `swim_relay_only_in_running_phases`: the relay is energised only in Swim's `timed`, `continuous`, `wintering_stir`.
* `swim_start_is_guarded`: every row out of Swim's `halt` is guarded (`filtration_allow_swim` /
  `filtration_is_wintering`); a refused request changes nothing (C12.refused_request_changes_nothing).
* `filtration_knows_swim_halted`: for every message sequence, in `halt`, every `eco_*`, `heating_*`, `wash_*`,
  `opening_*` phase and in `closing` Filtration's last word to Swim is `halt` (or Swim answered halted).
  With `C01.glue_swim` and `C01.swim_off_when_halted`: settled ⇒ the relay is off in those phases.
* OPEN FINDING (known_findings.json `swim-user-request-in-wintering`): `filtration_allow_swim` also accepts while
  Filtration is wintering, so "a request in any other mode is refused" is false there: `swim_guard_allows_wintering`.
-/
namespace Poupool.C13
open Poupool Poupool.Gen

def relayOK (s : St) : Bool :=
  !s.bad && (s.v Swim.v_dev_swim == 0 || s.leaf == Swim.leaf_timed || s.leaf == Swim.leaf_continuous ||
    s.leaf == Swim.leaf_wintering_stir)

theorem swim_relay_only_in_running_phases : ∀ s, Reach swimSafetyDesc s → relayOK s = true :=
  invariant_of_closed _ _ _ Cert.swimSafety_closed (by decide +kernel)

example : (statesOf swimSafetyReach).any (fun s => s.v Swim.v_dev_swim == 1) = true := by decide +kernel

def startGuarded : Bool :=
  (swimRows.getD Swim.leaf_halt []).all fun r =>
    (r.dest == Swim.leaf_halt) ||
    ((r.trig == Swim.m_timed || r.trig == Swim.m_continuous) && r.req.contains (Swim.g_filtration_allow_swim, true)) ||
    (r.trig == Swim.m_wintering && r.req.contains (Swim.g_filtration_is_wintering, true))

theorem swim_start_is_guarded : startGuarded = true := by decide +kernel

def neverList (l : Nat) : Bool :=
  [Filtration.leaf_halt, Filtration.leaf_eco_compute, Filtration.leaf_eco_normal, Filtration.leaf_eco_tank,
   Filtration.leaf_eco_waiting, Filtration.leaf_heating_running, Filtration.leaf_heating_delay_none,
   Filtration.leaf_heating_delay_standby, Filtration.leaf_heating_delay_overflow, Filtration.leaf_wash_backwash,
   Filtration.leaf_wash_rinse, Filtration.leaf_opening_standby, Filtration.leaf_opening_overflow,
   Filtration.leaf_closing].contains l

def knowsSwimHalted (s : St) : Bool := !s.bad && (!neverList s.leaf || s.v Filtration.v_rq_Swim == N.halt_)

theorem filtration_knows_swim_halted : ∀ s, Reach filtrationSafetyDesc s → knowsSwimHalted s = true :=
  invariant_of_closed _ _ _ Cert.filtrationSafety_closed (by decide +kernel)

/-- the phases in which Swim's guard can be true (regenerated from `filtration_allow_swim`'s source) -/
def swimAllowedLeaves : List Nat :=
  match filtrationSafetyDesc.havoc.find? (·.1 == Filtration.v_rq_Swim) with
  | some (_, ls, _) => ls
  | none => []

/-- open finding: the guard includes the two wintering phases -/
theorem swim_guard_allows_wintering :
    swimAllowedLeaves.contains Filtration.leaf_wintering_waiting = true ∧
    swimAllowedLeaves.contains Filtration.leaf_wintering_stir = true := by decide +kernel

/-- apart from wintering, the guard allows exactly the open stable modes of the statement -/
theorem swim_guard_open_modes_partial :
    (swimAllowedLeaves.filter fun l => !(l == Filtration.leaf_wintering_waiting || l == Filtration.leaf_wintering_stir))
      = [Filtration.leaf_standby_normal, Filtration.leaf_overflow_normal, Filtration.leaf_comfort] := by decide +kernel

/-! ## timed mode stops by itself (Model/Winter.lean: util.Timer as used by Swim.do_repeat_timed) -/
open Poupool.Winter

/-- after any sequence of polls the accumulated time is exactly (last poll − first poll): nothing is lost or counted twice -/
theorem timed_accumulates (t0 : Int) (ts : List Int) :
    (runPolls (t0 :: ts)).dur = (ts.getLastD t0) - t0 ∧ (runPolls (t0 :: ts)).last = some (ts.getLastD t0) := by
  unfold runPolls
  simp only [List.foldl_cons, Timer.update]
  have gen : ∀ (ts : List Int) (d l : Int),
      (ts.foldl Timer.update { dur := d, last := some l }).dur = d + (ts.getLastD l - l) ∧
      (ts.foldl Timer.update { dur := d, last := some l }).last = some (ts.getLastD l) := by
    intro ts
    induction ts with
    | nil => intro d l; simp
    | cons x xs ih =>
        intro d l
        simp only [List.foldl_cons, Timer.update]
        obtain ⟨h1, h2⟩ := ih (d + (x - l)) x
        refine ⟨?_, ?_⟩
        · rw [h1]
          cases xs with
          | nil => simp only [List.getLastD_nil, List.getLastD_cons]; omega
          | cons y ys => simp only [List.getLastD_cons]; omega
        · rw [h2]
          cases xs with
          | nil => simp only [List.getLastD_nil, List.getLastD_cons]
          | cons y ys => simp only [List.getLastD_cons]
  obtain ⟨h1, h2⟩ := gen ts 0 t0
  exact ⟨by rw [h1]; omega, h2⟩

/-- hence the poll that comes `delay` after the first one requests `halt` (polls are 1 s apart: C08.other_timeouts) -/
theorem timed_stops (t0 delay : Int) (ts : List Int) (now : Int) (h : now - t0 ≥ delay) :
    (timedPoll (runPolls (t0 :: ts)) delay now).1 = .halt := by
  obtain ⟨hd, hl⟩ := timed_accumulates t0 ts
  simp only [timedPoll, Timer.update, hl]
  rw [if_pos]
  simp only [hd]
  omega

example : (timedPoll (runPolls [0, 1000000, 2000000]) 3000000 3000000).1 = .halt := by decide

/-! ## one util.Timer, two models

`Winter.Timer` (used above) and `Eco.Timer` (Model/Eco.lean, tied statement by statement to controller/util.py by the shape check of
translate/eco_config.py and the op-exact EcoMode/Timer correspondence) describe the same class; the swim poll uses it with
`update(now)` (factor 1) and `elapsed()`.  `timer_models_agree`: projected to (duration, last) the two evolve identically, and
`elapsed` is the same decision — so the tie of `Eco.Timer` carries over to `timed_accumulates` / `timed_stops`. -/

def ofEco (t : Poupool.Eco.Timer) : Timer := { dur := t.duration, last := t.last }

theorem timer_models_agree (t : Poupool.Eco.Timer) (now : Int) :
    ofEco (t.update now 1 1) = (ofEco t).update now ∧
    (t.update now 1 1).delay = t.delay ∧
    ((t.update now 1 1).elapsed = true ↔ ((ofEco t).update now).dur ≥ t.delay) := by
  unfold Poupool.Eco.Timer.update Timer.update ofEco Poupool.Eco.Timer.elapsed
  cases h : t.last with
  | none => simp
  | some l => simp [Poupool.Eco.scale_one]

/-- `on_enter_timed` resets the timer, the `timer` setting sets the delay (and resets): both models start from duration 0, no last update -/
theorem timer_models_agree_reset (t : Poupool.Eco.Timer) (d : Int) :
    ofEco t.reset = { dur := 0, last := none } ∧ ofEco (t.setDelay d) = { dur := 0, last := none } ∧ (t.setDelay d).delay = d := by
  simp [ofEco, Poupool.Eco.Timer.reset, Poupool.Eco.Timer.setDelay]

example : ofEco ((Poupool.Eco.Timer.mk 5 (some 10) 100).update 45 1 1) = { dur := 40, last := some 45 } := by decide

end Poupool.C13
