/-
C03  Daily cap on dosing-pump run time.

Model: Poupool/Model/Pwm.lean (`tick` = PWM.do_run, `cancel` = PWM.do_cancel, statement by statement), constants from
the regenerated Poupool/Generated/PwmConfig.lean.  Ghost semantics and invariant: Poupool/Proofs/PwmCap.lean.

Schedule assumption (`Valid`): time does not run backwards and, WHILE THE PUMP IS ENERGISED, the next do_run / do_cancel
comes at most Δ after the previous do_run (Δ = 1.5 s for the property's quantifier: ticks nominally every 1 s, jitter up
to half a second).  Nothing is assumed while the pump is off (halts of any length, any number of days).
Everything else is universally quantified: the op list (any interleaving of ticks, cancels/restarts, duty and period
writes, any length), period, min_runtime, configured security duration S ≥ 0, start instant.

Result: between two consecutive daily resets (and from construction to the first reset) the energised time of the pump
is ≤ S·10⁶ µs + 2Δ:  one Δ because the timer is only consulted at ticks (overshoot), one Δ because `Timer.reset()` at the
daily reset forgets its reference instant, so the first tick interval after a reset with the pump on is not counted.
With 2Δ ≤ P (P ≥ 3 s at Δ = 1.5 s; the property quantifies over P ≥ 10 s) this is the property's "S + one PWM period".
-/
import Poupool.Proofs.PwmCap
import Poupool.Generated.PwmConfig

namespace Poupool.C03
open Poupool.Pwm Poupool.Generated

/-- The source applies the configured number in SECONDS (`timedelta(seconds=PWM.SECURITY_DURATION)`), as config.ini
documents it ("in seconds per day").  Regenerated from the source: `hours=` makes this theorem false. -/
theorem c03_unit_is_seconds : pwmCfg.securityUnitUs = 1000000 := by decide

example : pwmCfg.securityDuration * pwmCfg.securityUnitUs = 7200 * 1000000 := by decide

/-- The translator found every function the model mirrors in the expected shape. -/
theorem c03_shape : pwmCfg.shapeOk = true := by decide

/-- Main theorem.  For every configured security duration `S ≥ 0` (as a number of seconds), every period, minimum run
time, start instant, tick bound `Δ ≥ 0` and every valid op list: the energised time since the last daily reset is at
most `S` seconds plus two ticks.  (The value just before a reset tick is the total of the closing window.) -/
theorem c03_cap (period minRt : Rat) (S start Δ : Int) (ops : List Op) (hS : 0 ≤ S) (hΔ : 0 ≤ Δ)
    (hv : Valid pwmCfg Δ (G.init pwmCfg period minRt S start) ops) :
    (runG pwmCfg (G.init pwmCfg period minRt S start) ops).energ ≤ S * 1000000 + 2 * Δ := by
  have hS' : 0 ≤ S * pwmCfg.securityUnitUs := by rw [c03_unit_is_seconds]; omega
  have hinv := inv_run pwmCfg hΔ ops _ (inv_init pwmCfg period minRt S start Δ hS' hΔ) hv
  have hb := inv_bound hinv
  rw [delay_run] at hb
  have hd : (G.init pwmCfg period minRt S start).s.sec.delay = S * 1000000 := by
    simp only [G.init, PwmState.init, Timer.mk', c03_unit_is_seconds]
  omega

/-- non-vacuity: S = 5 s, P = 10 s, duty 100 %, 1 s ticks: the pump is switched on at the 2nd tick, the cap is reached
after 5 counted seconds and the pump is switched off (energised exactly 5 s); the schedule is valid for Δ = 1.5 s. -/
def demoOps : List Op :=
  [.setValue 1, .tick] ++ (List.replicate 9 [Op.wait 1000000, Op.tick]).flatten

example : Valid pwmCfg 1500000 (G.init pwmCfg 10 3 5 0) demoOps := by decide +kernel
example : (runG pwmCfg (G.init pwmCfg 10 3 5 0) demoOps).energ = 5000000 := by decide +kernel
example : (runG pwmCfg (G.init pwmCfg 10 3 5 0) demoOps).s.pumpOn = false := by decide +kernel
example : (runG pwmCfg (G.init pwmCfg 10 3 5 0) (demoOps.take 8)).s.pumpOn = true := by decide +kernel

/-- The property as stated: with `2Δ ≤ P` (P the PWM period in whole seconds, e.g. Δ = 1.5 s and P ≥ 3 s) the energised
time per security window never exceeds the configured security duration by more than one PWM period. -/
theorem c03_cap_one_period (P : Int) (minRt : Rat) (S start Δ : Int) (ops : List Op) (hS : 0 ≤ S) (hΔ : 0 ≤ Δ)
    (hP : 2 * Δ ≤ P * 1000000)
    (hv : Valid pwmCfg Δ (G.init pwmCfg (P : Rat) minRt S start) ops) :
    (runG pwmCfg (G.init pwmCfg (P : Rat) minRt S start) ops).energ ≤ (S + P) * 1000000 := by
  have := c03_cap (P : Rat) minRt S start Δ ops hS hΔ hv
  omega

example : (2 : Int) * 1500000 ≤ 10 * 1000000 ∧ Valid pwmCfg 1500000 (G.init pwmCfg ((10 : Int) : Rat) 3 5 0) demoOps := by
  decide +kernel

/-- The pump is only ever switched on while the security timer has not elapsed, and it never stays on across a tick at
which the timer has elapsed (this is what makes 100 % duty respect the cap). -/
theorem c03_on_implies_not_elapsed (period minRt : Rat) (S start Δ : Int) (ops : List Op) (hS : 0 ≤ S) (hΔ : 0 ≤ Δ)
    (hv : Valid pwmCfg Δ (G.init pwmCfg period minRt S start) ops) :
    (runG pwmCfg (G.init pwmCfg period minRt S start) ops).s.pumpOn = true →
    (runG pwmCfg (G.init pwmCfg period minRt S start) ops).s.sec.duration < S * 1000000 := by
  intro hp
  have hS' : 0 ≤ S * pwmCfg.securityUnitUs := by rw [c03_unit_is_seconds]; omega
  have hinv := inv_run pwmCfg hΔ ops _ (inv_init pwmCfg period minRt S start Δ hS' hΔ) hv
  have h := hinv.hdon hp
  rw [delay_run] at h
  have hd : (G.init pwmCfg period minRt S start).s.sec.delay = S * 1000000 := by
    simp only [G.init, PwmState.init, Timer.mk', c03_unit_is_seconds]
  rw [hd] at h; exact h

example : (runG pwmCfg (G.init pwmCfg 10 3 5 0) (demoOps.take 8)).s.sec.duration = 2000000 := by decide +kernel

/-- After a cancel the pump is off, whatever happened before. -/
theorem c03_cancel_off (c : Cfg) (g : G) : (stepG c g .cancel).s.pumpOn = false := rfl

example : (stepG pwmCfg (runG pwmCfg (G.init pwmCfg 10 3 5 0) (demoOps.take 8)) .cancel).s.pumpOn = false := rfl

end Poupool.C03
