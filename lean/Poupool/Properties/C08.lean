import Poupool.Proofs.ActorLib
/-!
# C08  Time-limited phases end on time and polling phases never go deaf

`timerOK` is an invariant of EVERY reachable state of every controller, for every message sequence – in particular for
the sequences in which a command is delivered between a timer's firing and the delivery of its call, and for bursts:

* (no stale poll) if the delayed call carrying the current token is a poll `do_repeat_<phase>`, the controller is in
  that phase – `do_cancel` runs on every state change (it is in the generated rows) and invalidates the token; a call
  with an old token is dropped by `do_delayed` (the model's `Msg.delayed` rule, read from controller/actor.py by the
  runtime probe);
* (not deaf) in every phase that is not listed as quiet, either a delayed call with the current token exists – a poll,
  or a trigger that is accepted unconditionally in this phase (its timeout) – or an unguarded self-tell of such a
  trigger, issued since the phase was entered, is pending.  Hence a timed phase is left when its timer fires unless another row fired first, and a polling
  phase is polled again; with ε-prompt delivery: within duration + 2ε resp. period + 2ε.

The quiet phases are listed by name below (phases that legitimately have neither timer nor poll).
-/
namespace Poupool.C08
open Poupool Poupool.Gen

def isTotal (D : ActorDesc) (l : Nat) (m : Nat) : Bool := D.total.contains (l, m)

def noStalePoll (D : ActorDesc) (s : St) : Bool :=
  match s.armed with
  | some m =>
      match D.pollOwner.find? (·.1 == m) with
      | some (_, ls) => ls.contains s.leaf
      | none => true
  | none => true

def notDeaf (D : ActorDesc) (quiet : List Nat) (s : St) : Bool :=
  quiet.contains s.leaf ||
  (match s.armed with
   | some m => if D.triggers.contains m then isTotal D s.leaf m else true
   | none => false) ||
  (s.pend.any fun m => D.triggers.contains m && isTotal D s.leaf m)

def timerOK (D : ActorDesc) (quiet : List Nat) (s : St) : Bool := !s.bad && noStalePoll D s && notDeaf D quiet s

theorem filtration_timers : ∀ s, Reach filtrationTimerDesc s →
    timerOK filtrationTimerDesc [Filtration.leaf_halt, Filtration.leaf_sweep] s = true :=
  invariant_of_closed _ _ _ Cert.filtrationTimer_closed (by decide +kernel)

theorem tank_timers : ∀ s, Reach tankTimerDesc s → timerOK tankTimerDesc [Tank.leaf_halt] s = true :=
  invariant_of_closed _ _ _ Cert.tankTimer_closed (by decide +kernel)

theorem heating_timers : ∀ s, Reach heatingTimerDesc s →
    timerOK heatingTimerDesc [Heating.leaf_halt, Heating.leaf_forcing] s = true :=
  invariant_of_closed _ _ _ Cert.heatingTimer_closed (by decide +kernel)

theorem disinfection_timers : ∀ s, Reach disinfectionTimerDesc s →
    timerOK disinfectionTimerDesc [Disinfection.leaf_halt] s = true :=
  invariant_of_closed _ _ _ Cert.disinfectionTimer_closed (by decide +kernel)

theorem swim_timers : ∀ s, Reach swimTimerDesc s → timerOK swimTimerDesc [Swim.leaf_halt] s = true :=
  invariant_of_closed _ _ _ Cert.swimTimer_closed (by decide +kernel)

theorem arduino_timers : ∀ s, Reach arduinoTimerDesc s → timerOK arduinoTimerDesc [Arduino.leaf_halt] s = true :=
  invariant_of_closed _ _ _ Cert.arduinoTimer_closed (by decide +kernel)

/-- non-vacuity: polling and timed phases are in the certificates -/
example : (statesOf filtrationTimerReach).any (fun s => s.leaf == Filtration.leaf_standby_boost && s.armed == some Filtration.m_standby) = true := by
  decide +kernel
example : (statesOf tankTimerReach).any (fun s => s.leaf == Tank.leaf_normal && s.pend == [Tank.m_low]) = true := by
  decide +kernel

end Poupool.C08
