import Poupool.Proofs.ActorLib
/-!
# C08  Time-limited phases end on time and polling phases never go deaf

`timerOK` is an invariant of EVERY reachable state of every controller, for every message sequence – in particular for
the sequences in which a command is delivered between a timer's firing and the delivery of its call, and for bursts:

* (no stale poll) if the delayed call carrying the current token is a poll `do_repeat_<phase>`, the controller is in
  that phase – `do_cancel` runs on every state change (it is in the generated rows) and invalidates the token; a call
  with an old token is dropped by `do_delayed` (the model's `Msg.delayed` rule, read from controller/actor.py by the
  runtime probe);
* (not deaf) in every phase that is not listed as quiet, either a delayed call with the current token exists – a poll,
  or a trigger that is accepted unconditionally in this phase (its timeout) – or an unguarded self-tell of such a
  trigger, issued since the phase was entered, is pending.  Hence a timed phase is left when its timer fires unless another row fired first, and a polling
  phase is polled again; with ε-prompt delivery: within duration + 2ε resp. period + 2ε.

The quiet phases are listed by name below (phases that legitimately have neither timer nor poll).
-/
namespace Poupool.C08
open Poupool Poupool.Gen

def isTotal (D : ActorDesc) (l : Nat) (m : Nat) : Bool := D.total.contains (l, m)

def noStalePoll (D : ActorDesc) (s : St) : Bool :=
  match s.armed with
  | some m =>
      match D.pollOwner.find? (·.1 == m) with
      | some (_, ls) => ls.contains s.leaf
      | none => true
  | none => true

def notDeaf (D : ActorDesc) (quiet : List Nat) (s : St) : Bool :=
  quiet.contains s.leaf ||
  (match s.armed with
   | some m => if D.triggers.contains m then isTotal D s.leaf m else true
   | none => false) ||
  (s.pend.any fun m => D.triggers.contains m && isTotal D s.leaf m)

def timerOK (D : ActorDesc) (quiet : List Nat) (s : St) : Bool := !s.bad && noStalePoll D s && notDeaf D quiet s

theorem filtration_timers : ∀ s, Reach filtrationTimerDesc s →
    timerOK filtrationTimerDesc [Filtration.leaf_halt, Filtration.leaf_sweep] s = true :=
  invariant_of_closed _ _ _ Cert.filtrationTimer_closed (by decide +kernel)

theorem tank_timers : ∀ s, Reach tankTimerDesc s → timerOK tankTimerDesc [Tank.leaf_halt] s = true :=
  invariant_of_closed _ _ _ Cert.tankTimer_closed (by decide +kernel)

theorem heating_timers : ∀ s, Reach heatingTimerDesc s →
    timerOK heatingTimerDesc [Heating.leaf_halt, Heating.leaf_forcing] s = true :=
  invariant_of_closed _ _ _ Cert.heatingTimer_closed (by decide +kernel)

theorem disinfection_timers : ∀ s, Reach disinfectionTimerDesc s →
    timerOK disinfectionTimerDesc [Disinfection.leaf_halt] s = true :=
  invariant_of_closed _ _ _ Cert.disinfectionTimer_closed (by decide +kernel)

theorem swim_timers : ∀ s, Reach swimTimerDesc s → timerOK swimTimerDesc [Swim.leaf_halt] s = true :=
  invariant_of_closed _ _ _ Cert.swimTimer_closed (by decide +kernel)

theorem arduino_timers : ∀ s, Reach arduinoTimerDesc s → timerOK arduinoTimerDesc [Arduino.leaf_halt] s = true :=
  invariant_of_closed _ _ _ Cert.arduinoTimer_closed (by decide +kernel)

/-- non-vacuity: polling and timed phases are in the certificates -/
example : (statesOf filtrationTimerReach).any (fun s => s.leaf == Filtration.leaf_standby_boost && s.armed == some Filtration.m_standby) = true := by
  decide +kernel
example : (statesOf tankTimerReach).any (fun s => s.leaf == Tank.leaf_normal && s.pend == [Tank.m_low]) = true := by
  decide +kernel

/-! ## durations: every time-limited phase arms its timeout with the configured duration, every poll with its period

`<actor>Delays` lists every `do_delay` of the source with its duration resolved by the translator on the running code
(class constants and config.ini values evaluated; `self.__x.total_seconds()` = the duration setting x).  With `timerOK`
(the timeout carrying the current token exists in every state of the phase) and ε-prompt delivery, a phase entered at t
is left by t + d + 2ε unless another row fired first. -/

def dur (tbl : List (String × String × Dur)) (handler target : String) : Option Dur :=
  (tbl.find? fun (h, m, _) => h == handler && m == target).map (·.2.2)

theorem filtration_timeouts :
    dur filtrationDelays "on_enter_standby_boost" "standby" = some (.setting "boost_duration") ∧
    dur filtrationDelays "on_enter_overflow_boost" "overflow" = some (.setting "boost_duration") ∧
    dur filtrationDelays "on_enter_heating_delay_none" "heating_delayed" = some (.halfSeconds Cfg.heating_delay_to_eco) ∧
    dur filtrationDelays "on_enter_heating_delay_standby" "heating_delayed" = some (.halfSeconds Cfg.heating_delay_to_open) ∧
    dur filtrationDelays "on_enter_heating_delay_overflow" "heating_delayed" = some (.halfSeconds Cfg.heating_delay_to_open) ∧
    dur filtrationDelays "on_enter_wash_backwash" "rinse" = some (.setting "backwash_backwash_duration") ∧
    dur filtrationDelays "on_enter_wash_rinse" "eco" = some (.setting "backwash_rinse_duration") ∧
    dur filtrationDelays "on_enter_wintering_stir" "wintering_waiting" = some (.halfSeconds Cfg.wintering_duration) ∧
    dur filtrationDelays "do_repeat_opening" "opened" = some (.halfSeconds 4) ∧
    dur filtrationDelays "do_repeat_closing" "closed" = some (.halfSeconds 4) ∧
    dur filtrationDelays "on_enter_eco_compute" "eco_normal" = some (.halfSeconds 10) ∧
    dur filtrationDelays "on_enter_eco_compute" "eco_waiting" = some (.halfSeconds 10) := by decide

/-- every poll of Filtration re-arms with its own name and a period of 10 s (cover 5 s, wintering 2 min) -/
theorem filtration_poll_periods :
    (filtrationDelays.filter fun (h, m, _) => h == m).map (fun (h, _, d) => (h, d)) =
      [("do_repeat_closing", .halfSeconds 10), ("do_repeat_comfort", .halfSeconds 20), ("do_repeat_eco_normal", .halfSeconds 20),
       ("do_repeat_eco_tank", .halfSeconds 20), ("do_repeat_eco_waiting", .halfSeconds 20),
       ("do_repeat_heating_running", .halfSeconds 20), ("do_repeat_opening", .halfSeconds 10),
       ("do_repeat_overflow_normal", .halfSeconds 20), ("do_repeat_standby_normal", .halfSeconds 20),
       ("do_repeat_wintering_waiting", .halfSeconds 240)] := by decide

theorem other_timeouts :
    dur heatingDelays "on_enter_recovering" "recover_done" = some (.halfSeconds Cfg.heating_recover_period) ∧
    dur disinfectionDelays "on_enter_waiting" "run" = some (.halfSeconds Cfg.disinfection_start_delay) ∧
    dur disinfectionDelays "on_enter_running_treating" "adjust" = some (.halfSeconds Cfg.disinfection_waiting_delay) ∧
    dur swimDelays "on_enter_wintering_stir" "wintering_waiting" = some (.halfSeconds Cfg.wintering_swim_duration) ∧
    dur swimDelays "do_repeat_timed" "do_repeat_timed" = some (.halfSeconds 2) ∧
    dur swimDelays "do_repeat_continuous" "do_repeat_continuous" = some (.halfSeconds 2) ∧
    dur swimDelays "do_repeat_wintering_waiting" "do_repeat_wintering_waiting" = some (.halfSeconds 240) ∧
    dur tankDelays "do_repeat_fill" "do_repeat_fill" = some (.halfSeconds 10) ∧
    dur tankDelays "do_repeat_low" "do_repeat_low" = some (.halfSeconds 10) ∧
    dur tankDelays "do_repeat_normal" "do_repeat_normal" = some (.halfSeconds 20) ∧
    dur tankDelays "do_repeat_high" "do_repeat_high" = some (.halfSeconds 20) ∧
    dur heatingDelays "do_repeat_waiting" "do_repeat_waiting" = some (.halfSeconds 20) ∧
    dur heatingDelays "do_repeat_heating" "do_repeat_heating" = some (.halfSeconds 20) ∧
    dur pwmDelays "do_run" "do_run" = some (.halfSeconds 2) := by decide

/-- no `do_delay` has a duration the translator could not resolve -/
def allResolved (tbl : List (String × String × Dur)) : Bool :=
  tbl.all fun (_, _, d) => match d with | .unknown _ => false | _ => true

theorem durations_resolved :
    (allResolved filtrationDelays && allResolved tankDelays && allResolved heatingDelays && allResolved disinfectionDelays &&
     allResolved swimDelays && allResolved arduinoDelays && allResolved pwmDelays) = true := by decide

end Poupool.C08
