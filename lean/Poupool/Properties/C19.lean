/-
C19  Cover firmware keeps the motor inside its envelope and the protocol sound.

Model: Poupool/Model/Firmware.lean (constants, end-point operators and command table regenerated from
arduino/cover/cover.ino into Generated/FirmwareConst.lean on every run).  All theorems quantify over ALL event
sequences (`run s evs` is a fold over the list, no bound on its length), every EEPROM content `(p, c, o)` and every
interleaving of serial bytes, loop iterations, encoder / water interrupts, button callbacks and interrupts inside
the relay `delay()`.
-/
import Poupool.Proofs.FirmwareProto

namespace Poupool.C19
open Poupool.Firmware Poupool.FirmwareConst

/-! ## The numbers of the statement are the numbers of the sketch -/

/-- Buffer of 32 (a line of at most 30 characters + NUL fits, the 32nd byte forces a dispatch), 3 s / 50 pps = 150
pulses of margin, 500 ms / 10 pulses stall window, percentage = constrain(100 * .., 0, 100), end points tested with
`>=` / `<=` without offset, `process_direction` stores the direction it read at its top, terminator `***`. -/
theorem statement_constants :
    bufSize = 32 ∧ bufFullAt = 31 ∧ bufIgnoreAt = 32 ∧ maxRunningMarginMs = 3000 ∧ pulsesPerSecond = 50 ∧
    maxPulseMargin = 150 ∧ stallWindowMs = 500 ∧ stallMinPulses = 10 ∧ pctMul = 100 ∧ pctLo = 0 ∧ pctHi = 100 ∧
    stepOpenStrict = false ∧ stepOpenOffset = 0 ∧ stepCloseStrict = false ∧ stepCloseOffset = 0 ∧
    prevDirRereadsVolatile = false ∧
    terminator = [42, 42, 42] ∧ emergencyTerminator = [42, 42, 42] ∧
    emergencyText = [101, 109, 101, 114, 103, 101, 110, 99, 121, 32, 115, 116, 111, 112] := by
  decide

/-! ## (a) ReadBuffer and framing -/

/-- No out-of-bounds access, ever: after ANY event sequence from power-up no write `m_buffer[i]` with `i ≥ 32` has
happened, `strcmp` / `println(buffer)` never ran over a buffer without NUL, and the index is at most 31 (so the next
write is in bounds). -/
theorem buffer_never_out_of_bounds (p c o : Int) (evs : List Ev) :
    (run (init p c o) evs).oobWrite = false ∧ (run (init p c o) evs).oobRead = false ∧
    (run (init p c o) evs).idx ≤ 31 ∧ (run (init p c o) evs).buf.length = 32 := by
  have h := rbFeed_ok (bytesOf evs) _ (rbok_init p c o)
  rw [← rbOf_run] at h
  obtain ⟨h1, h2, h3, h4⟩ := h
  exact ⟨h3, h4, h1, h2⟩

set_option maxRecDepth 100000 in
example : (run (init 5 0 100) ((List.replicate 100 (Ev.byte 200)) ++ [.pulse, .tick 600])).idx = 4 := by decide

/-- Interleaving independence: the ReadBuffer state (index, content, number of dispatches, last dispatched string)
after any event sequence is the pure `ReadBuffer::add`/`clear` automaton run over the serial bytes alone; loop
iterations, interrupts, buttons and emergency stops in between change nothing. -/
theorem buffer_state_depends_only_on_bytes (s : St) (evs : List Ev) :
    rbOf (run s evs) = rbFeed (rbOf s) (bytesOf evs) :=
  rbOf_run evs s

example : bytesOf [.byte 111, .pulse, .tick 20, .byte 10, .btn .released] = [111, 10] := by decide

/-- A line of at most 30 characters (no CR, no LF; NUL allowed) followed by `\n`, from an in-step firmware and with
ANY other events interleaved: no dispatch before the newline, exactly one dispatch at the newline, on the C string
`line` up to its first NUL, and the buffer is empty again. -/
theorem short_line_one_dispatch (s : St) (line : List Nat) (evs evs' : List Ev)
    (hs : Empty (rbOf s)) (hlen : line.length ≤ 30) (hc : ∀ c ∈ line, c ≠ 10 ∧ c ≠ 13)
    (hev : bytesOf evs = line ++ [10]) (hev' : bytesOf evs' = line) :
    (run s evs').nDispatch = s.nDispatch ∧
    (run s evs).nDispatch = s.nDispatch + 1 ∧
    (run s evs).lastCmd = line.takeWhile (fun x => x != 0) ∧
    Empty (rbOf (run s evs)) := by
  obtain ⟨h1, h2⟩ := rbFeed_line_le31 (rbOf s) line 10 hs (by omega) hc (by decide) (Or.inr rfl)
  have e := rbOf_run evs s
  have e' := rbOf_run evs' s
  rw [hev, h2] at e
  rw [hev', h1] at e'
  refine ⟨congrArg RB.nDispatch e', congrArg RB.nDispatch e, congrArg RB.lastCmd e, ?_⟩
  rw [e]; exact ⟨rfl, rfl, rfl, rfl⟩

example : Empty (rbOf (init 1 2 3)) ∧ bytesOf [.byte 115, .pulse, .byte 116, .tick 5, .byte 10] = [115, 116] ++ [10] := by
  exact ⟨empty_init 1 2 3, by decide⟩

/-- A line of exactly 31 characters: its terminating byte (the `\n`, or any byte but CR) is the 32nd byte, is consumed
as the forced NUL, and gives exactly one dispatch on the 31 characters; the firmware is in step afterwards. -/
theorem line_31_one_dispatch (s : St) (line : List Nat) (b : Nat) (evs : List Ev)
    (hs : Empty (rbOf s)) (hlen : line.length = 31) (hc : ∀ c ∈ line, c ≠ 10 ∧ c ≠ 13) (hb : b ≠ 13)
    (hev : bytesOf evs = line ++ [b]) :
    (run s evs).nDispatch = s.nDispatch + 1 ∧
    (run s evs).lastCmd = line.takeWhile (fun x => x != 0) ∧
    Empty (rbOf (run s evs)) := by
  obtain ⟨_, h2⟩ := rbFeed_line_le31 (rbOf s) line b hs (by omega) hc hb (Or.inl hlen)
  have e := rbOf_run evs s
  rw [hev, h2] at e
  refine ⟨congrArg RB.nDispatch e, congrArg RB.lastCmd e, ?_⟩
  rw [e]; exact ⟨rfl, rfl, rfl, rfl⟩

example : (List.replicate 31 65).length = 31 ∧ ∀ c ∈ List.replicate 31 65, c ≠ 10 ∧ c ≠ 13 := by decide

/-- Back in step at the next newline, whatever came before: after ANY event sequence from power-up (garbage, lines
of any length, NUL, bytes ≥ 0x80) whose last serial byte is `\n` and which ends with that byte's loop iteration,
the buffer is empty. -/
theorem any_line_back_in_step (p c o : Int) (evs : List Ev) :
    Empty (rbOf (run (init p c o) (evs ++ [.byte 10]))) := by
  have hrun : run (init p c o) (evs ++ [.byte 10]) = step (run (init p c o) evs) (.byte 10) := by
    simp [run, List.foldl_append]
  have hok : RBOK (rbOf (run (init p c o) evs)) := by
    rw [rbOf_run]; exact rbFeed_ok _ _ (rbok_init p c o)
  have hstep := rbOf_step (run (init p c o) evs) (.byte 10)
  simp only at hstep
  obtain ⟨n1, n2, _⟩ := rbStep_newline _ hok
  have hok' := rbStep_ok _ 10 hok
  rw [hrun, hstep]
  exact ⟨n1, n2, hok'.2.2.1, hok'.2.2.2⟩

set_option maxRecDepth 100000 in
example : (run (init 0 0 0) ((List.replicate 77 (Ev.byte 255)) ++ [.byte 10])).idx = 0 := by decide

set_option maxRecDepth 100000 in
/-- What "longer lines" really do (NOT "only error replies"): a line of 32 + k characters is cut after 31; the 32nd
character is dropped; the rest is taken as a NEW line.  Witness: 32 letters followed by `open` and a newline: the
firmware replies `error command AB..E`, then executes `open` and drives the motor. -/
theorem long_line_can_execute_command_counterexample :
    let line := (List.range 32).map (fun i => 65 + i % 26) ++ ascii "open"
    let s := run (init 50 0 100) ((line ++ [10]).map Ev.byte)
    line.length = 36 ∧ s.nDispatch = 2 ∧ s.dir = .opn ∧ s.pinClose = true ∧ s.lastCmd = ascii "open" := by
  decide

/-- Sending a command line: after ANY events whose serial bytes are `cmd` (at most 30 characters, no CR / LF / NUL),
from an in-step firmware, the loop iteration that reads the `\n` runs the dispatch on a buffer whose C string is
exactly `cmd`, then the rest of `loop()`. -/
theorem command_reaches_dispatch (s : St) (cmd : List Nat) (evs : List Ev) (hs : Empty (rbOf s))
    (hlen : cmd.length ≤ 30) (hc : ∀ c ∈ cmd, c ≠ 10 ∧ c ≠ 13 ∧ c ≠ 0) (hev : bytesOf evs = cmd) :
    let s1 := run s evs
    run s (evs ++ [.byte 10]) = actions (dispatchCore { s1 with idx := s1.idx + 1 }) none ∧
    cstr { s1 with idx := s1.idx + 1 } = cmd := by
  intro s1
  obtain ⟨hi, hb⟩ := run_line_buffer s cmd evs hs hlen (fun c h => ⟨(hc c h).1, (hc c h).2.1⟩) hev
  obtain ⟨e1, e2, e3⟩ := serialStep_newline_line s1 cmd hi hb hlen
  have htw : ∀ l : List Nat, (∀ x ∈ l, x ≠ 0) → l.takeWhile (fun x => x != 0) = l := by
    intro l
    induction l with
    | nil => intro _; rfl
    | cons a as ih =>
      intro h
      have ha : (a != 0) = true := by simp [h a (List.mem_cons_self ..)]
      rw [List.takeWhile_cons, ha]
      simp only [if_true]
      rw [ih (fun x hx => h x (List.mem_cons_of_mem _ hx))]
  have htw := htw cmd (fun x hx => (hc x hx).2.2)
  refine ⟨?_, ?_⟩
  · have : run s (evs ++ [.byte 10]) = actions (serialStep s1 10) none := by
      simp [run, List.foldl_append, step, loopIter, s1]
    rw [this, e1, e3]
  · rw [← e3, e2, htw]

example : ∀ c ∈ ascii "position", c ≠ 10 ∧ c ≠ 13 ∧ c ≠ 0 := by decide

/-- Every dispatch prints exactly one reply block: `<body>` `***\r\n`, the body being, per C string in the buffer,
the fixed table below (for an unknown command: `error command ` + the string; the string contains no CR/LF since
those never enter the buffer).  Together with `short_line_one_dispatch` / `line_31_one_dispatch`: one line of at most
31 characters, one block. -/
theorem dispatch_emits_one_block (s : St) :
    (cstr s = ascii "open" →
      (dispatchCore s).out = s.out ++ ascii "open\r\n***\r\n" ∧ (dispatchCore s).dir = (setDirection s .opn).dir) ∧
    (cstr s = ascii "close" →
      (dispatchCore s).out = s.out ++ ascii "close\r\n***\r\n" ∧ (dispatchCore s).dir = (setDirection s .cls).dir) ∧
    (cstr s = ascii "stop" →
      (dispatchCore s).out = s.out ++ ascii "stop\r\n***\r\n" ∧ (dispatchCore s).dir = .stop) ∧
    (cstr s = ascii "position" →
      (dispatchCore s).out = s.out ++ (ascii "position " ++ decNat (pct s) ++ ascii "\r\n***\r\n") ∧
      (dispatchCore s).dir = s.dir) ∧
    (cstr s = ascii "water" →
      (dispatchCore s).out = s.out ++ (ascii "water " ++ decNat s.water ++ ascii "\r\n***\r\n") ∧
      (dispatchCore s).dir = s.dir) ∧
    (cstr s = ascii "reset" →
      (dispatchCore s).out = s.out ++ ascii "reset\r\n***\r\n" ∧ (dispatchCore s).pos = 0) ∧
    (cstr s = ascii "debug" →
      (dispatchCore s).out = s.out ++ (ascii "debug\r\nposition=" ++ decInt s.pos ++ ascii "\r\nopen=" ++ decInt s.opn
        ++ ascii "\r\nclose=" ++ decInt s.close ++ ascii "\r\n***\r\n")) ∧
    (cstr s ∉ [ascii "open", ascii "close", ascii "stop", ascii "position", ascii "water", ascii "debug", ascii "reset"] →
      (dispatchCore s).out = s.out ++ (ascii "error command " ++ cstr s ++ ascii "\r\n***\r\n") ∧
      (dispatchCore s).dir = s.dir) :=
  dispatchCore_table s

example : (dispatchCore { init 30 0 100 with buf := ascii "position" ++ List.replicate 24 0 }).out
    = ascii "position 30\r\n***\r\n" := by decide

/-! ## (c) Percentage -/

/-- `get_position_percentage()` is within 0..100 for EVERY position and end points (open = close, open < close,
values for which the 32-bit arithmetic wraps). -/
theorem percentage_in_range (s : St) : 0 ≤ pctLong s ∧ pctLong s ≤ 100 ∧ pct s ≤ 100 ∧ (pct s : Int) = pctLong s := by
  have h : 0 ≤ pctLong s ∧ pctLong s ≤ 100 := by
    unfold pctLong
    simp only [pctLo, pctHi]
    split
    · omega
    · exact clamp_range _
  refine ⟨h.1, h.2, ?_, ?_⟩ <;> unfold pct <;> omega

example : pct (init 130 0 100) = 100 ∧ pct (init (-7) 0 100) = 0 ∧ pct (init 5 3 3) = 0 ∧ pct (init 30 100 0) = 70 := by
  decide

/-- When nothing overflows the value is the mathematical one: truncating division of `100 * (position - close)` by
`open - close`, clamped to 0..100 (also for `open < close`, where both are negative).  The product overflows 32 bits
iff `|position - close| > 21474836`, far beyond any cover travel (a few thousand pulses). -/
theorem percentage_exact_without_overflow (s : St)
    (hd : -2147483648 ≤ s.opn - s.close ∧ s.opn - s.close < 2147483648)
    (hm : -21474836 ≤ s.pos - s.close ∧ s.pos - s.close ≤ 21474836) :
    pctLong s =
      if s.opn - s.close = 0 then 0
      else
        let q := Int.tdiv (100 * (s.pos - s.close)) (s.opn - s.close)
        if q < 0 then 0 else if q > 100 then 100 else q := by
  unfold pctLong
  simp only [pctMul, pctLo, pctHi]
  have e1 : wrap32 (s.opn - s.close) = s.opn - s.close := wrap32_id hd.1 hd.2
  have e2 : wrap32 (s.pos - s.close) = s.pos - s.close := wrap32_id (by omega) (by omega)
  have e3 : wrap32 (100 * (s.pos - s.close)) = 100 * (s.pos - s.close) := wrap32_id (by omega) (by omega)
  have hb := Int.natAbs_tdiv (100 * (s.pos - s.close)) (s.opn - s.close)
  have hb2 : (100 * (s.pos - s.close)).natAbs.div (s.opn - s.close).natAbs ≤ (100 * (s.pos - s.close)).natAbs :=
    Nat.div_le_self _ _
  have e4 : wrap32 (Int.tdiv (100 * (s.pos - s.close)) (s.opn - s.close))
      = Int.tdiv (100 * (s.pos - s.close)) (s.opn - s.close) := wrap32_id (by omega) (by omega)
  simp only [e1, e2, e3, e4]

example : pctLong (init 2500 0 5000) = 50 ∧ pctLong (init 2500 5000 0) = 50 ∧ pctLong (init 1 0 3) = 33 := by decide

/-- With wrap-around the reported value is still within 0..100 (`percentage_in_range`) but wrong: at
`position - close = 21474837` the product wraps negative and the firmware reports 0 instead of 50. -/
theorem percentage_wraps_counterexample :
    pct (init 21474837 0 42949674) = 0 ∧ Int.tdiv (100 * (21474837 - 0)) (42949674 - 0) = 50 := by
  decide

/-! ## (b) Motor -/

/-- For EVERY event sequence – encoder interrupts inside the `delay(100)` of `process_direction` included – right
after `process_direction` both motor pins are LOW iff the direction it read on entry is STOP.  Inside the delay the ISR
can only leave the direction alone or set it to STOP; hence, when no interrupt fires inside the delay, "the direction
it read" is the direction afterwards (second part), and otherwise the only possible difference is "direction STOP,
pin still HIGH", which `stop_reaches_pins_at_next_iteration` bounds by one loop period. -/
theorem pins_low_iff_stop (p c o : Int) (evs : List Ev) (now : Nat) :
    let s := run (init p c o) evs
    let s' := processDirection s now
    (((s'.pinOpen = false ∧ s'.pinClose = false) ↔ s.dir = .stop) ∧ s'.prevDir = s.dir) ∧
    (s'.dir = s.dir ∨ s'.dir = .stop) ∧
    (s.dpulses = 0 → ((s'.pinOpen = false ∧ s'.pinClose = false) ↔ s'.dir = .stop)) := by
  intro s s'
  have hm := run_motor evs _ (motor_init p c o)
  obtain ⟨hm', hpd, hd, hd0⟩ := processDirection_motor s now hm
  have hl := motor_low_iff s' hm'
  refine ⟨⟨hl.trans (by rw [hpd]), hpd⟩, hd, ?_⟩
  intro h0
  exact hl.trans (by rw [hpd, hd0 h0])

example : (processDirection (run (init 5 0 100) [.byte 111, .byte 112, .byte 101, .byte 110, .byte 10, .tick 20, .pulse]) 120).pinClose = true := by
  decide

/-- A STOP – raised by the ISR inside the relay delay or in any other way – reaches the pins at the NEXT
`process_direction`: from every reachable state whose direction is STOP, the next loop iteration (no serial byte, no
button) ends with direction STOP and both pins LOW.  (Between the two iterations encoder interrupts keep the direction
at STOP: `coverIsr_dir_stop`.) -/
theorem stop_reaches_pins_at_next_iteration (p c o : Int) (evs : List Ev) (ms : Nat) :
    let s := run (init p c o) evs
    s.dir = .stop →
    let t := step s (.tick ms)
    t.dir = .stop ∧ t.pinOpen = false ∧ t.pinClose = false := by
  intro s hs t
  have hm : Motor s := run_motor evs _ (motor_init p c o)
  have hm' : Motor { s with clk := s.clk + ms } := motor_of_mp (b := s) rfl hm
  have hdir : t.dir = .stop := actions_none_dir_stop { s with clk := s.clk + ms } hs
  obtain ⟨hpm, hprev, _, _⟩ := processDirection_motor { s with clk := s.clk + ms } (s.clk + ms) hm'
  have hmp : mpOf t = mpOf (processDirection { s with clk := s.clk + ms } (s.clk + ms)) := by
    show mpOf (actions { s with clk := s.clk + ms } none) = _
    unfold actions
    exact Eq.trans (mp_processStop _ _) (mp_ensureConsistency _ _)
  have ht : Motor t := motor_of_mp hmp hpm
  have hp : t.prevDir = .stop := (congrArg MP.prevDir hmp).trans (hprev.trans hs)
  have := (motor_low_iff t ht).mpr hp
  exact ⟨hdir, this.1, this.2⟩

set_option maxRecDepth 100000 in
example : (run (init 97 0 100) (raceWitness.take 6)).dir = .stop ∧ (run (init 97 0 100) (raceWitness.take 6)).pinClose = true := by
  decide

set_option maxRecDepth 100000 in
/-- Regression witness of the defect fixed in the sketch ("does not lose a stop raised during the relay delay"):
EEPROM (97, 0, 100), `open`, 4 encoder pulses inside the relay delay.  Right after that `process_direction` the
direction is STOP (end point reached inside the delay), the pin is still HIGH and the previous direction is OPEN; the
next loop iteration lowers the pins; at the end of the witness the motor is off and the position saved.  (With the
sketch before the fix the model – regenerated with `prevDirRereadsVolatile = true` – kept the pin HIGH for ever.) -/
theorem isr_stop_in_delay_regression :
    let s0 := run (init 97 0 100) (raceWitness.take 5)
    let s1 := processDirection (serialStep s0 10) s0.clk
    (s1.dir = .stop ∧ s1.pinClose = true ∧ s1.prevDir = .opn ∧ s1.pos = 101) ∧
    let s2 := run (init 97 0 100) (raceWitness.take 7)
    (s2.dir = .stop ∧ s2.pinClose = false ∧ s2.pinOpen = false ∧ s2.prevDir = .stop ∧ s2.doStop = 120) ∧
    let t := run (init 97 0 100) raceWitness
    (t.dir = .stop ∧ t.pinClose = false ∧ t.run = .stop ∧ t.pos = 103 ∧ t.eePos = 103 ∧ t.nEmergency = 0) := by
  decide

/-- An encoder interrupt (not debounced away, limits not being set) whose step brings the position to or beyond an
end point sets the direction to STOP. -/
theorem isr_step_at_end_point_stops (s : St) (hl : s.lim = .none) (hdeb : s.clk - s.isrLast > 10)
    (hp : -2147483648 < s.pos ∧ s.pos < 2147483647)
    (ho : -2147483648 ≤ s.opn ∧ s.opn < 2147483648) (hc : -2147483648 ≤ s.close ∧ s.close < 2147483648) :
    (s.run = .opn → s.pos + 1 ≥ s.opn → (coverIsr s).dir = .stop ∧ (coverIsr s).pos = s.pos + 1) ∧
    (s.run = .cls → s.pos - 1 ≤ s.close → (coverIsr s).dir = .stop ∧ (coverIsr s).pos = s.pos - 1) := by
  have w1 : wrap32 (s.pos + 1) = s.pos + 1 := wrap32_id (by omega) (by omega)
  have w2 : wrap32 (s.pos - 1) = s.pos - 1 := wrap32_id (by omega) (by omega)
  have w3 : wrap32 (s.opn + 0) = s.opn := by rw [Int.add_zero]; exact wrap32_id (by omega) (by omega)
  have w4 : wrap32 (s.close + 0) = s.close := by rw [Int.add_zero]; exact wrap32_id (by omega) (by omega)
  have hdeb' : s.clk - s.isrLast > coverDebounceMs := hdeb
  constructor
  · intro hr hge
    unfold coverIsr stepCover atOpenEnd
    simp only [hdeb', if_true, hr, hl, stepOpenStrict, stepOpenOffset, w1, w3, Bool.false_eq_true, if_false,
      decide_eq_true_eq, true_and, hge]
  · intro hr hle
    unfold coverIsr stepCover atCloseEnd
    simp only [hdeb', if_true, hr, hl, stepCloseStrict, stepCloseOffset, w2, w4, Bool.false_eq_true, if_false,
      decide_eq_true_eq, true_and, hle]

example : (coverIsr { init 99 0 100 with run := .opn, dir := .opn, clk := 500 }).dir = .stop := by decide

/-- After `ensure_consistency` (limits not being set) a direction other than STOP implies that the tracked position is
inside the envelope `close - 150 .. open + 150`. -/
theorem envelope_after_ensure_consistency (s : St) (now : Nat)
    (hc : -2147483648 + 150 ≤ s.close) (ho : s.opn < 2147483648 - 150)
    (hc' : s.close < 2147483648) (ho' : -2147483648 ≤ s.opn) :
    let s' := ensureConsistency s now
    s'.lim = .none → s'.dir ≠ .stop → s'.close - 150 ≤ s'.pos ∧ s'.pos ≤ s'.opn + 150 := by
  intro s' hl hd
  have hs' : s' = ensureConsistency s now := rfl
  unfold ensureConsistency at hs'
  by_cases h0 : s.dir ≠ .stop
  · rw [if_pos h0] at hs'
    obtain ⟨_, _, _, _, _, _⟩ := envelopeCheck_same (stallCheck s now)
    have hsc : (stallCheck s now).close = s.close ∧ (stallCheck s now).opn = s.opn := by
      unfold stallCheck; (repeat' split) <;> exact ⟨rfl, rfl⟩
    unfold envelopeCheck at hs'
    by_cases h1 : (stallCheck s now).lim = .none
    · rw [if_pos h1] at hs'
      by_cases h2 : outsideEnvelope (stallCheck s now) = true
      · rw [if_pos h2] at hs'
        exact absurd (by rw [hs']; rfl) hd
      · rw [if_neg h2] at hs'
        rw [hs']
        unfold outsideEnvelope at h2
        simp only [maxPulseMargin, Bool.or_eq_true, not_or] at h2
        have w1 : wrap32 (s.close - 150) = s.close - 150 := wrap32_id (by omega) (by omega)
        have w2 : wrap32 (s.opn + 150) = s.opn + 150 := wrap32_id (by omega) (by omega)
        simp only [hsc.1, hsc.2, w1, w2] at h2
        show (stallCheck s now).close - 150 ≤ (stallCheck s now).pos ∧ (stallCheck s now).pos ≤ (stallCheck s now).opn + 150
        rw [hsc.1, hsc.2]
        simp only [decide_eq_true_eq] at h2
        omega
    · rw [if_neg h1] at hs'
      exact absurd (by rw [hs'] at hl; exact hl) h1
  · rw [if_neg h0] at hs'
    exact absurd (by rw [hs'] at hd; exact hd) h0

example : (ensureConsistency { init 300 0 100 with dir := .opn, prevDir := .opn } 5).dir = .stop ∧
    (ensureConsistency { init 120 0 100 with dir := .cls, prevDir := .cls } 5).dir = .cls := by decide

/-- Stall, one step: when `ensure_consistency` runs with a direction other than STOP, more than 500 ms after the
window started, and the position moved by fewer than 10 pulses, the direction becomes STOP and the block
`emergency stop\r\n***\r\n` is printed. -/
theorem stall_check_emergency_stop (s : St) (now : Nat) (hd : s.dir ≠ .stop) (ht : now - s.prevTime > 500)
    (hp : absC (wrap32 (s.pos - s.prevPos)) < 10) :
    let s' := ensureConsistency s now
    s'.dir = .stop ∧ s'.nEmergency ≥ s.nEmergency + 1 ∧
    ∃ rest, s'.out = s.out ++ ascii "emergency stop\r\n***\r\n" ++ rest := by
  intro s'
  have hs' : s' = envelopeCheck (stallCheck s now) := by
    show ensureConsistency s now = _
    unfold ensureConsistency; rw [if_pos hd]
  obtain ⟨f1, f2, f3, _⟩ := stallCheck_fires s now ht hp
  obtain ⟨e1, _, _, _, _, e6⟩ := envelopeCheck_same (stallCheck s now)
  refine ⟨?_, ?_, ?_⟩
  · rw [hs']; rcases e1 with e | e
    · rw [e, f1]
    · exact e
  · rw [hs']; omega
  · have hblock : ascii "emergency stop\r\n***\r\n" = (emergencyText ++ crlf) ++ (emergencyTerminator ++ crlf) := by decide
    rw [hs', hblock]
    unfold envelopeCheck
    (repeat' split)
    · exact ⟨(emergencyText ++ crlf) ++ (emergencyTerminator ++ crlf), by
        show (stallCheck s now).out ++ (emergencyText ++ crlf) ++ (emergencyTerminator ++ crlf) = _
        rw [f3]; simp [List.append_assoc]⟩
    · exact ⟨[], by rw [f3]; simp [List.append_assoc]⟩
    · exact ⟨[], by rw [f3]; simp [List.append_assoc]⟩

example : (ensureConsistency { init 50 0 100 with dir := .opn, prevDir := .opn, prevPos := 45, prevTime := 100 } 700).out
    = ascii "emergency stop\r\n***\r\n" := by decide

/-- Stall, timed: the motor has been switched to direction `d ≠ STOP` (`m_previous_direction = m_direction`), the
stall window started at `m_previous_time`; then ANY sequence of loop iterations, lapses of time, encoder and water
interrupts (no serial command, no button) with fewer than 10 encoder pulses since the window start, followed by a
loop iteration later than 500 ms after the window start, ends with direction STOP.  (Detection latency: 500 ms +
one loop period; the pins go LOW in the next iteration, `stop_reaches_pins_at_next_iteration`.) -/
theorem stall_window_timed (s : St) (evs : List Ev) (ms : Nat)
    (hq : ∀ e ∈ evs, quiet e = true) (hd : s.dir ≠ .stop) (hpd : s.prevDir = s.dir)
    (hp0 : -1073741824 ≤ s.prevPos ∧ s.prevPos ≤ 1073741824)
    (hn : ∃ n : Int, 0 ≤ n ∧ s.prevPos - n ≤ s.pos ∧ s.pos ≤ s.prevPos + n ∧ n + pulseCount evs < 10)
    (ht : (run s evs).clk + ms - s.prevTime > 500) :
    (run s (evs ++ [.tick ms])).dir = .stop := by
  obtain ⟨n, n0, n1, n2, n3⟩ := hn
  have hw : Win s.dir s.prevTime s.prevPos n s := Or.inr ⟨rfl, hpd, rfl, rfl, n1, n2⟩
  have hr := win_run s.dir s.prevTime s.prevPos hd hp0 evs s n hw hq n0 n3
  have hrun : run s (evs ++ [.tick ms]) = actions { run s evs with clk := (run s evs).clk + ms } none := by
    simp [run, List.foldl_append, step, loopIter]
  rw [hrun]
  have hw' : Win s.dir s.prevTime s.prevPos (n + pulseCount evs) { run s evs with clk := (run s evs).clk + ms } := hr
  exact (win_actions s.dir s.prevTime s.prevPos _ _ hw' hd ⟨by have := pulseCount_nonneg evs; omega, n3⟩).2 ht

example : (run { init 50 0 1000 with dir := .opn, prevDir := .opn, run := .opn, prevPos := 50, pinClose := true }
    ([.tick 100, .pulse, .tick 100, .pulse, .adv 150, .pulse, .tick 100] ++ [.tick 60])).dir = .stop := by decide

/-- The `stop` command sets STOP: after ANY events whose serial bytes are `stop`, from an in-step firmware, the loop
iteration that reads the `\n` ends with direction STOP and has printed `stop\r\n***\r\n`. -/
theorem stop_command_sets_stop (s : St) (evs : List Ev) (hs : Empty (rbOf s)) (hev : bytesOf evs = ascii "stop") :
    (run s (evs ++ [.byte 10])).dir = .stop := by
  obtain ⟨e1, e2⟩ := command_reaches_dispatch s (ascii "stop") evs hs (by decide) (by decide) hev
  rw [e1]
  exact actions_none_dir_stop _ ((dispatchCore_table _).2.2.1 e2).2

example : bytesOf [.byte 115, .pulse, .byte 116, .byte 111, .tick 7, .byte 112] = ascii "stop" := by decide

/-- ... and the motor pins are LOW at the end of that very iteration, for EVERY history (interrupts inside earlier
relay delays included). -/
theorem stop_command_lowers_pins (p c o : Int) (pre evs : List Ev)
    (hs : Empty (rbOf (run (init p c o) pre))) (hev : bytesOf evs = ascii "stop") :
    let t := run (init p c o) (pre ++ evs ++ [.byte 10])
    t.dir = .stop ∧ t.pinOpen = false ∧ t.pinClose = false := by
  intro t
  have ht : t = run (run (init p c o) pre) (evs ++ [.byte 10]) := by
    simp [t, run, List.foldl_append]
  have hdir : t.dir = .stop := by rw [ht]; exact stop_command_sets_stop _ evs hs hev
  obtain ⟨e1, e2⟩ := command_reaches_dispatch (run (init p c o) pre) (ascii "stop") evs hs (by decide) (by decide) hev
  have hm0 : Motor (run (init p c o) (pre ++ evs)) := run_motor _ _ (motor_init p c o)
  have hrun : run (init p c o) (pre ++ evs) = run (run (init p c o) pre) evs := by simp [run, List.foldl_append]
  rw [hrun] at hm0
  generalize run (run (init p c o) pre) evs = s1 at e1 e2 hm0
  have hd : (dispatchCore { s1 with idx := s1.idx + 1 }).dir = .stop := ((dispatchCore_table _).2.2.1 e2).2
  have hm1 : Motor (dispatchCore { s1 with idx := s1.idx + 1 }) :=
    motor_of_mp (Eq.trans (mp_dispatchCore _) (rfl : mpOf { s1 with idx := s1.idx + 1 } = mpOf s1)) hm0
  obtain ⟨hpm, hprev, _, _⟩ := processDirection_motor (dispatchCore { s1 with idx := s1.idx + 1 })
    (dispatchCore { s1 with idx := s1.idx + 1 }).clk hm1
  have hmp : mpOf t = mpOf (processDirection (dispatchCore { s1 with idx := s1.idx + 1 })
      (dispatchCore { s1 with idx := s1.idx + 1 }).clk) := by
    rw [ht, e1]
    unfold actions
    exact Eq.trans (mp_processStop _ _) (mp_ensureConsistency _ _)
  have hmt : Motor t := motor_of_mp hmp hpm
  have hp : t.prevDir = .stop := (congrArg MP.prevDir hmp).trans (hprev.trans hd)
  have := (motor_low_iff t hmt).mpr hp
  exact ⟨hdir, this.1, this.2⟩

set_option maxRecDepth 100000 in
example : Empty (rbOf (run (init 97 0 100) (raceWitness.take 9))) ∧
    bytesOf [Ev.byte 115, .byte 116, .byte 111, .byte 112] = ascii "stop" := by
  exact ⟨⟨by decide, by decide, by decide, by decide⟩, by decide⟩

/-! ## (d) The Python driver accepts the replies to the commands it sends

`pyParse cmd text` models the receive part of `ArduinoDevice.__send(cmd)` (controller/device.py) on the text the
`TextIOWrapper` delivers (`pyNewlines` = universal newlines); `pyValue` models
`int(value.replace(cmd + " ", "")) if value else None`.  The reply block is the one `dispatch_emits_one_block` gives
for the command (`command_reaches_dispatch`: sending `cmd\n` reaches that dispatch). -/

/-- `position`: the reply `position <n>\r\n***\r\n` is accepted, the driver's `cover_position` is the firmware's
percentage, and it is within 0..100. -/
theorem driver_accepts_position_reply (s : St) (hc : cstr s = ascii "position") :
    let reply := (dispatchCore { s with out := [] }).out
    pyParse (ascii "position") (pyNewlines reply) = (some (ascii "position " ++ decNat (pct s)), []) ∧
    pyValue (ascii "position") (some (ascii "position " ++ decNat (pct s))) = some (pct s : Int) ∧
    pct s ≤ 100 := by
  intro reply
  have hr : reply = ascii "position " ++ decNat (pct s) ++ ascii "\r\n***\r\n" := by
    have := ((dispatchCore_table { s with out := [] }).2.2.2.1 hc).1
    rw [List.nil_append] at this
    exact this
  obtain ⟨hne, hdig⟩ := decNat_digits (pct s)
  refine ⟨?_, ?_, (percentage_in_range s).2.2.1⟩
  · rw [hr, newlines_numeric _ _ (by decide) hdig]
    exact pyParse_numeric (ascii "position") (ascii "position ") (decNat (pct s)) (ascii "osition ") 112 (by decide)
      (by decide) (by decide) (by decide) (by decide) hdig hne
  · have := pyValue_numeric (ascii "position") 112 (ascii "osition ") (pct s) (by decide) (by omega)
    rw [show ascii "position" ++ [32] = ascii "position " by decide] at this
    exact this

example : cstr { init 30 0 100 with buf := ascii "position" ++ List.replicate 24 0 } = ascii "position" := by decide

/-- `water`: the reply `water <n>\r\n***\r\n` is accepted and the driver's `water_counter` is the firmware's
counter, for every value of the counter. -/
theorem driver_accepts_water_reply (s : St) (hc : cstr s = ascii "water") :
    let reply := (dispatchCore { s with out := [] }).out
    pyParse (ascii "water") (pyNewlines reply) = (some (ascii "water " ++ decNat s.water), []) ∧
    pyValue (ascii "water") (some (ascii "water " ++ decNat s.water)) = some (s.water : Int) := by
  intro reply
  have hr : reply = ascii "water " ++ decNat s.water ++ ascii "\r\n***\r\n" := by
    have := ((dispatchCore_table { s with out := [] }).2.2.2.2.1 hc).1
    rw [List.nil_append] at this
    exact this
  obtain ⟨hne, hdig⟩ := decNat_digits s.water
  refine ⟨?_, ?_⟩
  · rw [hr, newlines_numeric _ _ (by decide) hdig]
    exact pyParse_numeric (ascii "water") (ascii "water ") (decNat s.water) (ascii "ater ") 119 (by decide)
      (by decide) (by decide) (by decide) (by decide) hdig hne
  · have := pyValue_numeric (ascii "water") 119 (ascii "ater ") s.water (by decide) (by omega)
    rw [show ascii "water" ++ [32] = ascii "water " by decide] at this
    exact this

example : cstr { init 30 0 100 with buf := ascii "water" ++ List.replicate 27 0, water := 4294967295 } = ascii "water" := by
  decide

/-- `open`, `close`, `stop`: the replies `<cmd>\r\n***\r\n` are accepted. -/
theorem driver_accepts_motion_replies (s : St) :
    (cstr s = ascii "open" →
      pyParse (ascii "open") (pyNewlines (dispatchCore { s with out := [] }).out) = (some (ascii "open"), [])) ∧
    (cstr s = ascii "close" →
      pyParse (ascii "close") (pyNewlines (dispatchCore { s with out := [] }).out) = (some (ascii "close"), [])) ∧
    (cstr s = ascii "stop" →
      pyParse (ascii "stop") (pyNewlines (dispatchCore { s with out := [] }).out) = (some (ascii "stop"), [])) := by
  refine ⟨?_, ?_, ?_⟩
  · intro hc
    have := ((dispatchCore_table { s with out := [] }).1 hc).1
    rw [this, show ({ s with out := [] } : St).out = [] from rfl, List.nil_append]; decide
  · intro hc
    have := ((dispatchCore_table { s with out := [] }).2.1 hc).1
    rw [this, show ({ s with out := [] } : St).out = [] from rfl, List.nil_append]; decide
  · intro hc
    have := ((dispatchCore_table { s with out := [] }).2.2.1 hc).1
    rw [this, show ({ s with out := [] } : St).out = [] from rfl, List.nil_append]; decide

example : pyParse (ascii "stop") (pyNewlines (ascii "emergency stop\r\n***\r\nstop\r\n***\r\n")) = (none, ascii "stop\n***\n") := by
  decide

end Poupool.C19
