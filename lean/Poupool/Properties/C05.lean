import Poupool.Proofs.ActorLib
import Poupool.Model.Tank
import Poupool.Model.Guards
import Poupool.Properties.C08
/-!
# C05 (i)  the mains fill valve is open only in the tank phases `fill` and `low`
(hysteresis and time limits: see the Tank decision theorems below and the timed correspondence in checks/c05.py)
-/
namespace Poupool.C05
open Poupool Poupool.Gen

def mainValveOK (s : St) : Bool :=
  !s.bad && (s.v Tank.v_dev_main == 0 || s.leaf == Tank.leaf_fill || s.leaf == Tank.leaf_low)

theorem main_valve_only_in_fill_or_low : ∀ s, Reach tankSafetyDesc s → mainValveOK s = true :=
  invariant_of_closed _ _ _ Cert.tankSafety_closed (by decide +kernel)

/-- `halt` is accepted in every tank phase and closes the valve -/
theorem tank_halt_closes_valve :
    allSucc tankSafetyDesc tankSafetyReach (.plain Tank.m_halt)
      (fun _ s' => s'.leaf == Tank.leaf_halt && s'.v Tank.v_dev_main == 0) = true := by decide +kernel

example : (statesOf tankSafetyReach).any (fun s => s.v Tank.v_dev_main == 1) = true := by decide +kernel

/-! ## (ii) hysteresis and (iii) time limits, on the decision model (Model/Tank.lean) -/
open Poupool.Tank

/-- while the valve stays open after a poll, the measured level is below low + hysteresis (resp. ≤ too_low in fill) -/
theorem valve_kept_open_implies_below (c : Cfg) (h tis : Int) :
    (∀ n, pollLow c h tis = .rearm n → h < c.low + c.hyst) ∧ (∀ n, pollFill c h tis = .rearm n → h ≤ c.tooLow) := by
  refine ⟨?_, ?_⟩
  · intro n; simp only [pollLow]; split
    · intro hh; simp at hh
    · split
      · intro hh; simp at hh
      · intro _; omega
  · intro n; simp only [pollFill]; split
    · intro hh; simp at hh
    · split
      · intro hh; simp at hh
      · intro _; omega

/-- it opens at the first `normal` poll that sees the level below low − hysteresis -/
theorem opens_when_below (c : Cfg) (h : Int) (hl : h < c.low - c.hyst) : pollNormal c h = .toLow := by
  simp [pollNormal, hl]

/-- it closes at the first `low` poll that sees the level recovered (before the 6 h limit; after it the stop closes it) -/
theorem closes_when_recovered (c : Cfg) (h tis : Int) (hr : h ≥ c.low + c.hyst) :
    pollLow c h tis = .toNormal ∨ pollLow c h tis = .emergency := by
  simp only [pollLow]
  by_cases ht : tis > sixHours
  · right; rw [if_pos ht]
  · left; rw [if_neg ht, if_pos hr]

/-- at the limits (2 h in fill, 6 h in low) the poll requests the emergency stop, which halts the tank itself
    (`tank_halt_closes_valve`) and Filtration – whatever Filtration's phase, also when it is already halted -/
theorem limits (c : Cfg) (h tis : Int) :
    (tis > twoHours → pollFill c h tis = .emergency) ∧ (tis > sixHours → pollLow c h tis = .emergency) := by
  constructor
  · intro ht; simp [pollFill, ht]
  · intro ht; simp [pollLow, ht]

/-- the fill phase does not open the valve unless the level is below too_low -/
theorem fill_opens_only_below_too_low (c : Cfg) (h : Int) : (enterFill c h).1 = true → h < c.tooLow := by
  simp only [enterFill]; split <;> simp_all

example : pollLow { hyst := 5, tooLow := 10, low := 30, high := 70 } 20 0 = .rearm 10 := by decide

/-- **(iii) as a bound on the open time**: a poll that keeps the valve open (re-arms) ran no later than the limit after the
    phase was entered (`since`), and re-arms with 5 s; with the timed theorem `Timing.tank_polls` (the re-armed poll is
    delivered no later than 5 s + lag after it was armed) the controller is in `fill` (resp. `low`) at instant `now` only if
    `now − since ≤ 2 h (resp. 6 h) + 5 s + lag`: at the next poll after the limit the emergency stop is requested
    (`limits`), which closes the valve (`tank_halt_closes_valve`).  Times in microseconds. -/
theorem open_time_bounded (c : Cfg) (h since poll now lag : Int) (n : Nat) :
    (pollFill c h (poll - since) = .rearm n → now ≤ poll + n * 500000 + lag → now - since ≤ twoHours + 5000000 + lag) ∧
    (pollLow c h (poll - since) = .rearm n → now ≤ poll + n * 500000 + lag → now - since ≤ sixHours + 5000000 + lag) := by
  constructor
  · simp only [pollFill]
    split
    · intro hh; simp at hh
    · split
      · intro hh; simp at hh
      · intro hn hnow
        have : n = 10 := by simpa using hn.symm
        subst this; omega
  · simp only [pollLow]
    split
    · intro hh; simp at hh
    · split
      · intro hh; simp at hh
      · split
        · intro hh; simp at hh
        · intro hn hnow
          have : n = 10 := by simpa using hn.symm
          subst this; omega

/-! ## level set in force, force-empty (Model/Guards.lean, exhaustively compared with the real methods) -/
open Poupool.Guards in
/-- the thresholds in force are those of the LAST mode set, whatever the history of mode changes (no cross-talk between
    the eco and the overflow set) -/
theorem level_set_follows_last_mode (el eh ol oh : Int) (hist : List String) (m : String) :
    levelsAfter el eh ol oh (hist ++ [m]) = if m == "eco" then (el, eh) else (ol, oh) := by
  unfold levelsAfter
  cases h : hist ++ [m] with
  | nil => simp at h
  | cons x xs =>
      have : (x :: xs).getLast! = m := by
        rw [← h]; simp [List.getLast!_eq_getLast?_getD]
      simp only [this]

open Poupool.Guards in
/-- force-empty: switching it on while the tank runs stops the whole system (then C01); switching it off while halted
    restarts the tank from `fill`; every other combination does nothing -/
theorem force_empty_cases (p v h : Bool) :
    (forceEmpty p v h = .haltFiltration ↔ (p = false ∧ v = true ∧ h = false)) ∧
    (forceEmpty p v h = .startFill ↔ (p = true ∧ v = false ∧ h = true)) := by
  cases p <;> cases v <;> cases h <;> decide

end Poupool.C05
