import Poupool.Proofs.ActorLib
/-!
# C05 (i)  the mains fill valve is open only in the tank phases `fill` and `low`
(hysteresis and time limits: see the Tank decision theorems below and the timed correspondence in checks/c05.py)
-/
namespace Poupool.C05
open Poupool Poupool.Gen

def mainValveOK (s : St) : Bool :=
  !s.bad && (s.v Tank.v_dev_main == 0 || s.leaf == Tank.leaf_fill || s.leaf == Tank.leaf_low)

theorem main_valve_only_in_fill_or_low : ∀ s, Reach tankSafetyDesc s → mainValveOK s = true :=
  invariant_of_closed _ _ _ Cert.tankSafety_closed (by decide +kernel)

/-- `halt` is accepted in every tank phase and closes the valve -/
theorem tank_halt_closes_valve :
    allSucc tankSafetyDesc tankSafetyReach (.plain Tank.m_halt)
      (fun _ s' => s'.leaf == Tank.leaf_halt && s'.v Tank.v_dev_main == 0) = true := by decide +kernel

example : (statesOf tankSafetyReach).any (fun s => s.v Tank.v_dev_main == 1) = true := by decide +kernel

end Poupool.C05
