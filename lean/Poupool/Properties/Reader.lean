import Poupool.Proofs.Reader
/-!
# Sensor reader (controller/sensor.py `BaseReader` / `MovingAverage`): the averaging windows the thermostats decide on

On the model (Model/Reader.lean; differential with the REAL `BaseReader.do_read` in checks/reader_common.py), for EVERY
window length `maxlen`, number of sensors `n`, sequence of reads (each read a list of optional readings, possibly shorter
than `n`: a missing trailing position is a missing reading) and sensor `i < n`:

* `window_spec`: the window of sensor `i` is exactly the last `maxlen` VALID readings of sensor `i` – whatever the other
  sensors delivered.  (Refinement theorem: `run` is the implementation-shaped fold, `lastN ∘ valid` the specification.)
* `window_bounded`: there are always `n` windows and none is longer than `maxlen`.
* `missing_reading_is_local` (+ `_general`): changing (in particular losing) a reading of ANOTHER sensor in any read
  does not change sensor `i`'s window.
* `fresh_reading_is_seen`: a reading delivered in the last read is the newest element of the window.
* `mean_within_bounds`: the mean (exact fraction sum/count) of a non-empty window is over `count = length > 0` elements
  and lies between any lower and any upper bound of the window's elements.
* `mean_none_iff_no_valid_reading`: the mean is unknown iff the sensor never delivered a valid reading.
-/
namespace Poupool.ReaderProps
open Poupool.Reader

/-- the window of sensor `i` = the last `maxlen` valid readings of sensor `i` -/
theorem window_spec (maxlen n : Nat) (reads : List (List (Option Int))) (i : Nat) (hi : i < n) :
    (run maxlen n reads).getD i [] = lastN maxlen (valid i reads) :=
  run_getD maxlen n reads i hi

-- sensor 0 loses a reading, the row of the 3rd read is short (sensor 1 missing), the window of sensor 1 overflows
example : (run 2 2 [[some 1, none], [some 2, some 5], [none], [some 4, some 7], [some 9, some 8]]).getD 1 [] = [7, 8]
    ∧ valid 1 [[some 1, none], [some 2, some 5], [none], [some 4, some 7], [some 9, some 8]] = [5, 7, 8] := by decide

/-- `n` windows, each of at most `maxlen` elements, after any sequence of reads -/
theorem window_bounded (maxlen n : Nat) (reads : List (List (Option Int))) :
    (run maxlen n reads).length = n ∧ ∀ w ∈ run maxlen n reads, w.length ≤ maxlen := by
  refine ⟨run_length maxlen n reads, ?_⟩
  intro w hw
  obtain ⟨i, hi, rfl⟩ := List.mem_iff_getElem.mp hw
  have hn : i < n := by rw [run_length] at hi; exact hi
  have h := run_getD maxlen n reads i hn
  simp only [List.getD_eq_getElem?_getD, List.getElem?_eq_getElem hi, Option.getD_some] at h
  rw [h]
  exact lastN_length_le maxlen _

example : (run 2 3 [[some 1, some 1, some 1], [some 2, none, some 2], [some 3, some 3], [some 4]]) = [[3, 4], [1, 3], [1, 2]] := by
  decide

/-- replacing the reading of another sensor `j ≠ i` in read number `k` (by anything, in particular by `none`) leaves
    sensor `i`'s window unchanged -/
theorem missing_reading_is_local (maxlen n : Nat) (reads : List (List (Option Int))) (i j k : Nat) (v : Option Int)
    (hi : i < n) (hij : j ≠ i) :
    (run maxlen n (setReading k j v reads)).getD i [] = (run maxlen n reads).getD i [] := by
  rw [window_spec maxlen n _ i hi, window_spec maxlen n _ i hi, valid_setReading i j k v reads hij]

example : setReading 1 0 none [[some 1, some 5], [some 2, some 6]] = [[some 1, some 5], [none, some 6]]
    ∧ (run 3 2 [[some 1, some 5], [none, some 6]]).getD 1 [] = [5, 6]
    ∧ (run 3 2 [[some 1, some 5], [none, some 6]]).getD 0 [] ≠ (run 3 2 [[some 1, some 5], [some 2, some 6]]).getD 0 [] := by
  decide

/-- general form: two read sequences of the same length that agree on column `i` (rows of any length, the other
    columns arbitrary) give sensor `i` the same window -/
theorem missing_reading_is_local_general (maxlen n : Nat) (reads reads' : List (List (Option Int))) (i : Nat) (hi : i < n)
    (hlen : reads.length = reads'.length)
    (hcol : ∀ k, (reads.getD k []).getD i none = (reads'.getD k []).getD i none) :
    (run maxlen n reads').getD i [] = (run maxlen n reads).getD i [] := by
  rw [window_spec maxlen n _ i hi, window_spec maxlen n _ i hi, valid_congr i reads reads' hlen hcol]

example : (run 2 2 [[none, some 5], [some 3, some 6, some 0], [none, some 7]]).getD 1 []
    = (run 2 2 [[some 1, some 5], [none, some 6], [some 9, some 7]]).getD 1 [] := by decide

/-- a reading delivered by sensor `i` in the last read is the newest element of its window -/
theorem fresh_reading_is_seen (maxlen n : Nat) (reads : List (List (Option Int))) (r : List (Option Int)) (i : Nat) (x : Int)
    (hi : i < n) (hm : 0 < maxlen) (hx : r.getD i none = some x) :
    ((run maxlen n (reads ++ [r])).getD i []).getLast? = some x := by
  rw [window_spec maxlen n _ i hi, valid_append, valid_singleton_some i r x hx]
  exact lastN_append_singleton_getLast? maxlen hm _ x

example : ((run 2 2 ([[some 1, some 5], [some 2, none], [some 3, none]] ++ [[none, some 7]])).getD 1 []).getLast? = some 7
    ∧ ([none, some (7 : Int)] : List (Option Int)).getD 1 none = some 7 := by decide

/-- the mean of a non-empty window is a fraction `s / k` over `k = length > 0` elements, `s` their sum, and lies between
    any lower bound and any upper bound of the elements (hence between the minimum and the maximum) -/
theorem mean_within_bounds (w : List Int) (s : Int) (k : Nat) (h : mean w = some (s, k)) :
    k = w.length ∧ 0 < k ∧ s = w.sum ∧
    (∀ lo : Int, (∀ v ∈ w, lo ≤ v) → lo * (k : Int) ≤ s) ∧
    (∀ hi : Int, (∀ v ∈ w, v ≤ hi) → s ≤ hi * (k : Int)) := by
  obtain ⟨hs, hk, hpos⟩ := mean_eq_some w s k h
  subst hs; subst hk
  exact ⟨rfl, hpos, rfl, fun lo hlo => sum_ge_of_forall_ge w lo hlo, fun hi hhi => sum_le_of_forall_le w hi hhi⟩

example : mean [2, 4, 9] = some (15, 3) ∧ (∀ v ∈ ([2, 4, 9] : List Int), 2 ≤ v) ∧ (∀ v ∈ ([2, 4, 9] : List Int), v ≤ 9)
    ∧ (2 : Int) * 3 ≤ 15 ∧ (15 : Int) ≤ 9 * 3 := by decide

/-- the thermostat sees "temperature unknown" exactly when the sensor never delivered a valid reading -/
theorem mean_none_iff_no_valid_reading (maxlen n : Nat) (reads : List (List (Option Int))) (i : Nat)
    (hi : i < n) (hm : 0 < maxlen) :
    mean ((run maxlen n reads).getD i []) = none ↔ valid i reads = [] := by
  rw [window_spec maxlen n _ i hi, mean_eq_none_iff, lastN_eq_nil_iff maxlen hm]

example : mean ((run 5 2 [[some 1, none], [some 2], [some 3, none]]).getD 1 []) = none
    ∧ valid 1 [[some 1, none], [some 2], [some 3, none]] = []
    ∧ mean ((run 5 2 [[some 1, none], [some 2], [some 3, none]]).getD 0 []) = some (6, 3) := by decide

/-- with `maxlen = 0` the hypothesis `0 < maxlen` of the two theorems above is necessary: nothing is ever kept -/
theorem zero_window_keeps_nothing : (run 0 1 [[some 1]]).getD 0 [] = [] ∧ valid 0 [[some (1 : Int)]] = [1] := by decide

example : mean ((run 0 1 [[some 1]]).getD 0 []) = none := by decide

end Poupool.ReaderProps

-- axioms audited (propext, Quot.sound; Classical.choice only in missing_reading_is_local_general): see vlib.lean.check_theorems
