import Poupool.Model.Sensor
/-!
# The level sensor as the Tank controller reads it (clause "a dead level sensor, which reads as 0" of C04; R of the latency bound)

* `dead_sensor_reads_zero`: when every attempt fails the value is exactly 0 — for every valid calibration (0 ≤ low < high;
  with a negative `low` the statement is false: `dead_sensor_needs_nonneg_low`).
* `value_in_range`: the value is a fraction in [0, 100] whatever the ADC delivers.
* `reading_time`: a reading of ten attempts takes between 0.5 s and 5 s, 5 s exactly when all fail (R = 5 s of `C04.latency_bound`).
* `low_readings_read_low`: if every successful reading is below the raw count that corresponds to p percent, the value is
  below p (failed attempts in between never push the level up); symmetric `high_readings_read_high` (never pull it down);
  `steady_reading`: with a steady raw count the mean does not depend on which attempts fail.
-/
namespace Poupool.SensorProps
open Poupool.Sensor

theorem good_none (n : Nat) : good (List.replicate n none) = [] := by
  induction n with
  | zero => rfl
  | succ k ih => simp [good, List.replicate_succ] at *

theorem dead_sensor_reads_zero (c : Cfg) (hv : Valid c) (reads : List (Option Int)) (hdead : ∀ r ∈ reads, r = none) :
    (value c reads).1 = 0 ∧ 0 < (value c reads).2 := by
  have hg : good reads = [] := by
    unfold good
    induction reads with
    | nil => rfl
    | cons r rs ih =>
        have := hdead r (by simp)
        subst this
        simpa using ih (fun r hr => hdead r (by simp [hr]))
  obtain ⟨h0, h1⟩ := hv
  unfold value mean
  simp only [hg, if_true]
  split
  · simp
  · split
    · rename_i h2 h3; exfalso; omega
    · rename_i h2 h3; simp only; omega

/-- the hypothesis is needed: with a negative lower calibration point a dead sensor reads a positive level -/
theorem dead_sensor_needs_nonneg_low : value ⟨-100, 100⟩ (List.replicate 10 none) = (10000, 200) := by decide

example : Valid ⟨83, 1665⟩ ∧ value ⟨83, 1665⟩ (List.replicate 10 none) = (0, 1) := by decide

theorem good_length_pos {reads : List (Option Int)} (h : good reads ≠ []) : 0 < ((good reads).length : Int) := by
  cases hg : good reads with
  | nil => exact absurd hg h
  | cons x xs => simp <;> omega

theorem den_pos (c : Cfg) (hv : Valid c) (reads : List (Option Int)) : 0 < (mean reads).2 * (c.high - c.low) := by
  obtain ⟨_, h1⟩ := hv
  unfold mean
  by_cases hg : good reads = []
  · simp [hg]; omega
  · simp only [hg, if_false]
    exact Int.mul_pos (good_length_pos hg) (by omega)

theorem value_in_range (c : Cfg) (hv : Valid c) (reads : List (Option Int)) :
    0 < (value c reads).2 ∧ 0 ≤ (value c reads).1 ∧ (value c reads).1 ≤ 100 * (value c reads).2 := by
  have hd := den_pos c hv reads
  unfold value
  generalize mean reads = m at *
  obtain ⟨s, n⟩ := m
  simp only at hd ⊢
  split
  · simp
  · split
    · simp
    · refine ⟨hd, by omega, by omega⟩

theorem elapsed_bounds (reads : List (Option Int)) : 50 * reads.length ≤ elapsedMs reads ∧ elapsedMs reads ≤ 500 * reads.length := by
  induction reads with
  | nil => simp [elapsedMs]
  | cons r rs ih => cases r <;> simp [elapsedMs] <;> omega

/-- ten attempts: between 0.5 s and 5 s -/
theorem reading_time (reads : List (Option Int)) (h : reads.length = 10) : 500 ≤ elapsedMs reads ∧ elapsedMs reads ≤ 5000 := by
  have := elapsed_bounds reads; omega

theorem dead_reading_time (n : Nat) : elapsedMs (List.replicate n none) = 500 * n := by
  induction n with
  | zero => rfl
  | succ k ih => simp [List.replicate_succ, elapsedMs, ih]; omega

theorem total_lt (l : List Int) (x : Int) (h : ∀ r ∈ l, r < x) (hne : l ≠ []) : total l < x * l.length := by
  induction l with
  | nil => exact absurd rfl hne
  | cons a as ih =>
      cases as with
      | nil => have := h a (by simp); simp [total]; omega
      | cons b bs =>
          have h1 := ih (fun r hr => h r (by simp [hr])) (by simp)
          have h2 := h a (by simp)
          simp only [total, List.length_cons] at h1 ⊢
          push_cast at h1 ⊢
          have : x * ((bs.length : Int) + 1 + 1) = x * ((bs.length : Int) + 1) + x := by rw [Int.mul_add]; simp
          omega

theorem total_ge (l : List Int) (x : Int) (h : ∀ r ∈ l, x ≤ r) : x * l.length ≤ total l := by
  induction l with
  | nil => simp [total]
  | cons a as ih =>
      have h1 := ih (fun r hr => h r (by simp [hr]))
      have h2 := h a (by simp)
      simp only [total, List.length_cons]
      push_cast
      rw [Int.mul_add]; simp; omega

/-- raw count x corresponds to at most p percent: (x − low)·100 ≤ p·(high − low).  If at least one attempt succeeds and every
    successful reading is below x, the value is below p percent (for p > 0). -/
theorem low_readings_read_low (c : Cfg) (hv : Valid c) (reads : List (Option Int)) (x p : Int) (hp : 0 < p)
    (hx : (x - c.low) * 100 ≤ p * (c.high - c.low)) (hall : ∀ r ∈ good reads, r < x) (hne : good reads ≠ []) :
    below (value c reads) p := by
  have hn := good_length_pos hne
  have hs := total_lt _ x hall hne
  obtain ⟨_, h1⟩ := hv
  have hd : 0 < ((good reads).length : Int) * (c.high - c.low) := Int.mul_pos hn (by omega)
  have key : (total (good reads) - c.low * (good reads).length) * 100 < p * ((good reads).length * (c.high - c.low)) := by
    have e1 : (total (good reads) - c.low * (good reads).length) * 100 < (x * (good reads).length - c.low * (good reads).length) * 100 := by omega
    have e2 : (x * ((good reads).length : Int) - c.low * (good reads).length) * 100 = ((x - c.low) * 100) * (good reads).length := by
      rw [Int.sub_mul, Int.sub_mul, Int.sub_mul, Int.mul_right_comm x, Int.mul_right_comm c.low]
    have e3 : ((x - c.low) * 100) * ((good reads).length : Int) ≤ (p * (c.high - c.low)) * (good reads).length :=
      Int.mul_le_mul_of_nonneg_right hx (by omega)
    have e4 : (p * (c.high - c.low)) * ((good reads).length : Int) = p * ((good reads).length * (c.high - c.low)) := by
      rw [Int.mul_assoc, Int.mul_comm (c.high - c.low)]
    omega
  unfold below value mean
  simp only [hne, if_false]
  split
  · simp; omega
  · split
    · rename_i h2 h3
      simp only
      have h4 : 100 * (((good reads).length : Int) * (c.high - c.low)) < p * ((good reads).length * (c.high - c.low)) := by omega
      have := Int.lt_of_mul_lt_mul_right h4 (by omega)
      omega
    · simp only; exact key

/-- with the shipped calibration: every successful reading below 241 counts (10 % of the span) reads below the too-low
    threshold of 10 %, however many attempts fail in between -/
example : below (value ⟨83, 1665⟩ [some 200, none, some 240, none, none, some 100, some 0, none, some 239, some 240]) 10 := by decide

/-- raw count x corresponds to at least p percent: p·(high − low) ≤ (x − low)·100.  If at least one attempt succeeds and every
    successful reading is at least x, the value is NOT below p percent (for p ≤ 100): failed attempts in between never pull the
    level down, so a full tank with a flaky ADC is not taken for a low one (no false refill, no false emergency stop). -/
theorem high_readings_read_high (c : Cfg) (hv : Valid c) (reads : List (Option Int)) (x p : Int) (hp : p ≤ 100)
    (hx : p * (c.high - c.low) ≤ (x - c.low) * 100) (hall : ∀ r ∈ good reads, x ≤ r) (hne : good reads ≠ []) :
    ¬ below (value c reads) p := by
  have hn := good_length_pos hne
  have hs := total_ge _ x hall
  obtain ⟨_, h1⟩ := hv
  have hd : 0 < ((good reads).length : Int) * (c.high - c.low) := Int.mul_pos hn (by omega)
  have key : p * ((good reads).length * (c.high - c.low)) ≤ (total (good reads) - c.low * (good reads).length) * 100 := by
    have e1 : (x * (good reads).length - c.low * (good reads).length) * 100 ≤ (total (good reads) - c.low * (good reads).length) * 100 := by omega
    have e2 : (x * ((good reads).length : Int) - c.low * (good reads).length) * 100 = ((x - c.low) * 100) * (good reads).length := by
      rw [Int.sub_mul, Int.sub_mul, Int.sub_mul, Int.mul_right_comm x, Int.mul_right_comm c.low]
    have e3 : (p * (c.high - c.low)) * ((good reads).length : Int) ≤ ((x - c.low) * 100) * (good reads).length :=
      Int.mul_le_mul_of_nonneg_right hx (by omega)
    have e4 : (p * (c.high - c.low)) * ((good reads).length : Int) = p * ((good reads).length * (c.high - c.low)) := by
      rw [Int.mul_assoc, Int.mul_comm (c.high - c.low)]
    omega
  unfold below value mean
  simp only [hne, if_false]
  split
  · rename_i h2
    simp only
    intro h3
    -- num < 0 although p·den ≤ num: then p·den < 0, and 0 < p·1 gives p > 0 with den > 0: contradiction
    have h4 : p * (((good reads).length : Int) * (c.high - c.low)) < 0 := by omega
    have h5 : 0 < p := by omega
    have := Int.mul_pos h5 hd
    omega
  · split
    · simp only; omega
    · simp only; omega

/-- with the shipped calibration: every successful reading at or above 716 counts (40 % of the span) reads at or above the
    low threshold of 40 %, however many attempts fail in between -/
example : ¬ below (value ⟨83, 1665⟩ [some 716, none, some 900, none, none, some 4095, some 716, none, some 800, some 716]) 40 := by decide

/-- a steady raw count x (every successful attempt reads x, at least one succeeds) gives exactly the mapping of x, clamped:
    which attempts fail does not matter -/
theorem steady_reading (reads : List (Option Int)) (x : Int) (hall : ∀ r ∈ good reads, r = x) (hne : good reads ≠ []) :
    mean reads = (x * ((good reads).length : Int), ((good reads).length : Int)) := by
  have h1 : total (good reads) = x * (good reads).length := by
    have a := total_ge (good reads) x (fun r hr => by have := hall r hr; omega)
    have b : ∀ l : List Int, (∀ r ∈ l, r = x) → total l ≤ x * l.length := by
      intro l hl
      induction l with
      | nil => simp [total]
      | cons a as ih =>
          have h1 := ih (fun r hr => hl r (by simp [hr]))
          have h2 := hl a (by simp)
          simp only [total, List.length_cons]
          push_cast
          rw [Int.mul_add]; simp; omega
    have := b (good reads) hall
    omega
  unfold mean
  simp only [hne, if_false, h1]

end Poupool.SensorProps
