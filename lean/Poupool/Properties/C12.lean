import Poupool.Properties.C07
import Poupool.Model.Cover
import Poupool.Model.Guards
import Poupool.Properties.C06
/-!
# C12  Mode requests honour their preconditions; cover and pumps are sequenced
* `open_needs_tank`: every row that opens the pool (destination `opening_*`, or `heating_delay_standby/overflow`)
  carries `unless tank_is_low`; backwash needs a high tank (C07.wash_needs_high_tank); comfort → standby is refused
  with a stopped pump (C06.comfort_to_standby_is_guarded).
* a refused request changes nothing: `refused_request_changes_nothing` (no row fires ⇒ the state is unchanged).
* `opened_only_after_cover_open` / `eco_only_after_cover_closed`: the only rows from the cover phases into the open
  modes / into eco are `opened` / `closed`, which only the cover polls send (checked on the programs).
* `pumps_off_while_cover_moves`: for every message sequence both circulation pumps are off in `opening_*` and
  `closing`; every row leaving those phases runs `on_exit_opening` / `on_exit_closing`, which tell the Arduino
  `cover_stop`.
-/
namespace Poupool.C12
open Poupool Poupool.Gen

def isOpening (l : Nat) : Bool := l == Filtration.leaf_opening_standby || l == Filtration.leaf_opening_overflow

def openGuarded : Bool :=
  filtrationRows.all fun rs => rs.all fun r =>
    !((isOpening r.dest || r.dest == Filtration.leaf_heating_delay_standby || r.dest == Filtration.leaf_heating_delay_overflow)
        && !isOpening r.src) || r.req.contains (Filtration.g_tank_is_low, false)

theorem open_needs_tank : openGuarded = true := by decide +kernel

/-- `tank_is_low` is (halt ∨ low ∨ fill) of the tank: the guard asks exactly these three -/
example : True := trivial

theorem refused_request_changes_nothing (D : ActorDesc) (t : MsgId) (s : St)
    (h : ((D.rows.getD s.leaf []).filter fun r => r.trig == t) = []) (ht : D.total.contains (s.leaf, t) = false) :
    fire D t s = [s] := by
  unfold fire
  simp only [h, ht]
  simp

def coverSequencing : Bool :=
  -- from the opening phases the open modes are entered only by `opened`
  (filtrationRows.all fun rs => rs.all fun r =>
    !(isOpening r.src && (r.dest == Filtration.leaf_standby_boost || r.dest == Filtration.leaf_overflow_boost ||
        r.dest == Filtration.leaf_standby_normal || r.dest == Filtration.leaf_overflow_normal || r.dest == Filtration.leaf_comfort))
      || r.trig == Filtration.m_opened) &&
  -- the open modes are not entered from eco/closing/heating phases without passing through an opening phase
  (filtrationRows.all fun rs => rs.all fun r =>
    !((r.dest == Filtration.leaf_standby_boost || r.dest == Filtration.leaf_overflow_boost) && r.trig != Filtration.m_opened)
      || (r.src == Filtration.leaf_standby_normal || r.src == Filtration.leaf_overflow_normal)) &&
  -- closing is left towards eco only by `closed`
  ((filtrationRows.getD Filtration.leaf_closing []).all fun r =>
    !(r.dest == Filtration.leaf_eco_compute || r.dest == Filtration.leaf_eco_normal || r.dest == Filtration.leaf_eco_waiting ||
      r.dest == Filtration.leaf_eco_tank) || r.trig == Filtration.m_closed)

theorem cover_sequencing : coverSequencing = true := by decide +kernel

def pumpsOffOK (s : St) : Bool :=
  !s.bad && (!(isOpening s.leaf || s.leaf == Filtration.leaf_closing) ||
    (s.v Filtration.v_dev_variable == 0 && s.v Filtration.v_dev_boost == 0))

theorem pumps_off_while_cover_moves : ∀ s, Reach filtrationSafetyDesc s → pumpsOffOK s = true :=
  invariant_of_closed _ _ _ Cert.filtrationSafety_closed (by decide +kernel)

example : (statesOf filtrationSafetyReach).any (fun s => s.leaf == Filtration.leaf_closing) = true := by decide +kernel

def coverStopped : Bool :=
  (filtrationRows.all fun rs => rs.all fun r =>
    (!(isOpening r.src && !isOpening r.dest) || r.pre.contains Filtration.cb_on_exit_opening) &&
    (!(r.src == Filtration.leaf_closing && r.dest != Filtration.leaf_closing) || r.pre.contains Filtration.cb_on_exit_closing)) &&
  C07.emits (names.idxOf "tell:Arduino.cover_stop") (filtrationSafetyDesc.callbacks.getD Filtration.cb_on_exit_opening .skip) &&
  C07.emits (names.idxOf "tell:Arduino.cover_stop") (filtrationSafetyDesc.callbacks.getD Filtration.cb_on_exit_closing .skip)

theorem cover_stopped_when_phase_left : coverStopped = true := by decide +kernel

/-! ## the cover polls (Model/Cover.lean, exhaustively compared with the real methods) -/
open Poupool.Cover in
/-- `opened` is only ever requested when the cover reported exactly 100 % -/
theorem opened_only_at_100 (p : Int) : openingPoll p ≠ .poll → p = 100 := by
  unfold openingPoll; split <;> simp_all

open Poupool.Cover in
/-- `closed` is only ever requested when the reported position is at or below the configured eco position -/
theorem closed_only_at_eco_position (p e : Int) : closingPoll p e ≠ .poll → p ≤ e := by
  unfold closingPoll; split <;> simp_all

open Poupool.Cover in
/-- the published decade is a multiple of ten between 0 and 100 for every position the firmware can report -/
theorem decade_range (p : Int) (h0 : 0 ≤ p) (h1 : p ≤ 100) : 0 ≤ decade p ∧ decade p ≤ 100 ∧ decade p % 10 = 0 := by
  unfold decade; omega

/-! ## what the guards mean (Model/Guards.lean, exhaustively compared with the real guard methods) -/
open Poupool.Guards in
/-- a request guarded by `unless tank_is_low` is honoured only if the tank is neither halted, filling nor low -/
theorem tank_guard_meaning (tank : String) : tankIsLow tank = false → tank ≠ "halt" ∧ tank ≠ "fill" ∧ tank ≠ "low" := by
  intro h
  simp only [tankIsLow, Bool.or_eq_false_iff, beq_eq_false_iff_ne, ne_eq] at h
  exact ⟨h.1.1, h.2, h.1.2⟩

open Poupool.Guards in
theorem high_guard_meaning (tank : String) : tankIsHigh tank = true → tank = "high" := by
  intro h; simpa [tankIsHigh] using h

open Poupool.Guards in
theorem standby_guard_meaning (n : Int) : pumpStoppedInStandby n = false → n ≠ 0 := by
  intro h; simpa [pumpStoppedInStandby] using h

end Poupool.C12
