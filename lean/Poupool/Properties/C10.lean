/-
  C10  Eco mode delivers the configured daily filtration time.
  Part (a): `EcoMode.compute` — phase lengths never negative, tank phase never shorter than a minute, the
  assertions of the source cannot fire for settings the dispatcher lets through.  Part (b): `Timer` lemmas.
  Part (c): closed loop (see Proofs/EcoLoop.lean for the invariants).
-/
import Poupool.Proofs.EcoArith
import Poupool.Proofs.EcoLoopStep
import Poupool.Proofs.EcoDayInv
import Poupool.Proofs.EcoDayHeat
import Poupool.Proofs.EcoDayHeat2
import Poupool.Proofs.EcoDayHeat3
import Poupool.Proofs.EcoDayHeat4

namespace Poupool.Eco
open Poupool.Generated

/-! ### (a) compute -/

/-- For EVERY EcoMode state (any daily duration, period, tank percentage, elapsed time, clock, reset instant):
the computed pool phase is positive, the pause is not negative, the tank phase lasts at least a minute. -/
theorem C10_compute_phases (e : EcoMode) (now : Int) :
    0 < (e.compute now).onD ∧ 0 ≤ (e.compute now).offD ∧ 60 * US ≤ (e.compute now).tankD := by
  have hmin : EcoConfig.minOnUs = 3600000000 := by decide
  have htk : EcoConfig.tankMinUs = 60000000 := by decide
  have hcl : EcoConfig.offClamp = true := by decide
  have hon : EcoConfig.minOnUs ≤ e.onTotal now := by
    unfold EcoMode.onTotal; simp only; split <;> omega
  have htank : EcoConfig.tankMinUs ≤ e.tankOf now := by
    unfold EcoMode.tankOf; simp only; split <;> omega
  refine ⟨?_, ?_, ?_⟩
  · show 0 < (if e.tankOf now < e.onTotal now then e.onTotal now - e.tankOf now else e.onTotal now)
    split <;> omega
  · show 0 ≤ e.offOf now
    unfold EcoMode.offOf
    simp only [hcl, Bool.true_and]
    split
    · omega
    · rename_i h; simp at h; omega
  · show 60 * US ≤ e.tankOf now
    have : US = 1000000 := rfl
    omega

example : ((Params.ecoMode ⟨36000, 3, 1, 10, 0, 1, 0⟩).compute 0).onD = 10800000000
    ∧ ((Params.ecoMode ⟨36000, 3, 1, 10, 0, 1, 0⟩).compute 0).offD = 16800000000
    ∧ ((Params.ecoMode ⟨36000, 3, 1, 10, 0, 1, 0⟩).compute 0).tankD = 1200000000 := by decide

/-- The division `remaining_duration / remaining_periods` never divides by zero. -/
theorem C10_compute_periods_pos (e : EcoMode) : 1 ≤ e.remainingPeriods := by
  unfold EcoMode.remainingPeriods; omega

example : (Params.ecoMode ⟨36000, 3, 1, 10, 0, 0, 0⟩).remainingPeriods = 3 := by decide

/-- `assert self.period_duration > timedelta()` holds for every daily duration of at least one second and every
period count 1..10 (the dispatcher's ranges): the period lasts at least 0.1 s. -/
theorem C10_period_duration_pos (daily period : Int) (hd : 1 * US ≤ daily) (hp1 : 1 ≤ period) (hp2 : period ≤ 10) :
    100000 ≤ divNearest daily period := by
  have hb := (divNearest_bounds daily period (by omega)).2
  have : US = 1000000 := rfl
  have : period = 1 ∨ period = 2 ∨ period = 3 ∨ period = 4 ∨ period = 5 ∨ period = 6 ∨ period = 7 ∨ period = 8
      ∨ period = 9 ∨ period = 10 := by omega
  rcases this with h | h | h | h | h | h | h | h | h | h <;> subst h <;> omega

example : divNearest (1 * US) 10 = 100000 := by decide

/-- … and after the two setters the state passes both assertions. -/
theorem C10_assert_ok (e : EcoMode) (dailyS period : Int) (hd : EcoConfig.dailyMinS ≤ dailyS)
    (hp1 : EcoConfig.periodMin ≤ period) (hp2 : period ≤ EcoConfig.periodMax) :
    ((e.fltDuration dailyS).setPeriod period).assertOk = true ∧ ((e.setPeriod period).fltDuration dailyS).assertOk = true := by
  have h1 : EcoConfig.dailyMinS = 1 := by decide
  have h2 : EcoConfig.periodMin = 1 := by decide
  have h3 : EcoConfig.periodMax = 10 := by decide
  have hk : EcoConfig.keepElapsed = true := by decide
  have hu : US = 1000000 := rfl
  have key := C10_period_duration_pos (dailyS * US) period (by rw [hu]; omega) (by omega) (by omega)
  constructor
  · simp only [EcoMode.assertOk, EcoMode.setPeriod, EcoMode.recompute, EcoMode.fltDuration, EcoMode.setDaily, hk, Timer.setDelay,
      Timer.setDuration, if_true, decide_eq_true_eq]
    omega
  · simp only [EcoMode.assertOk, EcoMode.setPeriod, EcoMode.recompute, EcoMode.fltDuration, EcoMode.setDaily, hk, Timer.setDelay,
      Timer.setDuration, if_true, decide_eq_true_eq]
    omega

example : ((EcoMode.init 0).fltDuration 1 |>.setPeriod 10).periodDuration = 100000 := by decide

/-- Resolution corner: with timedelta's microsecond resolution the period duration rounds to zero exactly when
`2 * daily ≤ period` (µs) — e.g. daily = 5 µs, period = 10 — and then the assertion kills the actor.  Not
reachable through the dispatcher (whole seconds ≥ 1), reachable only by calling the setter directly. -/
theorem C10_period_duration_zero_iff (daily period : Int) (hd : 0 ≤ daily) (hp : 0 < period) :
    ((EcoMode.init 0).setDaily daily |>.setPeriod period).assertOk = false ↔ 2 * daily ≤ period := by
  have := divNearest_pos_iff daily period hd hp
  show decide (0 < divNearest daily period) = false ↔ _
  rw [decide_eq_false_iff_not]
  omega

example : ((EcoMode.init 0).setDaily 5 |>.setPeriod 10).assertOk = false := by decide
example : ((EcoMode.init 0).setDaily 6 |>.setPeriod 10).assertOk = true := by decide

/-! ### (b) Timer -/

/-- the accounted duration never decreases when the clock does not run backwards (factor ≥ 0) -/
theorem C10_timer_monotone (t : Timer) (now fnum fden : Int) (hf : 0 ≤ fnum) (hd : 0 < fden)
    (hl : ∀ l, t.last = some l → l ≤ now) : t.duration ≤ (t.update now fnum fden).duration := by
  unfold Timer.update
  cases h : t.last with
  | none => simp
  | some l =>
    have := divNearest_nonneg ((now - l) * fnum) fden (Int.mul_nonneg (by have := hl l h; omega) hf) hd
    simp only [scale]; omega

example : ((Timer.mk 5 (some 10) 100).update 30 1 2).duration = 15 := by decide

/-- factor 1: two successive updates add exactly what one update over the whole interval adds -/
theorem C10_timer_additive (t : Timer) (a b : Int) :
    ((t.update a 1 1).update b 1 1).duration = (match t.last with | some _ => (t.update b 1 1).duration | none => t.duration + (b - a))
    ∧ ((t.update a 1 1).update b 1 1).last = some b := by
  unfold Timer.update
  cases h : t.last with
  | none => simp [scale_one]
  | some l => simp [scale_one]; omega

example : (((Timer.mk 0 (some 10) 100).update 20 1 1).update 45 1 1).duration = 35 := by decide

/-- factor 0 (eco_waiting, eco_compute, standby with the pump stopped) adds nothing -/
theorem C10_timer_factor_zero (t : Timer) (now : Int) : (t.update now 0 1).duration = t.duration := by
  unfold Timer.update
  cases h : t.last with
  | none => simp
  | some l => simp [scale_zero]

example : ((Timer.mk 7 (some 10) 100).update 99 0 1).duration = 7 := by decide

/-- `elapsed` is `remaining = 0` -/
theorem C10_timer_elapsed_iff (t : Timer) : t.elapsed = true ↔ t.remaining = 0 := by
  unfold Timer.elapsed Timer.remaining
  simp only [decide_eq_true_eq]; omega

example : (Timer.mk 100 none 100).elapsed = true ∧ (Timer.mk 99 none 100).remaining = 1 := by decide


/-! ### (c) closed loop

Runs of `ecoStep` made of `tick` events (timer expiries; no heating interlude, no setting change), every handler
at most `eps` late, from the instant the pool enters eco (`Loop.start`).  A *day* lies between two polls that see
the daily reset; `on` is the pump-on time of the day, `dur` the value of `filtration.duration` just before the
reset.  The model records with every finished day the bounds it claims (`lb`, `ub`, `u`) — they are computed by
the executable model, printed by the driver for every real-code day of the correspondence runs, and are:
  `ub = daily + poll + eps`,
  `lb = min daily (dc + rc) - slackOf eps j n`,  `slackOf eps j n = j + n * (poll + eps) + n`,
where `dc`, `rc` = accounted duration and time to the reset at the day's last `compute`, `n` its period count and
`j`, `u` the allowances accumulated by `ecoStep` (compute delay + `eps` at a compute, `2 * eps` per phase entry for
`j`; compute delay + `eps`, `eps`..`2 * eps` per phase entry and `2 * eps` per reload for `u`). -/

/-- Accounting, at every instant of such a run, for a day that started at a reset: the pump has run at least
the accounted duration and at most the accounted duration plus the allowance `gU`; the accounted duration
exceeds the daily duration by less than a poll (the `filtration.elapsed()` cut-off). -/
theorem C10_loop_accounting (eps : Int) (p : Params) (evs : List Ev) (he : 0 ≤ eps) (he2 : eps ≤ HOUR) (hd : 0 ≤ p.dailyS)
    (hs : p.start < nextResetAt p.start p.resetHour) (hall : ∀ e ∈ evs, TickOK eps e) :
    (ecoFinal eps (Loop.start eps p).1 evs).full = true →
      (ecoFinal eps (Loop.start eps p).1 evs).eco.filtration.duration ≤ (ecoFinal eps (Loop.start eps p).1 evs).onToday
      ∧ (ecoFinal eps (Loop.start eps p).1 evs).onToday ≤
          (ecoFinal eps (Loop.start eps p).1 evs).eco.filtration.duration + (ecoFinal eps (Loop.start eps p).1 evs).gU
      ∧ (ecoFinal eps (Loop.start eps p).1 evs).eco.filtration.duration ≤
          (ecoFinal eps (Loop.start eps p).1 evs).eco.filtration.delay + EcoConfig.pollDelayUs + eps := by
  intro hfull
  have hinv : Inv eps (ecoFinal eps (Loop.start eps p).1 evs) := run_inv eps evs _ (start_inv eps p he he2 hd hs) hall
  have hcd := cfg_cd
  refine ⟨hinv.common.hacc1 hfull, ?_, hinv.common.hub hfull⟩
  rcases hinv.hphase with ⟨_, _, _, _, _, _, _, _, _, _, h⟩ | ⟨_, _, _, _, h, _⟩ | ⟨_, _, _, _, h, _⟩ | ⟨_, _, _, _, h, _⟩
  · have := h hfull; omega
  · exact h hfull
  · have := h hfull; unfold res at this; split at this <;> omega
  · have := h hfull; unfold res at this; split at this <;> omega

example : TickOK 1000 (.tick 1 0 0) ∧ (0:Int) ≤ 1000 ∧ (1000:Int) ≤ HOUR
    ∧ (28800000000 : Int) < nextResetAt 28800000000 0 :=
  ⟨⟨by decide, by decide, by decide, by decide, by decide, by decide⟩, by decide, by decide, by decide⟩

/-- Whole days (partial: tick-only runs; the slack is stated with the allowances the model records): for every
finished day that started at a reset (and had no heating interlude),  `lb ≤ dur ≤ on ≤ dur + u`  and `dur ≤ ub`;
hence  `min daily (dc + rc) - slackOf eps j n ≤ on ≤ daily + poll + eps + u`. -/
theorem C10_quota_whole_day_partial (eps : Int) (p : Params) (evs : List Ev) (he : 0 ≤ eps) (he2 : eps ≤ HOUR)
    (hd : 0 ≤ p.dailyS) (hs : p.start < nextResetAt p.start p.resetHour) (hall : ∀ e ∈ evs, TickOK eps e) :
    ∀ r ∈ (ecoFinal eps (Loop.start eps p).1 evs).days, r.full = true → r.plain = true →
      r.lb ≤ r.dur ∧ r.dur ≤ r.ub ∧ r.dur ≤ r.on ∧ r.on ≤ r.dur + r.u ∧ r.lb ≤ r.on ∧ r.on ≤ r.ub + r.u := by
  intro r hr hfull hpl
  have hinv : Inv eps (ecoFinal eps (Loop.start eps p).1 evs) := run_inv eps evs _ (start_inv eps p he he2 hd hs) hall
  obtain ⟨h1, h2, h3, h4⟩ := hinv.common.hdays r hr hfull hpl
  exact ⟨h1, h2, h3, h4, by omega, by omega⟩

example : ∀ r ∈ (ecoFinal 1000 (Loop.start 1000 ⟨36000, 3, 1, 10, 0, 28800000000, 0⟩).1 [.tick 1 0 0]).days,
    r.full = true → r.plain = true → r.lb ≤ r.on :=
  fun r hr hf hp => (C10_quota_whole_day_partial 1000 _ _ (by decide) (by decide) (by decide) (by decide)
    (by intro e he; simp at he; subst he; exact ⟨by decide, by decide, by decide, by decide, by decide, by decide⟩) r hr hf hp).2.2.2.2.1

/-- The arithmetic behind the lower bound, at the poll that sees the reset (`T` = time since the last compute,
`W` pauses completed, `cyc` cycles completed, `x` = progress of the pause in progress): with a plan of `N`
periods the accounted duration is short of `min delay (Dc + Rc)` by at most `J + N * (poll + eps) + N`. -/
theorem C10_plan_arith (delay Dc Rc D N off P J Woff W cyc credit dur T x pe : Int) (waiting : Bool)
    (hN : 1 ≤ N) (hoff : 0 ≤ off) (hP : 0 ≤ P) (hpe : 0 ≤ pe) (hW0 : 0 ≤ W) (hJ : 0 ≤ J)
    (hNoff : 2 * (N * off) ≤ max 0 (2 * (Rc - D) + N))
    (hNP : Rc ≤ P ∨ 2 * D - N ≤ 2 * (N * P))
    (hD : D = max 0 (delay - Dc))
    (hW : Woff = W * (off + pe)) (hC : credit = cyc * P)
    (hWC : W + (if waiting then 1 else 0) ≤ cyc + 1)
    (hT : Rc ≤ T) (hidle : T - (dur - Dc) ≤ J + Woff + x)
    (hx : x ≤ (if waiting then off + pe else 0)) (hcred : credit ≤ dur - Dc) :
    min delay (Dc + Rc) - (J + N * pe + N) ≤ dur :=
  final_arith delay Dc Rc D N off P J Woff W cyc credit dur T x pe waiting hN hoff hP hpe hW0 hJ hNoff hNP hD hW hC hWC hT hidle hx hcred

example : min (36000 : Int) (0 + 86400) - (7 + 3 * 10 + 3) ≤ 35990 := by decide

/-- What `compute` guarantees about its plan (`n` periods, `D` remaining duration, `R` remaining time): the
pauses fit, `n * off ≤ max 0 (R - D) + n/2`, and the pool+tank phases cover the quota, `on + tank ≥ R` or
`n * (on + tank) ≥ D - n/2`. -/
theorem C10_plan_facts (e : EcoMode) (now : Int) :
    1 ≤ e.remainingPeriods
    ∧ 2 * (e.remainingPeriods * (e.compute now).offD) ≤ max 0 (2 * (e.remainingTime now - e.remainingDuration) + e.remainingPeriods)
    ∧ (e.remainingTime now ≤ (e.compute now).onD + (e.compute now).tankD
        ∨ 2 * e.remainingDuration - e.remainingPeriods ≤ 2 * (e.remainingPeriods * ((e.compute now).onD + (e.compute now).tankD))) := by
  obtain ⟨_, _, _, p4, p5, _, _, _, p9⟩ := compute_plan e now
  exact ⟨p9, p4, p5⟩

example : (Params.ecoMode ⟨36000, 3, 1, 10, 0, 1, 0⟩).remainingPeriods * ((Params.ecoMode ⟨36000, 3, 1, 10, 0, 1, 0⟩).compute 0).offD
    = 50400000000 := by decide

/-- The period count of a plan never exceeds 10 for settings the dispatcher lets through. -/
theorem C10_periods_le (daily period D : Int) (hd : 1 * US ≤ daily) (hp1 : 1 ≤ period) (hp2 : period ≤ 10) (hD : D ≤ daily) :
    max 1 (D / divNearest daily period) ≤ 10 := by
  have hU : US = 1000000 := rfl
  have hpd := C10_period_duration_pos daily period hd hp1 hp2
  have hb := (divNearest_bounds daily period (by omega)).2
  have hlt : D < 11 * divNearest daily period := by
    have : period = 1 ∨ period = 2 ∨ period = 3 ∨ period = 4 ∨ period = 5 ∨ period = 6 ∨ period = 7 ∨ period = 8
        ∨ period = 9 ∨ period = 10 := by omega
    rcases this with h | h | h | h | h | h | h | h | h | h <;> subst h <;> omega
  have := Int.ediv_lt_of_lt_mul (show 0 < divNearest daily period by omega) hlt
  omega

example : max 1 ((36000000000 : Int) / divNearest 36000000000 7) = 6 := by decide

/-- With the allowance of a plain day of at most 10 cycles (`j ≤ compute delay + eps + 2 * eps * 34`), at most 10
periods and handlers at most 0.5 s late, the slack of the lower bound is below the property's 180 s. -/
theorem C10_slack_180 (eps j n : Int) (he : 0 ≤ eps) (he2 : eps ≤ 500001) (hn : n ≤ 10) (hn1 : 1 ≤ n)
    (hj : j ≤ EcoConfig.computeDelayUs + eps + 2 * eps * 34) : slackOf eps j n < 180 * US := by
  have hcd := cfg_cd
  have hp := cfg_poll
  have hU : US = 1000000 := rfl
  unfold slackOf
  have h1 : n * (EcoConfig.pollDelayUs + eps) ≤ 10 * (EcoConfig.pollDelayUs + eps) :=
    Int.mul_le_mul_of_nonneg_right hn (by omega)
  omega

example : slackOf 500001 (5000000 + 500001 + 2 * 500001 * 34) 10 = 144500089 := by decide

/-! ### (d) whole days in closed form (Proofs/EcoDayInv.lean)

The ghost allowances of `C10_quota_whole_day_partial` are bounded along every tick-only run: the plan of a day that
starts at a reset has `n ≤ period` periods, `dc = 0`, `DAY - 10 s - 3 eps ≤ rc ≤ DAY`; at most `n + 1` cycles are
completed, hence `j ≤ 5 s + (6 * period + 9) * eps`, `u ≤ 5 s + (4 * period + 8) * eps`.  With
  `slackLo period eps = 15 s + period * (10 s + 1 µs) + (7 * period + 12) * eps`   (≤ 156.00001 s at eps = 0.5 s, ≤ 164.20001 s at 0.6 s),
  `slackHi period eps = 15 s + (4 * period + 9) * eps`                              (≤ 39.5 s / 44.4 s)
the pump-on time of every whole day is within `[min daily 24h - slackLo, min daily 24h + slackHi]`. -/

/-- C10, whole days, tick-only runs, unconditional in the settings: for EVERY daily duration ≥ 1 s (the dispatcher
lets through 1 s .. 48 h), period count 1..10, tank percentage, reset hour, already-elapsed duration ≥ 0, start instant (not the
exact µs of a reset: hypothesis `hs`, the only instant for which `Loop.start` itself sees the reset — not covered yet), and every sequence of timer expiries handled at most
`eps ≤ 0.6 s` late (the simulator's real runs show ≤ 0.5 s + a few µs; the correspondence checks ≤ 0.6 s on every run): every day of the run but the first (which starts when eco is entered) starts at a reset, and the
pump-on time of every such day differs from `min daily 24h` by at most `slackLo` below and `slackHi` above — both
below the property's 180 s.  (This is the day theorem applied inductively: it speaks about all the days of the run.) -/
theorem C10_quota_whole_day (eps : Int) (p : Params) (evs : List Ev) (he : 0 ≤ eps) (he2 : eps ≤ 600000)
    (hd : 1 ≤ p.dailyS) (hp1 : 1 ≤ p.period) (hp2 : p.period ≤ 10) (hel : 0 ≤ p.elapsedS)
    (hs : p.start < nextResetAt p.start p.resetHour) (hall : ∀ e ∈ evs, TickOK eps e) :
    (∀ r ∈ (ecoFinal eps (Loop.start eps p).1 evs).days.dropLast, r.full = true)
    ∧ (∀ r ∈ (ecoFinal eps (Loop.start eps p).1 evs).days, r.full = true →
        min (p.dailyS * US) DAY - slackLo p.period eps ≤ r.on ∧ r.on ≤ min (p.dailyS * US) DAY + slackHi p.period eps)
    ∧ slackHi p.period eps ≤ slackLo p.period eps ∧ slackLo p.period eps < 180 * US := by
  have hU : US = 1000000 := rfl
  have hH : HOUR = 3600000000 := rfl
  have hst : Static eps p.period (p.dailyS * US) := ⟨he, he2, hp1, hp2, by rw [hU]; omega⟩
  obtain ⟨hinv, hday⟩ := day_run eps p.period (p.dailyS * US) hst evs _
    (start_inv eps p he (by omega) (by omega) hs) (day_start eps p hst hel hs) hall
  have hsl := slack_le_180 p.period eps he he2 hp1 hp2
  refine ⟨hday.hseq.2, ?_, hsl.1, hsl.2.2.1⟩
  intro r hr hfull
  exact day_bounds eps p.period (p.dailyS * US) r hst (hinv.common.hdays r hr) (hday.hdays r hr) hfull

example : (0:Int) ≤ 600000 ∧ (1:Int) ≤ (⟨36000, 3, 1, 10, 0, 28800000000, 0⟩ : Params).dailyS
    ∧ (⟨36000, 3, 1, 10, 0, 28800000000, 0⟩ : Params).start < nextResetAt 28800000000 0
    ∧ (∀ e ∈ List.replicate 20000 (Ev.tick 250000 1000 1000), TickOK 500000 e) :=
  ⟨by decide, by decide, by decide, fun e he => by
    rw [List.eq_of_mem_replicate he]; exact ⟨by decide, by decide, by decide, by decide, by decide, by decide⟩⟩

/-- the closed-form slack: values at the corners of the quantifier -/
theorem C10_slack_closed_form (per eps : Int) (he : 0 ≤ eps) (he2 : eps ≤ 600000) (hp1 : 1 ≤ per) (hp2 : per ≤ 10) :
    slackLo per eps = 15 * US + per * (10 * US + 1) + (7 * per + 12) * eps
    ∧ slackHi per eps = 15 * US + (4 * per + 9) * eps
    ∧ slackHi per eps ≤ slackLo per eps ∧ slackLo per eps ≤ 164 * US + 200010
    ∧ (eps ≤ 500000 → slackLo per eps ≤ 156 * US + 10) := by
  have hU : US = 1000000 := rfl
  have hsl := slack_le_180 per eps he he2 hp1 hp2
  have e1 : (7 * per + 12) * eps = 7 * (per * eps) + 12 * eps := by
    rw [Int.add_mul, Int.mul_assoc]
  have e2 : (4 * per + 9) * eps = 4 * (per * eps) + 9 * eps := by
    rw [Int.add_mul, Int.mul_assoc]
  refine ⟨?_, ?_, hsl.1, ?_, ?_⟩
  · rw [e1, hU]; unfold slackLo; omega
  · rw [e2, hU]; unfold slackHi; omega
  · rw [hU]; exact hsl.2.1
  · intro h; rw [hU]; exact hsl.2.2.2 h

example : slackLo 10 500000 = 156000010 ∧ slackLo 10 600000 = 164200010 ∧ slackHi 10 600000 = 44400000 ∧ slackLo 1 0 = 25000001 := by decide

/-- the ghost values in closed form (what was open in `C10_quota_whole_day_partial`): for every finished whole day,
`n ≤ period`, `j ≤ 5 s + (6 * period + 9) * eps`, `u ≤ 5 s + (4 * period + 8) * eps`, the claimed bounds are
`ub = daily + 10 s + eps` and `lb ≥ min daily (24 h - 10 s - 3 eps) - slackOf eps j n`, and the day is plain. -/
theorem C10_ghosts_closed_form (eps : Int) (p : Params) (evs : List Ev) (he : 0 ≤ eps) (he2 : eps ≤ 600000)
    (hd : 1 ≤ p.dailyS) (hp1 : 1 ≤ p.period) (hp2 : p.period ≤ 10) (hel : 0 ≤ p.elapsedS)
    (hs : p.start < nextResetAt p.start p.resetHour) (hall : ∀ e ∈ evs, TickOK eps e) :
    ∀ r ∈ (ecoFinal eps (Loop.start eps p).1 evs).days, r.plain = true ∧ (r.full = true →
      1 ≤ r.n ∧ r.n ≤ p.period
      ∧ r.j ≤ EcoConfig.computeDelayUs + 6 * (p.period * eps) + 9 * eps
      ∧ r.u ≤ EcoConfig.computeDelayUs + 4 * (p.period * eps) + 8 * eps
      ∧ min (p.dailyS * US) (DAY - EcoConfig.pollDelayUs - 3 * eps) - slackOf eps r.j r.n ≤ r.lb
      ∧ r.ub = p.dailyS * US + EcoConfig.pollDelayUs + eps
      ∧ r.on ≤ DAY + EcoConfig.pollDelayUs + 3 * eps) := by
  have hU : US = 1000000 := rfl
  have hH : HOUR = 3600000000 := rfl
  have hst : Static eps p.period (p.dailyS * US) := ⟨he, he2, hp1, hp2, by rw [hU]; omega⟩
  obtain ⟨hinv, hday⟩ := day_run eps p.period (p.dailyS * US) hst evs _
    (start_inv eps p he (by omega) (by omega) hs) (day_start eps p hst hel hs) hall
  intro r hr
  exact hday.hdays r hr

example : (5000000 : Int) + 6 * (10 * 500000) + 9 * 500000 = 39500000 := by decide

/-! ### (e) heating interludes (Proofs/EcoDayHeat.lean)

`heating_running` polls account the whole time at factor 1 and add it to the pump-on time; they never look at the
quota.  Hence scheduled heating time counts towards the quota (lower bound) and a heating interlude that lasts beyond
the quota necessarily exceeds it: the statement read literally ("runs for the configured daily duration to within
3 minutes") is false — open known finding `Filtration.eco-cycle:quota-exceeded-by-late-heating`; the monitor bounds the
pump time by max(quota, pump time at the end of the day's last heating interlude) + 180 s instead. -/

/-- One poll of `heating_running` (pump on, timers polled at `now`, poll armed), handled `j0 ≥ 0` late and before the
reset: the state is again a polled `heating_running` state and the whole interval is added both to the accounted
filtration duration and to the pump-on time of the day — for EVERY daily duration and every accounted duration (no
`filtration.elapsed()` cut-off). -/
theorem C10_heating_poll_counts (eps : Int) (s : Loop) (j0 j1 j2 : Int) (h : HeatPolled s) (hj : 0 ≤ j0)
    (hnr : s.now + EcoConfig.pollDelayUs + j0 < s.eco.nextReset) :
    HeatPolled (ecoStep eps s (.tick j0 j1 j2)).1
    ∧ (ecoStep eps s (.tick j0 j1 j2)).1.now = s.now + EcoConfig.pollDelayUs + j0
    ∧ (ecoStep eps s (.tick j0 j1 j2)).1.onToday = s.onToday + (EcoConfig.pollDelayUs + j0)
    ∧ (ecoStep eps s (.tick j0 j1 j2)).1.eco.filtration.duration = s.eco.filtration.duration + (EcoConfig.pollDelayUs + j0) := by
  obtain ⟨p1, p2, p3, p4, _⟩ := heating_poll eps s j0 j1 j2 h hj hnr
  exact ⟨p1, p2, p3, p4⟩

/-- the state of the counterexample below after `eco` at 23:59:50, the reset poll, `eco_waiting`, `heat`, first poll -/
def cexParams : Params := ⟨25200, 8, 0, 1, 0, 86390000000, 0⟩
def cexPrefix : List Ev := [.tick 0 0 0, .tick 0 0 0, .tick 0 0 0, .tick 0 0 0, .tick 0 0 0, .heat 1000000, .tick 0 0 0]

example : HeatPolled (ecoFinal 0 (Loop.start 0 cexParams).1 cexPrefix) := ⟨by decide, by decide, by decide, by decide⟩

/-- `n` on-time polls of `heating_running` before the reset add `n * 10 s` to the pump-on time of the day and to the
accounted duration, whatever the quota. -/
theorem C10_heating_polls_no_cutoff (eps : Int) (n : Nat) (s : Loop) (h : HeatPolled s)
    (hnr : s.now + n * EcoConfig.pollDelayUs < s.eco.nextReset) :
    (ecoFinal eps s (List.replicate n (.tick 0 0 0))).onToday = s.onToday + n * EcoConfig.pollDelayUs
    ∧ (ecoFinal eps s (List.replicate n (.tick 0 0 0))).eco.filtration.duration = s.eco.filtration.duration + n * EcoConfig.pollDelayUs
    ∧ (ecoFinal eps s (List.replicate n (.tick 0 0 0))).pumpOn = true
    ∧ (ecoFinal eps s (List.replicate n (.tick 0 0 0))).full = s.full := by
  obtain ⟨q1, _, q3, q4, _, q6⟩ := heating_polls eps n s h hnr
  exact ⟨q3, q4, q1.hpump, q6⟩

example : (ecoFinal 0 (Loop.start 0 cexParams).1 cexPrefix).now + (2540 : Nat) * EcoConfig.pollDelayUs
    < (ecoFinal 0 (Loop.start 0 cexParams).1 cexPrefix).eco.nextReset := by decide

/-- The literal reading of the upper bound is FALSE (model witness of the open known finding
`Filtration.eco-cycle:quota-exceeded-by-late-heating`): daily duration 7 h, 8 periods, every handler on time; the pool
enters eco at 23:59:50, the reset poll at 00:00:05 starts a whole day, the scheduled heating starts at 00:00:11 and
lasts longer than the quota; after 2540 heating polls (07:03:31) the pump has run 25405 s on a day configured for
25200 s, more than 180 s over the quota (and it keeps running as long as the heating lasts; the pump-on time of a day
never decreases).  The real-code replay of the finding (heating 21:00 – 23:25 after the eco cycle has used 6 h 07 min:
8 h 32 min 26 s, the same value in this model) is `checks/c10.py LATE_HEATING`. -/
theorem C10_quota_literal_upper_late_heating_counterexample :
    ∃ (p : Params) (evs : List Ev), p.dailyS = 25200 ∧ p.period = 8
      ∧ evs = cexPrefix ++ List.replicate 2540 (.tick 0 0 0)
      ∧ (ecoFinal 0 (Loop.start 0 p).1 evs).full = true
      ∧ (ecoFinal 0 (Loop.start 0 p).1 evs).pumpOn = true
      ∧ (ecoFinal 0 (Loop.start 0 p).1 evs).onToday = 25405 * US
      ∧ (ecoFinal 0 (Loop.start 0 p).1 evs).onToday > p.dailyS * US + 180 * US := by
  refine ⟨cexParams, cexPrefix ++ List.replicate 2540 (.tick 0 0 0), rfl, rfl, rfl, ?_⟩
  have happ : ecoFinal 0 (Loop.start 0 cexParams).1 (cexPrefix ++ List.replicate 2540 (.tick 0 0 0))
      = ecoFinal 0 (ecoFinal 0 (Loop.start 0 cexParams).1 cexPrefix) (List.replicate 2540 (.tick 0 0 0)) := by
    unfold ecoFinal; rw [List.foldl_append]
  have h7 : HeatPolled (ecoFinal 0 (Loop.start 0 cexParams).1 cexPrefix) := ⟨by decide, by decide, by decide, by decide⟩
  obtain ⟨q1, _, q3, q4⟩ := C10_heating_polls_no_cutoff 0 2540 _ h7 (by decide)
  have e1 : (ecoFinal 0 (Loop.start 0 cexParams).1 cexPrefix).onToday = 5000000 := by decide
  have e2 : (ecoFinal 0 (Loop.start 0 cexParams).1 cexPrefix).full = true := by decide
  have hpoll := cfg_poll
  have hU : US = 1000000 := rfl
  have hd : cexParams.dailyS = 25200 := rfl
  rw [happ, q1, q3, q4, e1, e2, hpoll, hd, hU]
  refine ⟨rfl, rfl, ?_, ?_⟩ <;> decide

example : cexParams.dailyS = 25200 ∧ (1 : Int) ≤ cexParams.period ∧ cexParams.period ≤ 10
    ∧ cexParams.start < nextResetAt cexParams.start cexParams.resetHour ∧ TickOK 0 (.tick 0 0 0) :=
  ⟨by decide, by decide, by decide, by decide, ⟨by decide, by decide, by decide, by decide, by decide, by decide⟩⟩

/-- Entry and exit of a heating interlude.  `heat` (accepted in eco_waiting / eco_normal): pump on, the accounted
duration is kept (`eco_mode.clear()` only forgets the time since the last poll), first poll armed at once.
`heating_delay` (from heating_running): the pump stays on for the configured delay (60 s), nothing is accounted,
then `eco_compute` re-plans with what is left of the quota. -/
theorem C10_heating_entry_exit (eps : Int) (s : Loop) (dt : Int) :
    ((s.phase = .waiting ∨ s.phase = .normal) →
      (ecoStep eps s (.heat dt)).1.phase = .heating ∧ (ecoStep eps s (.heat dt)).1.pumpOn = true
      ∧ (ecoStep eps s (.heat dt)).1.now = s.now + dt ∧ (ecoStep eps s (.heat dt)).1.due = s.now + dt
      ∧ (ecoStep eps s (.heat dt)).1.eco.filtration.duration = s.eco.filtration.duration
      ∧ (ecoStep eps s (.heat dt)).1.eco.filtration.last = none
      ∧ (ecoStep eps s (.heat dt)).1.onToday = s.onToday + (if s.pumpOn then dt else 0))
    ∧ (s.phase = .heating →
      (ecoStep eps s (.heatEnd dt)).1.phase = .heatDelay ∧ (ecoStep eps s (.heatEnd dt)).1.pumpOn = s.pumpOn
      ∧ (ecoStep eps s (.heatEnd dt)).1.due = s.now + dt + EcoConfig.heatingDelayToEcoUs
      ∧ (ecoStep eps s (.heatEnd dt)).1.eco.filtration.duration = s.eco.filtration.duration
      ∧ (ecoStep eps s (.heatEnd dt)).1.onToday = s.onToday + (if s.pumpOn then dt else 0)) := by
  constructor
  · intro hp
    rcases hp with hp | hp <;>
      simp [ecoStep, Loop.advance, hp, EcoMode.clear, Timer.clear, Timer.setDelay] <;> split <;> omega
  · intro hp
    simp [ecoStep, Loop.advance, hp, EcoMode.clear, Timer.clear, Timer.setDelay]
    split <;> omega

example : (ecoStep 0 (ecoFinal 0 (Loop.start 0 cexParams).1 (cexPrefix.take 5)) (.heat 1000000)).1.phase = .heating
    ∧ (ecoFinal 0 (Loop.start 0 cexParams).1 (cexPrefix.take 5)).phase = .waiting
    ∧ EcoConfig.heatingDelayToEcoUs = 60000000 := by decide

/-! ### (f) whole days WITH a heating interlude (Proofs/EcoDayHeat2.lean)

A *complete interlude* is `interludeEvs dt polls dt' jd j1 j2 = heat dt :: polls ++ [heatEnd dt', tick jd j1 j2]`:
`heat` arrives `dt` after the last handler of eco_waiting / eco_normal, the `polls` of heating_running follow, then
`heating_delay` and the expiry of the 60 s delay (handled `jd` late) which re-enters `eco_compute`.  `InterludeOK` are
its side conditions (`heat` / `heating_delay` arrive before the armed poll is handled, every poll is handled at most `eps`
late and before the reset, `0 ≤ jd ≤ eps`).  Constants (µs):
  `heatLoss eps            = 70 s + 3 eps`                                   (≤ 71.8 s at eps = 0.6 s)
  `slackPlan period eps    = 5 s + period * (10 s + 1 µs) + (7 * period + 9) * eps`     (≤ 152.40001 s)
  `slackLoHeat period eps  = 10 s + 3 eps + 2 * slackPlan period eps`        (≤ 174.60001 s for period ≤ 5; 316.60002 s at period = 10)
  `slackHiHeat period eps  = 100 s + (10 * period + 22) * eps`               (≤ 173.2 s). -/

/-- Interlude accounting (any state in eco_waiting / eco_normal, any settings): a complete interlude that is over before
the reset ends in `eco_compute` with the pump still on, in the same day; the pump-on time of the day has grown by EXACTLY
the time from `heat` to the expiry of the delay (plus `dt` if the pump was running), the accounted filtration duration by
that time minus at most `heatLoss eps = 70 s + 3 eps` (the 60 s delay, one poll period lost at `heating_delay`, three
handler latenesses), and never by more.  Together with the time since the last poll that `heat` drops in eco_normal
(`≤ dt ≤ 10 s + eps`) and the 5 s compute delay this is the 65–87 s per interlude observed on the real code. -/
theorem C10_heating_interlude_accounting (eps per delay : Int) (s : Loop) (dt : Int) (polls : List Ev) (dt' jd j1 j2 : Int)
    (he : 0 ≤ eps) (hph : s.phase = .waiting ∨ s.phase = .normal)
    (hper : s.eco.period = per) (hdel : s.eco.filtration.delay = delay) (hpd : s.eco.periodDuration = divNearest delay per)
    (hok : InterludeOK eps s dt polls dt' jd)
    (hnr : (ecoFinal eps s (interludeEvs dt polls dt' jd j1 j2)).now < s.eco.nextReset) :
    (ecoFinal eps s (interludeEvs dt polls dt' jd j1 j2)).phase = .compute
    ∧ (ecoFinal eps s (interludeEvs dt polls dt' jd j1 j2)).pumpOn = true
    ∧ (ecoFinal eps s (interludeEvs dt polls dt' jd j1 j2)).full = s.full
    ∧ (ecoFinal eps s (interludeEvs dt polls dt' jd j1 j2)).days = s.days
    ∧ (ecoFinal eps s (interludeEvs dt polls dt' jd j1 j2)).onToday
        = s.onToday + (if s.pumpOn then dt else 0) + ((ecoFinal eps s (interludeEvs dt polls dt' jd j1 j2)).now - (s.now + dt))
    ∧ s.eco.filtration.duration + ((ecoFinal eps s (interludeEvs dt polls dt' jd j1 j2)).now - (s.now + dt)) - heatLoss eps
        ≤ (ecoFinal eps s (interludeEvs dt polls dt' jd j1 j2)).eco.filtration.duration
    ∧ (ecoFinal eps s (interludeEvs dt polls dt' jd j1 j2)).eco.filtration.duration
        ≤ s.eco.filtration.duration + ((ecoFinal eps s (interludeEvs dt polls dt' jd j1 j2)).now - (s.now + dt))
    ∧ heatLoss eps = 70 * US + 3 * eps := by
  obtain ⟨a1, a2, a3, a4, _, a6, a7, a8, _⟩ :=
    interlude_accounting eps per delay s dt polls dt' jd j1 j2 he hph hper hdel hpd hok hnr
  refine ⟨a1, a2, a3, a4, a6, a7, a8, ?_⟩
  have hU : US = 1000000 := rfl
  have hpoll := cfg_poll
  have hhd := cfg_hd
  unfold heatLoss; omega

/-- the run of the examples of this section: eco entered at 23:59:50, the reset poll starts a whole day (7 h quota,
8 periods), `heat` arrives 1 s after a poll of eco_waiting, three polls of heating_running, `heating_delay` 2 s after the
last poll, the delay expires 0.7 ms late; every handler at most 1 ms late -/
def exPre : List Ev := List.replicate 5 (.tick 500 100 100)
def exPolls : List Ev := [.tick 300 0 0, .tick 1000 0 0, .tick 0 0 0]
def exHeat : Loop := ecoFinal 1000 (Loop.start 1000 cexParams).1 exPre

example : exHeat.phase = .waiting ∧ exHeat.full = true ∧ InterludeOK 1000 exHeat 1000000 exPolls 2000000 700
    ∧ (ecoFinal 1000 exHeat (interludeEvs 1000000 exPolls 2000000 700 0 0)).now < exHeat.eco.nextReset
    ∧ (ecoFinal 1000 exHeat (interludeEvs 1000000 exPolls 2000000 700 0 0)).now - (exHeat.now + 1000000) = 82002000
    ∧ (ecoFinal 1000 exHeat (interludeEvs 1000000 exPolls 2000000 700 0 0)).onToday - exHeat.onToday = 82002000
    ∧ (ecoFinal 1000 exHeat (interludeEvs 1000000 exPolls 2000000 700 0 0)).eco.filtration.duration
        - exHeat.eco.filtration.duration = 20001000 := by decide

/- FULL statement aimed at (not proved in this generality):
   for every run made of ticks and complete heating interludes (any number per day, any day of the run), every handler at
   most `eps ≤ 0.6 s` late, every whole day `r` satisfies
     `min daily 24h - 180 s ≤ r.on ≤ max (min daily 24h) (pump-on time at the end of the day's last interlude) + 180 s`.
   What is proved below: the first day of the run that contains an interlude, ONE complete interlude in that day, over
   before the reset.  `C10_quota_heating_day_partial`: the interlude is over before the accounted duration exceeds the quota
   by more than a poll (`hub`) — two-sided bound around `min daily 24h`.  `C10_quota_heating_day_monitor_partial`: no `hub`,
   the bound in the monitor's form, and the late regime of the open finding (quota used up when the delay expires: the pump
   stops after the compute delay).  Missing: several interludes in one day / heating days after the first one of the run
   (the invariants `Inv` / `DayInv` are re-established for the shadows only until the next reset), an interlude that spans
   the reset, and a lower slack below 180 s for `period ≥ 6`: `slackLoHeat` adds the slack of the plan in progress at `heat`
   to the slack of the plan made after the interlude (each with one poll of overshoot per period), below 180 s only for
   `period ≤ 5`; when the quota is still reachable after the interlude the slack is `slackPlan < 180 s` for every setting.
   UPDATE — sections (g), (h) below: heating days after the first one of the run and any number of heating days are covered
   (`C10_quota_heating_days_partial`: EVERY whole day of a run with at most one complete interlude per day); several
   interludes in one day are covered with bounds in terms of the pump-on time left unaccounted by the interludes
   (`C10_quota_heating_days_multi_partial`), and the statement above is FALSE as it stands for three or more interludes per
   day (`C10_quota_monitor_upper_three_interludes_counterexample`).  Still missing: an interlude that spans the reset (the
   model then flags the day that starts during the interlude as `plain`), a closed form of the unaccounted time for `k`
   interludes per day, the lower slack below 180 s for `period ≥ 6` on heating days. -/

/-- C10, a whole day with one complete heating interlude (partial, see the comment above).  Any settings the dispatcher
lets through, any tick-only history `pre` (every handler at most `eps ≤ 0.6 s` late) that ends in a whole day in
eco_waiting / eco_normal, a complete interlude there that is over before the reset (`hnr`) and before the accounted
duration exceeds `daily + 10 s + eps` (`hub`), then any tick-only continuation `post`.  Then
 * the record `r` of that day — the one right above the days finished before `heat`, whenever the continuation reaches the
   reset — is a whole day with an interlude (`plain = false`) and
     `min daily 24h - slackLoHeat ≤ r.on ≤ min daily 24h + slackHiHeat`,
   and `daily - slackPlan ≤ r.on` if the quota was still reachable when the delay expired (`daily ≤ pump-on time + time left`);
 * at every instant: either that day is still running (same finished days, `full`, not plain; the pump has run at least the
   accounted duration plus what was unaccounted when the delay expired; the accounted duration is at most `daily + 10 s + eps`)
   or its record exists and satisfies the bounds;
 * `slackHiHeat < 180 s` and `slackPlan < 180 s` for every period count 1..10; `slackLoHeat < 180 s` for period ≤ 5. -/
theorem C10_quota_heating_day_partial (eps : Int) (p : Params) (pre : List Ev) (dt : Int) (polls : List Ev) (dt' jd j1 j2 : Int)
    (post : List Ev) (he : 0 ≤ eps) (he2 : eps ≤ 600000)
    (hd : 1 ≤ p.dailyS) (hp1 : 1 ≤ p.period) (hp2 : p.period ≤ 10) (hel : 0 ≤ p.elapsedS)
    (hs : p.start < nextResetAt p.start p.resetHour)
    (hpre : ∀ e ∈ pre, TickOK eps e) (hpost : ∀ e ∈ post, TickOK eps e)
    (hfull : (ecoFinal eps (Loop.start eps p).1 pre).full = true)
    (hph : (ecoFinal eps (Loop.start eps p).1 pre).phase = .waiting ∨ (ecoFinal eps (Loop.start eps p).1 pre).phase = .normal)
    (hok : InterludeOK eps (ecoFinal eps (Loop.start eps p).1 pre) dt polls dt' jd)
    (hnr : (ecoFinal eps (Loop.start eps p).1 (pre ++ interludeEvs dt polls dt' jd j1 j2)).now
        < (ecoFinal eps (Loop.start eps p).1 pre).eco.nextReset)
    (hub : (ecoFinal eps (Loop.start eps p).1 (pre ++ interludeEvs dt polls dt' jd j1 j2)).eco.filtration.duration
        ≤ p.dailyS * US + EcoConfig.pollDelayUs + eps) :
    (∀ r, (r :: (ecoFinal eps (Loop.start eps p).1 pre).days)
          <:+ (ecoFinal eps (Loop.start eps p).1 (pre ++ interludeEvs dt polls dt' jd j1 j2 ++ post)).days →
        r.full = true ∧ r.plain = false
        ∧ min (p.dailyS * US) DAY - slackLoHeat p.period eps ≤ r.on
        ∧ (p.dailyS * US ≤ (ecoFinal eps (Loop.start eps p).1 (pre ++ interludeEvs dt polls dt' jd j1 j2)).onToday
              + ((ecoFinal eps (Loop.start eps p).1 pre).eco.nextReset
                 - (ecoFinal eps (Loop.start eps p).1 (pre ++ interludeEvs dt polls dt' jd j1 j2)).now) →
            p.dailyS * US - slackPlan p.period eps ≤ r.on)
        ∧ r.on ≤ min (p.dailyS * US) DAY + slackHiHeat p.period eps)
    ∧ (((ecoFinal eps (Loop.start eps p).1 (pre ++ interludeEvs dt polls dt' jd j1 j2 ++ post)).days
            = (ecoFinal eps (Loop.start eps p).1 pre).days
          ∧ (ecoFinal eps (Loop.start eps p).1 (pre ++ interludeEvs dt polls dt' jd j1 j2 ++ post)).full = true
          ∧ (ecoFinal eps (Loop.start eps p).1 (pre ++ interludeEvs dt polls dt' jd j1 j2 ++ post)).gPlain = false
          ∧ (ecoFinal eps (Loop.start eps p).1 (pre ++ interludeEvs dt polls dt' jd j1 j2 ++ post)).eco.filtration.duration
              + ((ecoFinal eps (Loop.start eps p).1 (pre ++ interludeEvs dt polls dt' jd j1 j2)).onToday
                 - (ecoFinal eps (Loop.start eps p).1 (pre ++ interludeEvs dt polls dt' jd j1 j2)).eco.filtration.duration)
              ≤ (ecoFinal eps (Loop.start eps p).1 (pre ++ interludeEvs dt polls dt' jd j1 j2 ++ post)).onToday
          ∧ (ecoFinal eps (Loop.start eps p).1 (pre ++ interludeEvs dt polls dt' jd j1 j2 ++ post)).eco.filtration.duration
              ≤ p.dailyS * US + EcoConfig.pollDelayUs + eps)
        ∨ ∃ r, (r :: (ecoFinal eps (Loop.start eps p).1 pre).days)
            <:+ (ecoFinal eps (Loop.start eps p).1 (pre ++ interludeEvs dt polls dt' jd j1 j2 ++ post)).days)
    ∧ slackHiHeat p.period eps < 180 * US ∧ slackPlan p.period eps < 180 * US
    ∧ (p.period ≤ 5 → slackLoHeat p.period eps < 180 * US) := by
  have hU : US = 1000000 := rfl
  have hst : Static eps p.period (p.dailyS * US) := ⟨he, he2, hp1, hp2, by rw [hU]; omega⟩
  have hi0 := start_inv eps p he (by have : HOUR = 3600000000 := rfl; omega) (by omega) hs
  obtain ⟨hinv, hday⟩ := day_run eps p.period (p.dailyS * US) hst pre _ hi0 (day_start eps p hst hel hs) hpre
  have h0 := run_dur_nonneg eps he2 pre _ hi0 (start_dur_nonneg eps p hel hs) hpre
  obtain ⟨_, _, _, c4, _, c6, _, c8⟩ := slack_heat_values p.period eps he he2 hp1 hp2
  rw [ecoFinal_append, ecoFinal_append] at *
  refine ⟨?_, ?_, c6, c4, fun h5 => (c8 h5).2⟩
  · intro r hr
    obtain ⟨b1, b2, b3, b4, b5, _⟩ := heat_day_early eps p.period (p.dailyS * US) _ hst hinv hday hfull hph h0
      dt polls dt' jd j1 j2 hok hnr hub post hpost r hr
    exact ⟨b1, b2, b3, b4, b5⟩
  · rcases heat_day_early_run eps p.period (p.dailyS * US) _ hst hinv hday hfull hph h0
      dt polls dt' jd j1 j2 hok hnr hub post hpost with hA | ⟨r, hr, _⟩
    · exact Or.inl hA
    · exact Or.inr ⟨r, hr⟩

def exPost : List Ev := [.tick 10 20 30, .tick 1 2 3]

/-- the hypotheses of `C10_quota_heating_day_partial` hold on the run of this section (quota 7 h; when the delay expires
20.001 s are accounted, 87.0027 s of pump-on time, and the quota is still reachable) … -/
example : (0:Int) ≤ 1000 ∧ (1000:Int) ≤ 600000 ∧ 1 ≤ cexParams.dailyS ∧ 1 ≤ cexParams.period ∧ cexParams.period ≤ 10
    ∧ 0 ≤ cexParams.elapsedS ∧ cexParams.start < nextResetAt cexParams.start cexParams.resetHour
    ∧ (∀ e ∈ exPre, TickOK 1000 e) ∧ (∀ e ∈ exPost, TickOK 1000 e)
    ∧ (ecoFinal 1000 (Loop.start 1000 cexParams).1 exPre).full = true
    ∧ (ecoFinal 1000 (Loop.start 1000 cexParams).1 exPre).phase = .waiting
    ∧ InterludeOK 1000 (ecoFinal 1000 (Loop.start 1000 cexParams).1 exPre) 1000000 exPolls 2000000 700
    ∧ (ecoFinal 1000 (Loop.start 1000 cexParams).1 (exPre ++ interludeEvs 1000000 exPolls 2000000 700 0 0)).now
        < (ecoFinal 1000 (Loop.start 1000 cexParams).1 exPre).eco.nextReset
    ∧ (ecoFinal 1000 (Loop.start 1000 cexParams).1 (exPre ++ interludeEvs 1000000 exPolls 2000000 700 0 0)).eco.filtration.duration
        ≤ cexParams.dailyS * US + EcoConfig.pollDelayUs + 1000
    ∧ cexParams.dailyS * US ≤ (ecoFinal 1000 (Loop.start 1000 cexParams).1 (exPre ++ interludeEvs 1000000 exPolls 2000000 700 0 0)).onToday
        + ((ecoFinal 1000 (Loop.start 1000 cexParams).1 exPre).eco.nextReset
           - (ecoFinal 1000 (Loop.start 1000 cexParams).1 (exPre ++ interludeEvs 1000000 exPolls 2000000 700 0 0)).now) := by
  refine ⟨by decide, by decide, by decide, by decide, by decide, by decide, by decide, ?_, ?_,
    by decide, by decide, by decide, by decide, by decide, by decide⟩
  · intro e he
    rw [List.eq_of_mem_replicate he]; exact ⟨by decide, by decide, by decide, by decide, by decide, by decide⟩
  · intro e he
    simp only [exPost, List.mem_cons, List.mem_nil_iff, or_false] at he
    rcases he with h | h <;> subst h <;> exact ⟨by decide, by decide, by decide, by decide, by decide, by decide⟩

/-- … and two ticks later (eco_compute → eco_waiting, first poll) the day is still running: the pump ran through the compute
delay (92.00271 s of pump-on time for 20.001 s accounted), no day was finished -/
example : (ecoFinal 1000 (Loop.start 1000 cexParams).1 (exPre ++ interludeEvs 1000000 exPolls 2000000 700 0 0 ++ exPost)).days.length
      = (ecoFinal 1000 (Loop.start 1000 cexParams).1 exPre).days.length
    ∧ (ecoFinal 1000 (Loop.start 1000 cexParams).1 (exPre ++ interludeEvs 1000000 exPolls 2000000 700 0 0 ++ exPost)).gPlain = false
    ∧ (ecoFinal 1000 (Loop.start 1000 cexParams).1 (exPre ++ interludeEvs 1000000 exPolls 2000000 700 0 0 ++ exPost)).onToday = 92002710
    ∧ (ecoFinal 1000 (Loop.start 1000 cexParams).1 (exPre ++ interludeEvs 1000000 exPolls 2000000 700 0 0 ++ exPost)).eco.filtration.duration
        = 20001000 := by decide

example : slackPlan 10 600000 = 152400010 ∧ slackLoHeat 5 600000 = 174600010 ∧ slackLoHeat 10 600000 = 316600020
    ∧ slackLoHeat 3 600000 = 117800006 ∧ slackHiHeat 10 600000 = 173200000 ∧ heatLoss 600000 = 71800000 := by decide

/-- C10, a whole day with one complete heating interlude, BOTH regimes, in the form of the monitor of checks/c10.py
(partial only in the shape of the run, see the comment above `C10_quota_heating_day_partial`).  Same hypotheses without
`hub`: whatever the accounted duration is when the interlude's delay expires (state `c`), the record `r` of that day satisfies
  `min daily 24h - slackLoHeat ≤ r.on ≤ max (min daily 24h) c.onToday + slackHiHeat`,   `slackHiHeat < 180 s`;
and in the late regime of the open finding (`daily ≤ c` accounted duration: the quota is used up when the delay expires) the
pump stops after the compute delay and stays off until the reset:
  `daily ≤ r.on`  and  `c.onToday ≤ r.on ≤ c.onToday + 5 s + eps`
— the pump-on time of the day exceeds the quota by exactly what the interlude added (no bound in terms of the quota
exists: `C10_quota_literal_upper_late_heating_counterexample`), and by nothing more than the compute delay afterwards. -/
theorem C10_quota_heating_day_monitor_partial (eps : Int) (p : Params) (pre : List Ev) (dt : Int) (polls : List Ev)
    (dt' jd j1 j2 : Int) (post : List Ev) (he : 0 ≤ eps) (he2 : eps ≤ 600000)
    (hd : 1 ≤ p.dailyS) (hp1 : 1 ≤ p.period) (hp2 : p.period ≤ 10) (hel : 0 ≤ p.elapsedS)
    (hs : p.start < nextResetAt p.start p.resetHour)
    (hpre : ∀ e ∈ pre, TickOK eps e) (hpost : ∀ e ∈ post, TickOK eps e)
    (hfull : (ecoFinal eps (Loop.start eps p).1 pre).full = true)
    (hph : (ecoFinal eps (Loop.start eps p).1 pre).phase = .waiting ∨ (ecoFinal eps (Loop.start eps p).1 pre).phase = .normal)
    (hok : InterludeOK eps (ecoFinal eps (Loop.start eps p).1 pre) dt polls dt' jd)
    (hnr : (ecoFinal eps (Loop.start eps p).1 (pre ++ interludeEvs dt polls dt' jd j1 j2)).now
        < (ecoFinal eps (Loop.start eps p).1 pre).eco.nextReset)
    (r : DayRec)
    (hr : (r :: (ecoFinal eps (Loop.start eps p).1 pre).days)
        <:+ (ecoFinal eps (Loop.start eps p).1 (pre ++ interludeEvs dt polls dt' jd j1 j2 ++ post)).days) :
    r.full = true ∧ r.plain = false
    ∧ min (p.dailyS * US) DAY - slackLoHeat p.period eps ≤ r.on
    ∧ r.on ≤ max (min (p.dailyS * US) DAY) (ecoFinal eps (Loop.start eps p).1 (pre ++ interludeEvs dt polls dt' jd j1 j2)).onToday
        + slackHiHeat p.period eps
    ∧ (p.dailyS * US ≤ (ecoFinal eps (Loop.start eps p).1 (pre ++ interludeEvs dt polls dt' jd j1 j2)).eco.filtration.duration →
        p.dailyS * US ≤ r.on
        ∧ (ecoFinal eps (Loop.start eps p).1 (pre ++ interludeEvs dt polls dt' jd j1 j2)).onToday ≤ r.on
        ∧ r.on ≤ (ecoFinal eps (Loop.start eps p).1 (pre ++ interludeEvs dt polls dt' jd j1 j2)).onToday
            + EcoConfig.computeDelayUs + eps)
    ∧ slackHiHeat p.period eps < 180 * US ∧ (p.period ≤ 5 → slackLoHeat p.period eps < 180 * US) := by
  have hU : US = 1000000 := rfl
  have hst : Static eps p.period (p.dailyS * US) := ⟨he, he2, hp1, hp2, by rw [hU]; omega⟩
  have hi0 := start_inv eps p he (by have : HOUR = 3600000000 := rfl; omega) (by omega) hs
  obtain ⟨hinv, hday⟩ := day_run eps p.period (p.dailyS * US) hst pre _ hi0 (day_start eps p hst hel hs) hpre
  have h0 := run_dur_nonneg eps he2 pre _ hi0 (start_dur_nonneg eps p hel hs) hpre
  obtain ⟨_, _, _, _, _, c6, _, c8⟩ := slack_heat_values p.period eps he he2 hp1 hp2
  rw [ecoFinal_append, ecoFinal_append] at *
  obtain ⟨b1, b2, b3, b4, b5⟩ := heat_day_monitor eps p.period (p.dailyS * US) _ hst hinv hday hfull hph h0
    dt polls dt' jd j1 j2 hok hnr post hpost r hr
  exact ⟨b1, b2, b3, b4, b5, c6, fun h5 => (c8 h5).2⟩

/-- late-regime run for the hypotheses: quota 1 s; when the delay expires 20.001 s are accounted (quota used up), the pump
has run 82.002 s; after the compute delay it is stopped at 87.00201 s = 82.002 s + 5 s + 10 µs -/
def lateParams : Params := ⟨1, 8, 0, 1, 0, 86390000000, 0⟩

example : 1 ≤ lateParams.dailyS ∧ lateParams.start < nextResetAt lateParams.start lateParams.resetHour
    ∧ (ecoFinal 1000 (Loop.start 1000 lateParams).1 exPre).full = true
    ∧ (ecoFinal 1000 (Loop.start 1000 lateParams).1 exPre).phase = .waiting
    ∧ InterludeOK 1000 (ecoFinal 1000 (Loop.start 1000 lateParams).1 exPre) 1000000 exPolls 2000000 700
    ∧ (ecoFinal 1000 (Loop.start 1000 lateParams).1 (exPre ++ interludeEvs 1000000 exPolls 2000000 700 0 0)).now
        < (ecoFinal 1000 (Loop.start 1000 lateParams).1 exPre).eco.nextReset
    ∧ lateParams.dailyS * US
        ≤ (ecoFinal 1000 (Loop.start 1000 lateParams).1 (exPre ++ interludeEvs 1000000 exPolls 2000000 700 0 0)).eco.filtration.duration
    ∧ (ecoFinal 1000 (Loop.start 1000 lateParams).1 (exPre ++ interludeEvs 1000000 exPolls 2000000 700 0 0)).onToday = 82002000
    ∧ (ecoFinal 1000 (Loop.start 1000 lateParams).1 (exPre ++ interludeEvs 1000000 exPolls 2000000 700 0 0 ++ exPost)).onToday = 87002010
    ∧ (ecoFinal 1000 (Loop.start 1000 lateParams).1 (exPre ++ interludeEvs 1000000 exPolls 2000000 700 0 0 ++ exPost)).pumpOn = false := by
  decide

/-! ### (g) any number of heating days (Proofs/EcoDayHeat3.lean)

The finished days never influence the behaviour (`run_withDays`), so the invariants of the tick-only proofs are kept
*modulo the finished days* (`Good`): they hold for the state with its list of finished days emptied.  The poll that sees the
reset re-establishes them whatever happened during the day (`reset_good`): a heating day is followed by days to which the
day theorems apply again.  A run is described by *segments* `Seg`: a stretch of timer expiries `pre`, then one complete
interlude (`interludeEvs dt polls dt' jd j1 j2`).  `SegsOK eps s gs` are the side conditions, segment after segment: every
tick at most `eps` late; when `heat` arrives no interlude has taken place yet since the last reset (`gPlain`, i.e. at most ONE
interlude per day), the pool is in eco_waiting / eco_normal, the interlude is well-formed (`InterludeOK`) and over before the
reset.  The run is `segsEvs gs ++ post` with a tick-only tail `post`. -/

/-- C10, EVERY whole day of a run with any number of heating days, at most one complete interlude per day, each over before
the reset (partial only in that shape, see below).  Any settings the dispatcher lets through, every handler at most
`eps ≤ 0.6 s` late.  Then every finished day but the first (which starts when eco is entered) starts at a reset, and every
whole day `r` of the run satisfies, in the form of the monitor of checks/c10.py,
  `min daily 24h - slackLoHeat ≤ r.on`;
  a day without interlude:  `min daily 24h - slackLo ≤ r.on ≤ min daily 24h + slackHi`  (the bounds of `C10_quota_whole_day`);
  a day with an interlude: it is the day of one of the segments `g` — its record lies right above the days finished when the
  `heat` of `g` arrived — and with `c` = the `eco_compute` state in which that interlude ended
     `r.on ≤ max (min daily 24h) c.onToday + slackHiHeat`,
  and in the late regime of the open finding (`daily ≤ c` accounted duration)  `daily ≤ r.on`, `c.onToday ≤ r.on ≤ c.onToday + 5 s + eps`.
`slackHi ≤ slackLo < 180 s`, `slackHiHeat < 180 s` for every period count; `slackLoHeat < 180 s` for `period ≤ 5`.
Still missing: several interludes within one day, an interlude that spans the reset (or that starts in the `eco_compute` /
`eco_tank` phases, where `heat` is ignored by the model), a lower slack below 180 s for `period ≥ 6` on heating days. -/
theorem C10_quota_heating_days_partial (eps : Int) (p : Params) (gs : List Seg) (post : List Ev) (he : 0 ≤ eps) (he2 : eps ≤ 600000)
    (hd : 1 ≤ p.dailyS) (hp1 : 1 ≤ p.period) (hp2 : p.period ≤ 10) (hel : 0 ≤ p.elapsedS)
    (hs : p.start < nextResetAt p.start p.resetHour)
    (hok : SegsOK eps (Loop.start eps p).1 gs) (hpost : ∀ e ∈ post, TickOK eps e) :
    (∀ r ∈ (ecoFinal eps (Loop.start eps p).1 (segsEvs gs ++ post)).days.dropLast, r.full = true)
    ∧ (∀ r ∈ (ecoFinal eps (Loop.start eps p).1 (segsEvs gs ++ post)).days, r.full = true →
        min (p.dailyS * US) DAY - slackLoHeat p.period eps ≤ r.on
        ∧ (r.plain = true →
            min (p.dailyS * US) DAY - slackLo p.period eps ≤ r.on ∧ r.on ≤ min (p.dailyS * US) DAY + slackHi p.period eps)
        ∧ (r.plain = false → ∃ gs1 g gs2, gs = gs1 ++ g :: gs2
            ∧ (r :: (ecoFinal eps (Loop.start eps p).1 (segsEvs gs1 ++ g.pre)).days)
                <:+ (ecoFinal eps (Loop.start eps p).1 (segsEvs gs ++ post)).days
            ∧ r.on ≤ max (min (p.dailyS * US) DAY) (ecoFinal eps (Loop.start eps p).1 (segsEvs gs1 ++ g.evs)).onToday
                + slackHiHeat p.period eps
            ∧ (p.dailyS * US ≤ (ecoFinal eps (Loop.start eps p).1 (segsEvs gs1 ++ g.evs)).eco.filtration.duration →
                p.dailyS * US ≤ r.on
                ∧ (ecoFinal eps (Loop.start eps p).1 (segsEvs gs1 ++ g.evs)).onToday ≤ r.on
                ∧ r.on ≤ (ecoFinal eps (Loop.start eps p).1 (segsEvs gs1 ++ g.evs)).onToday + EcoConfig.computeDelayUs + eps)))
    ∧ slackHi p.period eps ≤ slackLo p.period eps ∧ slackLo p.period eps < 180 * US
    ∧ slackHiHeat p.period eps < 180 * US ∧ (p.period ≤ 5 → slackLoHeat p.period eps < 180 * US) := by
  obtain ⟨hseq, hrec⟩ := heat_days_start eps p gs post he he2 hd hp1 hp2 hel hs hok hpost
  have hsl := slack_le_180 p.period eps he he2 hp1 hp2
  obtain ⟨_, _, _, _, _, c6, _, c8⟩ := slack_heat_values p.period eps he he2 hp1 hp2
  have hle := slackLo_le_heat p.period eps he hp1
  refine ⟨hseq, ?_, hsl.1, hsl.2.2.1, c6, fun h5 => (c8 h5).2⟩
  intro r hr hfull
  rcases hrec r hr with ⟨hpl, hb⟩ | ⟨gs1, g, gs2, h1, h2, hpl, hb⟩
  · obtain ⟨b1, b2⟩ := hb hfull
    refine ⟨by omega, fun _ => ⟨b1, b2⟩, fun hn => ?_⟩
    rw [hpl] at hn; cases hn
  · obtain ⟨b1, b2, b3⟩ := hb hfull
    refine ⟨b1, fun hp => ?_, fun _ => ⟨gs1, g, gs2, h1, h2, b2, b3⟩⟩
    rw [hpl] at hp; cases hp

/-- the hypotheses hold on a run with TWO heating days (`hdParams`, `hdSeg1`, `hdSeg2`, `hdPost` in Proofs/EcoDayHeat4.lean:
quota 1 s, eco entered at 23:59:50, an interlude in the first eco_waiting of day 1, 8632 polls of eco_waiting until the
reset — executed symbolically by `late_polls`, the side conditions are then decided on the resulting state —, the same
interlude in the first eco_waiting of day 2, two more ticks) … -/
example : (0:Int) ≤ 1000 ∧ (1000:Int) ≤ 600000 ∧ 1 ≤ hdParams.dailyS ∧ 1 ≤ hdParams.period ∧ hdParams.period ≤ 10
    ∧ 0 ≤ hdParams.elapsedS ∧ hdParams.start < nextResetAt hdParams.start hdParams.resetHour
    ∧ SegsOK 1000 (Loop.start 1000 hdParams).1 [hdSeg1, hdSeg2] ∧ (∀ e ∈ hdPost, TickOK 1000 e) :=
  ⟨by decide, by decide, by decide, by decide, by decide, by decide, by decide, hd_segsOK, by decide⟩

/-- … its finished days are the partial day 0 and the whole heating day 1 (pump-on time 87.002 s for a quota of 1 s: the late
regime; 82.002 s when the delay expired); day 2 is running, not plain, 87.00201 s of pump-on time, pump stopped … -/
example : ((ecoFinal 1000 (Loop.start 1000 hdParams).1 (segsEvs [hdSeg1, hdSeg2] ++ hdPost)).days.map fun r => (r.on, r.full, r.plain))
      = [(87002000, true, false), (0, false, true)]
    ∧ (ecoFinal 1000 (Loop.start 1000 hdParams).1 (segsEvs [hdSeg1] ++ hdSeg2.pre)).days.length = 2
    ∧ (ecoFinal 1000 (Loop.start 1000 hdParams).1 (segsEvs [hdSeg1, hdSeg2] ++ hdPost)).gPlain = false
    ∧ (ecoFinal 1000 (Loop.start 1000 hdParams).1 (segsEvs [hdSeg1, hdSeg2] ++ hdPost)).onToday = 87002010
    ∧ (ecoFinal 1000 (Loop.start 1000 hdParams).1 (segsEvs [hdSeg1, hdSeg2] ++ hdPost)).pumpOn = false := by
  have e1 : (Loop.start 1000 hdParams).1 = hdStart := rfl
  have e2 : segsEvs [hdSeg1] ++ hdSeg2.pre = hdSeg1.evs ++ hdSeg2.pre := by simp [segsEvs]
  rw [e1, hd_final, e2, hd_pre2]
  decide

/-- … and the theorem applied to it: every whole day of that run is within the bounds -/
example : ∀ r ∈ (ecoFinal 1000 (Loop.start 1000 hdParams).1 (segsEvs [hdSeg1, hdSeg2] ++ hdPost)).days, r.full = true →
    min (hdParams.dailyS * US) DAY - slackLoHeat hdParams.period 1000 ≤ r.on :=
  fun r hr hf => ((C10_quota_heating_days_partial 1000 hdParams [hdSeg1, hdSeg2] hdPost (by decide) (by decide) (by decide)
    (by decide) (by decide) (by decide) (by decide) hd_segsOK (by decide)).2.1 r hr hf).1

/-! ### (h) several interludes within one day (Proofs/EcoDayHeat3.lean)

`SegsOK2` is `SegsOK` without the condition that no interlude has taken place yet that day.  An interlude leaves pump-on time
unaccounted (`C10_heating_interlude_accounting`: up to `heatLoss = 70 s + 3 eps`, plus the poll dropped by `heat` and the
compute delay afterwards), and the plan made afterwards only looks at the ACCOUNTED duration: with several interludes per
day the unaccounted time adds up, and the pump-on time of the day exceeds the quota by it.  The bounds of a day with several
interludes are therefore stated with `U = c.onToday - c.eco.filtration.duration`, the pump-on time not accounted when the
day's LAST interlude ends in the `eco_compute` state `c` (one interlude: `U ≤ 87 s + …`, which is where `slackHiHeat` comes
from); the monitor form `max (min daily 24h) c.onToday + 180 s` does not hold for three or more interludes per day. -/

/-- C10, EVERY whole day of a run with any number of complete interludes per day, each over before the reset (partial: see
below).  Same hypotheses as `C10_quota_heating_days_partial` with `SegsOK2`.  Every whole day `r` of the run:
 * no interlude: `min daily 24h - slackLo ≤ r.on ≤ min daily 24h + slackHi` (also after days with several interludes);
 * otherwise `r` is the day whose LAST interlude is that of a segment `g` (its record lies right above the days finished when
   the `heat` of `g` arrived); with `c` the `eco_compute` state in which that interlude ended, `NR` the reset instant and
   `U = c.onToday - c accounted`:
     quota not exceeded by more than a poll at `c`:
        `min daily (c accounted + NR - c.now) - slackPlan + U ≤ r.on ≤ daily + U + 15 s + (6 period + 10) eps`
        and `r.on ≤ c.onToday + (NR - c.now) + 15 s + 2 eps`;
     quota used up at `c`:  `c.onToday ≤ r.on ≤ c.onToday + 5 s + eps`;
   and if that interlude was also the first of its day (`gPlain` when its `heat` arrived) the monitor bounds of
   `C10_quota_heating_days_partial` hold.
Still missing: a bound of `U` in terms of the number `k` of interludes of the day (each adds at most about
`heatLoss + 10 s + 5 s + lateness`, proved only for `k = 1`), hence closed lower / upper slacks `(k + 1) * slackPlan`,
`k * 87 s + …` for a day with `k` interludes; an interlude that spans the reset. -/
theorem C10_quota_heating_days_multi_partial (eps : Int) (p : Params) (gs : List Seg) (post : List Ev) (he : 0 ≤ eps)
    (he2 : eps ≤ 600000) (hd : 1 ≤ p.dailyS) (hp1 : 1 ≤ p.period) (hp2 : p.period ≤ 10) (hel : 0 ≤ p.elapsedS)
    (hs : p.start < nextResetAt p.start p.resetHour)
    (hok : SegsOK2 eps (Loop.start eps p).1 gs) (hpost : ∀ e ∈ post, TickOK eps e) :
    (∀ r ∈ (ecoFinal eps (Loop.start eps p).1 (segsEvs gs ++ post)).days.dropLast, r.full = true)
    ∧ (∀ r ∈ (ecoFinal eps (Loop.start eps p).1 (segsEvs gs ++ post)).days, r.full = true →
        (r.plain = true →
            min (p.dailyS * US) DAY - slackLo p.period eps ≤ r.on ∧ r.on ≤ min (p.dailyS * US) DAY + slackHi p.period eps)
        ∧ (r.plain = false → ∃ gs1 g gs2, gs = gs1 ++ g :: gs2
            ∧ (r :: (ecoFinal eps (Loop.start eps p).1 (segsEvs gs1 ++ g.pre)).days)
                <:+ (ecoFinal eps (Loop.start eps p).1 (segsEvs gs ++ post)).days
            ∧ ((ecoFinal eps (Loop.start eps p).1 (segsEvs gs1 ++ g.evs)).eco.filtration.duration
                  ≤ p.dailyS * US + EcoConfig.pollDelayUs + eps →
                min (p.dailyS * US) ((ecoFinal eps (Loop.start eps p).1 (segsEvs gs1 ++ g.evs)).eco.filtration.duration
                      + ((ecoFinal eps (Loop.start eps p).1 (segsEvs gs1 ++ g.pre)).eco.nextReset
                          - (ecoFinal eps (Loop.start eps p).1 (segsEvs gs1 ++ g.evs)).now))
                    - slackPlan p.period eps
                    + ((ecoFinal eps (Loop.start eps p).1 (segsEvs gs1 ++ g.evs)).onToday
                        - (ecoFinal eps (Loop.start eps p).1 (segsEvs gs1 ++ g.evs)).eco.filtration.duration) ≤ r.on
                ∧ r.on ≤ p.dailyS * US
                    + ((ecoFinal eps (Loop.start eps p).1 (segsEvs gs1 ++ g.evs)).onToday
                        - (ecoFinal eps (Loop.start eps p).1 (segsEvs gs1 ++ g.evs)).eco.filtration.duration)
                    + (EcoConfig.pollDelayUs + EcoConfig.computeDelayUs + 6 * (p.period * eps) + 10 * eps)
                ∧ r.on ≤ (ecoFinal eps (Loop.start eps p).1 (segsEvs gs1 ++ g.evs)).onToday
                    + ((ecoFinal eps (Loop.start eps p).1 (segsEvs gs1 ++ g.pre)).eco.nextReset
                        - (ecoFinal eps (Loop.start eps p).1 (segsEvs gs1 ++ g.evs)).now)
                    + EcoConfig.computeDelayUs + EcoConfig.pollDelayUs + 2 * eps)
            ∧ (p.dailyS * US ≤ (ecoFinal eps (Loop.start eps p).1 (segsEvs gs1 ++ g.evs)).eco.filtration.duration →
                (ecoFinal eps (Loop.start eps p).1 (segsEvs gs1 ++ g.evs)).onToday ≤ r.on
                ∧ r.on ≤ (ecoFinal eps (Loop.start eps p).1 (segsEvs gs1 ++ g.evs)).onToday + EcoConfig.computeDelayUs + eps)
            ∧ ((ecoFinal eps (Loop.start eps p).1 (segsEvs gs1 ++ g.pre)).gPlain = true →
                min (p.dailyS * US) DAY - slackLoHeat p.period eps ≤ r.on
                ∧ r.on ≤ max (min (p.dailyS * US) DAY) (ecoFinal eps (Loop.start eps p).1 (segsEvs gs1 ++ g.evs)).onToday
                    + slackHiHeat p.period eps)))
    ∧ slackHi p.period eps ≤ slackLo p.period eps ∧ slackLo p.period eps < 180 * US
    ∧ slackPlan p.period eps < 180 * US ∧ slackHiHeat p.period eps < 180 * US := by
  obtain ⟨hseq, hrec⟩ := heat_days_start2 eps p gs post he he2 hd hp1 hp2 hel hs hok hpost
  have hsl := slack_le_180 p.period eps he he2 hp1 hp2
  obtain ⟨_, _, _, c4, _, c6, _, _⟩ := slack_heat_values p.period eps he he2 hp1 hp2
  refine ⟨hseq, ?_, hsl.1, hsl.2.2.1, c4, c6⟩
  intro r hr hfull
  rcases hrec r hr with ⟨hpl, hb⟩ | ⟨gs1, g, gs2, h1, h2, hpl, hb⟩
  · refine ⟨fun _ => hb hfull, fun hn => ?_⟩
    rw [hpl] at hn; cases hn
  · obtain ⟨⟨b1, b2⟩, b3⟩ := hb hfull
    refine ⟨fun hp => ?_, fun _ => ⟨gs1, g, gs2, h1, h2, b1, b2, fun hg => ?_⟩⟩
    · rw [hpl] at hp; cases hp
    · obtain ⟨_, b4⟩ := b3 hg
      obtain ⟨b5, b6, _⟩ := b4 hfull
      exact ⟨b5, b6⟩

/-- the hypotheses hold on a run with TWO interludes in one day (`miParams`, `miSeg1`, `miSeg2` in Proofs/EcoDayHeat4.lean:
quota 7 h; the second `heat` arrives 3 s after the first poll of the eco_waiting that follows the first interlude); it is not
a run with at most one interlude per day; when the second interlude ends 173.0042 s of pump-on time stand against 40.002 s
accounted (`U` = 133 s; a third interlude brings it above 180 s) -/
example : (0:Int) ≤ 1000 ∧ (1000:Int) ≤ 600000 ∧ 1 ≤ miParams.dailyS ∧ 1 ≤ miParams.period ∧ miParams.period ≤ 10
    ∧ 0 ≤ miParams.elapsedS ∧ miParams.start < nextResetAt miParams.start miParams.resetHour
    ∧ SegsOK2 1000 (Loop.start 1000 miParams).1 [miSeg1, miSeg2] ∧ (∀ e ∈ hdPost, TickOK 1000 e)
    ∧ ¬ SegsOK 1000 (Loop.start 1000 miParams).1 [miSeg1, miSeg2]
    ∧ (ecoFinal 1000 (Loop.start 1000 miParams).1 (segsEvs [miSeg1] ++ miSeg2.pre)).gPlain = false
    ∧ (ecoFinal 1000 (Loop.start 1000 miParams).1 (segsEvs [miSeg1] ++ miSeg2.pre)).full = true
    ∧ (ecoFinal 1000 (Loop.start 1000 miParams).1 (segsEvs [miSeg1] ++ miSeg2.evs)).onToday = 173004200
    ∧ (ecoFinal 1000 (Loop.start 1000 miParams).1 (segsEvs [miSeg1] ++ miSeg2.evs)).eco.filtration.duration = 40002000 := by
  decide

set_option maxRecDepth 8192 in
/-- The monitor form of the upper bound is FALSE for three interludes in one day (model witness; the lower bound and the
bounds of `C10_quota_heating_days_multi_partial` hold on it).  Quota 600 s, one period, every handler on time; the pool enters
eco at 23:59:50, the reset poll at 00:00:05 starts a whole day; three heating interludes of 20 s (+ the 60 s delay each) take
place in the first 4.5 minutes: when the third one ends the pump has run 261 s, of which 60 s are accounted.  The plan made
then schedules the remaining 540 s at the end of the day and carries them out: the pump-on time of the day is 796 s, more
than `max quota (pump-on time at the end of the last interlude) + 180 s = 780 s` — each interlude leaves about 67 s of
pump-on time unaccounted (the 60 s delay, the poll dropped at `heating_delay`, the compute delay), and the plan only looks at
the accounted duration.  (`ceSegs`, `cePost` in Proofs/EcoDayHeat4.lean; the 8559 polls of the pause are executed
symbolically by `wait_polls`, the rest is decided.) -/
theorem C10_quota_monitor_upper_three_interludes_counterexample :
    ∃ (p : Params) (gs : List Seg) (post : List Ev),
      p.dailyS = 600 ∧ p.period = 1 ∧ gs.length = 3
      ∧ SegsOK2 0 (Loop.start 0 p).1 gs ∧ (∀ e ∈ post, TickOK 0 e)
      ∧ (ecoFinal 0 (Loop.start 0 p).1 (segsEvs gs)).days.length = 1
      ∧ (ecoFinal 0 (Loop.start 0 p).1 (segsEvs gs)).full = true
      ∧ (ecoFinal 0 (Loop.start 0 p).1 (segsEvs gs)).onToday = 261 * US
      ∧ (ecoFinal 0 (Loop.start 0 p).1 (segsEvs gs)).eco.filtration.duration = 60 * US
      ∧ ((ecoFinal 0 (Loop.start 0 p).1 (segsEvs gs ++ post)).days.map fun r => (r.on, r.full, r.plain))
          = [(796 * US, true, false), (10 * US, false, true)]
      ∧ 796 * US > max (min (p.dailyS * US) DAY) (ecoFinal 0 (Loop.start 0 p).1 (segsEvs gs)).onToday + 180 * US := by
  refine ⟨ceParams, ceSegs, cePost, rfl, rfl, rfl, by decide, ce_post_ok, by decide, by decide, by decide, by decide, ?_, by decide⟩
  have e1 : (Loop.start 0 ceParams).1 = ceStart := rfl
  rw [e1, ce_final]
  decide

example : ceParams.dailyS = 600 ∧ (1 : Int) ≤ ceParams.period ∧ ceParams.period ≤ 10 ∧ 0 ≤ ceParams.elapsedS
    ∧ ceParams.start < nextResetAt ceParams.start ceParams.resetHour ∧ TickOK 0 (.tick 0 0 0) ∧ ceSegs.length = 3 := by decide

/-! ### (i) an interlude that spans the reset — not covered; why the day records cannot be used as they are

`poll_heating_running` sees the reset like every other poll: the day is finished and a whole day starts with the pump running
for the heating.  `roll` marks the new day `plain` (the ghost `gPlain` is only cleared by `heat`), so the record of a day that
STARTS during an interlude claims "no interlude" although heating time counts in it: for runs with such an interlude the
classification of the days by `DayRec.plain` used in sections (d), (g), (h) is not sound.  The theorems of (g), (h) exclude these
runs (`SegOK`, `SegOK2`: the interlude is over before the reset); covering them needs a ghost that survives the reset. -/

/-- Model witness: quota 1 s, every handler on time; eco is entered at 23:58:00, `heat` arrives at 23:58:06 and the heating
lasts beyond midnight.  The poll of 00:00:06 sees the reset; 17 polls later the day that started there is a whole day, still
flagged `plain`, the pump has run 170 s (160 s accounted: the first poll interval after a reset is not accounted) — far above
the upper bound `min daily 24h + slackHi = 16 s` of a whole day without interlude. -/
theorem C10_interlude_spanning_reset_plain_flag_counterexample :
    ∃ (p : Params) (pre polls : List Ev) (dt : Int),
      p.dailyS = 1 ∧ p.period = 8 ∧ (∀ e ∈ pre, TickOK 0 e) ∧ (∀ e ∈ polls, TickOK 0 e)
      ∧ (ecoFinal 0 (Loop.start 0 p).1 pre).phase = .waiting
      ∧ (ecoFinal 0 (Loop.start 0 p).1 pre).now + dt < (ecoFinal 0 (Loop.start 0 p).1 pre).eco.nextReset
      ∧ (ecoFinal 0 (Loop.start 0 p).1 (pre ++ .heat dt :: polls)).phase = .heating
      ∧ ((ecoFinal 0 (Loop.start 0 p).1 (pre ++ .heat dt :: polls)).days.map fun r => (r.on, r.full, r.plain))
          = [(120 * US, false, false)]
      ∧ (ecoFinal 0 (Loop.start 0 p).1 (pre ++ .heat dt :: polls)).full = true
      ∧ (ecoFinal 0 (Loop.start 0 p).1 (pre ++ .heat dt :: polls)).gPlain = true
      ∧ (ecoFinal 0 (Loop.start 0 p).1 (pre ++ .heat dt :: polls)).onToday = 170 * US
      ∧ (ecoFinal 0 (Loop.start 0 p).1 (pre ++ .heat dt :: polls)).eco.filtration.duration = 160 * US
      ∧ (ecoFinal 0 (Loop.start 0 p).1 (pre ++ .heat dt :: polls)).onToday > min (p.dailyS * US) DAY + slackHi p.period 0 := by
  refine ⟨⟨1, 8, 0, 1, 0, 86280000000, 0⟩, [.tick 0 0 0, .tick 0 0 0], List.replicate 30 (.tick 0 0 0), 1000000, rfl, rfl,
    by decide, by decide, by decide, by decide, by decide, by decide, by decide, by decide, by decide, by decide, by decide⟩

example : (⟨1, 8, 0, 1, 0, 86280000000, 0⟩ : Params).start < nextResetAt 86280000000 0 ∧ slackHi 8 0 = 15 * US
    ∧ TickOK 0 (.tick 0 0 0) := by decide

end Poupool.Eco
