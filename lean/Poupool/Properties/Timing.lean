import Poupool.Proofs.Timing.FiltConst
import Poupool.Proofs.Timing.FiltSetting
import Poupool.Proofs.Timing.FiltMin
import Poupool.Proofs.Timing.FiltPolls
import Poupool.Proofs.Timing.Others
/-!
# Timed theorems (C05–C08, C13, C17): time-limited phases end on time, minimum phases last, polls keep their period

For every controller, `<actor> lag` is its timed model (`Model/Timed.lean`) over the regenerated timer-view descriptor and
the regenerated duration table `<actor>DurAt`; `lag` (half seconds) is the scheduling assumption the property statements
make ("+ 2 s"): the delayed call carrying the current token is delivered no later than `lag` after it is due, and nothing
else is handled later than that.  All statements hold for EVERY timed run: any messages at any instants, any order of a
message and a timer expiry, bursts, any settings.  Time unit: half seconds.

* `*_end_on_time`: entered at `ts0.now` from outside, and for as long as the phase goes on (`Stay`: any events that keep
  the controller in the phase, except the listed restart messages), the clock is at most entry + duration + lag.  For a
  duration setting the bound is the value the entering handler read (`e.settings`).
* `*_last`: when the timeout ends the phase – after any events inside it (`Within`) – at least the duration has elapsed
  since the entry, and only the timeout or a listed escape message ends it.
* `*_polls`: whenever the poll carries the current token in its phase, it was armed with at most the period, so it is
  delivered no later than `armedAt + period + lag` (that it IS armed, or a self-message ending the phase is pending, is
  `C08.timerOK`).
-/
namespace Poupool.Timing
open Poupool Poupool.Gen Poupool.Timed

/-! ## Filtration -/
section
open Filtration

/-- **C06/C08/C17**: heating delays, wintering stir and the eco computation end on time -/
theorem filtration_const_end_on_time (lag : Nat) : ∀ p ∈ filtrationConst, ∀ {ts ts0 ts1 : TSt} {e : TEv},
    TReach (filtration lag) ts → inP p.1 ts.s = false → TStep (filtration lag) ts e ts0 → inP p.1 ts0.s = true →
    Stay (filtration lag) p.1 ts0 ts1 → ts1.now ≤ ts0.now + p.2 + lag := by
  intro p hp ts ts0 ts1 e hr hout hstep hin hstay
  exact timed_const (filtration_cert lag) (List.all_eq_true.mp (filtration_const_checks lag) p hp) hr hout hstep hin hstay

/-- **C07/C08**: boost, backwash and rinse end on time: the bound is the value of the duration setting read at the entry -/
theorem filtration_setting_end_on_time (lag : Nat) : ∀ p ∈ filtrationSetting, ∀ {ts ts0 ts1 : TSt} {e : TEv},
    TReach (filtration lag) ts → inP p.1 ts.s = false → TStep (filtration lag) ts e ts0 → inP p.1 ts0.s = true →
    Stay (filtration lag) p.1 ts0 ts1 → ts1.now ≤ ts0.now + e.settings p.2 + lag := by
  intro p hp ts ts0 ts1 e hr hout hstep hin hstay
  exact timed_setting (filtration_cert lag) (List.all_eq_true.mp (filtration_setting_checks lag) p hp) hr hout hstep hin hstay

/-- **C06 (post-run flow), C17 (stir duration)**: these phases last at least their configured delay when their timeout
    ends them … -/
theorem filtration_const_last (lag : Nat) : ∀ p ∈ filtrationConst.take 4, ∀ {ts ts0 ts1 ts2 : TSt} {e : TEv} {σf : String → Nat},
    TReach (filtration lag) ts → inP p.1 ts.s = false → TStep (filtration lag) ts e ts0 → inP p.1 ts0.s = true →
    Within (filtration lag) p.1 ts0 ts1 → TStep (filtration lag) ts1 (.fire σf) ts2 → ts0.now + p.2 ≤ ts2.now := by
  intro p hp ts ts0 ts1 ts2 e σf hr hout hstep hin hw hfire
  exact min_const (filtration_cert lag) (List.all_eq_true.mp (filtration_min_checks lag) p hp) hr hout hstep hin hw hfire

/-- … and nothing but the timeout or a listed escape message (halt; for the delays before opening also Heating's
    `heating_delay`, which leads to the longer delay before eco, see `heating_delay_goes_to_delay_none`) ends them -/
theorem filtration_const_exits (lag : Nat) : ∀ p ∈ filtrationConst.take 4, ∀ {ts ts' : TSt} {e : TEv},
    TReach (filtration lag) ts → inP p.1 ts.s = true → TStep (filtration lag) ts e ts' → inP p.1 ts'.s = false →
    (∃ σ, e = .fire σ) ∨ ∃ m ∈ p.1.escape, ∃ σ, e = .plain m σ := by
  intro p hp ts ts' e hr hin hstep hout
  exact min_exits (filtration_cert lag) (List.all_eq_true.mp (filtration_min_checks lag) p hp) hr hin hstep hout

theorem heating_delay_goes_to_delay_none :
    (allStates filtrationTimerReach fun s => !([leaf_heating_delay_standby, leaf_heating_delay_overflow].contains s.leaf) ||
      (step filtrationTimerDesc s (.plain m_heating_delay)).all fun s' => s'.leaf == leaf_heating_delay_none) = true := by
  decide +kernel

/-- **C08**: every Filtration poll keeps its period -/
theorem filtration_polls (lag : Nat) : ∀ p ∈ filtrationPolls, ∀ {ts : TSt} {t : MsgId},
    TReach (filtration lag) ts → inP p.1 ts.s = true → t ∈ p.1.t → ts.s.armed = some t →
    ts.armedDur ≤ p.2 ∧ ts.now ≤ ts.armedAt + p.2 + lag := by
  intro p hp ts t hr hin ht harm
  exact poll_const (filtration_cert lag) (List.all_eq_true.mp (filtration_poll_checks lag) p hp) hr hin ht harm

end

/-! ## Heating, Disinfection, Swim, Tank -/

/-- **C06 (rest period), C08**: `recovering` ends on time, lasts at least the recover period when its timeout ends it, and is
    left only by that timeout or by halt -/
theorem heating_recovering (lag : Nat) : ∀ p ∈ heatingConst,
    (∀ {ts ts0 ts1 : TSt} {e : TEv}, TReach (heating lag) ts → inP p.1 ts.s = false → TStep (heating lag) ts e ts0 →
      inP p.1 ts0.s = true → Stay (heating lag) p.1 ts0 ts1 → ts1.now ≤ ts0.now + p.2 + lag) ∧
    (∀ {ts ts0 ts1 ts2 : TSt} {e : TEv} {σf : String → Nat}, TReach (heating lag) ts → inP p.1 ts.s = false →
      TStep (heating lag) ts e ts0 → inP p.1 ts0.s = true → Within (heating lag) p.1 ts0 ts1 →
      TStep (heating lag) ts1 (.fire σf) ts2 → ts0.now + p.2 ≤ ts2.now) ∧
    (∀ {ts ts' : TSt} {e : TEv}, TReach (heating lag) ts → inP p.1 ts.s = true → TStep (heating lag) ts e ts' →
      inP p.1 ts'.s = false → (∃ σ, e = .fire σ) ∨ ∃ m ∈ p.1.escape, ∃ σ, e = .plain m σ) := by
  intro p hp
  have h := List.all_eq_true.mp (Bool.and_eq_true _ _ ▸ heating_checks lag).1 p hp
  simp only [Bool.and_eq_true] at h
  refine ⟨?_, ?_, ?_⟩
  · intro ts ts0 ts1 e hr hout hstep hin hstay
    exact timed_const (heating_cert lag) (by simp only [Bool.and_eq_true]; exact h.1) hr hout hstep hin hstay
  · intro ts ts0 ts1 ts2 e σf hr hout hstep hin hw hfire
    exact min_const (heating_cert lag) h.2 hr hout hstep hin hw hfire
  · intro ts ts' e hr hin hstep hout
    exact min_exits (heating_cert lag) h.2 hr hin hstep hout

theorem heating_polls (lag : Nat) : ∀ p ∈ heatingPolls, ∀ {ts : TSt} {t : MsgId},
    TReach (heating lag) ts → inP p.1 ts.s = true → t ∈ p.1.t → ts.s.armed = some t →
    ts.armedDur ≤ p.2 ∧ ts.now ≤ ts.armedAt + p.2 + lag := by
  intro p hp ts t hr hin ht harm
  exact poll_const (heating_cert lag) (List.all_eq_true.mp (Bool.and_eq_true _ _ ▸ heating_checks lag).2 p hp) hr hin ht harm

/-- **C08**: the disinfection start delay and the treatment pause end on time -/
theorem disinfection_end_on_time (lag : Nat) : ∀ p ∈ disinfectionConst, ∀ {ts ts0 ts1 : TSt} {e : TEv},
    TReach (disinfection lag) ts → inP p.1 ts.s = false → TStep (disinfection lag) ts e ts0 → inP p.1 ts0.s = true →
    Stay (disinfection lag) p.1 ts0 ts1 → ts1.now ≤ ts0.now + p.2 + lag := by
  intro p hp ts ts0 ts1 e hr hout hstep hin hstay
  exact timed_const (disinfection_cert lag) (List.all_eq_true.mp (disinfection_checks lag) p hp) hr hout hstep hin hstay

/-- **C17/C08**: the counter-current wintering stir ends on time and lasts its configured duration -/
theorem swim_wintering_stir (lag : Nat) : ∀ p ∈ swimConst,
    (∀ {ts ts0 ts1 : TSt} {e : TEv}, TReach (swim lag) ts → inP p.1 ts.s = false → TStep (swim lag) ts e ts0 →
      inP p.1 ts0.s = true → Stay (swim lag) p.1 ts0 ts1 → ts1.now ≤ ts0.now + p.2 + lag) ∧
    (∀ {ts ts0 ts1 ts2 : TSt} {e : TEv} {σf : String → Nat}, TReach (swim lag) ts → inP p.1 ts.s = false →
      TStep (swim lag) ts e ts0 → inP p.1 ts0.s = true → Within (swim lag) p.1 ts0 ts1 →
      TStep (swim lag) ts1 (.fire σf) ts2 → ts0.now + p.2 ≤ ts2.now) := by
  intro p hp
  have h := List.all_eq_true.mp (Bool.and_eq_true _ _ ▸ swim_checks lag).1 p hp
  simp only [Bool.and_eq_true] at h
  refine ⟨?_, ?_⟩
  · intro ts ts0 ts1 e hr hout hstep hin hstay
    exact timed_const (swim_cert lag) (by simp only [Bool.and_eq_true]; exact h.1) hr hout hstep hin hstay
  · intro ts ts0 ts1 ts2 e σf hr hout hstep hin hw hfire
    exact min_const (swim_cert lag) h.2 hr hout hstep hin hw hfire

theorem swim_polls (lag : Nat) : ∀ p ∈ swimPolls, ∀ {ts : TSt} {t : MsgId},
    TReach (swim lag) ts → inP p.1 ts.s = true → t ∈ p.1.t → ts.s.armed = some t →
    ts.armedDur ≤ p.2 ∧ ts.now ≤ ts.armedAt + p.2 + lag := by
  intro p hp ts t hr hin ht harm
  exact poll_const (swim_cert lag) (List.all_eq_true.mp (Bool.and_eq_true _ _ ▸ swim_checks lag).2 p hp) hr hin ht harm

/-- **C04/C05/C08**: the tank level is polled every 5 s (fill, low) resp. 10 s (normal, high) -/
theorem tank_polls (lag : Nat) : ∀ p ∈ tankPolls, ∀ {ts : TSt} {t : MsgId},
    TReach (tank lag) ts → inP p.1 ts.s = true → t ∈ p.1.t → ts.s.armed = some t →
    ts.armedDur ≤ p.2 ∧ ts.now ≤ ts.armedAt + p.2 + lag := by
  intro p hp ts t hr hin ht harm
  exact poll_const (tank_cert lag) (List.all_eq_true.mp (tank_checks lag) p hp) hr hin ht harm


/-! ## Polling phases with a time limit (C05 (iii), C17 periods)

`StayPoll L`: the controller stays in the phase and every poll delivered during the stay fired no later than `L` after the
entry.  That is what the decision theorems give: a tank poll that finds more than 2 h (fill) / 6 h (low) in the phase
requests the emergency stop instead of re-arming (`C05.limits`, compared with the real methods on boundary instants); a
wintering poll that finds the period elapsed while it is cold or the temperature unknown requests the stir
(`C17` policy theorems on `Model/Winter.lean`).  Conclusion: while the poll is the armed call the stay has lasted at
most L + one poll period + lag – the mains valve is open for at most the limit + 5 s + lag; the pause between two stirs is
at most the period + 2 min + lag while it is cold. -/
theorem tank_limit_phases (lag : Nat) : ∀ p ∈ tankPolls.take 2, ∀ (L : Nat) {ts tsE ts1 : TSt} {e : TEv} {t : MsgId},
    TReach (tank lag) ts → inP p.1 ts.s = false → TStep (tank lag) ts e tsE → inP p.1 tsE.s = true →
    StayPoll (tank lag) p.1 L tsE ts1 → t ∈ p.1.t → ts1.s.armed = some t → ts1.now ≤ tsE.now + L + p.2 + lag := by
  intro p hp L ts tsE ts1 e t hr hout hstep hin hstay ht harm
  have hpoll := List.all_eq_true.mp (tank_checks lag) p (List.mem_of_mem_take hp)
  simp only [pollOK, Bool.and_eq_true] at hpoll
  have hnb := List.all_eq_true.mp (limit_phase_checks lag).1 p hp
  have hnr : p.1.restart = [] := by
    simp only [tankPolls, List.take] at hp
    rcases List.mem_cons.mp hp with rfl | hp
    · rfl
    · rcases List.mem_cons.mp hp with rfl | hp
      · rfl
      · simp at hp
  exact staypoll_time (tank_cert lag) hnb hpoll.1.1 hpoll.1.2 hnr hr hout hstep hin hstay ht harm

theorem filtration_wintering_pause (lag : Nat) (L : Nat) {ts tsE ts1 : TSt} {e : TEv} {t : MsgId}
    (hr : TReach (filtration lag) ts) (hout : inP filtrationPolls[7].1 ts.s = false) (hstep : TStep (filtration lag) ts e tsE)
    (hin : inP filtrationPolls[7].1 tsE.s = true) (hstay : StayPoll (filtration lag) filtrationPolls[7].1 L tsE ts1)
    (ht : t ∈ filtrationPolls[7].1.t) (harm : ts1.s.armed = some t) : ts1.now ≤ tsE.now + L + 240 + lag := by
  have hpoll := List.all_eq_true.mp (filtration_poll_checks lag) filtrationPolls[7] (List.getElem_mem _)
  simp only [pollOK, Bool.and_eq_true] at hpoll
  exact staypoll_time (filtration_cert lag) (filtration_wintering_waiting_norearm lag) hpoll.1.1 hpoll.1.2 rfl hr hout hstep hin hstay ht harm

theorem swim_wintering_pause (lag : Nat) (L : Nat) {ts tsE ts1 : TSt} {e : TEv} {t : MsgId}
    (hr : TReach (swim lag) ts) (hout : inP swimPolls[2].1 ts.s = false) (hstep : TStep (swim lag) ts e tsE)
    (hin : inP swimPolls[2].1 tsE.s = true) (hstay : StayPoll (swim lag) swimPolls[2].1 L tsE ts1)
    (ht : t ∈ swimPolls[2].1.t) (harm : ts1.s.armed = some t) : ts1.now ≤ tsE.now + L + 240 + lag := by
  have hpoll := List.all_eq_true.mp (Bool.and_eq_true _ _ ▸ swim_checks lag).2 swimPolls[2] (List.getElem_mem _)
  simp only [pollOK, Bool.and_eq_true] at hpoll
  exact staypoll_time (swim_cert lag) (limit_phase_checks lag).2.1 hpoll.1.1 hpoll.1.2 rfl hr hout hstep hin hstay ht harm

/-- C13 "in timed mode it stops by itself": the `timed` phase of Swim, entered at `tsE.now`.  If the polls delivered during the
    stay that kept the phase fired no later than `L` after the entry — which the decision theorems give with `L` = lateness of
    the first poll + the configured run time: `C13.timed_stops` (a poll that finds the accumulated time ≥ the delay tells `halt`
    instead of re-arming), tied to the code by `DecisionsTie.swim_timed_poll` — then, for as long as the poll is the armed call,
    the clock is at most entry + L + one poll (1 s) + lag: nothing but the poll itself touches the delayed call in that phase
    (kernel-evaluated `noRearm` over the timer-view certificate), whatever commands and settings arrive meanwhile. -/
theorem swim_timed_run (lag : Nat) (L : Nat) {ts tsE ts1 : TSt} {e : TEv} {t : MsgId}
    (hr : TReach (swim lag) ts) (hout : inP swimPolls[0].1 ts.s = false) (hstep : TStep (swim lag) ts e tsE)
    (hin : inP swimPolls[0].1 tsE.s = true) (hstay : StayPoll (swim lag) swimPolls[0].1 L tsE ts1)
    (ht : t ∈ swimPolls[0].1.t) (harm : ts1.s.armed = some t) : ts1.now ≤ tsE.now + L + 2 + lag := by
  have hpoll := List.all_eq_true.mp (Bool.and_eq_true _ _ ▸ swim_checks lag).2 swimPolls[0] (List.getElem_mem _)
  simp only [pollOK, Bool.and_eq_true] at hpoll
  exact staypoll_time (swim_cert lag) (limit_phase_checks lag).2.2 hpoll.1.1 hpoll.1.2 rfl hr hout hstep hin hstay ht harm

example : swimPolls[0].1.P = [Swim.leaf_timed] ∧ swimPolls[0].2 = 2 := by decide

/-- the phases meant above are the tank's `fill` and `low`, and the two `wintering_waiting` phases, with 5 s resp. 2 min polls -/
example : (tankPolls.take 2).map (fun p => (p.1.P, p.2)) = [([Tank.leaf_fill], 10), ([Tank.leaf_low], 10)] ∧
    filtrationPolls[7].1.P = [Filtration.leaf_wintering_waiting] ∧ filtrationPolls[7].2 = 240 ∧
    swimPolls[2].1.P = [Swim.leaf_wintering_waiting] ∧ swimPolls[2].2 = 240 := by decide

/-! ## Non-vacuity: a concrete timed run of Heating enters `recovering` from outside and stays there

halt --wait@0--> waiting --heat@1--> heating --wait@2--> recovering (recover_done armed at 2 with 600) --enable@500-->
recovering: the hypotheses of `heating_recovering` are met, its bound 500 ≤ 2 + 600 + lag is not trivial. -/
section
def σ0 : String → Nat := fun _ => 0
def h0 : TSt := tinit (heating 2)
def h1 : TSt := { s := { leaf := Heating.leaf_waiting, vars := [], armed := some Heating.m_do_repeat_waiting, pend := [], bad := false }, now := 0, armedAt := 0, armedDur := 0, touched := true }
def h2 : TSt := { s := { leaf := Heating.leaf_heating, vars := [], armed := some Heating.m_do_repeat_heating, pend := [], bad := false }, now := 1, armedAt := 1, armedDur := 0, touched := true }
def h3 : TSt := { s := { leaf := Heating.leaf_recovering, vars := [], armed := some Heating.m_recover_done, pend := [], bad := false }, now := 2, armedAt := 2, armedDur := 600, touched := true }
def h4 : TSt := { h3 with now := 500, touched := false }

example : ∃ ts ts0 ts1 e, TReach (heating 2) ts ∧ inP heatingConst[0].1 ts.s = false ∧ TStep (heating 2) ts e ts0 ∧
    inP heatingConst[0].1 ts0.s = true ∧ Stay (heating 2) heatingConst[0].1 ts0 ts1 ∧ ts1.now = 500 := by
  have s1 : TStep (heating 2) h0 (.plain Heating.m_wait σ0) h1 :=
    TStep.plain Heating.m_wait 0 0 σ0 0 (by decide) (by decide) (by decide) (by decide +kernel) (by decide)
  have s2 : TStep (heating 2) h1 (.plain Heating.m_heat σ0) h2 :=
    TStep.plain Heating.m_heat 1 0 σ0 0 (by decide) (by decide) (by decide) (by decide +kernel) (by decide)
  have s3 : TStep (heating 2) h2 (.plain Heating.m_wait σ0) h3 :=
    TStep.plain Heating.m_wait 2 600 σ0 0 (by decide) (by decide) (by decide) (by decide +kernel) (by decide)
  have s4 : TStep (heating 2) h3 (.plain Heating.m_enable σ0) h4 :=
    TStep.plain Heating.m_enable 500 0 σ0 0 (by decide) (by decide) (by decide) (by decide +kernel) (by decide)
  exact ⟨h2, h3, h4, _, TReach.step _ (TReach.step _ TReach.init s1) s2, by decide, s3, by decide,
    Stay.step (Stay.refl _) s4 (by intro m σ h; simp [heatingConst]) (by decide), rfl⟩
end

end Poupool.Timing
