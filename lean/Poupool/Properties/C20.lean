/-
C20  Dosing duty has the right sign and bounds and the PWM reproduces it.

Model: Poupool/Model/Pwm.lean (`compute`, `phDuty`, `orpDuty`, `dutyOn`, `tick`, `cancel`), constants (constrain bounds,
the negation applied by `ph_pterm`, scales) from the regenerated Poupool/Generated/PwmConfig.lean.
Numbers are exact rationals (`Rat`): binary64 rounding is outside the model (see the correspondence check).
-/
import Poupool.Proofs.PwmFraction
import Poupool.Generated.PwmConfig

namespace Poupool.C20
open Poupool.Pwm Poupool.Generated

/-! ## P-controller -/

theorem cfg_bounds : pwmCfg.pcLo = 0 ∧ pwmCfg.pcHi = 1 := by decide +kernel
theorem cfg_ph : pwmCfg.phPtermSign = -1 ∧ pwmCfg.phScale = 1 := by decide +kernel
theorem cfg_orp : pwmCfg.orpPtermSign = 1 ∧ 0 < pwmCfg.orpScale := by decide +kernel

/-- The commanded duty is within [0,1] for every setpoint, reading, gain and scale. -/
theorem c20_compute_bounds (setpoint current pterm scale : Rat) :
    0 ≤ compute pwmCfg setpoint current pterm scale ∧ compute pwmCfg setpoint current pterm scale ≤ 1 := by
  have h := constrain_bounds ((pterm * scale) * (setpoint - current)) pwmCfg.pcLo pwmCfg.pcHi
    (by rw [cfg_bounds.1, cfg_bounds.2]; decide +kernel)
  rw [cfg_bounds.1, cfg_bounds.2] at h
  exact h

example : compute pwmCfg 7 (15 / 2) (-1) 1 = 1 / 2 := by decide +kernel
example : compute pwmCfg 7 9 (-1) 1 = 1 := by decide +kernel

/-- The duties that reach the two PWMs are within [0,1], enabled or not. -/
theorem c20_duty_bounds (en : Bool) (u sp x : Rat) :
    (0 ≤ phDuty pwmCfg en u sp x ∧ phDuty pwmCfg en u sp x ≤ 1) ∧
    (0 ≤ orpDuty pwmCfg en u sp x ∧ orpDuty pwmCfg en u sp x ≤ 1) := by
  unfold phDuty orpDuty feedback
  have h1 := c20_compute_bounds sp x (pwmCfg.phPtermSign * u) pwmCfg.phScale
  have h2 := c20_compute_bounds sp x (pwmCfg.orpPtermSign * u) pwmCfg.orpScale
  cases en <;> simp only [Bool.false_eq_true, if_false, if_true] <;> grind

example : phDuty pwmCfg true 1 7 (29 / 4) = 1 / 4 ∧ orpDuty pwmCfg true 1 600 500 = 1 / 2 := by decide +kernel

/-- Regulation disabled ⇒ duty 0. -/
theorem c20_disabled_zero (u sp x : Rat) : phDuty pwmCfg false u sp x = 0 ∧ orpDuty pwmCfg false u sp x = 0 := by
  simp [phDuty, orpDuty, feedback]

example : phDuty pwmCfg false 10 6 14 = 0 := (c20_disabled_zero 10 6 14).1

/-- pH-minus dosing: with any accepted gain (user pterm ≥ 0, stored negated) the duty is 0 when pH ≤ setpoint. -/
theorem c20_ph_zero (en : Bool) (u sp ph : Rat) (hu : 0 ≤ u) (h : ph ≤ sp) : phDuty pwmCfg en u sp ph = 0 := by
  unfold phDuty feedback compute
  rw [cfg_ph.1, cfg_ph.2, cfg_bounds.1, cfg_bounds.2]
  have h0 : 0 ≤ u * (sp - ph) := Rat.mul_nonneg hu (by grind)
  have : (-1 * u * 1) * (sp - ph) ≤ 0 := by grind
  rw [constrain_low _ 0 1 (by decide +kernel) this]
  cases en <;> rfl

example : phDuty pwmCfg true 10 7 (13 / 2) = 0 := c20_ph_zero true 10 7 (13 / 2) (by decide +kernel) (by decide +kernel)

/-- pH duty never decreases as the error (pH − setpoint) grows. -/
theorem c20_ph_mono (en : Bool) (u sp₁ sp₂ ph₁ ph₂ : Rat) (hu : 0 ≤ u) (h : ph₁ - sp₁ ≤ ph₂ - sp₂) :
    phDuty pwmCfg en u sp₁ ph₁ ≤ phDuty pwmCfg en u sp₂ ph₂ := by
  unfold phDuty feedback compute
  rw [cfg_ph.1, cfg_ph.2]
  have h0 : u * (sp₂ - ph₂) ≤ u * (sp₁ - ph₁) := Rat.mul_le_mul_of_nonneg_left (by grind) hu
  have : (-1 * u * 1) * (sp₁ - ph₁) ≤ (-1 * u * 1) * (sp₂ - ph₂) := by grind
  have := constrain_mono _ _ pwmCfg.pcLo pwmCfg.pcHi this
  cases en <;> simp only [Bool.false_eq_true, if_false, if_true] <;> grind

example : phDuty pwmCfg true 1 7 (29 / 4) ≤ phDuty pwmCfg true 1 7 (15 / 2) :=
  c20_ph_mono true 1 7 7 (29 / 4) (15 / 2) (by decide +kernel) (by decide +kernel)

/-- Chlorine dosing: with any accepted gain (user pterm ≥ 0) the duty is 0 when ORP ≥ setpoint. -/
theorem c20_orp_zero (en : Bool) (u sp orp : Rat) (hu : 0 ≤ u) (h : sp ≤ orp) : orpDuty pwmCfg en u sp orp = 0 := by
  unfold orpDuty feedback compute
  rw [cfg_orp.1, cfg_bounds.1, cfg_bounds.2]
  have hs : 0 ≤ pwmCfg.orpScale := by have := cfg_orp.2; grind
  have h0 : 0 ≤ (u * pwmCfg.orpScale) * (orp - sp) := Rat.mul_nonneg (Rat.mul_nonneg hu hs) (by grind)
  have : (1 * u * pwmCfg.orpScale) * (sp - orp) ≤ 0 := by grind
  rw [constrain_low _ 0 1 (by decide +kernel) this]
  cases en <;> rfl

example : orpDuty pwmCfg true 10 600 650 = 0 := c20_orp_zero true 10 600 650 (by decide +kernel) (by decide +kernel)

/-- Chlorine duty never decreases as the error (setpoint − ORP) grows. -/
theorem c20_orp_mono (en : Bool) (u sp₁ sp₂ orp₁ orp₂ : Rat) (hu : 0 ≤ u) (h : sp₁ - orp₁ ≤ sp₂ - orp₂) :
    orpDuty pwmCfg en u sp₁ orp₁ ≤ orpDuty pwmCfg en u sp₂ orp₂ := by
  unfold orpDuty feedback compute
  rw [cfg_orp.1]
  have hs : 0 ≤ pwmCfg.orpScale := by have := cfg_orp.2; grind
  have h0 : (u * pwmCfg.orpScale) * (sp₁ - orp₁) ≤ (u * pwmCfg.orpScale) * (sp₂ - orp₂) :=
    Rat.mul_le_mul_of_nonneg_left h (Rat.mul_nonneg hu hs)
  have : (1 * u * pwmCfg.orpScale) * (sp₁ - orp₁) ≤ (1 * u * pwmCfg.orpScale) * (sp₂ - orp₂) := by grind
  have := constrain_mono _ _ pwmCfg.pcLo pwmCfg.pcHi this
  cases en <;> simp only [Bool.false_eq_true, if_false, if_true] <;> grind

example : orpDuty pwmCfg true 1 600 550 ≤ orpDuty pwmCfg true 1 600 500 :=
  c20_orp_mono true 1 600 600 550 500 (by decide +kernel) (by decide +kernel)

/-! ## minimum-run-time rounding -/

/-- The rounding of the property statement, exactly: duty 0 ↦ 0; a positive on-time shorter than the minimum run time is
lengthened to it; otherwise an on-time within the minimum run time of the period means continuously on; otherwise the
on-time is duty·period.  (0 ≤ duty, 0 < period, 0 ≤ min_runtime ≤ period.) -/
theorem c20_dutyOn_rounding (v P m : Rat) (hv : 0 ≤ v) (hP : 0 < P) (hm : m ≤ P) :
    (v = 0 → dutyOn v P m = 0) ∧
    (0 < v → v * P < m → dutyOn v P m = m) ∧
    (m ≤ v * P → P - m < v * P → dutyOn v P m = P) ∧
    (m ≤ v * P → v * P ≤ P - m → dutyOn v P m = v * P) := by
  refine ⟨?_, ?_, ?_, ?_⟩
  · intro h; rw [h]; exact dutyOn_zero P m hm
  · intro h0 h1
    have : 0 < v * P := Rat.mul_pos h0 hP
    unfold dutyOn; grind
  · intro h0 h1; unfold dutyOn; grind
  · intro h0 h1; unfold dutyOn; grind

example : dutyOn 0 120 3 = 0 ∧ dutyOn (1 / 100) 120 3 = 3 ∧ dutyOn (99 / 100) 120 3 = 120 ∧ dutyOn (1 / 2) 120 3 = 60 := by
  decide +kernel

/-- 0 ≤ dutyOn ≤ period, and a non-zero on-time is at least the minimum run time. -/
theorem c20_dutyOn_range (v P m : Rat) (hv0 : 0 ≤ v) (hv1 : v ≤ 1) (hm0 : 0 ≤ m) (hm : m ≤ P) :
    0 ≤ dutyOn v P m ∧ dutyOn v P m ≤ P ∧ (dutyOn v P m = 0 ∨ m ≤ dutyOn v P m) :=
  dutyOn_range v P m hv0 hv1 hm0 hm

example : (0 : Rat) ≤ 1 / 2 ∧ (1 / 2 : Rat) ≤ 1 ∧ (0 : Rat) ≤ 3 ∧ (3 : Rat) ≤ 120 := by decide +kernel

/-! ## PWM -/

/-- Duty 0 means never on: from a PWM whose pump is off, with `value = 0` and `min_runtime ≤ period`, no sequence of
ticks, waits and cancels (any spacing, any length) ever switches the pump on. -/
theorem c20_zero_never_on (g : G) (ops : List Op) (hv : g.s.value = 0) (hm : g.s.minRuntime ≤ g.s.period)
    (hoff : g.s.pumpOn = false ∧ g.s.state = false) (hc : Const ops) :
    (runG pwmCfg g ops).s.pumpOn = false :=
  (zinv_run pwmCfg ops g ⟨hv, hm, hoff.1, hoff.2⟩ hc).2.2.1

def zeroOps : List Op := [.tick] ++ (List.replicate 30 [Op.wait 1000000, Op.tick]).flatten

example : Const zeroOps ∧ (G.init pwmCfg 10 3 7200 0).s.value = 0 ∧
    (G.init pwmCfg 10 3 7200 0).s.minRuntime ≤ (G.init pwmCfg 10 3 7200 0).s.period := by decide +kernel
/-- … whereas a positive duty does switch it on in the same schedule (the theorem is not vacuous) -/
example : (runG pwmCfg (G.init pwmCfg 10 3 7200 0) ((Op.setValue (1 / 2) :: zeroOps).take 12)).s.pumpOn = true := by decide +kernel

/-- No on-pulse is shorter than the minimum run time unless cut by a halt (do_cancel) or by the security cap:
for EVERY op list (duty and period written at arbitrary instants, any tick spacing, any number of cancels/restarts;
only assumption: time does not run backwards), whenever a tick switches the pump off while the security timer it has
just updated has not elapsed, the pulse has lasted at least `min_runtime` AND at least `dutyOn` of the duty in force at
that tick.  (`short` is the ghost flag of Proofs/PwmDuty.lean that records a pulse violating either.) -/
theorem c20_pulse_min_runtime (period minRt : Rat) (S start : Int) (ops : List Op) (hm : Mono ops) :
    (runH pwmCfg (H.init pwmCfg period minRt S start) ops).short = false :=
  (pinv_run pwmCfg ops _ (pinv_init pwmCfg period minRt S start) hm).hshort

/-- The LOWER half per pulse of "the PWM reproduces the duty" (previous theorem: a pulse that ends by itself has lasted
≥ dutyOn' ≥ min_runtime), for arbitrary op lists (duty / period written at any instant, cancels, any tick spacing).  This
alias was the only proved part of the on-fraction clause before; the clause itself (upper halves, pauses, on-fraction over
whole periods at constant duty) is now proved below: `c20_phase_lengths`, `c20_cycles`, `c20_cycle_fraction`,
`c20_on_fraction`, `c20_zero_on`, `c20_full_on`.  The alias is kept because it needs none of their hypotheses. -/
theorem c20_on_fraction_partial (period minRt : Rat) (S start : Int) (ops : List Op) (hm : Mono ops) :
    (runH pwmCfg (H.init pwmCfg period minRt S start) ops).short = false :=
  c20_pulse_min_runtime period minRt S start ops hm

/-- non-vacuity: P = 10, min_runtime = 3, duty 1/2 written, pump switched on at the tick at 5 s, duty written to 0 one
second later: the pulse is NOT cut at the next tick (6 s) but runs until its age is 3 s (tick at 8 s). -/
def dropOps : List Op :=
  [.setValue (1 / 2), .tick] ++ (List.replicate 5 [Op.wait 1000000, Op.tick]).flatten ++
  [.setValue 0] ++ (List.replicate 4 [Op.wait 1000000, Op.tick]).flatten

example : Mono dropOps := by decide +kernel
example : (runH pwmCfg (H.init pwmCfg 10 3 7200 0) (dropOps.take 12)).g.s.pumpOn = true ∧
    (runH pwmCfg (H.init pwmCfg 10 3 7200 0) (dropOps.take 15)).g.s.pumpOn = true ∧
    (runH pwmCfg (H.init pwmCfg 10 3 7200 0) (dropOps.take 17)).g.s.pumpOn = true ∧
    (runH pwmCfg (H.init pwmCfg 10 3 7200 0) (dropOps.take 19)).g.s.pumpOn = false ∧
    (runH pwmCfg (H.init pwmCfg 10 3 7200 0) (dropOps.take 19)).onSince = 5000000 ∧
    (runH pwmCfg (H.init pwmCfg 10 3 7200 0) (dropOps.take 19)).g.clock = 8000000 := by decide +kernel

/-! ## on-fraction over whole periods at constant duty (Proofs/PwmFraction.lean)

Setting of the theorems below.  `s` is a PWM state at a CYCLE BOUNDARY at instant `t0` (`Boundary v P m s t0`: pump off,
accumulator 0, the do_run at `t0` just executed, duty `v`, period `P`, min_runtime `m`): by `c20_fresh_boundary` that is
the state right after the FIRST do_run following construction or do_cancel (which only records the instant – the first
phase of the PWM is an off-pause measured from that do_run), and by `c20_boundary_again` also the state after any do_run
that has just switched the pump off.  `ds` are the gaps (µs) between the further do_runs, each within [0, Δ]
(`Gaps Δ ds`; the property's quantifier is the special case 0.5 s ≤ gap ≤ Δ = 1.5 s); duty, period, min_runtime are not
written and do_cancel is not called during the run; `capHit = false`: no do_run of the run found the security timer
elapsed (C03 takes precedence over the duty; `c20_no_cap_of_budget` gives a sufficient condition on the start state).
`dutyOn v P m` is the rounded on-time of `c20_dutyOn_rounding`, `secs` converts µs to seconds.
Quantifier: every duty 0 ≤ v ≤ 1, every period P > 0 (⊇ 10..600 s), every 0 ≤ m ≤ P (⊇ 0..10 s). -/

/-- Fresh starts are cycle boundaries: after `PWM.__init__` + `value = v`, or after `do_cancel`, the first do_run (at any
instant `t0`) leaves the PWM in a `Boundary` state at `t0`. -/
theorem c20_fresh_boundary (v P m : Rat) (S start t0 : Int) (s : PwmState) (tc : Int) :
    Boundary v P m (tick pwmCfg t0 (setValue v (PwmState.init pwmCfg P m S start))) t0 ∧
    Boundary s.value s.period s.minRuntime (tick pwmCfg t0 (cancel tc s)) t0 :=
  ⟨boundary_of_fresh pwmCfg t0 (fresh_init pwmCfg v P m S start), boundary_of_fresh pwmCfg t0 (fresh_cancel tc s)⟩

example : Boundary (1 / 2) 10 3 (tick pwmCfg 0 (setValue (1 / 2) (PwmState.init pwmCfg 10 3 7200 0))) 0 :=
  (c20_fresh_boundary (1 / 2) 10 3 7200 0 0 (PwmState.init pwmCfg 10 3 7200 0) 0).1

/-- (1) Phase lengths.  Every completed on-pulse lasts within [dutyOn', dutyOn' + Δ) and every completed off-pause within
[period − dutyOn', period − dutyOn' + Δ] (strictly below the upper end unless dutyOn' = period, where the only pause is
the first tick gap).  All duties, no side condition relating Δ to the phase lengths: the `constrain(…, 0, period)` clamp
is harmless because both thresholds are ≤ period. -/
theorem c20_phase_lengths (v P m : Rat) (Δ : Int) (s : PwmState) (t0 : Int) (ds : List Int)
    (hs : Boundary v P m s t0) (hv0 : 0 ≤ v) (hv1 : v ≤ 1) (hP : 0 < P) (hm0 : 0 ≤ m) (hm : m ≤ P) (hΔ : 0 ≤ Δ)
    (hg : Gaps Δ ds) (hcap : (runF pwmCfg (F.begin s t0) ds).capHit = false) :
    (∀ p ∈ (runF pwmCfg (F.begin s t0) ds).pulses,
      dutyOn v P m ≤ secs p ∧ secs p < dutyOn v P m + secs Δ) ∧
    (∀ p ∈ (runF pwmCfg (F.begin s t0) ds).pauses,
      P - dutyOn v P m ≤ secs p ∧ secs p ≤ P - dutyOn v P m + secs Δ ∧
      (dutyOn v P m < P → secs p < P - dutyOn v P m + secs Δ)) := by
  obtain ⟨hb, _, hc⟩ := run_cases pwmCfg v P m Δ s t0 ds hs hv0 hv1 hP hm0 hm hΔ hg hcap
  rcases hc with ⟨_, hz⟩ | ⟨h1, hf, _⟩ | ⟨_, _, hn⟩
  · rw [hz.hpl, hz.hpa]; simp
  · rw [hf.hpl]
    refine ⟨by simp, ?_⟩
    intro p hp
    have hlen := hb.hlen
    rw [hf.hpl] at hlen
    have hsum := hf.hsum
    have : (runF pwmCfg (F.begin s t0) ds).pauses = [p] := by
      match hq : (runF pwmCfg (F.begin s t0) ds).pauses, hp, hlen with
      | [q], hp, _ => simp at hp; rw [hp]
      | q :: r :: l, _, hlen => simp at hlen; split at hlen <;> omega
    rw [this] at hsum
    simp at hsum
    have a := secs_nonneg hsum.1
    have b := secs_mono hsum.2
    rw [h1]
    exact ⟨by grind, by grind, fun h => absurd h (by grind)⟩
  · refine ⟨hn.hpulses, fun p hp => ?_⟩
    have := hn.hpauses p hp
    exact ⟨this.1, Rat.le_of_lt this.2, fun _ => this.2⟩

/-- P = 10 s, min_runtime 3 s, duty 1/2 (on' = 5 s), ticks alternately 1.5 s and 0.5 s apart, 40 do_runs after the first -/
def halfGaps : List Int := (List.replicate 20 [1500000, 500000]).flatten
def halfStart : PwmState := tick pwmCfg 0 (setValue (1 / 2) (PwmState.init pwmCfg 10 3 7200 0))

example : Gaps 1500000 halfGaps ∧ (runF pwmCfg (F.begin halfStart 0) halfGaps).capHit = false ∧
    (runF pwmCfg (F.begin halfStart 0) halfGaps).pulses = [6000000, 6000000, 6000000] ∧
    (runF pwmCfg (F.begin halfStart 0) halfGaps).pauses = [6000000, 6000000, 5500000] := by decide +kernel

/-- (2) Cycle-aligned windows.  Over any run of do_runs that starts at a cycle boundary and ends at one (the last do_run
switched the pump off) and so contains exactly n completed (pause, pulse) cycles, the energised time T_on satisfies
n·dutyOn' ≤ T_on ≤ n·(dutyOn' + Δ) and the elapsed time T satisfies n·period ≤ T ≤ n·(period + 2Δ), both upper bounds
strict when n ≥ 1; in particular 0 ≤ T_on − n·dutyOn' < n·Δ.  (Non-degenerate duties 0 < dutyOn' < period; the other two
cases have no completed cycle: `c20_zero_on`, `c20_full_on`.) -/
theorem c20_cycles (v P m : Rat) (Δ : Int) (s : PwmState) (t0 : Int) (ds : List Int)
    (hs : Boundary v P m s t0) (hv0 : 0 ≤ v) (hv1 : v ≤ 1) (hP : 0 < P) (hm0 : 0 ≤ m) (hm : m ≤ P) (hΔ : 0 ≤ Δ)
    (hg : Gaps Δ ds) (hcap : (runF pwmCfg (F.begin s t0) ds).capHit = false)
    (h0 : 0 < dutyOn v P m) (h1 : dutyOn v P m < P) (hat : AtBoundary (runF pwmCfg (F.begin s t0) ds))
    (n : Nat) (hn : (runF pwmCfg (F.begin s t0) ds).pulses.length = n) :
    ((n : Rat) * dutyOn v P m ≤ secs (runF pwmCfg (F.begin s t0) ds).onTime ∧
      secs (runF pwmCfg (F.begin s t0) ds).onTime ≤ (n : Rat) * (dutyOn v P m + secs Δ) ∧
      (n ≠ 0 → secs (runF pwmCfg (F.begin s t0) ds).onTime < (n : Rat) * (dutyOn v P m + secs Δ))) ∧
    ((n : Rat) * P ≤ secs ((runF pwmCfg (F.begin s t0) ds).clock - t0) ∧
      secs ((runF pwmCfg (F.begin s t0) ds).clock - t0) ≤ (n : Rat) * (P + 2 * secs Δ) ∧
      (n ≠ 0 → secs ((runF pwmCfg (F.begin s t0) ds).clock - t0) < (n : Rat) * (P + 2 * secs Δ))) := by
  obtain ⟨hb, ht, hc⟩ := run_cases pwmCfg v P m Δ s t0 ds hs hv0 hv1 hP hm0 hm hΔ hg hcap
  rcases hc with ⟨h, _⟩ | ⟨h, _⟩ | ⟨_, _, hnd⟩
  · rw [h] at h0; exact absurd h0 (by grind)
  · rw [h] at h1; exact absurd h1 (by grind)
  · have := cycles_bounds hb hnd hat
    rw [hn, ht] at this
    have hne : n ≠ 0 ↔ (runF pwmCfg (F.begin s t0) ds).pulses ≠ [] := by
      rw [← hn, ← List.length_pos_iff]; omega
    simp only [hne]
    exact this

example : AtBoundary (runF pwmCfg (F.begin halfStart 0) (halfGaps.take 35)) ∧
    (runF pwmCfg (F.begin halfStart 0) (halfGaps.take 35)).pulses.length = 3 ∧
    (runF pwmCfg (F.begin halfStart 0) (halfGaps.take 35)).onTime = 18000000 ∧
    (runF pwmCfg (F.begin halfStart 0) (halfGaps.take 35)).clock = 35500000 ∧
    (0 : Rat) < dutyOn (1 / 2) 10 3 ∧ dutyOn (1 / 2) 10 3 < 10 := by decide +kernel

/-- (3) The property's statement on cycle-aligned windows: over a window as in (2) with n ≥ 1 the on-fraction T_on / T
differs from dutyOn' / period by LESS THAN Δ / period – one maximal tick gap per period (the property allows two). -/
theorem c20_cycle_fraction (v P m : Rat) (Δ : Int) (s : PwmState) (t0 : Int) (ds : List Int)
    (hs : Boundary v P m s t0) (hv0 : 0 ≤ v) (hv1 : v ≤ 1) (hP : 0 < P) (hm0 : 0 ≤ m) (hm : m ≤ P) (hΔ : 0 ≤ Δ)
    (hg : Gaps Δ ds) (hcap : (runF pwmCfg (F.begin s t0) ds).capHit = false)
    (h0 : 0 < dutyOn v P m) (h1 : dutyOn v P m < P) (hat : AtBoundary (runF pwmCfg (F.begin s t0) ds))
    (hne : (runF pwmCfg (F.begin s t0) ds).pulses ≠ []) :
    secs (runF pwmCfg (F.begin s t0) ds).onTime / secs ((runF pwmCfg (F.begin s t0) ds).clock - t0)
        - dutyOn v P m / P < secs Δ / P ∧
    dutyOn v P m / P
        - secs (runF pwmCfg (F.begin s t0) ds).onTime / secs ((runF pwmCfg (F.begin s t0) ds).clock - t0)
        < secs Δ / P := by
  obtain ⟨hb, ht, hc⟩ := run_cases pwmCfg v P m Δ s t0 ds hs hv0 hv1 hP hm0 hm hΔ hg hcap
  rcases hc with ⟨h, _⟩ | ⟨h, _⟩ | ⟨_, _, hnd⟩
  · rw [h] at h0; exact absurd h0 (by grind)
  · rw [h] at h1; exact absurd h1 (by grind)
  · have := cycles_fraction hb hnd hat h0 h1 hΔ hne
    rw [ht] at this
    exact this

example : (runF pwmCfg (F.begin halfStart 0) (halfGaps.take 35)).pulses ≠ [] ∧
    secs (runF pwmCfg (F.begin halfStart 0) (halfGaps.take 35)).onTime /
      secs ((runF pwmCfg (F.begin halfStart 0) (halfGaps.take 35)).clock - 0) = 36 / 71 := by decide +kernel

/-- (3') The property's statement on WALL-CLOCK windows, all duties: over the window [t0, t0 + n·period] counted from a
cycle boundary (in particular from the first do_run after a fresh start – the reading decided by the monitor of
checks/c20.py) the energised time differs from n·dutyOn' by at most n·Δ: one maximal tick gap per period.  `x` is the end
of the window, anywhere between the last do_run of the run and the next one (which comes within Δ);
`onUpTo f x` = energised µs within [t0, x]. -/
theorem c20_on_fraction (v P m : Rat) (Δ : Int) (s : PwmState) (t0 : Int) (ds : List Int)
    (hs : Boundary v P m s t0) (hv0 : 0 ≤ v) (hv1 : v ≤ 1) (hP : 0 < P) (hm0 : 0 ≤ m) (hm : m ≤ P)
    (hg : Gaps Δ ds) (hcap : (runF pwmCfg (F.begin s t0) ds).capHit = false)
    (x : Int) (hx0 : (runF pwmCfg (F.begin s t0) ds).clock ≤ x) (hx1 : x ≤ (runF pwmCfg (F.begin s t0) ds).clock + Δ)
    (n : Nat) (hw : secs (x - t0) = (n : Rat) * P) :
    (n : Rat) * (dutyOn v P m - secs Δ) ≤ secs (onUpTo (runF pwmCfg (F.begin s t0) ds) x) ∧
    secs (onUpTo (runF pwmCfg (F.begin s t0) ds) x) ≤ (n : Rat) * (dutyOn v P m + secs Δ) := by
  have hΔ : 0 ≤ Δ := by omega
  have hδ := secs_nonneg hΔ
  have hn0 : (0 : Rat) ≤ (n : Rat) := Rat.natCast_nonneg
  have hnδ : 0 ≤ (n : Rat) * secs Δ := Rat.mul_nonneg hn0 hδ
  obtain ⟨hb, ht, hc⟩ := run_cases pwmCfg v P m Δ s t0 ds hs hv0 hv1 hP hm0 hm hΔ hg hcap
  rcases hc with ⟨h, hz⟩ | ⟨h, hf, _⟩ | ⟨h0, h1, hnd⟩
  · have e : onUpTo (runF pwmCfg (F.begin s t0) ds) x = 0 := by
      have := hb.hon
      simp [hz.hp, hz.hpl] at this
      simp [onUpTo, hz.hp, this]
    rw [e, h, secs_zero]
    constructor <;> grind
  · obtain ⟨g1, g2⟩ := full_bounds hb hf
    have g3 := full_nonneg hb hf
    rw [ht] at g1 g2
    have hord := hb.hord
    have k1 : 0 ≤ onUpTo (runF pwmCfg (F.begin s t0) ds) x ∧ x - t0 - Δ ≤ onUpTo (runF pwmCfg (F.begin s t0) ds) x ∧
        onUpTo (runF pwmCfg (F.begin s t0) ds) x ≤ x - t0 := by
      unfold onUpTo
      cases hp : (runF pwmCfg (F.begin s t0) ds).s.pumpOn
      · have := (hf.hoff hp).1; rw [ht] at this; simp; omega
      · simp; omega
    have m0 := secs_nonneg k1.1
    have m1 := secs_mono k1.2.1
    have m2 := secs_mono k1.2.2
    rw [secs_sub, hw] at m1
    rw [hw] at m2
    rw [h]
    refine ⟨?_, by grind⟩
    rcases Nat.eq_zero_or_pos n with hn | hn
    · rw [hn]; simp; exact m0
    · have : (1 : Rat) ≤ (n : Rat) := by
        have := Rat.natCast_le_natCast.mpr hn
        simpa using this
      have := Rat.mul_le_mul_of_nonneg_right this hδ
      grind
  · have hw' : secs (x - (runF pwmCfg (F.begin s t0) ds).t0) ≤ (n : Rat) * P := by rw [ht, hw]; exact Rat.le_refl
    obtain ⟨w1, w2⟩ := wall_bounds hb hnd h0 h1 x hx0 hx1 n hw'
    rw [ht, secs_sub, hw] at w2
    exact ⟨by grind, w1⟩

theorem halfBoundary : Boundary (1 / 2) 10 3 halfStart 0 :=
  (c20_fresh_boundary (1 / 2) 10 3 7200 0 0 (PwmState.init pwmCfg 10 3 7200 0) 0).1

/-- the theorem applied: window [0 s, 30 s] = 3 periods of 10 s at duty 1/2, Δ = 1.5 s -/
example : ((3 : Nat) : Rat) * (dutyOn (1 / 2) 10 3 - secs 1500000) ≤
      secs (onUpTo (runF pwmCfg (F.begin halfStart 0) (halfGaps.take 29)) 30000000) ∧
    secs (onUpTo (runF pwmCfg (F.begin halfStart 0) (halfGaps.take 29)) 30000000) ≤
      ((3 : Nat) : Rat) * (dutyOn (1 / 2) 10 3 + secs 1500000) :=
  c20_on_fraction (1 / 2) 10 3 1500000 halfStart 0 (halfGaps.take 29) halfBoundary (by decide +kernel) (by decide +kernel)
    (by decide +kernel) (by decide +kernel) (by decide +kernel) (by decide +kernel) (by decide +kernel) 30000000
    (by decide +kernel) (by decide +kernel) 3 (by decide +kernel)

/-- the window [0 s, 30 s] = 3 periods ends after the do_run at 29.5 s (next one due by 31 s); 12.5 s energised vs 3·5 s -/
example : (runF pwmCfg (F.begin halfStart 0) (halfGaps.take 29)).clock = 29500000 ∧
    Gaps 1500000 (halfGaps.take 29) ∧ secs (30000000 - 0) = ((3 : Nat) : Rat) * 10 ∧
    onUpTo (runF pwmCfg (F.begin halfStart 0) (halfGaps.take 29)) 30000000 = 12500000 := by decide +kernel

/-- dutyOn' = 0 (duty·period = 0): never on, whatever the security timer does – no pulse, energised time 0. -/
theorem c20_zero_on (v P m : Rat) (Δ : Int) (s : PwmState) (t0 : Int) (ds : List Int)
    (hs : Boundary v P m s t0) (hP : 0 ≤ P) (h0 : dutyOn v P m = 0) (hg : Gaps Δ ds) :
    (runF pwmCfg (F.begin s t0) ds).s.pumpOn = false ∧ (runF pwmCfg (F.begin s t0) ds).pulses = [] ∧
    (runF pwmCfg (F.begin s t0) ds).onTime = 0 := by
  have hb0 := base_begin hs hP
  obtain ⟨hb, _⟩ := base_run pwmCfg v P m Δ hP ds _ hb0 hg
  have hz := zero_run pwmCfg v P m Δ hP h0 ds _ hb0 ⟨hs.hpump, rfl, rfl⟩ hg
  refine ⟨hz.hp, hz.hpl, ?_⟩
  have := hb.hon
  simpa [hz.hp, hz.hpl] using this

example : dutyOn 0 10 3 = 0 ∧ (runF pwmCfg (F.begin (tick pwmCfg 0 (PwmState.init pwmCfg 10 3 7200 0)) 0) halfGaps).clock
    = 40000000 := by decide +kernel

/-- dutyOn' = period (duty within min_runtime of 100 %): continuously on – the pump is switched on by the second do_run
and never off, so the energised time is the elapsed time less the first tick gap (≤ Δ). -/
theorem c20_full_on (v P m : Rat) (Δ : Int) (s : PwmState) (t0 : Int) (ds : List Int)
    (hs : Boundary v P m s t0) (hv0 : 0 ≤ v) (hv1 : v ≤ 1) (hP : 0 < P) (hm0 : 0 ≤ m) (hm : m ≤ P) (hΔ : 0 ≤ Δ)
    (hg : Gaps Δ ds) (hcap : (runF pwmCfg (F.begin s t0) ds).capHit = false) (h1 : dutyOn v P m = P) :
    (ds ≠ [] → (runF pwmCfg (F.begin s t0) ds).s.pumpOn = true) ∧ (runF pwmCfg (F.begin s t0) ds).pulses = [] ∧
    (runF pwmCfg (F.begin s t0) ds).clock - t0 - Δ ≤ (runF pwmCfg (F.begin s t0) ds).onTime ∧
    (runF pwmCfg (F.begin s t0) ds).onTime ≤ (runF pwmCfg (F.begin s t0) ds).clock - t0 := by
  obtain ⟨hb, ht, hc⟩ := run_cases pwmCfg v P m Δ s t0 ds hs hv0 hv1 hP hm0 hm hΔ hg hcap
  rcases hc with ⟨h, _⟩ | ⟨_, hf, hon⟩ | ⟨_, h, _⟩
  · rw [h] at h1; exact absurd h1.symm (by grind)
  · have := full_bounds hb hf
    rw [ht] at this
    exact ⟨hon, hf.hpl, this.1, this.2⟩
  · rw [h1] at h; exact absurd h (by grind)

def fullStart : PwmState := tick pwmCfg 0 (setValue (127 / 128) (PwmState.init pwmCfg 10 3 7200 0))

example : dutyOn (127 / 128) 10 3 = 10 ∧ (runF pwmCfg (F.begin fullStart 0) halfGaps).capHit = false ∧
    (runF pwmCfg (F.begin fullStart 0) halfGaps).onTime = 38500000 ∧
    (runF pwmCfg (F.begin fullStart 0) halfGaps).clock = 40000000 := by decide +kernel

/-- A do_run that switches the pump off leaves a cycle boundary again, so (1)–(3') also hold for windows that start at
any later cycle boundary, not only at the fresh start. -/
theorem c20_boundary_again (v P m : Rat) (Δ : Int) (s : PwmState) (t0 : Int) (ds : List Int)
    (hs : Boundary v P m s t0) (hP : 0 ≤ P) (hg : Gaps Δ ds) (hat : AtBoundary (runF pwmCfg (F.begin s t0) ds)) :
    Boundary v P m (runF pwmCfg (F.begin s t0) ds).s (runF pwmCfg (F.begin s t0) ds).clock := by
  obtain ⟨hb, _⟩ := base_run pwmCfg v P m Δ hP ds _ (base_begin hs hP) hg
  obtain ⟨hp, hps⟩ := hat
  refine ⟨hb.hv, hb.hP, hb.hm, hb.hlast, ?_, by rw [← hb.hst, hp], hp⟩
  rw [hb.hdur, hps]
  unfold constrain; grind

example : AtBoundary (runF pwmCfg (F.begin halfStart 0) (halfGaps.take 35)) ∧ Gaps 1500000 (halfGaps.take 35) := by
  decide +kernel

/-- "Security cap not reached" follows from a budget: if the security timer of the start state has no stale reference
instant, a non-negative count, and count + total length of the run < its delay, then no do_run of the run finds it
elapsed.  (After `PWM.__init__` the count is 0 and the delay is SECURITY_DURATION seconds; `do_cancel` keeps the count.) -/
theorem c20_no_cap_of_budget (v P m : Rat) (Δ : Int) (s : PwmState) (t0 : Int) (ds : List Int)
    (hs : Boundary v P m s t0) (hP : 0 ≤ P) (hg : Gaps Δ ds)
    (hl : s.sec.last = none ∨ s.sec.last = some t0) (hd : 0 ≤ s.sec.duration)
    (hbud : s.sec.duration + ds.sum < s.sec.delay) :
    (runF pwmCfg (F.begin s t0) ds).capHit = false :=
  nocap_run pwmCfg v P m Δ hP ds _ (base_begin hs hP) ⟨hl, hd⟩ hg hbud

example : halfStart.sec.last = none ∧ halfStart.sec.duration = 0 ∧ halfStart.sec.delay = 7200000000 ∧
    halfGaps.sum = 40000000 := by decide +kernel

/-- The hypothesis `capHit = false` of `c20_on_fraction` cannot be dropped (by design: the security cap of C03 takes
precedence over the duty).  Witness: SECURITY_DURATION = 5 s, period 10 s, min_runtime 3 s, duty 1 (dutyOn' = 10 s), do_runs
every second from 0 s to 10 s: the pump is switched on at 1 s, cut by the security timer at 6 s and kept off, so the
window [0 s, 10 s] = 1 period has 5 s energised instead of 10 s ± 1.5 s.  Replayed on the real class by checks/c20.py. -/
def capStart : PwmState := tick pwmCfg 0 (setValue 1 (PwmState.init pwmCfg 10 3 5 0))
def capGaps : List Int := List.replicate 10 1000000

theorem c20_on_fraction_without_cap_hypothesis_counterexample :
    Boundary 1 10 3 capStart 0 ∧ Gaps 1500000 capGaps ∧
    (runF pwmCfg (F.begin capStart 0) capGaps).clock = 10000000 ∧ secs (10000000 - 0) = ((1 : Nat) : Rat) * 10 ∧
    (runF pwmCfg (F.begin capStart 0) capGaps).capHit = true ∧
    onUpTo (runF pwmCfg (F.begin capStart 0) capGaps) 10000000 = 5000000 ∧
    ¬ (((1 : Nat) : Rat) * (dutyOn 1 10 3 - secs 1500000) ≤
        secs (onUpTo (runF pwmCfg (F.begin capStart 0) capGaps) 10000000)) :=
  ⟨(c20_fresh_boundary 1 10 3 5 0 0 (PwmState.init pwmCfg 10 3 5 0) 0).1, by decide +kernel, by decide +kernel,
    by decide +kernel, by decide +kernel, by decide +kernel, by decide +kernel⟩

/-- … whereas with the configured SECURITY_DURATION the same schedule is within the bound -/
example : (runF pwmCfg (F.begin fullStart 0) capGaps).capHit = false ∧
    onUpTo (runF pwmCfg (F.begin fullStart 0) capGaps) 10000000 = 9000000 := by decide +kernel

end Poupool.C20
