/-
C20  Dosing duty has the right sign and bounds and the PWM reproduces it.

Model: Poupool/Model/Pwm.lean (`compute`, `phDuty`, `orpDuty`, `dutyOn`, `tick`, `cancel`), constants (constrain bounds,
the negation applied by `ph_pterm`, scales) from the regenerated Poupool/Generated/PwmConfig.lean.
Numbers are exact rationals (`Rat`): binary64 rounding is outside the model (see the correspondence check).
-/
import Poupool.Proofs.PwmDuty
import Poupool.Generated.PwmConfig

namespace Poupool.C20
open Poupool.Pwm Poupool.Generated

/-! ## P-controller -/

theorem cfg_bounds : pwmCfg.pcLo = 0 ∧ pwmCfg.pcHi = 1 := by decide +kernel
theorem cfg_ph : pwmCfg.phPtermSign = -1 ∧ pwmCfg.phScale = 1 := by decide +kernel
theorem cfg_orp : pwmCfg.orpPtermSign = 1 ∧ 0 < pwmCfg.orpScale := by decide +kernel

/-- The commanded duty is within [0,1] for every setpoint, reading, gain and scale. -/
theorem c20_compute_bounds (setpoint current pterm scale : Rat) :
    0 ≤ compute pwmCfg setpoint current pterm scale ∧ compute pwmCfg setpoint current pterm scale ≤ 1 := by
  have h := constrain_bounds ((pterm * scale) * (setpoint - current)) pwmCfg.pcLo pwmCfg.pcHi
    (by rw [cfg_bounds.1, cfg_bounds.2]; decide +kernel)
  rw [cfg_bounds.1, cfg_bounds.2] at h
  exact h

example : compute pwmCfg 7 (15 / 2) (-1) 1 = 1 / 2 := by decide +kernel
example : compute pwmCfg 7 9 (-1) 1 = 1 := by decide +kernel

/-- The duties that reach the two PWMs are within [0,1], enabled or not. -/
theorem c20_duty_bounds (en : Bool) (u sp x : Rat) :
    (0 ≤ phDuty pwmCfg en u sp x ∧ phDuty pwmCfg en u sp x ≤ 1) ∧
    (0 ≤ orpDuty pwmCfg en u sp x ∧ orpDuty pwmCfg en u sp x ≤ 1) := by
  unfold phDuty orpDuty feedback
  have h1 := c20_compute_bounds sp x (pwmCfg.phPtermSign * u) pwmCfg.phScale
  have h2 := c20_compute_bounds sp x (pwmCfg.orpPtermSign * u) pwmCfg.orpScale
  cases en <;> simp only [Bool.false_eq_true, if_false, if_true] <;> grind

example : phDuty pwmCfg true 1 7 (29 / 4) = 1 / 4 ∧ orpDuty pwmCfg true 1 600 500 = 1 / 2 := by decide +kernel

/-- Regulation disabled ⇒ duty 0. -/
theorem c20_disabled_zero (u sp x : Rat) : phDuty pwmCfg false u sp x = 0 ∧ orpDuty pwmCfg false u sp x = 0 := by
  simp [phDuty, orpDuty, feedback]

example : phDuty pwmCfg false 10 6 14 = 0 := (c20_disabled_zero 10 6 14).1

/-- pH-minus dosing: with any accepted gain (user pterm ≥ 0, stored negated) the duty is 0 when pH ≤ setpoint. -/
theorem c20_ph_zero (en : Bool) (u sp ph : Rat) (hu : 0 ≤ u) (h : ph ≤ sp) : phDuty pwmCfg en u sp ph = 0 := by
  unfold phDuty feedback compute
  rw [cfg_ph.1, cfg_ph.2, cfg_bounds.1, cfg_bounds.2]
  have h0 : 0 ≤ u * (sp - ph) := Rat.mul_nonneg hu (by grind)
  have : (-1 * u * 1) * (sp - ph) ≤ 0 := by grind
  rw [constrain_low _ 0 1 (by decide +kernel) this]
  cases en <;> rfl

example : phDuty pwmCfg true 10 7 (13 / 2) = 0 := c20_ph_zero true 10 7 (13 / 2) (by decide +kernel) (by decide +kernel)

/-- pH duty never decreases as the error (pH − setpoint) grows. -/
theorem c20_ph_mono (en : Bool) (u sp₁ sp₂ ph₁ ph₂ : Rat) (hu : 0 ≤ u) (h : ph₁ - sp₁ ≤ ph₂ - sp₂) :
    phDuty pwmCfg en u sp₁ ph₁ ≤ phDuty pwmCfg en u sp₂ ph₂ := by
  unfold phDuty feedback compute
  rw [cfg_ph.1, cfg_ph.2]
  have h0 : u * (sp₂ - ph₂) ≤ u * (sp₁ - ph₁) := Rat.mul_le_mul_of_nonneg_left (by grind) hu
  have : (-1 * u * 1) * (sp₁ - ph₁) ≤ (-1 * u * 1) * (sp₂ - ph₂) := by grind
  have := constrain_mono _ _ pwmCfg.pcLo pwmCfg.pcHi this
  cases en <;> simp only [Bool.false_eq_true, if_false, if_true] <;> grind

example : phDuty pwmCfg true 1 7 (29 / 4) ≤ phDuty pwmCfg true 1 7 (15 / 2) :=
  c20_ph_mono true 1 7 7 (29 / 4) (15 / 2) (by decide +kernel) (by decide +kernel)

/-- Chlorine dosing: with any accepted gain (user pterm ≥ 0) the duty is 0 when ORP ≥ setpoint. -/
theorem c20_orp_zero (en : Bool) (u sp orp : Rat) (hu : 0 ≤ u) (h : sp ≤ orp) : orpDuty pwmCfg en u sp orp = 0 := by
  unfold orpDuty feedback compute
  rw [cfg_orp.1, cfg_bounds.1, cfg_bounds.2]
  have hs : 0 ≤ pwmCfg.orpScale := by have := cfg_orp.2; grind
  have h0 : 0 ≤ (u * pwmCfg.orpScale) * (orp - sp) := Rat.mul_nonneg (Rat.mul_nonneg hu hs) (by grind)
  have : (1 * u * pwmCfg.orpScale) * (sp - orp) ≤ 0 := by grind
  rw [constrain_low _ 0 1 (by decide +kernel) this]
  cases en <;> rfl

example : orpDuty pwmCfg true 10 600 650 = 0 := c20_orp_zero true 10 600 650 (by decide +kernel) (by decide +kernel)

/-- Chlorine duty never decreases as the error (setpoint − ORP) grows. -/
theorem c20_orp_mono (en : Bool) (u sp₁ sp₂ orp₁ orp₂ : Rat) (hu : 0 ≤ u) (h : sp₁ - orp₁ ≤ sp₂ - orp₂) :
    orpDuty pwmCfg en u sp₁ orp₁ ≤ orpDuty pwmCfg en u sp₂ orp₂ := by
  unfold orpDuty feedback compute
  rw [cfg_orp.1]
  have hs : 0 ≤ pwmCfg.orpScale := by have := cfg_orp.2; grind
  have h0 : (u * pwmCfg.orpScale) * (sp₁ - orp₁) ≤ (u * pwmCfg.orpScale) * (sp₂ - orp₂) :=
    Rat.mul_le_mul_of_nonneg_left h (Rat.mul_nonneg hu hs)
  have : (1 * u * pwmCfg.orpScale) * (sp₁ - orp₁) ≤ (1 * u * pwmCfg.orpScale) * (sp₂ - orp₂) := by grind
  have := constrain_mono _ _ pwmCfg.pcLo pwmCfg.pcHi this
  cases en <;> simp only [Bool.false_eq_true, if_false, if_true] <;> grind

example : orpDuty pwmCfg true 1 600 550 ≤ orpDuty pwmCfg true 1 600 500 :=
  c20_orp_mono true 1 600 600 550 500 (by decide +kernel) (by decide +kernel)

/-! ## minimum-run-time rounding -/

/-- The rounding of the property statement, exactly: duty 0 ↦ 0; a positive on-time shorter than the minimum run time is
lengthened to it; otherwise an on-time within the minimum run time of the period means continuously on; otherwise the
on-time is duty·period.  (0 ≤ duty, 0 < period, 0 ≤ min_runtime ≤ period.) -/
theorem c20_dutyOn_rounding (v P m : Rat) (hv : 0 ≤ v) (hP : 0 < P) (hm : m ≤ P) :
    (v = 0 → dutyOn v P m = 0) ∧
    (0 < v → v * P < m → dutyOn v P m = m) ∧
    (m ≤ v * P → P - m < v * P → dutyOn v P m = P) ∧
    (m ≤ v * P → v * P ≤ P - m → dutyOn v P m = v * P) := by
  refine ⟨?_, ?_, ?_, ?_⟩
  · intro h; rw [h]; exact dutyOn_zero P m hm
  · intro h0 h1
    have : 0 < v * P := Rat.mul_pos h0 hP
    unfold dutyOn; grind
  · intro h0 h1; unfold dutyOn; grind
  · intro h0 h1; unfold dutyOn; grind

example : dutyOn 0 120 3 = 0 ∧ dutyOn (1 / 100) 120 3 = 3 ∧ dutyOn (99 / 100) 120 3 = 120 ∧ dutyOn (1 / 2) 120 3 = 60 := by
  decide +kernel

/-- 0 ≤ dutyOn ≤ period, and a non-zero on-time is at least the minimum run time. -/
theorem c20_dutyOn_range (v P m : Rat) (hv0 : 0 ≤ v) (hv1 : v ≤ 1) (hm0 : 0 ≤ m) (hm : m ≤ P) :
    0 ≤ dutyOn v P m ∧ dutyOn v P m ≤ P ∧ (dutyOn v P m = 0 ∨ m ≤ dutyOn v P m) :=
  dutyOn_range v P m hv0 hv1 hm0 hm

example : (0 : Rat) ≤ 1 / 2 ∧ (1 / 2 : Rat) ≤ 1 ∧ (0 : Rat) ≤ 3 ∧ (3 : Rat) ≤ 120 := by decide +kernel

/-! ## PWM -/

/-- Duty 0 means never on: from a PWM whose pump is off, with `value = 0` and `min_runtime ≤ period`, no sequence of
ticks, waits and cancels (any spacing, any length) ever switches the pump on. -/
theorem c20_zero_never_on (g : G) (ops : List Op) (hv : g.s.value = 0) (hm : g.s.minRuntime ≤ g.s.period)
    (hoff : g.s.pumpOn = false ∧ g.s.state = false) (hc : Const ops) :
    (runG pwmCfg g ops).s.pumpOn = false :=
  (zinv_run pwmCfg ops g ⟨hv, hm, hoff.1, hoff.2⟩ hc).2.2.1

def zeroOps : List Op := [.tick] ++ (List.replicate 30 [Op.wait 1000000, Op.tick]).flatten

example : Const zeroOps ∧ (G.init pwmCfg 10 3 7200 0).s.value = 0 ∧
    (G.init pwmCfg 10 3 7200 0).s.minRuntime ≤ (G.init pwmCfg 10 3 7200 0).s.period := by decide +kernel
/-- … whereas a positive duty does switch it on in the same schedule (the theorem is not vacuous) -/
example : (runG pwmCfg (G.init pwmCfg 10 3 7200 0) ((Op.setValue (1 / 2) :: zeroOps).take 12)).s.pumpOn = true := by decide +kernel

/-- No on-pulse is shorter than the minimum run time unless cut by a halt (do_cancel) or by the security cap:
for EVERY op list (duty and period written at arbitrary instants, any tick spacing, any number of cancels/restarts;
only assumption: time does not run backwards), whenever a tick switches the pump off while the security timer it has
just updated has not elapsed, the pulse has lasted at least `min_runtime` AND at least `dutyOn` of the duty in force at
that tick.  (`short` is the ghost flag of Proofs/PwmDuty.lean that records a pulse violating either.) -/
theorem c20_pulse_min_runtime (period minRt : Rat) (S start : Int) (ops : List Op) (hm : Mono ops) :
    (runH pwmCfg (H.init pwmCfg period minRt S start) ops).short = false :=
  (pinv_run pwmCfg ops _ (pinv_init pwmCfg period minRt S start) hm).hshort

/-- What is proved of "the PWM reproduces the duty": the LOWER half per pulse (previous theorem: a pulse that ends by
itself has lasted ≥ dutyOn' ≥ min_runtime) and duty 0 ⇒ never on.  NOT proved (decided by the monitor of checks/c20.py on
every constant-duty trace of the real class instead): the upper half (pulse < dutyOn' + Δ, gap within
[period − dutyOn', period − dutyOn' + Δ)) and hence `|onTime − n·dutyOn'| ≤ 2·n·Δ` over n whole periods.  This alias only
names the partial result. -/
theorem c20_on_fraction_partial (period minRt : Rat) (S start : Int) (ops : List Op) (hm : Mono ops) :
    (runH pwmCfg (H.init pwmCfg period minRt S start) ops).short = false :=
  c20_pulse_min_runtime period minRt S start ops hm

/-- non-vacuity: P = 10, min_runtime = 3, duty 1/2 written, pump switched on at the tick at 5 s, duty written to 0 one
second later: the pulse is NOT cut at the next tick (6 s) but runs until its age is 3 s (tick at 8 s). -/
def dropOps : List Op :=
  [.setValue (1 / 2), .tick] ++ (List.replicate 5 [Op.wait 1000000, Op.tick]).flatten ++
  [.setValue 0] ++ (List.replicate 4 [Op.wait 1000000, Op.tick]).flatten

example : Mono dropOps := by decide +kernel
example : (runH pwmCfg (H.init pwmCfg 10 3 7200 0) (dropOps.take 12)).g.s.pumpOn = true ∧
    (runH pwmCfg (H.init pwmCfg 10 3 7200 0) (dropOps.take 15)).g.s.pumpOn = true ∧
    (runH pwmCfg (H.init pwmCfg 10 3 7200 0) (dropOps.take 17)).g.s.pumpOn = true ∧
    (runH pwmCfg (H.init pwmCfg 10 3 7200 0) (dropOps.take 19)).g.s.pumpOn = false ∧
    (runH pwmCfg (H.init pwmCfg 10 3 7200 0) (dropOps.take 19)).onSince = 5000000 ∧
    (runH pwmCfg (H.init pwmCfg 10 3 7200 0) (dropOps.take 19)).g.clock = 8000000 := by decide +kernel

end Poupool.C20
