import Poupool.Properties.C01
/-!
# C06  Heat pump runs only with flow, with post-run flow and a rest period

(a) `filtration_heat_interlock`: Filtration's last word to Heating is `force` only in `comfort`; outside
    `heating_running` it knows Heating is not in its scheduled `heating` phase (told `wait`/`halt`, or answered);
    in `heating_running`, `comfort` and the three `heating_delay_*` phases the variable pump runs at speed 2.
    With `C01.heating_off_unless_heating_or_forcing`, `C01.glue_heating_not_forcing`, `C01.glue_heating_not_heating`:
    settled ∧ heat pump enabled ⇒ (Heating = heating ∧ Filtration = heating_running) ∨ (forcing ∧ comfort).
(b) the delay phases keep the pump running and are left only by their own timeout (`heating_delayed`, armed with
    delay_to_eco / delay_to_open, C08) or by halt / a mode request arriving later.
(c) `heating_recovering_exits`: the only ways out of `recovering` are `recover_done` (armed with recover_period when
    the phase is entered, C08) and `halt`; the heat pump is switched on only when entering `heating`/`forcing`,
    which cannot be entered from `recovering`.
-/
namespace Poupool.C06
open Poupool Poupool.Gen

def heatInterlockOK (s : St) : Bool :=
  !s.bad &&
  (s.v Filtration.v_rq_Heating != N.force_ || (s.leaf == Filtration.leaf_comfort && s.v Filtration.v_dev_variable == 2)) &&
  (s.v Filtration.v_ks_Heating == 1 || s.leaf == Filtration.leaf_heating_running) &&
  (!([Filtration.leaf_heating_running, Filtration.leaf_comfort, Filtration.leaf_heating_delay_none,
      Filtration.leaf_heating_delay_standby, Filtration.leaf_heating_delay_overflow].contains s.leaf)
    || s.v Filtration.v_dev_variable == 2)

theorem filtration_heat_interlock : ∀ s, Reach filtrationSafetyDesc s → heatInterlockOK s = true :=
  invariant_of_closed _ _ _ Cert.filtrationSafety_closed (by decide +kernel)

example : (statesOf filtrationSafetyReach).any (fun s => s.v Filtration.v_rq_Heating == N.force_) = true := by
  decide +kernel

/-- rows out of `recovering`: only `recover_done` and `halt`; rows into `heating`/`forcing`: never from `recovering` -/
def recoveringExits : Bool :=
  ((heatingRows.getD Heating.leaf_recovering []).all fun r =>
      r.trig == Heating.m_recover_done || r.trig == Heating.m_halt) &&
  (heatingRows.all fun rs => rs.all fun r =>
      !(r.dest == Heating.leaf_heating || r.dest == Heating.leaf_forcing) ||
        (r.src == Heating.leaf_halt || r.src == Heating.leaf_waiting))

theorem heating_recovering_exits : recoveringExits = true := by decide +kernel

/-- the row into `heating` is guarded by `filtration_allow_heating` -/
def heatGuarded : Bool :=
  heatingRows.all fun rs => rs.all fun r =>
    !(r.dest == Heating.leaf_heating && r.src != Heating.leaf_heating) || r.req.contains (Heating.g_filtration_allow_heating, true)

theorem heating_start_is_guarded : heatGuarded = true := by decide +kernel

/-- comfort → standby is refused when the pump would stop (standby speed 0) -/
def comfortStandbyGuarded : Bool :=
  (filtrationRows.getD Filtration.leaf_comfort []).all fun r =>
    !(r.trig == Filtration.m_standby) || r.req.contains (Filtration.g_pump_stopped_in_standby, false)

theorem comfort_to_standby_is_guarded : comfortStandbyGuarded = true := by decide +kernel

/-- (b) on the regenerated transition table: whatever the trigger and the guard valuation, `heating_running` is left only towards one
of the three `heating_delay_*` phases or `halt` — no path lets the pump stop or the cover move right after the heat pump without the
post-run circulation; and a `heating_delay_*` phase is left only by its own timeout `heating_delayed`, by `halt`, or (towards another
delay phase) by `heating_delay` / a request to open the pool. -/
def delayLeaves : List Nat := [Filtration.leaf_heating_delay_none, Filtration.leaf_heating_delay_standby, Filtration.leaf_heating_delay_overflow]

def heatingRunningExits : Bool :=
  ((filtrationRows.getD Filtration.leaf_heating_running []).all fun r =>
      r.internal || r.dest == Filtration.leaf_heating_running || r.dest == Filtration.leaf_halt || delayLeaves.contains r.dest) &&
  (delayLeaves.all fun l => (filtrationRows.getD l []).all fun r =>
      r.internal || r.dest == Filtration.leaf_halt || delayLeaves.contains r.dest || r.trig == Filtration.m_heating_delayed)

theorem heating_running_exits : heatingRunningExits = true := by decide +kernel

/-- non-vacuity: there are rows out of `heating_running` into a delay phase and out of a delay phase by its timeout -/
example : ((filtrationRows.getD Filtration.leaf_heating_running []).any fun r => delayLeaves.contains r.dest) = true ∧
    ((filtrationRows.getD Filtration.leaf_heating_delay_none []).any fun r => r.trig == Filtration.m_heating_delayed && !delayLeaves.contains r.dest) = true := by
  decide +kernel

end Poupool.C06
