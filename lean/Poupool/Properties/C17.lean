import Poupool.Proofs.ActorLib
/-!
# C17  Wintering: outside the stir phases both pumps are off (periods/durations: C08 + timed correspondence)
-/
namespace Poupool.C17
open Poupool Poupool.Gen

def filtrationWinterOK (s : St) : Bool :=
  !s.bad && (s.leaf != Filtration.leaf_wintering_waiting || s.v Filtration.v_dev_variable == 0) &&
  (s.leaf != Filtration.leaf_wintering_stir || s.v Filtration.v_dev_variable ≥ 1)

theorem filtration_pump_only_in_stir : ∀ s, Reach filtrationSafetyDesc s → filtrationWinterOK s = true :=
  invariant_of_closed _ _ _ Cert.filtrationSafety_closed (by decide +kernel)

def swimWinterOK (s : St) : Bool :=
  !s.bad && (s.leaf != Swim.leaf_wintering_waiting || s.v Swim.v_dev_swim == 0) &&
  (s.leaf != Swim.leaf_wintering_stir || s.v Swim.v_dev_swim == 1)

theorem swim_pump_only_in_stir : ∀ s, Reach swimSafetyDesc s → swimWinterOK s = true :=
  invariant_of_closed _ _ _ Cert.swimSafety_closed (by decide +kernel)

example : (statesOf filtrationSafetyReach).any (fun s => s.leaf == Filtration.leaf_wintering_stir) = true := by decide +kernel

end Poupool.C17
