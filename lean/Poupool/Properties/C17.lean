import Poupool.Proofs.ActorLib
import Poupool.Model.Winter
/-!
# C17  Wintering: outside the stir phases both pumps are off (periods/durations: C08 + timed correspondence)
-/
namespace Poupool.C17
open Poupool Poupool.Gen

def filtrationWinterOK (s : St) : Bool :=
  !s.bad && (s.leaf != Filtration.leaf_wintering_waiting || s.v Filtration.v_dev_variable == 0) &&
  (s.leaf != Filtration.leaf_wintering_stir || s.v Filtration.v_dev_variable ≥ 1)

theorem filtration_pump_only_in_stir : ∀ s, Reach filtrationSafetyDesc s → filtrationWinterOK s = true :=
  invariant_of_closed _ _ _ Cert.filtrationSafety_closed (by decide +kernel)

def swimWinterOK (s : St) : Bool :=
  !s.bad && (s.leaf != Swim.leaf_wintering_waiting || s.v Swim.v_dev_swim == 0) &&
  (s.leaf != Swim.leaf_wintering_stir || s.v Swim.v_dev_swim == 1)

theorem swim_pump_only_in_stir : ∀ s, Reach swimSafetyDesc s → swimWinterOK s = true :=
  invariant_of_closed _ _ _ Cert.swimSafety_closed (by decide +kernel)

example : (statesOf filtrationSafetyReach).any (fun s => s.leaf == Filtration.leaf_wintering_stir) = true := by decide +kernel

/-! ## the stir decision (Model/Winter.lean, both pumps use the same shape with their own period/threshold) -/
open Poupool.Winter

/-- once the waiting phase has lasted longer than the period, a poll that sees the temperature at or below the threshold,
    or unknown, starts the stir; polls come every 2 min (C08.filtration_poll_periods / other_timeouts), hence the gap
    between two stirs is at most period + 2 min (+ delivery latency) while it stays cold -/
theorem stirs_when_cold_or_unknown (tis period thr : Int) (temp : Option Int) (hp : period < tis)
    (hc : temp = none ∨ ∃ t, temp = some t ∧ t ≤ thr) : poll tis period temp thr = .stir := by
  unfold poll
  rw [if_pos hp]
  rcases hc with h | ⟨t, h, ht⟩ <;> subst h <;> simp [*]

/-- no stir before the period has elapsed, and none when the temperature is known to be above the threshold -/
theorem no_early_or_warm_stir (tis period thr : Int) (temp : Option Int) :
    poll tis period temp thr = .stir → period < tis ∧ (temp = none ∨ ∃ t, temp = some t ∧ t ≤ thr) := by
  unfold poll
  split
  · rename_i hp
    cases temp with
    | none => intro _; exact ⟨hp, Or.inl rfl⟩
    | some t =>
        simp only
        split
        · rename_i ht; intro _; exact ⟨hp, Or.inr ⟨t, rfl, ht⟩⟩
        · intro h; simp at h
  · intro h; simp at h

example : poll 10801000000 10800000000 none 5000 = .stir := by decide

end Poupool.C17
