/-
C15 (static UI part)   (b) every state string a controller can publish on a */state topic has an entry in the
shipped `state.map`;  (c) every command the shipped openHAB sitemap can send is accepted by the dispatcher model of
C14 (a controller is told something) and every command topic of `poupool.things` is a subscribed (table) topic.

`Generated.Ui` is regenerated on every run from raspberrypi/openhab/configurations/** and controller/*.py;
`Generated.Dispatch.table` from the real Dispatcher.  For (c) Python's `float()` / `lower()` of each of the finitely
many UI payloads are precomputed by CPython and carried as data (`UiCmd.num`, `UiCmd.lower`); checks/c15_ui.py
validates every command against the REAL dispatcher as well.  The tables are finite and complete, so
`decide +kernel` is a proof.
-/
import Poupool.Proofs.Dispatch
import Poupool.Generated.Dispatch
import Poupool.Generated.Ui

namespace Poupool.C15Ui
open Poupool.Dispatch Poupool.Generated.Dispatch Poupool.Generated.Ui

def pynumOf (c : UiCmd) : Option PyNum :=
  match c.num with
  | some (n, d) => if h : 0 < d then some (.fin ⟨n, d, h⟩) else none
  | none => none

/-- what the dispatcher model tells for one UI command (fresh dispatcher, intended decode/float/lower) -/
def uiTell (topic : String) (c : UiCmd) : Option Tell :=
  (dispatch table boolTrue (fun _ => pynumOf c) (fun _ => c.lower) (fun _ => some c.payload) {} topic c.payload.toUTF8).2

def uiAccepted (tc : String × List UiCmd) : Bool := tc.2.all (fun c => (uiTell tc.1 c).isSome)

/-! ## (b) -/

/-- every state string any `<ctrl>_state(...)` publish site can emit is a key of the shipped state.map -/
theorem C15b_published_states_in_state_map : ∀ p ∈ publishedStates, stateMapKeys.contains p.2 = true := by
  decide +kernel

example : ("filtration", "closing_40") ∈ publishedStates ∧ ("tank", "fill") ∈ publishedStates ∧
    publishedStates.length ≥ 40 := by decide +kernel

/-! ## (c) -/

/-- every command topic of poupool.things is a topic of the dispatcher table (= is subscribed: Mqtt subscribes to
`dispatcher.topics()`) -/
theorem C15c_command_topics_subscribed : ∀ t ∈ commandTopics, (entryOf table t).isSome = true := by decide +kernel

/-- every topic a sitemap widget sends on is one of those command topics -/
theorem C15c_widget_topics_are_command_topics : ∀ tc ∈ uiCommands, commandTopics.contains tc.1 = true := by
  decide +kernel

/-- EVERY value EVERY sitemap widget can send (complete min..max step grids, mapping keys, ON/OFF, after the JS
transforms) makes the dispatcher tell a controller -/
theorem C15c_ui_commands_accepted : uiCommands.all uiAccepted = true := by decide +kernel

/-- consequence with C14's generic inversion: each UI command is told to the topic's own setter with a validated
value -/
theorem C15c_ui_commands_validated :
    ∀ tc ∈ uiCommands, ∀ c ∈ tc.2, ∃ tl, uiTell tc.1 c = some tl ∧
      ∃ e ∈ table, e.topic = tc.1 ∧ tl.target = e.target := by
  intro tc htc c hc
  have h := List.all_eq_true.1 C15c_ui_commands_accepted tc htc
  have h2 := List.all_eq_true.1 h c hc
  cases ht : uiTell tc.1 c with
  | none => simp [ht] at h2
  | some tl =>
    refine ⟨tl, rfl, ?_⟩
    have hd : dispatch table boolTrue (fun _ => pynumOf c) (fun _ => c.lower) (fun _ => some c.payload) {} tc.1
        c.payload.toUTF8 = (_, some tl) := Prod.ext rfl ht
    obtain ⟨e, data, hl, _, _, _, htg, _, _⟩ := dispatch_tell_inv hd
    obtain ⟨hmem, htopic, _, _⟩ := lookup_some hl
    exact ⟨e, hmem, htopic, htg⟩

example : uiTell "/settings/filtration/duration" ⟨"Poupool_Filtration_Duration", "172800", "172800", some (172800, 1)⟩
    = some ⟨"filtration", "duration", .int 172800⟩ := by decide +kernel

example : uiCommands.length ≥ 25 ∧ (uiCommands.map (fun tc => tc.2.length)).sum ≥ 500 := by decide +kernel

end Poupool.C15Ui
