import Poupool.Proofs.ActorLib
/-!
# C15 (a)  the last value published on /status/<controller>/state names the controller's actual phase

For every message sequence, after every handler: the last state string published is the UI name of the current
phase (`nameOf`, a fixed oracle table; `closing_*` / `opening_*` stand for the computed `closing_<10·⌊p/10⌋>` strings;
the transient `reload_*` phases and the `heating_delay_*` sub-phases publish nothing of their own).
Parts (b), (c) (UI map, sitemap): Properties/C15Ui.lean.
-/
namespace Poupool.C15
open Poupool Poupool.Gen

def filtrationNameOf (l : Nat) : List Int :=
  if l == Filtration.leaf_halt then [N.halt_, N.none_]
  else if l == Filtration.leaf_closing then [N.closing_, N.closing_star]
  else if l == Filtration.leaf_opening_standby || l == Filtration.leaf_opening_overflow then [N.opening_, N.opening_star]
  else if l == Filtration.leaf_eco_compute then [N.eco_compute_]
  else if l == Filtration.leaf_eco_normal then [N.eco_normal_]
  else if l == Filtration.leaf_eco_tank then [N.eco_tank_]
  else if l == Filtration.leaf_eco_waiting then [N.eco_waiting_]
  else if l == Filtration.leaf_heating_running then [N.heating_running_]
  else if l == Filtration.leaf_heating_delay_none || l == Filtration.leaf_heating_delay_standby
        || l == Filtration.leaf_heating_delay_overflow then [N.heating_delay_]
  else if l == Filtration.leaf_standby_boost then [N.standby_boost_]
  else if l == Filtration.leaf_standby_normal then [N.standby_]
  else if l == Filtration.leaf_overflow_boost then [N.overflow_boost_]
  else if l == Filtration.leaf_overflow_normal then [N.overflow_]
  else if l == Filtration.leaf_comfort then [N.comfort_]
  else if l == Filtration.leaf_sweep then [N.sweep_]
  else if l == Filtration.leaf_wash_backwash then [N.backwash_]
  else if l == Filtration.leaf_wash_rinse then [N.rinse_]
  else if l == Filtration.leaf_wintering_stir then [N.wintering_stir_]
  else if l == Filtration.leaf_wintering_waiting then [N.wintering_waiting_]
  else []  -- reload_*: transient, nothing required

def isReload (l : Nat) : Bool :=
  l == Filtration.leaf_reload_eco || l == Filtration.leaf_reload_standby || l == Filtration.leaf_reload_overflow

def filtrationPubOK (s : St) : Bool :=
  !s.bad && (isReload s.leaf || (filtrationNameOf s.leaf).contains (s.v Filtration.v_pub))

theorem filtration_state_published : ∀ s, Reach filtrationSafetyDesc s → filtrationPubOK s = true :=
  invariant_of_closed _ _ _ Cert.filtrationSafety_closed (by decide +kernel)

def tankPubOK (s : St) : Bool :=
  !s.bad &&
  ((s.leaf == Tank.leaf_halt && (s.v Tank.v_pub == N.halt_ || s.v Tank.v_pub == N.none_)) ||
   (s.leaf == Tank.leaf_fill && s.v Tank.v_pub == N.fill_) || (s.leaf == Tank.leaf_low && s.v Tank.v_pub == N.low_) ||
   (s.leaf == Tank.leaf_normal && s.v Tank.v_pub == N.normal_) || (s.leaf == Tank.leaf_high && s.v Tank.v_pub == N.high_))

theorem tank_state_published : ∀ s, Reach tankSafetyDesc s → tankPubOK s = true :=
  invariant_of_closed _ _ _ Cert.tankSafety_closed (by decide +kernel)

def heatingPubOK (s : St) : Bool :=
  !s.bad &&
  ((s.leaf == Heating.leaf_halt && (s.v Heating.v_pub == N.halt_ || s.v Heating.v_pub == N.none_)) ||
   (s.leaf == Heating.leaf_waiting && s.v Heating.v_pub == N.waiting_) ||
   (s.leaf == Heating.leaf_heating && s.v Heating.v_pub == N.heating_) ||
   (s.leaf == Heating.leaf_forcing && s.v Heating.v_pub == N.heating_) ||
   (s.leaf == Heating.leaf_recovering && s.v Heating.v_pub == N.recovering_))

theorem heating_state_published : ∀ s, Reach heatingSafetyDesc s → heatingPubOK s = true :=
  invariant_of_closed _ _ _ Cert.heatingSafety_closed (by decide +kernel)

def disinfectionPubOK (s : St) : Bool :=
  !s.bad &&
  ((s.leaf == Disinfection.leaf_halt && (s.v Disinfection.v_pub == N.halt_ || s.v Disinfection.v_pub == N.none_)) ||
   (s.leaf == Disinfection.leaf_waiting && s.v Disinfection.v_pub == N.waiting_) ||
   (s.leaf == Disinfection.leaf_running_adjusting && s.v Disinfection.v_pub == N.adjusting_) ||
   (s.leaf == Disinfection.leaf_running_treating && s.v Disinfection.v_pub == N.treating_))

theorem disinfection_state_published : ∀ s, Reach disinfectionSafetyDesc s → disinfectionPubOK s = true :=
  invariant_of_closed _ _ _ Cert.disinfectionSafety_closed (by decide +kernel)

def swimPubOK (s : St) : Bool :=
  !s.bad &&
  ((s.leaf == Swim.leaf_halt && (s.v Swim.v_pub == N.halt_ || s.v Swim.v_pub == N.none_)) ||
   (s.leaf == Swim.leaf_timed && s.v Swim.v_pub == N.timed_) ||
   (s.leaf == Swim.leaf_continuous && s.v Swim.v_pub == N.continuous_) ||
   (s.leaf == Swim.leaf_wintering_stir && s.v Swim.v_pub == N.wintering_stir_) ||
   (s.leaf == Swim.leaf_wintering_waiting && s.v Swim.v_pub == N.wintering_waiting_))

theorem swim_state_published : ∀ s, Reach swimSafetyDesc s → swimPubOK s = true :=
  invariant_of_closed _ _ _ Cert.swimSafety_closed (by decide +kernel)

def lightPubOK (s : St) : Bool :=
  !s.bad &&
  ((s.leaf == Light.leaf_halt && (s.v Light.v_pub == N.halt_ || s.v Light.v_pub == N.none_)) ||
   (s.leaf == Light.leaf_on && s.v Light.v_pub == N.on_))

theorem light_state_published : ∀ s, Reach lightSafetyDesc s → lightPubOK s = true :=
  invariant_of_closed _ _ _ Cert.lightSafety_closed (by decide +kernel)

example : (statesOf filtrationSafetyReach).any (fun s => s.v Filtration.v_pub == N.closing_star) = true := by decide +kernel

end Poupool.C15
