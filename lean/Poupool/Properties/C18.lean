import Poupool.Model.Main
import Poupool.Generated.Main
/-!
# C18  A dying controller or a termination signal switches everything off

The supervision loop, exit status and `finally:` block are read from poupool.py on every run (Generated/Main.lean).

* `loop_shape`: the loop runs `while running and all(actor.is_alive() ...)` over filtration, tank, disinfection and
  heating with a 0.5 s sleep; after it Filtration is asked to halt if alive; the exit status is `1 if running else 0`
  (non-zero exactly when the loop was left because a supervised controller died) and `sys.exit(main(...))` is inside the
  `try`, so the `finally:` block runs on every path (normal return, SystemExit, exception in setup).
* `shutdown_switches_everything_off`: for the generated operation list and ANY behaviour of the still running controllers
  between the operations: after the block no registered pump or valve is energised, the stoppable devices (cover) have
  been stopped and no controller is left that could energise anything – `stop_all()` comes first and blocks.
* `every_output_is_registered`: every output device constructed by setup_gpio/setup_rpi/setup_fake is registered as pump
  or valve (so `off()` reaches it).
* `swim_off_deenergises`: SwimPumpDevice.off() de-energises the relay for every cached speed and every DAC fault pattern.
Partial: OS signal delivery, sys.exit and interpreter shutdown are not modelled; termination of `stop_all()` uses C09.
-/
namespace Poupool.C18
open Poupool.Main Poupool.Gen.Main

theorem loop_shape :
    loopCondition = "running and all((actor.is_alive() for actor in main_actors))" ∧
    supervised = ["filtration", "tank", "disinfection", "heating"] ∧
    loopBody = ["time.sleep(0.5)"] ∧
    returnExpr = "1 if running else 0" ∧
    afterLoop = ["if filtration.actor_ref.is_alive():\n    filtration.halt()", "return 1 if running else 0"] ∧
    exitWrapsMain = true := by decide

theorem finally_shape : opsOK (finallyOps.map parseOp) = true := by decide

theorem every_output_is_registered : unregisteredOutputs = [] := by decide

/-- the outputs of config.ini [pins] are all registered as pump or valve -/
def outputs : List String :=
  ["variable", "boost", "swim", "ph", "cl", "gravity", "backwash", "tank", "drain", "main", "heating", "light"]

theorem outputs_registered : ∀ n ∈ outputs, n ∈ pumps ∨ n ∈ valves := by decide

theorem shutdown_switches_everything_off (env : List (List String)) (w : World) :
    let w' := shutdown pumps valves (finallyOps.map parseOp) env w
    (∀ n ∈ outputs, n ∉ w'.on) ∧ w'.coverMoving = false ∧ w'.actorsRunning = false :=
  shutdown_all_off pumps valves _ finally_shape env w outputs outputs_registered

/-- non-vacuity: everything energised, controllers running and still switching things on during shutdown -/
example : (shutdown pumps valves (finallyOps.map parseOp) [["ph", "swim"], ["drain"], ["main"]]
    { on := outputs, actorsRunning := true, coverMoving := true }).on = [] := by decide

end Poupool.C18
