import Poupool.Model.Tank
import Poupool.Properties.Sensor
import Poupool.Properties.C01
import Poupool.Properties.C08
/-!
# C04  Tank too low (or level sensor dead) stops the whole system within 30 s

* `too_low_chain`: for every valid threshold configuration (both level sets of config.ini are valid: `config_valid`)
  and every measured level below too_low: the `high` poll goes to normal, the `normal` poll to low and the `low` poll
  (any time before the 6 h limit, after it as well) requests the emergency stop (Filtration.halt and its own halt).
* `latency_bound`: the polls are at most 10 s apart in high/normal and 5 s in low (`Act.rearm` arguments, in half
  seconds), the first poll of a phase is immediate (`@do_repeat`, C08): the stop is requested at most
  10 s + 3·R after the level dropped, R = duration of one sensor reading (≤ 5 s with a dead ADC: 10 reads × 0.5 s),
  i.e. ≤ 25 s, plus the delivery latencies.
* a dead ADC reads as level 0 (`TankSensorDevice.value`: checked by the correspondence on the real device class).
* Filtration accepts `halt` unconditionally in every phase (`C01.filtration_halt_accepted_everywhere`) and then C01
  applies; the Tank polls are always armed (`C08.tank_timers`).
-/
namespace Poupool.C04
open Poupool.Tank

theorem too_low_chain (c : Cfg) (hv : Valid c) (h tis : Int) (hl : h < c.tooLow) :
    pollHigh c h = .toNormal ∧ pollNormal c h = .toLow ∧ pollLow c h tis = .emergency := by
  obtain ⟨h0, h1, h2⟩ := hv
  refine ⟨?_, ?_, ?_⟩
  · simp only [pollHigh]; rw [if_pos (by omega)]
  · simp only [pollNormal]; rw [if_pos (by omega)]
  · simp only [pollLow]
    by_cases ht : tis > sixHours
    · rw [if_pos ht]
    · rw [if_neg ht, if_neg (by omega), if_pos hl]

/-- the same from `fill` after the 2 h limit, and `fill` never reports "normal" below too_low -/
theorem fill_limit (c : Cfg) (h tis : Int) (ht : tis > twoHours) : pollFill c h tis = .emergency := by
  simp [pollFill, ht]

def ecoCfg : Cfg := { hyst := 5, tooLow := 10, low := 30, high := 70 }
def overflowCfg : Cfg := { hyst := 5, tooLow := 10, low := 20, high := 60 }

theorem config_valid : Valid ecoCfg ∧ Valid overflowCfg := by decide

/-- worst-case time from the drop to the stop request, in half seconds, from each phase: wait for the running poll
    period, then one reading per phase on the way (R half-seconds each) -/
def latencyHalfSec (phase : Nat) (R : Nat) : Nat :=
  match phase with
  | 0 => 20 + 3 * R      -- high: ≤ 10 s to the next poll, readings in high, normal, low
  | 1 => 20 + 2 * R      -- normal
  | _ => 10 + R          -- low

theorem latency_bound (phase R : Nat) (hR : R ≤ 10) : latencyHalfSec phase R ≤ 50 := by
  unfold latencyHalfSec
  split <;> omega

/-- the periods used above are the ones the polls re-arm with -/
theorem poll_periods (c : Cfg) (h tis : Int) :
    (∀ n, pollHigh c h = .rearm n → n = 20) ∧ (∀ n, pollNormal c h = .rearm n → n = 20) ∧
    (∀ n, pollLow c h tis = .rearm n → n = 10) := by
  refine ⟨?_, ?_, ?_⟩
  · intro n; simp only [pollHigh]; split <;> intro hh <;> simp_all
  · intro n; simp only [pollNormal]; split
    · intro hh; simp at hh
    · split <;> intro hh <;> simp_all
  · intro n; simp only [pollLow]; split
    · intro hh; simp at hh
    · split
      · intro hh; simp at hh
      · split <;> intro hh <;> simp_all

example : pollHigh ecoCfg 3 = .toNormal ∧ pollNormal ecoCfg 3 = .toLow ∧ pollLow ecoCfg 3 0 = .emergency :=
  too_low_chain ecoCfg config_valid.1 3 0 (by decide)

/-- The clause "including a dead level sensor, which reads as 0", end to end on the models: when all ten read attempts of a
reading fail, the value `TankSensorDevice.value` returns is 0 for every calibration 0 ≤ low < high (`SensorProps.dead_sensor_reads_zero`),
the reading took exactly 5 s, hence R = 10 half-seconds in `latency_bound`, and whatever integer `h` stands for that value in the unit
of the thresholds (`h · den = num · unit`), every positive too-low threshold sends the polls down the chain to the emergency stop. -/
theorem dead_sensor_stops_the_system (c : Cfg) (hv : Valid c) (hpos : 0 < c.tooLow)
    (s : Poupool.Sensor.Cfg) (hs : Poupool.Sensor.Valid s) (reads : List (Option Int)) (hdead : ∀ r ∈ reads, r = none) (hten : reads.length = 10)
    (h unit tis : Int) (hrep : h * (Poupool.Sensor.value s reads).2 = (Poupool.Sensor.value s reads).1 * unit) :
    pollHigh c h = .toNormal ∧ pollNormal c h = .toLow ∧ pollLow c h tis = .emergency ∧
    Poupool.Sensor.elapsedMs reads = 5000 ∧ ∀ phase, latencyHalfSec phase 10 ≤ 50 := by
  obtain ⟨hz, hd⟩ := Poupool.SensorProps.dead_sensor_reads_zero s hs reads hdead
  have h0 : h = 0 := by
    rw [hz, Int.zero_mul] at hrep
    rcases Int.mul_eq_zero.mp hrep with h1 | h1
    · exact h1
    · omega
  obtain ⟨a, b, d⟩ := too_low_chain c hv h tis (by omega)
  refine ⟨a, b, d, ?_, fun ph => latency_bound ph 10 (by omega)⟩
  have hrep' : reads = List.replicate reads.length none := by
    apply List.ext_getElem (by simp)
    intro i h1 h2
    simp [hdead _ (List.getElem_mem h1)]
  rw [hrep', Poupool.SensorProps.dead_reading_time, hten]

example : Valid ecoCfg ∧ 0 < ecoCfg.tooLow ∧ Poupool.Sensor.Valid ⟨83, 1665⟩ ∧ (∀ r ∈ List.replicate 10 (none : Option Int), r = none) := by
  refine ⟨config_valid.1, by decide, by decide, ?_⟩
  intro r hr; simp at hr; exact hr

/-- The converse direction, end to end on the models (no false alarm, no false refill): a level sensor that fails some of its ten
attempts while every successful one reads at least the raw count `x` of `p` percent gives a value of at least `p` percent
(`SensorProps.high_readings_read_high`); whatever integer `h` stands for that value in the unit of the thresholds, if `p` percent is at
least `low − hysteresis` the poll of `normal` does not go to `low` (the mains valve stays closed), the poll of `high` at `p ≥ high − hyst`
stays in `high`, and in `low` the emergency stop is requested only by the 6 h limit, never by the too-low branch. -/
theorem flaky_sensor_no_false_alarm (c : Cfg) (hv : Valid c)
    (s : Poupool.Sensor.Cfg) (hs : Poupool.Sensor.Valid s) (reads : List (Option Int)) (x p : Int) (hp : p ≤ 100)
    (hx : p * (s.high - s.low) ≤ (x - s.low) * 100) (hall : ∀ r ∈ Poupool.Sensor.good reads, x ≤ r) (hne : Poupool.Sensor.good reads ≠ [])
    (h unit tis : Int) (hunit : 0 < unit) (hrep : h * (Poupool.Sensor.value s reads).2 = (Poupool.Sensor.value s reads).1 * unit) :
    (c.low - c.hyst ≤ p * unit → pollNormal c h ≠ .toLow) ∧
    (c.high - c.hyst ≤ p * unit → pollHigh c h ≠ .toNormal) ∧
    (c.tooLow ≤ p * unit → tis ≤ sixHours → pollLow c h tis ≠ .emergency) := by
  have hnb := Poupool.SensorProps.high_readings_read_high s hs reads x p hp hx hall hne
  obtain ⟨hd, _, _⟩ := Poupool.SensorProps.value_in_range s hs reads
  have hge : p * unit ≤ h := by
    unfold Poupool.Sensor.below at hnb
    have h1 : p * (Poupool.Sensor.value s reads).2 ≤ (Poupool.Sensor.value s reads).1 := by omega
    have h2 : (p * (Poupool.Sensor.value s reads).2) * unit ≤ (Poupool.Sensor.value s reads).1 * unit :=
      Int.mul_le_mul_of_nonneg_right h1 (by omega)
    have h3 : (p * unit) * (Poupool.Sensor.value s reads).2 ≤ h * (Poupool.Sensor.value s reads).2 := by
      rw [hrep, Int.mul_right_comm]; exact h2
    exact Int.le_of_mul_le_mul_right h3 hd
  obtain ⟨h0, h1, h2⟩ := hv
  refine ⟨?_, ?_, ?_⟩
  · intro ht; unfold pollNormal
    rw [if_neg (by omega)]
    split <;> simp
  · intro ht; unfold pollHigh
    rw [if_neg (by omega)]; simp
  · intro ht hts; unfold pollLow
    rw [if_neg (by omega)]
    split
    · simp
    · rw [if_neg (by omega)]; simp

/-- non-vacuity with the shipped calibration and the eco level set: six attempts out of ten fail, the others read ≥ 40 % -/
example : Poupool.Sensor.Valid ⟨83, 1665⟩ ∧ (40 : Int) * (1665 - 83) ≤ (716 - 83) * 100 ∧
    Poupool.Sensor.good [some 716, none, some 900, none, none, some 4095, none, none, some 800, none] ≠ [] := by decide

end Poupool.C04
