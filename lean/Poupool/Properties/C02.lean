import Poupool.Properties.C01
/-!
# C02  Chemicals are dosed only into flowing water

* `filtration_dosing_interlock` – for every message sequence: Filtration's last word to Disinfection is "start" only
  while the variable pump runs (speed ≥ 1), and in every no-treatment phase of the statement (cover moving, eco
  waiting, tank filtration, boost, sweep, backwash, wintering, halt) Filtration knows Disinfection halted.
* `disinfection_runs_pwm_only_when_running` – Disinfection has the PWM loops started only in its running phase.
* with `C01.glue_disinfection`, `C01.glue_pwm`, `C01.pwm_on_only_while_armed`: once the inboxes are served (settled,
  three deliveries: halt → do_cancel → pump off), both dosing relays are off whenever the interlock says "halted".
-/
namespace Poupool.C02
open Poupool Poupool.Gen

def noTreatment (l : Nat) : Bool :=
  [Filtration.leaf_halt, Filtration.leaf_closing, Filtration.leaf_opening_standby, Filtration.leaf_opening_overflow,
   Filtration.leaf_eco_waiting, Filtration.leaf_eco_tank, Filtration.leaf_standby_boost, Filtration.leaf_overflow_boost,
   Filtration.leaf_sweep, Filtration.leaf_wash_backwash, Filtration.leaf_wash_rinse, Filtration.leaf_wintering_stir,
   Filtration.leaf_wintering_waiting].contains l

def interlockOK (s : St) : Bool :=
  !s.bad &&
  (s.v Filtration.v_rq_Disinfection == N.halt_ || s.v Filtration.v_dev_variable ≥ 1) &&
  (!noTreatment s.leaf || s.v Filtration.v_rq_Disinfection == N.halt_)

theorem filtration_dosing_interlock : ∀ s, Reach filtrationSafetyDesc s → interlockOK s = true :=
  invariant_of_closed _ _ _ Cert.filtrationSafety_closed (by decide +kernel)

/-- non-vacuity: a state in which Disinfection has been started (pump running) is in the certificate -/
example : (statesOf filtrationSafetyReach).any
    (fun s => s.v Filtration.v_rq_Disinfection == N.run_ && s.v Filtration.v_dev_variable ≥ 1) = true := by
  decide +kernel

def disinfectionPwmOK (s : St) : Bool :=
  !s.bad &&
  (s.leaf == Disinfection.leaf_running_adjusting || s.leaf == Disinfection.leaf_running_treating ||
    ((s.v Disinfection.v_rq_PWMph == N.do_cancel_ || s.v Disinfection.v_rq_PWMph == 0) &&
     (s.v Disinfection.v_rq_PWMcl == N.do_cancel_ || s.v Disinfection.v_rq_PWMcl == 0)))

theorem disinfection_runs_pwm_only_when_running : ∀ s, Reach disinfectionSafetyDesc s → disinfectionPwmOK s = true :=
  invariant_of_closed _ _ _ Cert.disinfectionSafety_closed (by decide +kernel)

/-- the settings range the interlock relies on (`speed_eco ≥ 1`) is the dispatcher's: see `C14_fact_speed_eco` -/
example : True := trivial

end Poupool.C02
