import Poupool.Proofs.Compose3
import Poupool.Properties.Compose
/-!
# The chain Filtration → Disinfection → PWM in ONE composed system (C02: chemicals only into flowing water)

`Properties/Compose.lean` proves the two links separately: `filtDis_composed_no_treatment` in the pair system
(Filtration ∥ Disinfection) and `disPwm_composed_halt` in the pair system (Disinfection ∥ PWM), each treating every
other actor as an adversarial third party.  Nothing there says that both hold in the same execution: in the lower
pair Disinfection begins handlers out of nowhere, in the upper pair it has no effects.

Here the three GENERATED models run in one system (`Model/Compose3.lean`): Filtration's handlers (`stepE`) queue tells
in Disinfection's FIFO inbox; Disinfection serves that inbox with `stepE` of its own generated description, and the
effects of THAT handler queue tells in the PWM's FIFO inbox; the PWM serves its inbox with its generated `step`;
third parties queue anything for Disinfection and for the PWM at any time.  `Compose3.treach_projAB` /
`treach_projBC` project every reachable triple state onto a reachable state of each pair system, so the pair
theorems (and the per-actor certificates behind them) apply to the SAME state:

* `chain_off_when_served_ph/_cl` – Filtration's knowledge variable says `halt`, everything served ⇒ Disinfection in
  `halt` ∧ dosing relay off ∧ PWM loop disarmed;
* `chain_halt_ph/_cl`, `chain_no_treatment_ph/_cl` – the same from Filtration's phase (`halt`, or any phase of
  C02's no-treatment list), with Filtration's certificate;
* `chain_hypotheses_needed_ph/_cl` – each of the four "settled" hypotheses is necessary: four reachable states, each
  violating exactly one of them, in which the dosing relay is on while Filtration is in `halt`.

Assumptions of the triple model, on top of those of the pair model (header of `Properties/Compose.lean`):
a handler of Disinfection is atomic w.r.t. other messages to Disinfection (it serves the next message only after the
previous handler has performed all its effects; Filtration and the PWM do run during it); the state of an actor
jumps to its post-handler state when the handler begins, its effects are then performed one at a time in program
order; an observing answer of Disinfection to Filtration (`is_halt()` TRUE) is given on Disinfection's post-handler
state, possibly before the effects of that handler are performed (more behaviours than pykka allows, so sound);
the guard question of a foreign start message is answered between two handlers of the asked actor and is atomic
with the asker's transition; a refused start does nothing.
-/
namespace Poupool.Compose3Props
open Poupool Poupool.Gen Poupool.Compose Poupool.Compose3 Poupool.ComposeProps

/-- Filtration → Disinfection → PWM(pH): the two pair specifications of `Properties/Compose.lean`; they use the same
    generated description of Disinfection -/
def chainPh : TSpec := { SAB := filtDis, SBC := disPwm, agree := rfl }

/-- Filtration → Disinfection → PWM(chlorine) -/
def chainCl : TSpec := { SAB := filtDis, SBC := disPwmCl, agree := rfl }

def servedB (g : TSt) : Bool := g.inboxB.all fun e => !e.1

def servedC (g : TSt) : Bool := g.inboxC.all fun e => !e.1

theorem noMaster_of_all {l : List (Bool × Msg)} (h : (l.all fun e => !e.1) = true) : noMaster l := by
  intro e he
  simp only [List.all_eq_true, Bool.not_eq_true'] at h
  exact h e he

/-! ## concrete runs of the chain (used for the non-vacuity examples) -/

/-- `eco` → `eco_compute`, its timer → `eco_normal` where Filtration asks `is_halt` (TRUE) and tells Disinfection
    `run`; Disinfection serves it (→ `waiting`); its timer (queued by a third party: Disinfection's own delayed call)
    → `running_adjusting` where Disinfection tells both loops `do_run`; the loop serves it and switches the dosing
    relay on. -/
def chainStart (runTag : Nat) : List Act3 :=
  [.a (.plain Filtration.m_eco) (fun o => o.1.armed == some Filtration.m_eco_normal), .drainA,
   .a (.delayed Filtration.m_eco_normal) (fun o => o.2.contains (.emit 10)), .drainA,
   .serveB (fun o => o.1.leaf == Disinfection.leaf_waiting), .drainB,
   .otherB (.delayed Disinfection.m_run), .serveB (fun o => o.2.contains (.emit runTag)), .drainB,
   .deliverC (fun s => s.v PWM.v_dev_pump == 1)]

/-- Filtration handles `msg` and ends in `leaf`, telling Disinfection `halt` (its question `is_halt` is answered
    FALSE or times out) -/
def stopA (msg : Msg) (leaf : Nat) : Act3 :=
  .a msg (fun o => o.1.leaf == leaf && o.2.contains (.emit 6) && !o.2.contains (.ask true [(3, 0)] []))

/-- Disinfection serves `halt`, telling the loop `do_cancel` -/
def stopB (cancelTag : Nat) : Act3 :=
  .serveB (fun o => o.1.leaf == Disinfection.leaf_halt && o.2.contains (.emit cancelTag))

/-- … Filtration tells `halt`, Disinfection serves it and tells the loop `do_cancel`, the loop serves it -/
def chainStop (msg : Msg) (leaf : Nat) (cancelTag : Nat) : List Act3 :=
  [stopA msg leaf, .drainA, stopB cancelTag, .drainB, .serveC (fun _ => true)]

def settled (g : TSt) : Bool := g.todoA.isEmpty && g.todoB.isEmpty && servedB g && servedC g

/-- the check performed on a run: dosing in `g1`, then everything settled and off in `g2` -/
def demoCheck (S : TSpec) (runTag cancelTag : Nat) (msg : Msg) (leaf : Nat) : Option Bool :=
  (run3 S (chainStart runTag) (tinit S)).bind fun g1 =>
    (run3 S (chainStop msg leaf cancelTag) g1).map fun g2 =>
      g1.a.leaf == Filtration.leaf_eco_normal && g1.b.leaf == Disinfection.leaf_running_adjusting &&
      g1.c.v PWM.v_dev_pump == 1 &&
      settled g2 && g2.a.leaf == leaf && g2.b.leaf == Disinfection.leaf_halt && g2.c.v PWM.v_dev_pump == 0

theorem chainPh_demo_halt :
    demoCheck chainPh 65 59 (.plain Filtration.m_halt) Filtration.leaf_halt = some true := by decide +kernel

theorem chainPh_demo_wash :
    demoCheck chainPh 65 59 (.plain Filtration.m_wash) Filtration.leaf_wash_backwash = some true := by
  decide +kernel

theorem chainCl_demo_halt :
    demoCheck chainCl 68 61 (.plain Filtration.m_halt) Filtration.leaf_halt = some true := by decide +kernel

theorem chainCl_demo_wash :
    demoCheck chainCl 68 61 (.plain Filtration.m_wash) Filtration.leaf_wash_backwash = some true := by
  decide +kernel

/-- from a successful `demoCheck`: a reachable state `g1` in which the relay is on, and a reachable state `g2`
    reached from it that satisfies the hypotheses of the chain theorems with Filtration in `leaf` -/
theorem demo_states {S : TSpec} {runTag cancelTag : Nat} {msg : Msg} {leaf : Nat}
    (h : demoCheck S runTag cancelTag msg leaf = some true) :
    ∃ g1 g2, TReach S g1 ∧ g1.c.v PWM.v_dev_pump = 1 ∧ run3 S (chainStop msg leaf cancelTag) g1 = some g2 ∧
      TReach S g2 ∧ g2.todoA = [] ∧ g2.todoB = [] ∧ g2.a.leaf = leaf ∧ noMaster g2.inboxB ∧ noMaster g2.inboxC := by
  simp only [demoCheck] at h
  cases h1 : run3 S (chainStart runTag) (tinit S) with
  | none => simp [h1] at h
  | some g1 =>
      cases h2 : run3 S (chainStop msg leaf cancelTag) g1 with
      | none => simp [h1, h2] at h
      | some g2 =>
          simp only [h1, h2, Option.bind_some, Option.map_some, Option.some.injEq, Bool.and_eq_true, beq_iff_eq,
            settled, List.isEmpty_iff] at h
          obtain ⟨⟨⟨⟨⟨⟨_, _⟩, hp⟩, ⟨⟨⟨hA, hB⟩, hsB⟩, hsC⟩⟩, ha⟩, _⟩, _⟩ := h
          have r1 := run3_sound S _ _ _ TReach.init h1
          exact ⟨g1, g2, r1, hp, h2, run3_sound S _ _ _ r1 h2, hA, hB, ha, noMaster_of_all hsB,
            noMaster_of_all hsC⟩

/-! ## Filtration → Disinfection → PWM(pH) -/

/-- **The chain in one execution, every interleaving**: Filtration and Disinfection between two handlers,
    Filtration's knowledge variable says `halt`, none of Filtration's messages waits in Disinfection's inbox, none of
    Disinfection's messages waits in the pH loop's inbox ⇒ Disinfection is in `halt`, the dosing relay is off and the
    loop is disarmed.  (The four "settled" hypotheses are forced by the model, see `chain_hypotheses_needed_ph`: an
    actor's state is its post-handler state from the beginning of the handler, so while `halt` / `do_cancel` is
    still a pending effect or still queued the receiver has not seen it.  Third-party messages may wait in both
    inboxes.) -/
theorem chain_off_when_served_ph {g : TSt} (h : TReach chainPh g) (hA : g.todoA = []) (hB : g.todoB = [])
    (hg : g.a.v Filtration.v_rq_Disinfection = N.halt_) (hsB : noMaster g.inboxB) (hsC : noMaster g.inboxC) :
    g.b.leaf = Disinfection.leaf_halt ∧ g.c.v PWM.v_dev_pump = 0 ∧ g.c.armed = none := by
  have hb : g.b.leaf = Disinfection.leaf_halt :=
    filtDis_halted_when_served (treach_projAB chainPh h) hA hg hsB
  exact ⟨hb, disPwm_composed_halt (treach_projBC chainPh h) hB hb hsC⟩

example : ∃ g, TReach chainPh g ∧ g.todoA = [] ∧ g.todoB = [] ∧ g.a.v Filtration.v_rq_Disinfection = N.halt_ ∧
    noMaster g.inboxB ∧ noMaster g.inboxC :=
  ⟨tinit chainPh, TReach.init, rfl, rfl, by decide, by simp [noMaster, tinit], by simp [noMaster, tinit]⟩

/-- **C02, halt**: Filtration in phase `halt`, everything served ⇒ Disinfection in `halt`, pH dosing relay off, loop
    disarmed; in one execution of the three generated models.  `hA`/`hB`/`hsB`/`hsC` are each necessary
    (`chain_hypotheses_needed_ph`). -/
theorem chain_halt_ph {g : TSt} (h : TReach chainPh g) (hA : g.todoA = []) (hB : g.todoB = [])
    (hm : g.a.leaf = Filtration.leaf_halt) (hsB : noMaster g.inboxB) (hsC : noMaster g.inboxC) :
    g.b.leaf = Disinfection.leaf_halt ∧ g.c.v PWM.v_dev_pump = 0 ∧ g.c.armed = none := by
  have hb : g.b.leaf = Disinfection.leaf_halt := filtDis_composed_halt (treach_projAB chainPh h) hA hm hsB
  exact ⟨hb, disPwm_composed_halt (treach_projBC chainPh h) hB hb hsC⟩

/-- non-vacuity: the hypotheses hold in a state reached by a run in which Filtration started Disinfection,
    Disinfection started the loop, the relay was on (`g1`), and Filtration was then halted -/
example : ∃ g1 g2, TReach chainPh g1 ∧ g1.c.v PWM.v_dev_pump = 1 ∧
    run3 chainPh (chainStop (.plain Filtration.m_halt) Filtration.leaf_halt 59) g1 = some g2 ∧
    TReach chainPh g2 ∧ g2.todoA = [] ∧ g2.todoB = [] ∧ g2.a.leaf = Filtration.leaf_halt ∧
    noMaster g2.inboxB ∧ noMaster g2.inboxC := demo_states chainPh_demo_halt

/-- **C02, every no-treatment phase** (`halt`, `closing`, `opening_*`, `eco_waiting`, `eco_tank`, `*_boost`, `sweep`,
    `wash_*`, `wintering_*`): Filtration in such a phase, everything served ⇒ Disinfection in `halt`, pH dosing relay
    off, loop disarmed -/
theorem chain_no_treatment_ph {g : TSt} (h : TReach chainPh g) (hA : g.todoA = []) (hB : g.todoB = [])
    (hm : noTreatment g.a.leaf = true) (hsB : noMaster g.inboxB) (hsC : noMaster g.inboxC) :
    g.b.leaf = Disinfection.leaf_halt ∧ g.c.v PWM.v_dev_pump = 0 ∧ g.c.armed = none := by
  have hb : g.b.leaf = Disinfection.leaf_halt :=
    filtDis_composed_no_treatment (treach_projAB chainPh h) hA hm hsB
  exact ⟨hb, disPwm_composed_halt (treach_projBC chainPh h) hB hb hsC⟩

/-- non-vacuity on a phase other than `halt`: dosing, then `wash` takes Filtration to `wash_backwash` -/
example : ∃ g1 g2, TReach chainPh g1 ∧ g1.c.v PWM.v_dev_pump = 1 ∧
    run3 chainPh (chainStop (.plain Filtration.m_wash) Filtration.leaf_wash_backwash 59) g1 = some g2 ∧
    TReach chainPh g2 ∧ g2.todoA = [] ∧ g2.todoB = [] ∧ noTreatment g2.a.leaf = true ∧
    noMaster g2.inboxB ∧ noMaster g2.inboxC := by
  obtain ⟨g1, g2, r1, hp, hrun, r2, hA, hB, ha, hsB, hsC⟩ := demo_states chainPh_demo_wash
  exact ⟨g1, g2, r1, hp, hrun, r2, hA, hB, by rw [ha]; decide, hsB, hsC⟩

/-- the relay is on in `g`, Filtration is in `halt`, and exactly the named hypothesis of `chain_halt_ph` fails -/
def needed (S : TSpec) (runTag : Nat) (stop : List Act3) (which : TSt → Bool) : Option Bool :=
  (run3 S (chainStart runTag ++ stop) (tinit S)).map fun g =>
    g.a.leaf == Filtration.leaf_halt && g.c.v PWM.v_dev_pump == 1 && which g

/-- **Sharpness.** None of the four settled-state hypotheses of `chain_halt_ph` can be dropped: after the dosing
    run, (1) Filtration has begun `halt` but not yet performed its tell; (2) the tell waits in Disinfection's inbox;
    (3) Disinfection has begun serving `halt` (it IS in `halt`) but has not yet performed `do_cancel`; (4) `do_cancel`
    waits in the loop's inbox.  In each of these reachable states Filtration is in `halt`, the other three
    hypotheses hold, and the dosing relay is on. -/
theorem chain_hypotheses_needed_ph :
    needed chainPh 65 [stopA (.plain Filtration.m_halt) Filtration.leaf_halt]
      (fun g => !g.todoA.isEmpty && g.todoB.isEmpty && servedB g && servedC g) = some true ∧
    needed chainPh 65 [stopA (.plain Filtration.m_halt) Filtration.leaf_halt, .drainA]
      (fun g => g.todoA.isEmpty && g.todoB.isEmpty && !servedB g && servedC g) = some true ∧
    needed chainPh 65 [stopA (.plain Filtration.m_halt) Filtration.leaf_halt, .drainA, stopB 59]
      (fun g => g.todoA.isEmpty && !g.todoB.isEmpty && servedB g && servedC g &&
        g.b.leaf == Disinfection.leaf_halt) = some true ∧
    needed chainPh 65 [stopA (.plain Filtration.m_halt) Filtration.leaf_halt, .drainA, stopB 59, .drainB]
      (fun g => g.todoA.isEmpty && g.todoB.isEmpty && servedB g && !servedC g &&
        g.b.leaf == Disinfection.leaf_halt) = some true := by decide +kernel

/-- the link hypothesis of the general chain theorem `Compose3.chain_halted_when_served` for this instance is
    Disinfection's own certificate: in `halt` its last word to the pH loop is `do_cancel` (or nothing yet) -/
theorem chainPh_link (b : St) (hr : Reach chainPh.DB b) (hh : chainPh.SAB.isHalt b = true) :
    chainPh.SBC.isG (getNth b.vars chainPh.SBC.v) = true := by
  have hinv := C01.disinfection_cancels_pwm_when_halted b hr
  have hl : b.leaf = Disinfection.leaf_halt := by simpa [chainPh, filtDis, C01.disinfectionSpec] using hh
  simp only [C01.disinfectionOutOK, hl, bne_self_eq_false, Bool.false_or, Bool.and_eq_true, Bool.or_eq_true,
    beq_iff_eq] at hinv
  simpa [chainPh, disPwm, St.v] using hinv.2.1

/-- the general chain theorem is not vacuous: all its hypotheses hold of the generated models -/
example {g : TSt} (h : TReach chainPh g) (hA : g.todoA = []) (hB : g.todoB = [])
    (hg : g.a.v Filtration.v_rq_Disinfection = N.halt_) (hsB : noMaster g.inboxB) (hsC : noMaster g.inboxC) :
    chainPh.SAB.isHalt g.b = true ∧ chainPh.SBC.isHalt g.c = true :=
  chain_halted_when_served chainPh filtDis_masterOK filtDis_slaveOK disPwm_masterOK disPwm_slaveOK chainPh_link h
    hA hB (by simpa [chainPh, filtDis, St.v] using hg) hsB hsC

/-! ## Filtration → Disinfection → PWM(chlorine) -/

/-- the chlorine loop: Filtration's knowledge variable says `halt`, everything served ⇒ Disinfection in `halt`,
    chlorine dosing relay off, loop disarmed (hypotheses as in `chain_off_when_served_ph`) -/
theorem chain_off_when_served_cl {g : TSt} (h : TReach chainCl g) (hA : g.todoA = []) (hB : g.todoB = [])
    (hg : g.a.v Filtration.v_rq_Disinfection = N.halt_) (hsB : noMaster g.inboxB) (hsC : noMaster g.inboxC) :
    g.b.leaf = Disinfection.leaf_halt ∧ g.c.v PWM.v_dev_pump = 0 ∧ g.c.armed = none := by
  have hb : g.b.leaf = Disinfection.leaf_halt :=
    filtDis_halted_when_served (treach_projAB chainCl h) hA hg hsB
  exact ⟨hb, disPwmCl_composed_halt (treach_projBC chainCl h) hB hb hsC⟩

example : ∃ g, TReach chainCl g ∧ g.todoA = [] ∧ g.todoB = [] ∧ g.a.v Filtration.v_rq_Disinfection = N.halt_ ∧
    noMaster g.inboxB ∧ noMaster g.inboxC :=
  ⟨tinit chainCl, TReach.init, rfl, rfl, by decide, by simp [noMaster, tinit], by simp [noMaster, tinit]⟩

/-- **C02, halt, chlorine loop** (hypotheses each necessary: `chain_hypotheses_needed_cl`) -/
theorem chain_halt_cl {g : TSt} (h : TReach chainCl g) (hA : g.todoA = []) (hB : g.todoB = [])
    (hm : g.a.leaf = Filtration.leaf_halt) (hsB : noMaster g.inboxB) (hsC : noMaster g.inboxC) :
    g.b.leaf = Disinfection.leaf_halt ∧ g.c.v PWM.v_dev_pump = 0 ∧ g.c.armed = none := by
  have hb : g.b.leaf = Disinfection.leaf_halt := filtDis_composed_halt (treach_projAB chainCl h) hA hm hsB
  exact ⟨hb, disPwmCl_composed_halt (treach_projBC chainCl h) hB hb hsC⟩

example : ∃ g1 g2, TReach chainCl g1 ∧ g1.c.v PWM.v_dev_pump = 1 ∧
    run3 chainCl (chainStop (.plain Filtration.m_halt) Filtration.leaf_halt 61) g1 = some g2 ∧
    TReach chainCl g2 ∧ g2.todoA = [] ∧ g2.todoB = [] ∧ g2.a.leaf = Filtration.leaf_halt ∧
    noMaster g2.inboxB ∧ noMaster g2.inboxC := demo_states chainCl_demo_halt

/-- **C02, every no-treatment phase, chlorine loop** -/
theorem chain_no_treatment_cl {g : TSt} (h : TReach chainCl g) (hA : g.todoA = []) (hB : g.todoB = [])
    (hm : noTreatment g.a.leaf = true) (hsB : noMaster g.inboxB) (hsC : noMaster g.inboxC) :
    g.b.leaf = Disinfection.leaf_halt ∧ g.c.v PWM.v_dev_pump = 0 ∧ g.c.armed = none := by
  have hb : g.b.leaf = Disinfection.leaf_halt :=
    filtDis_composed_no_treatment (treach_projAB chainCl h) hA hm hsB
  exact ⟨hb, disPwmCl_composed_halt (treach_projBC chainCl h) hB hb hsC⟩

example : ∃ g1 g2, TReach chainCl g1 ∧ g1.c.v PWM.v_dev_pump = 1 ∧
    run3 chainCl (chainStop (.plain Filtration.m_wash) Filtration.leaf_wash_backwash 61) g1 = some g2 ∧
    TReach chainCl g2 ∧ g2.todoA = [] ∧ g2.todoB = [] ∧ noTreatment g2.a.leaf = true ∧
    noMaster g2.inboxB ∧ noMaster g2.inboxC := by
  obtain ⟨g1, g2, r1, hp, hrun, r2, hA, hB, ha, hsB, hsC⟩ := demo_states chainCl_demo_wash
  exact ⟨g1, g2, r1, hp, hrun, r2, hA, hB, by rw [ha]; decide, hsB, hsC⟩

theorem chain_hypotheses_needed_cl :
    needed chainCl 68 [stopA (.plain Filtration.m_halt) Filtration.leaf_halt]
      (fun g => !g.todoA.isEmpty && g.todoB.isEmpty && servedB g && servedC g) = some true ∧
    needed chainCl 68 [stopA (.plain Filtration.m_halt) Filtration.leaf_halt, .drainA]
      (fun g => g.todoA.isEmpty && g.todoB.isEmpty && !servedB g && servedC g) = some true ∧
    needed chainCl 68 [stopA (.plain Filtration.m_halt) Filtration.leaf_halt, .drainA, stopB 61]
      (fun g => g.todoA.isEmpty && !g.todoB.isEmpty && servedB g && servedC g &&
        g.b.leaf == Disinfection.leaf_halt) = some true ∧
    needed chainCl 68 [stopA (.plain Filtration.m_halt) Filtration.leaf_halt, .drainA, stopB 61, .drainB]
      (fun g => g.todoA.isEmpty && g.todoB.isEmpty && servedB g && !servedC g &&
        g.b.leaf == Disinfection.leaf_halt) = some true := by decide +kernel

end Poupool.Compose3Props

/-
`#print axioms` (Lean 4.33, `lake env lean` on a file importing this module):

'Poupool.Compose3Props.chain_off_when_served_ph' depends on axioms: [propext, Classical.choice, Quot.sound]
'Poupool.Compose3Props.chain_halt_ph' depends on axioms: [propext, Classical.choice, Quot.sound]
'Poupool.Compose3Props.chain_no_treatment_ph' depends on axioms: [propext, Classical.choice, Quot.sound]
'Poupool.Compose3Props.chain_hypotheses_needed_ph' depends on axioms: [propext]
'Poupool.Compose3Props.chain_off_when_served_cl' depends on axioms: [propext, Classical.choice, Quot.sound]
'Poupool.Compose3Props.chain_halt_cl' depends on axioms: [propext, Classical.choice, Quot.sound]
'Poupool.Compose3Props.chain_no_treatment_cl' depends on axioms: [propext, Classical.choice, Quot.sound]
'Poupool.Compose3Props.chain_hypotheses_needed_cl' depends on axioms: [propext]
'Poupool.Compose3Props.chainPh_demo_halt' depends on axioms: [propext]
'Poupool.Compose3Props.chainPh_demo_wash' depends on axioms: [propext]
'Poupool.Compose3Props.chainCl_demo_halt' depends on axioms: [propext]
'Poupool.Compose3Props.chainCl_demo_wash' depends on axioms: [propext]
'Poupool.Compose3Props.demo_states' depends on axioms: [propext, Quot.sound]
'Poupool.Compose3Props.chainPh_link' depends on axioms: [propext, Quot.sound]
and of the lemmas they rest on (Proofs/Compose3.lean):
'Poupool.Compose3.treach_projAB' depends on axioms: [propext, Classical.choice, Quot.sound]
'Poupool.Compose3.treach_projBC' depends on axioms: [propext]
'Poupool.Compose3.chain_halted_when_served' depends on axioms: [propext, Classical.choice, Quot.sound]
'Poupool.Compose3.run3_sound' depends on axioms: [propext, Quot.sound]
-/
