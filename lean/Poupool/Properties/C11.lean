/-
  C11  Filtration accounting and counters survive a restart.
  Model: Model/Eco.lean (EcoMode.update persistence rule, Filtration.duration / restore_duration, dispatcher
  `once`, Counter); helper lemmas: Proofs/EcoPersist.lean.
-/
import Poupool.Proofs.EcoPersist

namespace Poupool.Eco
open Poupool.Generated

/-- Persistence rule.  Along ANY sequence of polls (`update(now, factor)`, factor in [0, 1], non-decreasing
instants, any gaps) and state changes (`clear`) of one process, at every instant the accounted duration exceeds the
value last published on `/status/filtration/duration` by at most the save interval, 300 s — whatever the poll
period: what is lost by a kill at any point is at most 300 s of ACCOUNTED time (plus the time since the last poll,
≤ one poll + eps, that was not accounted yet: C10_loop_accounting). -/
theorem C11_persist_bound (ops : List POp) (s : PSt) (h : PInv s) (hok : opsOK s.tnow ops) :
    (ops.foldl PSt.step s).saved ≤ (ops.foldl PSt.step s).e.filtration.duration
    ∧ (ops.foldl PSt.step s).e.filtration.duration - (ops.foldl PSt.step s).saved ≤ 300 * US := by
  have hinv := prun_inv ops s h hok
  have hsv := cfg_save
  have hU : US = 1000000 := rfl
  obtain ⟨h1, h2, h3, h4, h5⟩ := hinv
  constructor <;> omega

/-- a fresh process satisfies the hypothesis (`lastSave` = start time, nothing accounted, nothing published yet:
the retained value is the one that was restored) -/
example : PInv { e := (EcoMode.init 1000).restore 1234, saved := 1234 * US, tnow := 1000 } :=
  ⟨by decide, (by intro l h; cases h), by decide, by decide, by decide⟩

example : opsOK 1000 [.update 2000 0 1, .clear, .update 10002000 1 1, .update 20002000 1 2] := by
  simp [opsOK]

/-- The restored value: the payload is `round(duration.total_seconds())`, the restore `timedelta(seconds=payload)`:
within half a second of the published duration.  Together with `C11_persist_bound`:
restored ∈ [accounted − 300.5 s, accounted + 0.5 s]. -/
theorem C11_restore_rounding (saved : Int) :
    2 * (roundSeconds saved * US) ≤ 2 * saved + US ∧ 2 * saved - US ≤ 2 * (roundSeconds saved * US) := by
  have h := divNearest_bounds saved US (by decide)
  unfold roundSeconds
  rw [Int.mul_comm (divNearest saved US) US]
  exact h

example : roundSeconds 1500000 = 2 ∧ roundSeconds 2500000 = 2 ∧ roundSeconds 2500001 = 3 := by decide

/-- Settings and the restore in ANY order (any list of messages, repetitions included): the accounted duration
afterwards is the value of the last restore — `Filtration.duration()` puts today's elapsed time back, the other
settings do not touch it. -/
theorem C11_restore_any_order (ms : List SMsg) (e : EcoMode) (v : Int) (hm : SMsg.restore v ∈ ms)
    (hall : ∀ w, SMsg.restore w ∈ ms → w = v) :
    (ms.foldl applyMsg e).filtration.duration = v * US := by
  rw [foldl_duration]
  exact durAfter_of_mem v ms _ hm hall

example : ([SMsg.restore 1234, .daily 36000, .period 3].foldl applyMsg (EcoMode.init 0)).filtration.duration = 1234 * US
    ∧ ([SMsg.daily 36000, .period 3, .restore 1234].foldl applyMsg (EcoMode.init 0)).filtration.duration = 1234 * US
    ∧ ([SMsg.daily 36000, .restore 1234, .tank 1 10, .daily 7200].foldl applyMsg (EcoMode.init 0)).filtration.duration = 1234 * US := by
  decide

/-- … and the daily duration, period … end up the same as well (last value wins), so the state after the burst
does not depend on the order; here for the two messages that interact. -/
theorem C11_daily_restore_commute (e : EcoMode) (d v : Int) :
    (e.fltDuration d).restore v = (e.restore v).fltDuration d := by
  have hk := cfg_keep
  simp [EcoMode.fltDuration, EcoMode.restore, hk, EcoMode.setDaily, EcoMode.recompute, Timer.setDuration, Timer.setDelay]

example : ((EcoMode.init 0).fltDuration 7200).restore 60 = ((EcoMode.init 0).restore 60).fltDuration 7200 := by decide

/-- The dispatcher's `once` rule: in one process the handler of `/status/filtration/duration`,
`/status/heating/total_seconds`, `/status/water/counter` is called at most once, whatever is delivered. -/
theorem C11_once_at_most_once (ts : List Topic) :
    Disp.applied .filtrationDuration ⟨[]⟩ ts ≤ 1 ∧ Disp.applied .heatingTotal ⟨[]⟩ ts ≤ 1
    ∧ Disp.applied .waterCounter ⟨[]⟩ ts ≤ 1 :=
  ⟨applied_le_one _ (by decide) ts _, applied_le_one _ (by decide) ts _, applied_le_one _ (by decide) ts _⟩

example : Disp.applied .filtrationDuration ⟨[]⟩ [.filtrationDuration, .dailySetting, .filtrationDuration, .filtrationDuration] = 1
    ∧ Disp.applied .dailySetting ⟨[]⟩ [.dailySetting, .dailySetting] = 2 := by decide

/-- Heating total (`q = US`) and water counter (`q = 1`): across any number of kill / restart cycles the published
values never decrease, PROVIDED the restore precedes the first post-restart publish (`restoreFirst`). -/
theorem C11_counter_monotone (q : Int) (hq : 0 < q) (evs : List CEv) (hrf : restoreFirst false evs = true)
    (hpos : ∀ d, CEv.add d ∈ evs → 0 ≤ d) :
    nonDecreasing (Counter.run { q := q, total := 0, retained := none, pubs := [] } evs).pubs = true :=
  counter_run evs _ false ⟨hq, rfl, rfl, fun _ v hv => by cases hv⟩ hrf hpos

example : (Counter.run { q := US, total := 0, retained := none, pubs := [] }
    [.add 5400000, .kill, .restore, .add 400000, .add 700000, .kill, .kill, .restore, .add 1]).pubs = [6, 6, 5, 5]
    ∧ restoreFirst false [.add 5400000, .kill, .restore, .add 400000, .add 700000, .kill, .kill, .restore, .add 1] = true := by
  decide

/-- K3 witness: without that hypothesis the counter DOES decrease — the process restarts, accumulates and publishes
before the retained value is applied (then the stale restore even discards what was counted since). -/
theorem C11_counter_decrease_counterexample :
    nonDecreasing (Counter.run { q := US, total := 0, retained := none, pubs := [] }
      [.add 7200000000, .kill, .add 60000000, .restore]).pubs = false
    ∧ (Counter.run { q := US, total := 0, retained := none, pubs := [] }
      [.add 7200000000, .kill, .add 60000000, .restore]).pubs = [60, 7200] := by
  decide

end Poupool.Eco
