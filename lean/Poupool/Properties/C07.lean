import Poupool.Proofs.ActorLib
import Poupool.Model.Guards
/-!
# C07  Drain and backwash valves are confined to a bounded backwash cycle
* `drain_backwash_only_in_wash`: for every message sequence the two valves are open only in `wash_backwash` /
  `wash_rinse` (backwash valve only in `wash_backwash`).
* `wash_needs_high_tank`: every row entering the wash cycle carries the guard `tank_is_high`.
* `wash_cycle_rows`: inside the cycle only `rinse` (backwash→rinse), `eco` (rinse→eco) and `halt` are accepted.
* `rinse_exit_publishes`: leaving `wash_rinse` publishes the completion time retained.
  Timing (durations, 2×2 s valve sequencing) : C08 certificate + timed correspondence in checks/c07.py.
-/
namespace Poupool.C07
open Poupool Poupool.Gen

def valvesOK (s : St) : Bool :=
  !s.bad &&
  (s.v Filtration.v_dev_drain == 0 || s.leaf == Filtration.leaf_wash_backwash || s.leaf == Filtration.leaf_wash_rinse) &&
  (s.v Filtration.v_dev_backwash == 0 || s.leaf == Filtration.leaf_wash_backwash)

theorem drain_backwash_only_in_wash : ∀ s, Reach filtrationSafetyDesc s → valvesOK s = true :=
  invariant_of_closed _ _ _ Cert.filtrationSafety_closed (by decide +kernel)

example : (statesOf filtrationSafetyReach).any (fun s => s.v Filtration.v_dev_drain == 1) = true := by decide +kernel

def isWash (l : Nat) : Bool := l == Filtration.leaf_wash_backwash || l == Filtration.leaf_wash_rinse

def washGuarded : Bool :=
  filtrationRows.all fun rs => rs.all fun r =>
    !(isWash r.dest && !isWash r.src) || r.req.contains (Filtration.g_tank_is_high, true)

theorem wash_needs_high_tank : washGuarded = true := by decide +kernel

def washRows : Bool :=
  ((filtrationRows.getD Filtration.leaf_wash_backwash []).all fun r =>
      (r.trig == Filtration.m_rinse && r.dest == Filtration.leaf_wash_rinse) ||
      (r.trig == Filtration.m_halt && r.dest == Filtration.leaf_halt)) &&
  ((filtrationRows.getD Filtration.leaf_wash_rinse []).all fun r =>
      (r.trig == Filtration.m_eco && r.dest == Filtration.leaf_eco_compute) ||
      (r.trig == Filtration.m_halt && r.dest == Filtration.leaf_halt))

theorem wash_cycle_rows : washRows = true := by decide +kernel

/-- does a program contain the effect `tag` on every path?  (straight-line programs: simply "contains") -/
def emits (tag : Nat) : Stmt → Bool
  | .seq a b => emits tag a || emits tag b
  | .emit t => t == tag
  | .scope b => emits tag b
  | .doRepeat b _ => emits tag b
  | _ => false

def rinseExitPublishes : Bool :=
  ((filtrationRows.getD Filtration.leaf_wash_rinse []).all fun r => r.pre.contains Filtration.cb_on_exit_wash_rinse) &&
  emits (names.idxOf "publish:filtration_backwash_last:retain")
    (filtrationSafetyDesc.callbacks.getD Filtration.cb_on_exit_wash_rinse .skip)

theorem rinse_exit_publishes : rinseExitPublishes = true := by decide +kernel

/-! ## automatic start: only when due (Model/Guards.lean `startBackwash`, compared with the real `__start_backwash`) -/
open Poupool.Guards in
/-- the automatic backwash is requested only when at least `period` whole days have passed since the last one and the
    tank is high; the dispatcher accepts periods 0..90 and the setter refuses < 2 (C14), so period ∈ 2..90 -/
theorem auto_backwash_only_when_due (now last period : Int) (high : Bool) :
    startBackwash now last period high = true → now - last ≥ period * 86400000000 ∧ high = true := by
  intro h
  simp only [startBackwash, Bool.and_eq_true, decide_eq_true_eq] at h
  exact h

example : Poupool.Guards.startBackwash (30 * 86400000000) 0 30 true = true := by decide

end Poupool.C07
