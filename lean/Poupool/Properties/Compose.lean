import Poupool.Proofs.ComposeDiscipline
import Poupool.Proofs.ComposeRun
import Poupool.Properties.C01
/-!
# Composition of GENERATED master and GENERATED slave models (closes the gap of DESIGN.md §7)

`Model/Glue.lean` proves "master knows X halted ∧ X's inbox served ⇒ X halted" for a pair whose *master* is
hand-written (mHalt / mObserve / mTell / mMove on a ghost bit); that those operations are what the generated
master programs do was only true "by construction of the translator".  Here the master is the generated
description itself (`Model/Compose.lean`): its handlers are run by `stepE` (= `step` + the effects performed,
`Compose.stepE_proj`), their tell tags / answered questions are replayed against the slave's FIFO inbox while the
slave runs ITS generated `step`.

* `*_discipline` – the decidable checker `ghostDiscipline` (Proofs/ComposeDiscipline.lean) accepts the generated
  master: on every path of every callback / method program the ghost variable gets a "known halted" value only
  right after a halt-class tell tag or by the refinement of an observed answer (`is_halt()` TRUE, `is_heating()`
  FALSE), gets another value after every tell of a start message to X, `havoc` only forgets, and forgets in every
  allowed phase.  Kernel-evaluated on the generated programs; each instance comes with mutants it rejects.
* `Compose.masterOK_of_discipline` (soundness of the checker w.r.t. `execE`, induction over `Stmt`) and
  `Compose.halted_when_served` (induction over composed steps) then give, for EVERY interleaving of the composed
  system: master between two handlers ∧ ghost variable says halted ∧ none of its messages waits ⇒ X halted.
  `Compose.will_be_halted` is the un-settled form: whatever is in X's inbox now, once served X is halted.
* `*_composed_*` – with the master certificate (`C01.filtration_halt` …): master in phase `halt` (or any phase of
  the relevant list) ∧ X's inbox served ⇒ X in its halt phase.
* the tell tags are not typed in by hand: `tells_*` recompute them from the generated name table, check that every
  `tell:X.*` name is a message of X's alphabet, and recompute the allowed phases from the generated `havoc`.
* H1/H2 on the slaves are the ones of C01 (`decide +kernel` over the slave certificates).

Still assumed (as in Glue.lean): a handler of the master is atomic w.r.t. other messages to the MASTER (the slave
does run during it); the slave's guard question to the master is answered between two master handlers and is atomic
with the slave's transition; a start message that does not come from the master is always guarded that way (for
Disinfection / PWM / Heating-`force` this means: nobody else sends it); the translator emits the tag for every tell.
-/
namespace Poupool.ComposeProps
open Poupool Poupool.Gen Poupool.Compose

/-- every emitted tag `tell:<slave>.<m>` of the generated name table with `m` a message of the slave -/
def tellsOf (slave : String) (msgs : List String) : List (Nat × Msg) :=
  let pre := "tell:" ++ slave ++ "."
  (names.zipIdx).filterMap fun (nm, i) =>
    if pre.isPrefixOf nm then
      match msgs.idxOf? (nm.drop pre.length).toString with
      | some k => some (i, Msg.plain k)
      | none => none
    else none

/-- every name `tell:<slave>.<m>` of the table names a message of the slave (nothing is dropped by `tellsOf`) -/
def tellsResolved (slave : String) (msgs : List String) : Bool :=
  let pre := "tell:" ++ slave ++ "."
  names.all fun nm => !pre.isPrefixOf nm || (msgs.idxOf? (nm.drop pre.length).toString).isSome

/-- the leaves in which `havoc` forgets variable `v` -/
def havocLeaves (D : ActorDesc) (v : VarId) : List LeafId :=
  (D.havoc.filter (·.1 == v)).flatMap (·.2.1)

/-- all tell messages are in the slave's alphabet (no message of the master can block the slave's inbox) -/
def tellsInAlphabet (S : CSpec) : Bool := S.tells.all fun (_, m) => (allMsgs S.DX).contains m

def served (g : CSt) : Bool := g.inbox.all fun e => !e.1

theorem noMaster_of_served {g : CSt} (h : served g = true) : noMaster g.inbox := by
  intro e he
  simp only [served, List.all_eq_true, Bool.not_eq_true'] at h
  exact h e he

/-! ## Filtration ∥ Disinfection -/

def filtDis : CSpec :=
  { DM := filtrationSafetyDesc
    DX := C01.disinfectionSpec.D
    v := Filtration.v_rq_Disinfection
    isG := fun x => x == N.halt_
    tells := [(6, .plain Disinfection.m_halt), (10, .plain Disinfection.m_run)]
    isHaltMsg := C01.disinfectionSpec.isHaltMsg
    isHalt := C01.disinfectionSpec.isHalt
    isStart := C01.disinfectionSpec.isStart
    allowed := havocLeaves filtrationSafetyDesc Filtration.v_rq_Disinfection }

/-- the tag table is the one of the generated names; nothing forgets this variable (Disinfection is only ever
    started by Filtration), so a foreign `run` is always refused -/
theorem tells_filtDis : filtDis.tells = tellsOf "Disinfection" disinfectionMsgs ∧ tellsResolved "Disinfection" disinfectionMsgs = true ∧ tellsInAlphabet filtDis = true ∧
    filtDis.allowed = [] := by decide +kernel

theorem filtDis_discipline : ghostDiscipline filtDis = true := by decide +kernel

/-- the checker is not vacuous: it rejects a master that tells `run` without updating its knowledge, one that
    claims `halt` without telling it, and one that records `halt` after telling `run` -/
example :
    ghostDiscipline { filtDis with DM := { filtrationSafetyDesc with callbacks := [.emit 10] } } = false ∧
    ghostDiscipline { filtDis with DM := { filtrationSafetyDesc with callbacks := [.set 3 (.const 0)] } } = false ∧
    ghostDiscipline { filtDis with DM := { filtrationSafetyDesc with
      callbacks := [.seq (.emit 10) (.set 3 (.const 0))] } } = false ∧
    ghostDiscipline { filtDis with DM := { filtrationSafetyDesc with
      callbacks := [.seq (.emit 6) (.set 3 (.const 0)), .ite (.ask [(3, 0)] []) (.seq (.emit 10) (.set 3 (.const 11))) .skip] } }
      = true := by decide +kernel

theorem filtDis_masterOK : MasterOK filtDis := masterOK_of_discipline _ filtDis_discipline

theorem filtDis_slaveOK : SlaveOK filtDis := slaveOK_of_glue C01.disinfection_slave_ok

/-- **Filtration ∥ Disinfection, every interleaving**: Filtration between two handlers, its knowledge variable
    says `halt`, none of its messages waits in Disinfection's inbox ⇒ Disinfection is in `halt`. -/
theorem filtDis_halted_when_served {g : CSt} (h : CReach filtDis g) (hidle : g.todo = [])
    (hg : g.m.v Filtration.v_rq_Disinfection = N.halt_) (hs : noMaster g.inbox) :
    g.x.leaf = Disinfection.leaf_halt := by
  have := halted_when_served filtDis filtDis_masterOK filtDis_slaveOK h hidle
    (by simpa [filtDis, St.v] using hg) hs
  simpa [filtDis, C01.disinfectionSpec] using this

/-- non-vacuity (trivial instance; a run in which Disinfection is started and halted follows `filtDis_demo`) -/
example : CReach filtDis (cinit filtDis) ∧ (cinit filtDis).todo = [] ∧
    (cinit filtDis).m.v Filtration.v_rq_Disinfection = N.halt_ ∧ noMaster (cinit filtDis).inbox :=
  ⟨CReach.init, rfl, by decide, by simp [noMaster, cinit]⟩

/-- with the master certificate: Filtration in phase `halt`, Disinfection's inbox served ⇒ Disinfection in `halt` -/
theorem filtDis_composed_halt {g : CSt} (h : CReach filtDis g) (hidle : g.todo = [])
    (hm : g.m.leaf = Filtration.leaf_halt) (hs : noMaster g.inbox) : g.x.leaf = Disinfection.leaf_halt := by
  have hinv := C01.filtration_halt g.m (creach_m filtDis h)
  simp only [C01.filtrationHaltOK, hm, bne_self_eq_false, Bool.false_or, Bool.and_eq_true, beq_iff_eq] at hinv
  exact filtDis_halted_when_served h hidle (by simp [hinv]) hs

example : CReach filtDis (cinit filtDis) ∧ (cinit filtDis).todo = [] ∧
    (cinit filtDis).m.leaf = Filtration.leaf_halt ∧ noMaster (cinit filtDis).inbox :=
  ⟨CReach.init, rfl, rfl, by simp [noMaster, cinit]⟩

/-- the phases in which the dosing must be off (C02's no-treatment list) -/
def noTreatment (l : Nat) : Bool :=
  [Filtration.leaf_halt, Filtration.leaf_closing, Filtration.leaf_opening_standby, Filtration.leaf_opening_overflow,
   Filtration.leaf_eco_waiting, Filtration.leaf_eco_tank, Filtration.leaf_standby_boost, Filtration.leaf_overflow_boost,
   Filtration.leaf_sweep, Filtration.leaf_wash_backwash, Filtration.leaf_wash_rinse, Filtration.leaf_wintering_stir,
   Filtration.leaf_wintering_waiting].contains l

theorem filtration_no_treatment : ∀ s, Reach filtrationSafetyDesc s →
    (!noTreatment s.leaf || s.v Filtration.v_rq_Disinfection == N.halt_) = true :=
  invariant_of_closed _ _ _ Cert.filtrationSafety_closed (by decide +kernel)

/-- Filtration in ANY no-treatment phase, Disinfection's inbox served ⇒ Disinfection in `halt` -/
theorem filtDis_composed_no_treatment {g : CSt} (h : CReach filtDis g) (hidle : g.todo = [])
    (hm : noTreatment g.m.leaf = true) (hs : noMaster g.inbox) : g.x.leaf = Disinfection.leaf_halt := by
  have hinv := filtration_no_treatment g.m (creach_m filtDis h)
  simp only [hm, Bool.not_true, Bool.false_or, beq_iff_eq] at hinv
  exact filtDis_halted_when_served h hidle hinv hs

/-- A composed run: `eco` → `eco_compute`, its timer → `eco_normal` where Filtration asks `is_halt` (TRUE) and tells
    `run`; Disinfection serves it (→ `waiting`); then `halt`: Filtration's question is answered FALSE, it tells
    `halt`; Disinfection serves it. -/
def filtDisStart : List Act :=
  [.master (.plain Filtration.m_eco) (fun o => o.1.armed == some Filtration.m_eco_normal), .drain,
   .master (.delayed Filtration.m_eco_normal) (fun o => o.2.contains (.emit 10)), .drain,
   .deliver (fun s => s.leaf == Disinfection.leaf_waiting)]

def filtDisStop : List Act :=
  [.master (.plain Filtration.m_halt) (fun o => o.2.contains (.emit 6) && !o.2.contains (.ask true [(3, 0)] [])),
   .drain, .serve (fun s => s.leaf == Disinfection.leaf_halt)]

theorem filtDis_demo :
    ((run filtDis filtDisStart (cinit filtDis)).bind fun g1 =>
      (run filtDis filtDisStop g1).map fun g2 =>
        g1.m.leaf == Filtration.leaf_eco_normal && g1.x.leaf == Disinfection.leaf_waiting &&
        g2.todo.isEmpty && g2.m.leaf == Filtration.leaf_halt && served g2 &&
        g2.x.leaf == Disinfection.leaf_halt) = some true := by decide +kernel

/-- non-vacuity of `filtDis_composed_halt` (and of the two theorems before it): the hypotheses hold in a state
    reached by a run in which Disinfection was started by Filtration and then halted -/
example : ∃ g1 g2, CReach filtDis g1 ∧ g1.x.leaf = Disinfection.leaf_waiting ∧
    run filtDis filtDisStop g1 = some g2 ∧ CReach filtDis g2 ∧ g2.todo = [] ∧
    g2.m.leaf = Filtration.leaf_halt ∧ noMaster g2.inbox := by
  have h := filtDis_demo
  cases h1 : run filtDis filtDisStart (cinit filtDis) with
  | none => simp [h1] at h
  | some g1 =>
      cases h2 : run filtDis filtDisStop g1 with
      | none => simp [h1, h2] at h
      | some g2 =>
          simp only [h1, h2, Option.bind_some, Option.map_some, Option.some.injEq, Bool.and_eq_true, beq_iff_eq,
            List.isEmpty_iff] at h
          have r1 := run_sound filtDis _ _ _ CReach.init h1
          exact ⟨g1, g2, r1, h.1.1.1.1.2, h2, run_sound filtDis _ _ _ r1 h2, h.1.1.1.2, h.1.1.2,
            noMaster_of_served h.1.2⟩

/-! ## Filtration ∥ Swim  (Swim may start on a third party's request while Filtration is in an allowed phase) -/

def filtSwim : CSpec :=
  { DM := filtrationSafetyDesc
    DX := C01.swimSpec.D
    v := Filtration.v_rq_Swim
    isG := fun x => x == N.halt_
    tells := [(7, .plain Swim.m_halt), (35, .plain Swim.m_wintering)]
    isHaltMsg := C01.swimSpec.isHaltMsg
    isHalt := C01.swimSpec.isHalt
    isStart := C01.swimSpec.isStart
    allowed := havocLeaves filtrationSafetyDesc Filtration.v_rq_Swim }

/-- the allowed phases are the ones the translator reads from the source of Swim's guard `filtration_allow_swim` -/
theorem tells_filtSwim : filtSwim.tells = tellsOf "Swim" swimMsgs ∧ tellsResolved "Swim" swimMsgs = true ∧ tellsInAlphabet filtSwim = true ∧
    filtSwim.allowed = [Filtration.leaf_standby_normal, Filtration.leaf_overflow_normal, Filtration.leaf_comfort,
      Filtration.leaf_wintering_stir, Filtration.leaf_wintering_waiting] := by decide +kernel

theorem filtSwim_discipline : ghostDiscipline filtSwim = true := by decide +kernel

/-- not vacuous: without the `havoc` entry (Filtration would keep believing "halted" in the phases in which the
    dispatcher may start Swim) the checker fails -/
example : ghostDiscipline { filtSwim with DM := { filtrationSafetyDesc with havoc := [] } } = false := by
  decide +kernel

theorem filtSwim_masterOK : MasterOK filtSwim := masterOK_of_discipline _ filtSwim_discipline

theorem filtSwim_slaveOK : SlaveOK filtSwim := slaveOK_of_glue C01.swim_slave_ok

/-- **Filtration ∥ Swim, every interleaving** (third parties may queue `timed` / `continuous` / `wintering` at any
    time; they are effective only while Filtration is in an allowed phase) -/
theorem filtSwim_halted_when_served {g : CSt} (h : CReach filtSwim g) (hidle : g.todo = [])
    (hg : g.m.v Filtration.v_rq_Swim = N.halt_) (hs : noMaster g.inbox) : g.x.leaf = Swim.leaf_halt := by
  have := halted_when_served filtSwim filtSwim_masterOK filtSwim_slaveOK h hidle
    (by simpa [filtSwim, St.v] using hg) hs
  simpa [filtSwim, C01.swimSpec] using this

example : CReach filtSwim (cinit filtSwim) ∧ (cinit filtSwim).todo = [] ∧
    (cinit filtSwim).m.v Filtration.v_rq_Swim = N.halt_ ∧ noMaster (cinit filtSwim).inbox :=
  ⟨CReach.init, rfl, by decide, by simp [noMaster, cinit]⟩

theorem filtSwim_composed_halt {g : CSt} (h : CReach filtSwim g) (hidle : g.todo = [])
    (hm : g.m.leaf = Filtration.leaf_halt) (hs : noMaster g.inbox) : g.x.leaf = Swim.leaf_halt := by
  have hinv := C01.filtration_halt g.m (creach_m filtSwim h)
  simp only [C01.filtrationHaltOK, hm, bne_self_eq_false, Bool.false_or, Bool.and_eq_true, beq_iff_eq] at hinv
  exact filtSwim_halted_when_served h hidle (by simp [hinv]) hs

example : CReach filtSwim (cinit filtSwim) ∧ (cinit filtSwim).todo = [] ∧
    (cinit filtSwim).m.leaf = Filtration.leaf_halt ∧ noMaster (cinit filtSwim).inbox :=
  ⟨CReach.init, rfl, rfl, by simp [noMaster, cinit]⟩

/-- the phases in which the counter-current pump must never run (C13's list) -/
def neverList (l : Nat) : Bool :=
  [Filtration.leaf_halt, Filtration.leaf_eco_compute, Filtration.leaf_eco_normal, Filtration.leaf_eco_tank,
   Filtration.leaf_eco_waiting, Filtration.leaf_heating_running, Filtration.leaf_heating_delay_none,
   Filtration.leaf_heating_delay_standby, Filtration.leaf_heating_delay_overflow, Filtration.leaf_wash_backwash,
   Filtration.leaf_wash_rinse, Filtration.leaf_opening_standby, Filtration.leaf_opening_overflow,
   Filtration.leaf_closing].contains l

theorem filtration_never_list : ∀ s, Reach filtrationSafetyDesc s →
    (!neverList s.leaf || s.v Filtration.v_rq_Swim == N.halt_) = true :=
  invariant_of_closed _ _ _ Cert.filtrationSafety_closed (by decide +kernel)

theorem filtSwim_composed_never_list {g : CSt} (h : CReach filtSwim g) (hidle : g.todo = [])
    (hm : neverList g.m.leaf = true) (hs : noMaster g.inbox) : g.x.leaf = Swim.leaf_halt := by
  have hinv := filtration_never_list g.m (creach_m filtSwim h)
  simp only [hm, Bool.not_true, Bool.false_or, beq_iff_eq] at hinv
  exact filtSwim_halted_when_served h hidle hinv hs

/-- A composed run: a `timed` request while Filtration is halted is refused; `wintering`: Filtration tells Swim
    `wintering`, Swim serves it and leaves `halt`; a third party's `continuous` is now accepted territory (allowed
    phase); then `halt`: Filtration tells `halt`, Swim serves everything. -/
def filtSwimStart : List Act :=
  [.other (.plain Swim.m_timed), .deliver (fun _ => true),
   .master (.plain Filtration.m_wintering) (fun o => o.2.contains (.emit 35)), .drain,
   .deliver (fun s => s.leaf != Swim.leaf_halt)]

def filtSwimStop : List Act :=
  [.master (.plain Filtration.m_halt) (fun o => o.2.contains (.emit 7) && !o.2.contains (.ask true [(4, 0)] [])),
   .drain, .serve (fun s => s.leaf == Swim.leaf_halt)]

theorem filtSwim_demo :
    ((run filtSwim (filtSwimStart.take 2) (cinit filtSwim)).bind fun g0 =>
     (run filtSwim (filtSwimStart.drop 2) g0).bind fun g1 =>
      (run filtSwim filtSwimStop g1).map fun g2 =>
        g0.x.leaf == Swim.leaf_halt && g0.inbox.isEmpty &&
        filtSwim.allowed.contains g1.m.leaf && g1.x.leaf != Swim.leaf_halt &&
        g2.todo.isEmpty && g2.m.leaf == Filtration.leaf_halt && served g2 &&
        g2.x.leaf == Swim.leaf_halt) = some true := by decide +kernel

example : ∃ g1 g2, CReach filtSwim g1 ∧ g1.x.leaf ≠ Swim.leaf_halt ∧
    run filtSwim filtSwimStop g1 = some g2 ∧ CReach filtSwim g2 ∧ g2.todo = [] ∧
    g2.m.leaf = Filtration.leaf_halt ∧ noMaster g2.inbox := by
  have h := filtSwim_demo
  cases h0 : run filtSwim (filtSwimStart.take 2) (cinit filtSwim) with
  | none => simp [h0] at h
  | some g0 =>
    cases h1 : run filtSwim (filtSwimStart.drop 2) g0 with
    | none => simp [h0, h1] at h
    | some g1 =>
      cases h2 : run filtSwim filtSwimStop g1 with
      | none => simp [h0, h1, h2] at h
      | some g2 =>
          simp only [h0, h1, h2, Option.bind_some, Option.map_some, Option.some.injEq, Bool.and_eq_true, beq_iff_eq,
            bne_iff_ne, ne_eq, List.isEmpty_iff] at h
          have r1 := run_sound filtSwim _ _ _ (run_sound filtSwim _ _ _ CReach.init h0) h1
          exact ⟨g1, g2, r1, h.1.1.1.1.2, h2, run_sound filtSwim _ _ _ r1 h2, h.1.1.1.2, h.1.1.2,
            noMaster_of_served h.1.2⟩

/-! ## Filtration ∥ Heating, forcing side (`force` is only ever told by Filtration) -/

def filtHeat : CSpec :=
  { DM := filtrationSafetyDesc
    DX := C01.heatingForceSpec.D
    v := Filtration.v_rq_Heating
    isG := fun x => x == N.halt_ || x == N.wait_
    tells := [(3, .plain Heating.m_wait), (20, .plain Heating.m_halt), (45, .plain Heating.m_force)]
    isHaltMsg := C01.heatingForceSpec.isHaltMsg
    isHalt := C01.heatingForceSpec.isHalt
    isStart := C01.heatingForceSpec.isStart
    allowed := [] }

theorem tells_filtHeat : filtHeat.tells = tellsOf "Heating" heatingMsgs ∧ tellsResolved "Heating" heatingMsgs = true ∧ tellsInAlphabet filtHeat = true := by
  decide +kernel

theorem filtHeat_discipline : ghostDiscipline filtHeat = true := by decide +kernel

theorem filtHeat_masterOK : MasterOK filtHeat := masterOK_of_discipline _ filtHeat_discipline

theorem filtHeat_slaveOK : SlaveOK filtHeat := slaveOK_of_glue C01.heating_force_slave_ok

/-- Filtration's last word to Heating is `halt` or `wait` (or Heating answered halted), served ⇒ Heating is not
    `forcing` -/
theorem filtHeat_not_forcing_when_served {g : CSt} (h : CReach filtHeat g) (hidle : g.todo = [])
    (hg : g.m.v Filtration.v_rq_Heating = N.halt_ ∨ g.m.v Filtration.v_rq_Heating = N.wait_)
    (hs : noMaster g.inbox) : g.x.leaf ≠ Heating.leaf_forcing := by
  have := halted_when_served filtHeat filtHeat_masterOK filtHeat_slaveOK h hidle
    (by simpa [filtHeat, St.v] using hg) hs
  simpa [filtHeat, C01.heatingForceSpec] using this

example : CReach filtHeat (cinit filtHeat) ∧ (cinit filtHeat).todo = [] ∧
    (cinit filtHeat).m.v Filtration.v_rq_Heating = N.halt_ ∧ noMaster (cinit filtHeat).inbox :=
  ⟨CReach.init, rfl, by decide, by simp [noMaster, cinit]⟩

theorem filtHeat_composed_halt {g : CSt} (h : CReach filtHeat g) (hidle : g.todo = [])
    (hm : g.m.leaf = Filtration.leaf_halt) (hs : noMaster g.inbox) : g.x.leaf ≠ Heating.leaf_forcing := by
  have hinv := C01.filtration_halt g.m (creach_m filtHeat h)
  simp only [C01.filtrationHaltOK, hm, bne_self_eq_false, Bool.false_or, Bool.and_eq_true, beq_iff_eq] at hinv
  exact filtHeat_not_forcing_when_served h hidle (Or.inl (by simp [hinv])) hs

/-- A composed run: eco → standby (cover opens) → comfort, whose poll tells Heating `force`; Heating serves it
    (→ `forcing`); then `halt`: Filtration tells `wait` and `halt`; Heating serves both. -/
def filtHeatStart : List Act :=
  [.master (.plain Filtration.m_eco) (fun _ => true), .drain, .serve (fun _ => true),
   .master (.plain Filtration.m_standby) (fun o => o.1.leaf == Filtration.leaf_opening_standby), .drain,
   .serve (fun _ => true),
   .master (.delayed Filtration.m_do_repeat_opening) (fun o => o.1.armed == some Filtration.m_opened), .drain,
   .master (.delayed Filtration.m_opened) (fun o => o.1.leaf == Filtration.leaf_standby_boost), .drain,
   .serve (fun _ => true),
   .master (.plain Filtration.m_comfort) (fun o => o.1.leaf == Filtration.leaf_comfort), .drain,
   .serve (fun _ => true),
   .master (.delayed Filtration.m_do_repeat_comfort) (fun o => o.2.contains (.emit 45)), .drain,
   .serve (fun s => s.leaf == Heating.leaf_forcing)]

def filtHeatStop : List Act :=
  [.master (.plain Filtration.m_halt)
     (fun o => o.2.contains (.emit 20) && !o.2.contains (.ask true [(0, 0), (1, 1)] [])), .drain,
   .serve (fun _ => true)]

theorem filtHeat_demo :
    ((run filtHeat filtHeatStart (cinit filtHeat)).bind fun g1 =>
      (run filtHeat filtHeatStop g1).map fun g2 =>
        g1.m.leaf == Filtration.leaf_comfort && g1.x.leaf == Heating.leaf_forcing &&
        g2.todo.isEmpty && g2.m.leaf == Filtration.leaf_halt && served g2 &&
        g2.x.leaf == Heating.leaf_halt) = some true := by decide +kernel

example : ∃ g1 g2, CReach filtHeat g1 ∧ g1.x.leaf = Heating.leaf_forcing ∧
    run filtHeat filtHeatStop g1 = some g2 ∧ CReach filtHeat g2 ∧ g2.todo = [] ∧
    g2.m.leaf = Filtration.leaf_halt ∧ noMaster g2.inbox := by
  have h := filtHeat_demo
  cases h1 : run filtHeat filtHeatStart (cinit filtHeat) with
  | none => simp [h1] at h
  | some g1 =>
      cases h2 : run filtHeat filtHeatStop g1 with
      | none => simp [h1, h2] at h
      | some g2 =>
          simp only [h1, h2, Option.bind_some, Option.map_some, Option.some.injEq, Bool.and_eq_true, beq_iff_eq,
            List.isEmpty_iff] at h
          have r1 := run_sound filtHeat _ _ _ CReach.init h1
          exact ⟨g1, g2, r1, h.1.1.1.1.2, h2, run_sound filtHeat _ _ _ r1 h2, h.1.1.1.2, h.1.1.2,
            noMaster_of_served h.1.2⟩

/-! ## Filtration ∥ Heating, scheduled side (`heat` is Heating's own request, guarded by `filtration_allow_heating`)

  Here the generated master does NOT do what the hand-written master of `Model/Glue.lean` does: in `comfort`
  Filtration tells Heating `force` and keeps its knowledge "Heating is not in its scheduled `heating` phase"
  (`ks:Heating = 1`), whereas `Glue.GStep.mTell` clears the ghost bit on every tell that is not halt-class.  The
  composed model is finer: `force` is neither halt-class nor a start message of this pair, so by H2 it cannot take
  Heating into `heating`, and the checker accepts it without a ghost update. -/

def filtHeatSched : CSpec :=
  { DM := filtrationSafetyDesc
    DX := C01.heatingHeatSpec.D
    v := Filtration.v_ks_Heating
    isG := fun x => x == 1
    tells := [(3, .plain Heating.m_wait), (20, .plain Heating.m_halt), (45, .plain Heating.m_force)]
    isHaltMsg := C01.heatingHeatSpec.isHaltMsg
    isHalt := C01.heatingHeatSpec.isHalt
    isStart := C01.heatingHeatSpec.isStart
    allowed := havocLeaves filtrationSafetyDesc Filtration.v_ks_Heating }

theorem tells_filtHeatSched : filtHeatSched.tells = tellsOf "Heating" heatingMsgs ∧ tellsResolved "Heating" heatingMsgs = true ∧
    tellsInAlphabet filtHeatSched = true ∧ filtHeatSched.allowed = [Filtration.leaf_heating_running] := by
  decide +kernel

theorem filtHeatSched_discipline : ghostDiscipline filtHeatSched = true := by decide +kernel

/-- not vacuous: if `force` could start the scheduled phase (i.e. were a start message of this pair) the generated
    master would be rejected, because it tells `force` without forgetting -/
example : ghostDiscipline { filtHeatSched with isStart := fun m => m == .plain Heating.m_heat || m == .plain Heating.m_force }
    = false := by decide +kernel

theorem filtHeatSched_masterOK : MasterOK filtHeatSched := masterOK_of_discipline _ filtHeatSched_discipline

theorem filtHeatSched_slaveOK : SlaveOK filtHeatSched := slaveOK_of_glue C01.heating_heat_slave_ok

/-- Filtration knows "Heating not heating" (`ks:Heating = 1`), served ⇒ Heating is not in `heating` -/
theorem filtHeatSched_not_heating_when_served {g : CSt} (h : CReach filtHeatSched g) (hidle : g.todo = [])
    (hg : g.m.v Filtration.v_ks_Heating = 1) (hs : noMaster g.inbox) : g.x.leaf ≠ Heating.leaf_heating := by
  have := halted_when_served filtHeatSched filtHeatSched_masterOK filtHeatSched_slaveOK h hidle
    (by simpa [filtHeatSched, St.v] using hg) hs
  simpa [filtHeatSched, C01.heatingHeatSpec] using this

example : CReach filtHeatSched (cinit filtHeatSched) ∧ (cinit filtHeatSched).todo = [] ∧
    (cinit filtHeatSched).m.v Filtration.v_ks_Heating = 1 ∧ noMaster (cinit filtHeatSched).inbox :=
  ⟨CReach.init, rfl, by decide, by simp [noMaster, cinit]⟩

/-- the master invariant of C06: outside `heating_running` Filtration knows Heating is not `heating` -/
theorem filtration_knows_not_heating : ∀ s, Reach filtrationSafetyDesc s →
    (s.v Filtration.v_ks_Heating == 1 || s.leaf == Filtration.leaf_heating_running) = true :=
  invariant_of_closed _ _ _ Cert.filtrationSafety_closed (by decide +kernel)

/-- Filtration in any phase other than `heating_running`, Heating's inbox served ⇒ Heating is not in `heating` -/
theorem filtHeatSched_composed {g : CSt} (h : CReach filtHeatSched g) (hidle : g.todo = [])
    (hm : g.m.leaf ≠ Filtration.leaf_heating_running) (hs : noMaster g.inbox) :
    g.x.leaf ≠ Heating.leaf_heating := by
  have hinv := filtration_knows_not_heating g.m (creach_m filtHeatSched h)
  simp only [Bool.or_eq_true, beq_iff_eq] at hinv
  rcases hinv with hinv | hinv
  · exact filtHeatSched_not_heating_when_served h hidle hinv hs
  · exact absurd hinv hm

/-- A composed run with a start that does NOT come from the master: eco → eco_normal → `heat` →
    `heating_running` (allowed phase: Filtration forgets); Heating's own `heat` request is accepted (→ `heating`);
    then `halt`: leaving `heating_running` Filtration tells `wait`, entering `halt` it tells `halt`; Heating serves
    both and Filtration again knows "not heating". -/
def filtHeatSchedStart : List Act :=
  [.master (.plain Filtration.m_eco) (fun o => o.1.armed == some Filtration.m_eco_normal), .drain,
   .serve (fun _ => true),
   .master (.delayed Filtration.m_eco_normal) (fun o => o.1.leaf == Filtration.leaf_eco_normal), .drain,
   .serve (fun _ => true),
   .master (.plain Filtration.m_heat) (fun o => o.1.leaf == Filtration.leaf_heating_running), .drain,
   .serve (fun _ => true),
   .other (.plain Heating.m_heat), .serve (fun s => s.leaf == Heating.leaf_heating)]

def filtHeatSchedStop : List Act :=
  [.master (.plain Filtration.m_halt)
     (fun o => o.2.contains (.emit 3) && o.2.contains (.emit 20) &&
       !o.2.contains (.ask true [(0, 0), (1, 1)] []) && !o.2.contains (.ask false [] [(1, 1)])), .drain,
   .serve (fun _ => true)]

theorem filtHeatSched_demo :
    ((run filtHeatSched filtHeatSchedStart (cinit filtHeatSched)).bind fun g1 =>
      (run filtHeatSched filtHeatSchedStop g1).map fun g2 =>
        g1.m.leaf == Filtration.leaf_heating_running && g1.m.v Filtration.v_ks_Heating == 0 &&
        g1.x.leaf == Heating.leaf_heating &&
        g2.todo.isEmpty && g2.m.leaf == Filtration.leaf_halt && served g2 &&
        g2.x.leaf == Heating.leaf_halt) = some true := by decide +kernel

example : ∃ g1 g2, CReach filtHeatSched g1 ∧ g1.x.leaf = Heating.leaf_heating ∧
    run filtHeatSched filtHeatSchedStop g1 = some g2 ∧ CReach filtHeatSched g2 ∧ g2.todo = [] ∧
    g2.m.leaf ≠ Filtration.leaf_heating_running ∧ noMaster g2.inbox := by
  have h := filtHeatSched_demo
  cases h1 : run filtHeatSched filtHeatSchedStart (cinit filtHeatSched) with
  | none => simp [h1] at h
  | some g1 =>
      cases h2 : run filtHeatSched filtHeatSchedStop g1 with
      | none => simp [h1, h2] at h
      | some g2 =>
          simp only [h1, h2, Option.bind_some, Option.map_some, Option.some.injEq, Bool.and_eq_true, beq_iff_eq,
            List.isEmpty_iff] at h
          have r1 := run_sound filtHeatSched _ _ _ CReach.init h1
          exact ⟨g1, g2, r1, h.1.1.1.1.2, h2, run_sound filtHeatSched _ _ _ r1 h2, h.1.1.1.2,
            by rw [h.1.1.2]; decide, noMaster_of_served h.1.2⟩

/-! ## Disinfection ∥ PWM(pH)  (second link of the chain Filtration → Disinfection → PWM) -/

def disPwm : CSpec :=
  { DM := disinfectionSafetyDesc
    DX := C01.pwmSpec.D
    v := Disinfection.v_rq_PWMph
    isG := fun x => x == N.do_cancel_ || x == 0        -- told `do_cancel` last, or never told anything
    tells := [(59, .plain PWM.m_do_cancel), (65, .plain PWM.m_do_run)]
    isHaltMsg := C01.pwmSpec.isHaltMsg
    isHalt := C01.pwmSpec.isHalt
    isStart := C01.pwmSpec.isStart
    allowed := havocLeaves disinfectionSafetyDesc Disinfection.v_rq_PWMph }

theorem tells_disPwm : disPwm.tells = tellsOf "PWMph" pwmMsgs ∧ tellsResolved "PWMph" pwmMsgs = true ∧ tellsInAlphabet disPwm = true ∧
    disPwm.allowed = [] := by decide +kernel

theorem disPwm_discipline : ghostDiscipline disPwm = true := by decide +kernel

theorem disPwm_masterOK : MasterOK disPwm := masterOK_of_discipline _ disPwm_discipline

theorem disPwm_slaveOK : SlaveOK disPwm := slaveOK_of_glue C01.pwm_slave_ok

/-- **Disinfection ∥ PWM, every interleaving**: Disinfection's last word to the pH loop is `do_cancel` (or nothing
    yet), served ⇒ the dosing pump is off and the loop is disarmed -/
theorem disPwm_off_when_served {g : CSt} (h : CReach disPwm g) (hidle : g.todo = [])
    (hg : g.m.v Disinfection.v_rq_PWMph = N.do_cancel_ ∨ g.m.v Disinfection.v_rq_PWMph = 0)
    (hs : noMaster g.inbox) : g.x.v PWM.v_dev_pump = 0 ∧ g.x.armed = none := by
  have := halted_when_served disPwm disPwm_masterOK disPwm_slaveOK h hidle
    (by simpa [disPwm, St.v] using hg) hs
  simpa [disPwm, C01.pwmSpec] using this

example : CReach disPwm (cinit disPwm) ∧ (cinit disPwm).todo = [] ∧
    (cinit disPwm).m.v Disinfection.v_rq_PWMph = 0 ∧ noMaster (cinit disPwm).inbox :=
  ⟨CReach.init, rfl, by decide, by simp [noMaster, cinit]⟩

/-- with the master certificate: Disinfection in `halt`, the loop's inbox served ⇒ pump off -/
theorem disPwm_composed_halt {g : CSt} (h : CReach disPwm g) (hidle : g.todo = [])
    (hm : g.m.leaf = Disinfection.leaf_halt) (hs : noMaster g.inbox) :
    g.x.v PWM.v_dev_pump = 0 ∧ g.x.armed = none := by
  have hinv := C01.disinfection_cancels_pwm_when_halted g.m (creach_m disPwm h)
  simp only [C01.disinfectionOutOK, hm, bne_self_eq_false, Bool.false_or, Bool.and_eq_true, Bool.or_eq_true,
    beq_iff_eq] at hinv
  exact disPwm_off_when_served h hidle hinv.2.1 hs

/-- A composed run: `run` → `waiting`, its timer → `running_*` where Disinfection tells the loop `do_run`; the loop
    serves it and switches the pump on; `halt`: Disinfection tells `do_cancel`; the loop serves it. -/
def disPwmStart : List Act :=
  [.master (.plain Disinfection.m_run) (fun o => o.1.leaf == Disinfection.leaf_waiting), .drain,
   .master (.delayed Disinfection.m_run) (fun o => o.2.contains (.emit 65)), .drain,
   .deliver (fun s => s.v PWM.v_dev_pump == 1)]

def disPwmStop : List Act :=
  [.master (.plain Disinfection.m_halt) (fun o => o.2.contains (.emit 59)), .drain, .serve (fun _ => true)]

theorem disPwm_demo :
    ((run disPwm disPwmStart (cinit disPwm)).bind fun g1 =>
      (run disPwm disPwmStop g1).map fun g2 =>
        g1.x.v PWM.v_dev_pump == 1 && g1.x.armed == some PWM.m_do_run &&
        g2.todo.isEmpty && g2.m.leaf == Disinfection.leaf_halt && served g2 &&
        g2.x.v PWM.v_dev_pump == 0) = some true := by decide +kernel

example : ∃ g1 g2, CReach disPwm g1 ∧ g1.x.v PWM.v_dev_pump = 1 ∧
    run disPwm disPwmStop g1 = some g2 ∧ CReach disPwm g2 ∧ g2.todo = [] ∧
    g2.m.leaf = Disinfection.leaf_halt ∧ noMaster g2.inbox := by
  have h := disPwm_demo
  cases h1 : run disPwm disPwmStart (cinit disPwm) with
  | none => simp [h1] at h
  | some g1 =>
      cases h2 : run disPwm disPwmStop g1 with
      | none => simp [h1, h2] at h
      | some g2 =>
          simp only [h1, h2, Option.bind_some, Option.map_some, Option.some.injEq, Bool.and_eq_true, beq_iff_eq,
            List.isEmpty_iff] at h
          have r1 := run_sound disPwm _ _ _ CReach.init h1
          exact ⟨g1, g2, r1, h.1.1.1.1.1, h2, run_sound disPwm _ _ _ r1 h2, h.1.1.1.2, h.1.1.2,
            noMaster_of_served h.1.2⟩

/-! ## Disinfection ∥ PWM(chlorine) -/

def disPwmCl : CSpec :=
  { disPwm with
    v := Disinfection.v_rq_PWMcl
    tells := [(61, .plain PWM.m_do_cancel), (68, .plain PWM.m_do_run)]
    allowed := havocLeaves disinfectionSafetyDesc Disinfection.v_rq_PWMcl }

theorem tells_disPwmCl : disPwmCl.tells = tellsOf "PWMcl" pwmMsgs ∧ tellsResolved "PWMcl" pwmMsgs = true ∧ tellsInAlphabet disPwmCl = true ∧
    disPwmCl.allowed = [] := by decide +kernel

theorem disPwmCl_discipline : ghostDiscipline disPwmCl = true := by decide +kernel

theorem disPwmCl_masterOK : MasterOK disPwmCl := masterOK_of_discipline _ disPwmCl_discipline

theorem disPwmCl_slaveOK : SlaveOK disPwmCl := slaveOK_of_glue C01.pwm_slave_ok

theorem disPwmCl_composed_halt {g : CSt} (h : CReach disPwmCl g) (hidle : g.todo = [])
    (hm : g.m.leaf = Disinfection.leaf_halt) (hs : noMaster g.inbox) :
    g.x.v PWM.v_dev_pump = 0 ∧ g.x.armed = none := by
  have hinv := C01.disinfection_cancels_pwm_when_halted g.m (creach_m disPwmCl h)
  simp only [C01.disinfectionOutOK, hm, bne_self_eq_false, Bool.false_or, Bool.and_eq_true, Bool.or_eq_true,
    beq_iff_eq] at hinv
  have := halted_when_served disPwmCl disPwmCl_masterOK disPwmCl_slaveOK h hidle
    (by simpa [disPwmCl, disPwm, St.v] using hinv.2.2) hs
  simpa [disPwmCl, disPwm, C01.pwmSpec] using this

example : CReach disPwmCl (cinit disPwmCl) ∧ (cinit disPwmCl).todo = [] ∧
    (cinit disPwmCl).m.leaf = Disinfection.leaf_halt ∧ noMaster (cinit disPwmCl).inbox :=
  ⟨CReach.init, rfl, rfl, by simp [noMaster, cinit]⟩

end Poupool.ComposeProps

/-! ## Side condition of the pair models, checked: only the master starts the slave

The pair models refuse a start message that does not come from the master unless the master's phase is in `allowed`
(`[]` for Disinfection, the PWMs and Heating's forcing side: "nobody else sends it").  `Gen.senders` lists every plain
message any code sends (dispatcher table, tells, asks, self-tells — regenerated); for these pairs the only sender of a
start message is the master.  (Swim's and the scheduled Heating's own starts are guarded rows: `C13.swim_start_is_guarded`,
C06.) -/
namespace Poupool.ComposeProps
open Poupool Poupool.Gen Poupool.Compose

/-- who sends `receiver` a message that can take it out of its halted states -/
def startSenders (receiver : String) (msgs : List String) (isStart : Msg → Bool) : List String :=
  ((senders.filter fun (_, r, m) => r == receiver && msgs.contains m && isStart (.plain (msgs.idxOf m))).map (·.1)).eraseDups

theorem only_master_starts :
    startSenders "Disinfection" disinfectionMsgs filtDis.isStart = ["Filtration"] ∧
    startSenders "PWMph" pwmMsgs disPwm.isStart = ["Disinfection"] ∧
    startSenders "PWMcl" pwmMsgs disPwmCl.isStart = ["Disinfection"] ∧
    startSenders "Heating" heatingMsgs filtHeat.isStart = ["Filtration"] := by decide +kernel

end Poupool.ComposeProps
