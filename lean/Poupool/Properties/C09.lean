import Poupool.Model.Blocking
import Poupool.Generated.AskGraph
/-!
# C09  Controllers never deadlock

`strictEdges` are all ask sites without timeout found in controller/*.py (every `<call>().get()` and every proxy
attribute assignment), regenerated on every run; an unresolved receiver would appear as callee "?" with edges to
everybody.  `no_wait_cycle`: for every execution and every instant, the timeout-less waits in progress contain no
cycle.  Corollaries (fairness, handlers terminate because `Stmt` has no loops and device calls return): every
accepted request is eventually processed, `halt` completes, `stop_all` returns.
Partial: pre-emption inside pykka/queue primitives is not modelled.
-/
namespace Poupool.C09
open Poupool.Blocking Poupool.Gen.Ask

theorem strict_graph_ranked : rankOK rank strictEdges = true := by decide +kernel

theorem no_wait_cycle (W : List (Nat × Nat)) (hsub : ∀ e ∈ W, e ∈ strictEdges) (a : Nat) : ¬ Path W a a :=
  no_deadlock strict_graph_ranked W hsub a

/-- every actor eventually answers: every request accepted by the dispatcher is eventually processed by its controller,
    a halt told to Filtration completes, `stop_all()` returns (under fair scheduling of the actor threads) -/
theorem every_actor_responsive : ∀ a, Responsive strictEdges a := all_responsive strict_graph_ranked

/-- the two controllers that query Filtration never get queried by it without timeout -/
theorem filtration_never_waits_for_heating_or_swim :
    strictEdges.all (fun e => !(e.1 == a_Filtration && (e.2 == a_Heating || e.2 == a_Swim))) = true := by
  decide +kernel

/-- non-vacuity: the graph is not empty and Heating does wait for Filtration -/
example : (a_Heating, a_Filtration) ∈ strictEdges := by decide +kernel

end Poupool.C09
