import Poupool.Generated.Decisions
import Poupool.Properties.DecisionsTie.Base
import Poupool.Model.Heating

namespace Poupool.DecisionsTie
open Poupool.Gen.Decisions

/-! ### Scheduled heating -/

/-- `do_repeat_waiting` always re-arms its poll (last effect); before that it may skip the day, or ask Filtration to
    switch to heating and, when that was accepted, tell itself `heat` -/
def absWaiting : List String → Option Heating.WaitAct
  | ["delay 20 do_repeat_waiting"] => some .rearm
  | ["ask Filtration heat", "delay 20 do_repeat_waiting"] => some .rearm
  | ["set next start", "delay 20 do_repeat_waiting"] => some .skipToday
  | ["ask Filtration heat", "tell self heat", "delay 20 do_repeat_waiting"] => some .heat
  | _ => none

theorem heating_waiting_poll (c : Heating.Cfg) (s : Heating.St) (now : Int) (pool air : Option Int) (ready allow : Bool) :
    absWaiting (heatingWaitingPoll c s now pool air ready allow) = some (Heating.waitingPoll c s now pool air ready allow).1 := by
  unfold heatingWaitingPoll Heating.waitingPoll Heating.poolReached Heating.airTooCold
  grind [absWaiting]

/-- Filtration is asked to switch to heating only when every precondition of the policy held at this poll -/
theorem heating_asks_only_when_due (c : Heating.Cfg) (s : Heating.St) (now : Int) (pool air : Option Int) (ready allow : Bool)
    (h : "ask Filtration heat" ∈ heatingWaitingPoll c s now pool air ready allow) :
    s.enable = true ∧ s.nextStart ≤ now ∧ Heating.poolReached c s pool = false ∧ Heating.airTooCold s air = false ∧ ready = true := by
  unfold heatingWaitingPoll at h
  unfold Heating.poolReached Heating.airTooCold
  grind

def absHeating : List String → Option Heating.HeatAct
  | ["tell self wait"] => some .stop
  | ["delay 20 do_repeat_heating"] => some .rearm
  | _ => none

theorem heating_heating_poll (c : Heating.Cfg) (s : Heating.St) (pool air : Option Int) :
    absHeating (heatingHeatingPoll c s pool air) = some (Heating.heatingPoll c s pool air) := by
  unfold heatingHeatingPoll Heating.heatingPoll Heating.poolDone Heating.airStop
  grind [absHeating]

/-! #### the daily schedule: what `__set_next_start`, `setpoint`, `start_hour` and `on_exit_heating` leave in `__next_start`
(C16 "at most once per daily schedule unless the user changes setpoint or start hour" is proved on `Heating.exitHeating`,
`setSetpoint`, `setStartHour`; here they are the values the regenerated methods compute, for every state and instant) -/

theorem heating_set_next_start (s : Heating.St) (now : Int) :
    heatingSetNextStartFinal s now = [Heating.nextDayStart now s.startHour] := by
  unfold heatingSetNextStartFinal Heating.nextDayStart Heating.day Heating.hourUs; simp

theorem heating_setpoint_schedule (s : Heating.St) (now v : Int) :
    heatingSetpointFinal s now v = [(Heating.setSetpoint s now v).nextStart, (Heating.setSetpoint s now v).setpoint] := by
  unfold heatingSetpointFinal Heating.setSetpoint Heating.day; split <;> simp_all <;> omega

theorem heating_start_hour_schedule (s : Heating.St) (now v : Int) :
    heatingStartHourFinal s now v = [(Heating.setStartHour s now v).nextStart, (Heating.setStartHour s now v).startHour] := by
  unfold heatingStartHourFinal Heating.setStartHour Heating.nextDayStart Heating.day Heating.hourUs
  simp only []
  split <;> split <;> simp_all <;> omega

theorem heating_exit_schedule (s : Heating.St) (now : Int) (allow : Bool) :
    heatingExitFinal s now allow = [(Heating.exitHeating s now).nextStart] := by
  unfold heatingExitFinal Heating.exitHeating Heating.nextDayStart Heating.day Heating.hourUs; split <;> simp <;> omega

/-- the heat-pump valve is closed when `heating` is left, and Filtration is told to start the post-run delay only if it is (still)
    in heating_running -/
theorem heating_exit_effects (s : Heating.St) (now : Int) (allow : Bool) :
    "valve heating off" ∈ heatingExit s now allow ∧ ("tell Filtration heating_delay" ∈ heatingExit s now allow ↔ allow = true) := by
  cases allow <;> simp [heatingExit]

/-- the temperatures the polls compare are the reader's values for the requested sensor, the pool sensor by default -/
theorem heating_reads_the_reader : heatingReadTemperature = ["signature self, key='temperature_pool'", "return reader value of key"] := by decide

/-! non-vacuity: the generated function really takes different branches -/
example : heatingWaitingPoll ⟨500, 500, 1000⟩ ⟨true, 0, 0, 26000, 15000⟩ 10 (some 20000) (some 18000) true true
    = ["ask Filtration heat", "tell self heat", "delay 20 do_repeat_waiting"] := by decide

end Poupool.DecisionsTie
