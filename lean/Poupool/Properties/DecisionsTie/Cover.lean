import Poupool.Generated.Decisions
import Poupool.Properties.DecisionsTie.Base
import Poupool.Model.Cover

namespace Poupool.DecisionsTie
open Poupool.Gen.Decisions

/-! ### Cover polls -/

def absCover (poll done : String) : List String → Option Cover.Act
  | ["publish filtration_state", a] =>
      if a = "delay 10 " ++ poll then some .poll
      else if a = "delay 4 " ++ done then some .doneAfter2s
      else if a = "tell self " ++ done then some .doneNow
      else none
  | _ => none

theorem cover_opening_poll (position : Int) :
    absCover "do_repeat_opening" "opened" (coverOpeningPoll position) = some (Cover.openingPoll position) := by
  unfold coverOpeningPoll Cover.openingPoll; decide_tree

theorem cover_closing_poll (position eco : Int) :
    absCover "do_repeat_closing" "closed" (coverClosingPoll position eco) = some (Cover.closingPoll position eco) := by
  unfold coverClosingPoll Cover.closingPoll; decide_tree

/-! non-vacuity: the generated function really takes different branches -/
example : coverClosingPoll 30 30 = ["publish filtration_state", "tell self closed"] ∧ coverClosingPoll 0 0 = ["publish filtration_state", "delay 4 closed"] := by decide

end Poupool.DecisionsTie
