import Poupool.Generated.Decisions
import Poupool.Properties.DecisionsTie.Base
import Poupool.Model.Winter

namespace Poupool.DecisionsTie
open Poupool.Gen.Decisions

/-! ### Wintering polls (Filtration and Swim) and the timed swim poll -/

def absWinter : List String → Option Winter.Act
  | ["tell self wintering_stir"] => some .stir
  | ["delay 240 do_repeat_wintering_waiting"] => some .rearm
  | _ => none

theorem filtration_winter_poll (tis periodS : Int) (temp : Option Int) (thr : Int) :
    absWinter (filtrationWinterPoll tis periodS temp thr) = some (Winter.poll tis (periodS * 1000000) temp thr) := by
  unfold filtrationWinterPoll Winter.poll; decide_tree

theorem swim_winter_poll (tis periodS : Int) (temp : Option Int) (thr : Int) :
    absWinter (swimWinterPoll tis periodS temp thr) = some (Winter.poll tis (periodS * 1000000) temp thr) := by
  unfold swimWinterPoll Winter.poll; decide_tree

/-- the pump is (re)commanded and the timer updated BEFORE the decision, in that order -/
def absTimed : List String → Option Winter.SwimAct
  | ["pump swim speed setting", "timer update now", "tell self halt"] => some .halt
  | ["pump swim speed setting", "timer update now", "delay 2 do_repeat_timed"] => some .rearm
  | _ => none

theorem swim_timed_poll (t : Winter.Timer) (delay now : Int) :
    absTimed (swimTimedPoll (decide ((t.update now).dur ≥ delay))) = some (Winter.timedPoll t delay now).1 := by
  unfold swimTimedPoll Winter.timedPoll
  by_cases h : (t.update now).dur ≥ delay <;> simp [h, absTimed]

/-! non-vacuity: the generated function really takes different branches -/
example : filtrationWinterPoll 3601000000 3600 (some 6000) 5000 = ["delay 240 do_repeat_wintering_waiting"] ∧ filtrationWinterPoll 3601000000 3600 none 5000 = ["tell self wintering_stir"] := by decide

end Poupool.DecisionsTie
