import Poupool.Generated.Decisions
import Poupool.Properties.DecisionsTie.Base
import Poupool.Model.Tank

namespace Poupool.DecisionsTie
open Poupool.Gen.Decisions

/-! ### Tank -/

def absEnterFill : List String → Option (Bool × Bool)
  | ["publish tank_state", "valve main on"] => some (true, true)
  | ["publish tank_state", "tell self normal", "stop repeat"] => some (false, false)
  | _ => none

theorem tank_enter_fill (c : Tank.Cfg) (h : Int) : absEnterFill (tankEnterFill c h) = some (Tank.enterFill c h) := by
  unfold tankEnterFill Tank.enterFill; decide_tree

def absTank (poll : String) : List String → Option Tank.Act
  | ["tell Filtration halt", "tell self halt"] => some .emergency
  | ["tell self low"] => some .toLow
  | ["tell self normal"] => some .toNormal
  | ["tell self high"] => some .toHigh
  | [d] => if d = "delay 10 " ++ poll then some (.rearm 10) else if d = "delay 20 " ++ poll then some (.rearm 20) else none
  | _ => none

theorem tank_poll_fill (c : Tank.Cfg) (h tis : Int) :
    absTank "do_repeat_fill" (tankPollFill c h tis) = some (Tank.pollFill c h tis) := by
  unfold tankPollFill Tank.pollFill Tank.twoHours; decide_tree

theorem tank_poll_low (c : Tank.Cfg) (h tis : Int) :
    absTank "do_repeat_low" (tankPollLow c h tis) = some (Tank.pollLow c h tis) := by
  unfold tankPollLow Tank.pollLow Tank.sixHours; decide_tree

theorem tank_poll_normal (c : Tank.Cfg) (h : Int) :
    absTank "do_repeat_normal" (tankPollNormal c h) = some (Tank.pollNormal c h) := by
  unfold tankPollNormal Tank.pollNormal; decide_tree

theorem tank_poll_high (c : Tank.Cfg) (h : Int) :
    absTank "do_repeat_high" (tankPollHigh c h) = some (Tank.pollHigh c h) := by
  unfold tankPollHigh Tank.pollHigh; decide_tree

/-- the height the polls compare is the sensor's value itself (published on the way), not a rounded or filtered copy -/
theorem tank_height_is_sensor_value : tankHeight = ["publish tank_height", "return sensor value"] := by decide

/-! non-vacuity: the generated function really takes different branches -/
example : tankPollLow ⟨5, 10, 30, 70⟩ 9 0 = ["tell Filtration halt", "tell self halt"] ∧ tankPollLow ⟨5, 10, 30, 70⟩ 35 0 = ["tell self normal"]
    ∧ tankPollLow ⟨5, 10, 30, 70⟩ 20 0 = ["delay 10 do_repeat_low"] := by decide

end Poupool.DecisionsTie
