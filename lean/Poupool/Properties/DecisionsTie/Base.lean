/-!
  Tie of the hand-written decision models to the functions REGENERATED from the poll methods of the working tree
  (translate/decisions.py → Generated/Decisions.lean).  A generated function returns the ordered list of effects of the
  path taken; `abs*` reads such a list back as the action of the hand-written model (`none` for any list that no action
  of the model stands for: an effect added, dropped, reordered or opaque).  Each theorem states, for ALL inputs, that the
  regenerated code performs exactly the effects of the action the model decides.  The K1 theorems of C04, C05, C12, C13,
  C16 and C17 are proved on the hand-written models; with these equalities they are statements about the code that is in
  the tree now (trusting the translator's symbolic execution of the `if`/`return` subset, see DESIGN.md).
-/
namespace Poupool.DecisionsTie

/-- closes goals that remain after both functions have been unfolded: case-split every `if`/`match`, then arithmetic -/
macro "decide_tree" : tactic =>
  `(tactic| first | (((repeat' split) <;> first | rfl | omega | (simp_all; done) | (simp_all <;> omega) | (exfalso; omega)); done) | grind)

end Poupool.DecisionsTie
