import Poupool.Generated.Decisions
import Poupool.Properties.DecisionsTie.Base

namespace Poupool.DecisionsTie
open Poupool.Gen.Decisions

/-! ### The polls of the open modes and of the scheduled-heating phase of Filtration

`do_repeat_comfort` asks Heating (with the 1 s timeout of `__heating_ask`, whose default answer is "busy") whether it is forcing or
recovering and forces the heat pump only if neither; all four polls end by re-arming themselves on EVERY path (C08: these phases
never go deaf, whatever Heating answers or fails to answer). -/

/-- C06 (rest period): comfort tells Heating `force` exactly when Heating answered that it is neither forcing nor recovering; no answer
    within the timeout counts as busy -/
theorem comfort_forces_only_when_idle (forcing recovering : Bool) :
    "tell Heating force" ∈ comfortPoll forcing recovering ↔ (forcing = false ∧ recovering = false) := by
  cases forcing <;> cases recovering <;> decide

theorem comfort_poll (forcing recovering : Bool) :
    comfortPoll forcing recovering =
      (if forcing || recovering then ["eco update", "delay 20 do_repeat_comfort"] else ["eco update", "tell Heating force", "delay 20 do_repeat_comfort"]) := by
  cases forcing <;> cases recovering <;> decide

/-- C08: every path of the four polls ends with the re-arming of the same poll, 10 s later -/
theorem open_mode_polls_rearm (forcing recovering : Bool) (speedStandby : Int) :
    (comfortPoll forcing recovering).getLast? = some "delay 20 do_repeat_comfort" ∧
    (standbyNormalPoll speedStandby).getLast? = some "delay 20 do_repeat_standby_normal" ∧
    overflowNormalPoll.getLast? = some "delay 20 do_repeat_overflow_normal" ∧
    heatingRunningPoll.getLast? = some "delay 20 do_repeat_heating_running" := by
  refine ⟨?_, ?_, by decide, by decide⟩
  · cases forcing <;> cases recovering <;> decide
  · unfold standbyNormalPoll; split <;> decide

/-- the filtration time is accounted at every poll of these phases (first effect), before anything else happens -/
theorem open_mode_polls_account (forcing recovering : Bool) (speedStandby : Int) :
    (comfortPoll forcing recovering).head? = some "eco update" ∧ (standbyNormalPoll speedStandby).head? = some "eco update" ∧
    overflowNormalPoll.head? = some "eco update" ∧ heatingRunningPoll.head? = some "eco update" := by
  refine ⟨?_, ?_, by decide, by decide⟩
  · cases forcing <;> cases recovering <;> decide
  · unfold standbyNormalPoll; split <;> decide

end Poupool.DecisionsTie
