import Poupool.Generated.Decisions
import Poupool.Properties.DecisionsTie.Base
import Poupool.Model.Guards

namespace Poupool.DecisionsTie
open Poupool.Gen.Decisions

/-! ### Guards of the transition tables, the due-date test of the automatic backwash, `Tank.force_empty`

The guard methods ask another controller `is_<phase>()`; the answer of `is_<phase>()` is "the asked controller's phase is
<phase>" (semantics of the `transitions` library; validated by the exhaustive differential of checks/guards_common.py).
Each theorem feeds the regenerated guard with those answers for an ARBITRARY phase name of the asked controller. -/

def absRet : List String → Option Bool
  | ["return True"] => some true
  | ["return False"] => some false
  | _ => none

theorem start_backwash (now last periodDays : Int) (tankHigh : Bool) :
    absRet (startBackwash now last periodDays tankHigh) = some (Guards.startBackwash now last periodDays tankHigh) := by
  unfold startBackwash Guards.startBackwash; grind [absRet]

/-- hence an automatic backwash is requested only when at least `period` whole days have passed since the last one AND the tank is high -/
theorem start_backwash_only_when_due (now last periodDays : Int) (tankHigh : Bool)
    (h : startBackwash now last periodDays tankHigh = ["return True"]) : periodDays * 86400000000 ≤ now - last ∧ tankHigh = true := by
  unfold startBackwash at h; grind

def absForce : List String → Option Guards.ForceAct
  | ["set self.__force_empty := value"] => some .nothing
  | ["set self.__force_empty := value", "tell Filtration halt"] => some .haltFiltration
  | ["set self.__force_empty := value", "tell self fill"] => some .startFill
  | _ => none

theorem tank_force_empty (previous value halted : Bool) :
    absForce (tankForceEmpty previous value halted) = some (Guards.forceEmpty previous value halted) := by
  cases previous <;> cases value <;> cases halted <;> decide

theorem tank_is_low (tank : String) :
    absRet (tankIsLow (tank == "halt") (tank == "low") (tank == "fill")) = some (Guards.tankIsLow tank) := by
  unfold tankIsLow Guards.tankIsLow; grind [absRet]

theorem tank_is_high (tank : String) : absRet (tankIsHigh (tank == "high")) = some (Guards.tankIsHigh tank) := by
  unfold tankIsHigh Guards.tankIsHigh; grind [absRet]

theorem pump_stopped_in_standby (speed : Int) : absRet (pumpStoppedInStandby speed) = some (Guards.pumpStoppedInStandby speed) := by
  unfold pumpStoppedInStandby Guards.pumpStoppedInStandby; grind [absRet]

theorem swim_is_wintering (f : String) :
    absRet (swimIsWintering (f == "wintering_waiting") (f == "wintering_stir")) = some (Guards.isWintering f) := by
  unfold swimIsWintering Guards.isWintering; grind [absRet]

theorem swim_allow_swim (f : String) :
    absRet (swimAllowSwim (f == "overflow_normal") (f == "standby_normal") (f == "comfort") (Guards.isWintering f)) = some (Guards.allowSwim f) := by
  unfold swimAllowSwim Guards.allowSwim; grind [absRet]

theorem heating_allow (f : String) : absRet (heatingAllow (f == "heating_running")) = some (Guards.allowHeating f) := by
  unfold heatingAllow Guards.allowHeating; grind [absRet]

theorem heating_ready (f : String) :
    absRet (heatingReady (f == "eco_waiting") (f == "eco_normal")) = some (Guards.readyForHeating f) := by
  unfold heatingReady Guards.readyForHeating; grind [absRet]

/-! non-vacuity -/
example : startBackwash (31 * 86400000000) 0 30 true = ["return True"] ∧ startBackwash (29 * 86400000000) 0 30 true = ["return False"]
    ∧ startBackwash (31 * 86400000000) 0 30 false = ["return False"] := by decide
example : tankForceEmpty false true false = ["set self.__force_empty := value", "tell Filtration halt"]
    ∧ tankForceEmpty true false true = ["set self.__force_empty := value", "tell self fill"] := by decide

end Poupool.DecisionsTie
