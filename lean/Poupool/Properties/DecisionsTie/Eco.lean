import Poupool.Generated.Decisions
import Poupool.Properties.DecisionsTie.Base
import Poupool.Model.Eco

namespace Poupool.DecisionsTie
open Poupool.Gen.Decisions Poupool.Eco Poupool.Generated

/-! ### The three polls of the eco cycle

`Model/Eco.lean` drives the closed loop of C10/C11 with one event per timer expiry; what a poll decides there (`ecoStep`, phases
`waiting`, `normal`, `tank`) is: the daily reset → reload; the phase timer elapsed → next phase; otherwise poll again.  The functions
below are REGENERATED from `do_repeat_eco_waiting / _normal / _tank`; the theorems state (a) that under the assumptions of the loop
model — no backwash due, tank not low, the controller is in eco — the regenerated poll takes exactly the loop model's decision,
(b) that the loop model's `ecoStep` ends in the phase that decision leads to, and (c) the C07 clause: the polls request `wash` only
when `__start_backwash()` said so (whose meaning is `DecisionsTie.start_backwash`). -/

inductive Dec | reload | next | poll
  deriving Repr, DecidableEq

def waitingDec (reset elapsedOff : Bool) : Dec := if reset then .reload else if elapsedOff then .next else .poll
def normalDec (reset elapsedOn : Bool) (tankD : Int) : Dec := if reset then .reload else if elapsedOn && decide (0 < tankD) then .next else .poll
def tankDec (reset elapsedOn : Bool) : Dec := if reset then .reload else if elapsedOn then .next else .poll

def absEco (poll next : String) : List String → Option Dec
  | [a, d] => if d = "delay 20 " ++ poll then (if a = "tell self reload" then some .reload else if a = "tell self " ++ next then some .next
                else if a = "stir update" then some .poll else none) else none
  | [d] => if d = "delay 20 " ++ poll then some .poll else if d = "tell self reload" then some .reload else if d = "tell self " ++ next then some .next else none
  | _ => none

theorem eco_waiting_poll (reset elapsedOff : Bool) :
    absEco "do_repeat_eco_waiting" "eco_normal" (ecoWaitingPoll false reset elapsedOff true) = some (waitingDec reset elapsedOff) := by
  cases reset <;> cases elapsedOff <;> decide

theorem eco_normal_poll (reset elapsedOn : Bool) (tankD : Int) :
    absEco "do_repeat_eco_normal" "eco_tank" (ecoNormalPoll false reset elapsedOn false true tankD) = some (normalDec reset elapsedOn tankD) := by
  unfold ecoNormalPoll normalDec
  cases reset <;> cases elapsedOn <;> simp <;> (try decide) <;> (split <;> simp_all [absEco])

theorem eco_tank_poll (reset elapsedOn : Bool) :
    absEco "do_repeat_eco_tank" "eco_waiting" (ecoTankPoll reset elapsedOn true) = some (tankDec reset elapsedOn) := by
  cases reset <;> cases elapsedOn <;> decide

/-- C07: an eco poll tells `wash` exactly when `__start_backwash()` returned True (and keeps polling: the transition is guarded) -/
theorem eco_polls_wash_iff_due (due a b c d : Bool) (t : Int) :
    ("tell self wash" ∈ ecoNormalPoll due a b c d t ↔ due = true) ∧ ("tell self wash" ∈ ecoWaitingPoll due a b d ↔ due = true)
    ∧ "tell self wash" ∉ ecoTankPoll a b d := by
  refine ⟨?_, ?_, ?_⟩
  · unfold ecoNormalPoll; cases due <;> cases a <;> cases b <;> cases c <;> cases d <;> simp <;> split <;> simp
  · cases due <;> cases a <;> cases b <;> cases d <;> decide
  · cases a <;> cases b <;> cases d <;> decide

/-- C08: the polls of eco_normal and eco_waiting always re-arm themselves (their transitions can be refused) -/
theorem eco_polls_rearm (due a b c d : Bool) (t : Int) :
    (ecoNormalPoll due a b c d t).getLast? = some "delay 20 do_repeat_eco_normal" ∧
    (ecoWaitingPoll due a b d).getLast? = some "delay 20 do_repeat_eco_waiting" := by
  refine ⟨?_, ?_⟩
  · unfold ecoNormalPoll; cases due <;> cases a <;> cases b <;> cases c <;> cases d <;> simp <;> split <;> simp
  · cases due <;> cases a <;> cases b <;> cases d <;> decide

/-- (b) the loop model takes the same decisions: the phase `ecoStep` ends in after a tick in `waiting` / `normal` / `tank` -/
def phaseAfter (stay next : Phase) : Dec → Phase
  | .reload => .compute
  | .next => next
  | .poll => stay

theorem doUpdate_phase (s : Loop) (eps a b : Int) : (s.doUpdate eps a b).1.phase = s.phase := by
  unfold Loop.doUpdate
  simp only
  split <;> simp [Loop.roll]

theorem ecoStep_waiting (eps : Int) (s0 : Loop) (j0 j1 j2 : Int) (h : s0.phase = .waiting) :
    let s := s0.advance (max s0.now s0.due + j0)
    let u := s.doUpdate eps EcoConfig.factorWaitingNum EcoConfig.factorWaitingDen
    (ecoStep eps s0 (.tick j0 j1 j2)).1.phase = phaseAfter .waiting .normal (waitingDec u.2.reset u.1.eco.elapsedOff) := by
  have hp : (s0.advance (max s0.now s0.due + j0)).phase = .waiting := by simp [Loop.advance, h]
  simp only [ecoStep, hp, waitingDec]
  split
  · rename_i h1; simp [phaseAfter, h1, Loop.reloadEco, Loop.enterCompute]
  · rename_i h1
    split
    · rename_i h2; simp [phaseAfter, h1, h2, Loop.enterNormal]
    · rename_i h2; simp [phaseAfter, h1, h2, doUpdate_phase, hp]

theorem ecoStep_normal (eps : Int) (s0 : Loop) (j0 j1 j2 : Int) (h : s0.phase = .normal) :
    let s := s0.advance (max s0.now s0.due + j0)
    let u := s.doUpdate eps EcoConfig.factorNormalNum EcoConfig.factorNormalDen
    (ecoStep eps s0 (.tick j0 j1 j2)).1.phase = phaseAfter .normal .tank (normalDec u.2.reset u.1.eco.elapsedOn u.1.eco.tankD) := by
  have hp : (s0.advance (max s0.now s0.due + j0)).phase = .normal := by simp [Loop.advance, h]
  simp only [ecoStep, hp, normalDec]
  split
  · rename_i h1; simp [phaseAfter, h1, Loop.reloadEco, Loop.enterCompute]
  · rename_i h1
    split
    · rename_i h2; simp [phaseAfter, h1, h2, Loop.enterTank]
    · rename_i h2; simp [phaseAfter, h1, h2, doUpdate_phase, hp]

theorem ecoStep_tank (eps : Int) (s0 : Loop) (j0 j1 j2 : Int) (h : s0.phase = .tank) :
    let s := s0.advance (max s0.now s0.due + j0)
    let u := s.doUpdate eps EcoConfig.factorTankNum EcoConfig.factorTankDen
    (ecoStep eps s0 (.tick j0 j1 j2)).1.phase = phaseAfter .tank .waiting (tankDec u.2.reset u.1.eco.elapsedOn) := by
  have hp : (s0.advance (max s0.now s0.due + j0)).phase = .tank := by simp [Loop.advance, h]
  simp only [ecoStep, hp, tankDec]
  split
  · rename_i h1; simp [phaseAfter, h1, Loop.reloadEco, Loop.enterCompute]
  · rename_i h1
    split
    · rename_i h2; simp [phaseAfter, h1, h2, Loop.enterWaiting]
    · rename_i h2; simp [phaseAfter, h1, h2, doUpdate_phase, hp]

example : ecoNormalPoll false false true false true 5 = ["tell self eco_tank", "delay 20 do_repeat_eco_normal"]
    ∧ ecoNormalPoll true false true false true 5 = ["tell self wash", "delay 20 do_repeat_eco_normal"] := by decide

end Poupool.DecisionsTie
