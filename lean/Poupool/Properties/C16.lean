import Poupool.Model.Heating
/-!
# C16  Scheduled heating starts and stops according to its policy

On the decision model (Model/Heating.lean), for every temperature value (known or unknown), setpoint, minimum
temperature, start hour, enable flag, instant and hysteresis configuration:

* `start_conditions`: the waiting poll requests `heat` only if heating is enabled, the daily start time has been
  reached, the pool is not known to be at or above the setpoint (+ hysteresis_down), the air is not known to be below the
  minimum, Filtration was in an eco phase that allows it and accepted `heat` (is in heating_running).
* `stop_conditions`: the heating poll stops (tells `wait`) iff disabled, or the pool temperature is unknown or has
  reached setpoint + hysteresis_up, or the air is known below minimum − hysteresis_min.  The poll runs every 10 s
  (C08.heating_timers), hence "within one poll".
* `once_per_day`: when a run ends at `t` (on_exit_heating) the next start is the start hour of the NEXT day, which is
  later than `t`; until then no poll requests `heat`; only `setpoint()` and `start_hour()` move it.
-/
namespace Poupool.C16
open Poupool.Heating

theorem start_conditions (c : Cfg) (s : St) (now : Int) (pool air : Option Int) (ready allow : Bool)
    (h : (waitingPoll c s now pool air ready allow).1 = .heat) :
    s.enable = true ∧ s.nextStart ≤ now ∧ (∀ t, pool = some t → t - c.hystDown < s.setpoint) ∧
    (∀ a, air = some a → s.minTemp ≤ a) ∧ ready = true ∧ allow = true := by
  unfold waitingPoll at h
  by_cases he : s.enable = true
  · by_cases hn : now < s.nextStart
    · simp [he, hn] at h
    · by_cases hp : poolReached c s pool = true
      · simp [he, hn, hp] at h
      · by_cases ha : airTooCold s air = true
        · simp [he, hn, hp, ha] at h
        · by_cases hr : ready = true
          · by_cases hal : allow = true
            · refine ⟨he, by omega, ?_, ?_, hr, hal⟩
              · intro t ht; subst ht
                simp only [poolReached, decide_eq_true_eq] at hp; omega
              · intro a hq; subst hq
                simp only [airTooCold, decide_eq_true_eq] at ha; omega
            · simp [he, hn, hp, ha, hr, hal] at h
          · simp [he, hn, hp, ha, hr] at h
  · simp [he] at h

theorem stop_conditions (c : Cfg) (s : St) (pool air : Option Int) :
    heatingPoll c s pool air = .stop ↔
      (s.enable = false ∨ pool = none ∨ (∃ t, pool = some t ∧ t ≥ s.setpoint + c.hystUp) ∨
        (∃ a, air = some a ∧ a < s.minTemp - c.hystMin)) := by
  unfold heatingPoll
  cases he : s.enable
  · simp
  · cases pool with
    | none => simp [poolDone]
    | some t =>
        by_cases ht : t ≥ s.setpoint + c.hystUp
        · simp [poolDone, ht]
        · cases air with
          | none => simp [poolDone, airStop, ht]
          | some a =>
              by_cases ha : a < s.minTemp - c.hystMin
              · simp [poolDone, airStop, ht, ha]
              · simp [poolDone, airStop, ht, ha]

theorem nextDayStart_later (now hour : Int) (h0 : 0 ≤ hour) : now < nextDayStart now hour := by
  unfold nextDayStart
  have hd : (0 : Int) < day := by decide
  have := Int.emod_lt_of_pos now hd
  have : 0 ≤ hour * hourUs := Int.mul_nonneg h0 (by decide)
  omega

/-- after a run ended at `t`, no waiting poll before the next day's start hour requests `heat` -/
theorem once_per_day (c : Cfg) (s : St) (t now : Int) (pool air : Option Int) (ready allow : Bool)
    (hn : now < (exitHeating s t).nextStart) :
    (waitingPoll c (exitHeating s t) now pool air ready allow).1 ≠ .heat := by
  intro h
  have := (start_conditions c _ now pool air ready allow h).2.1
  omega

theorem next_start_after_run (s : St) (t : Int) (h0 : 0 ≤ s.startHour) : t < (exitHeating s t).nextStart := by
  simpa [exitHeating] using nextDayStart_later t s.startHour h0

/-- the waiting poll never moves the next start backwards: it keeps it, or sets it to a later instant than `now` -/
theorem waiting_poll_next_start (c : Cfg) (s : St) (now : Int) (pool air : Option Int) (ready allow : Bool)
    (h0 : 0 ≤ s.startHour) :
    (waitingPoll c s now pool air ready allow).2.nextStart = s.nextStart ∨
      now < (waitingPoll c s now pool air ready allow).2.nextStart := by
  unfold waitingPoll
  split
  · left; rfl
  · split
    · left; rfl
    · split
      · right; exact nextDayStart_later now s.startHour h0
      · split
        · left; rfl
        · split
          · left; rfl
          · split <;> (left; rfl)

example : (waitingPoll { hystDown := 0, hystUp := 500, hystMin := 1000 }
    { enable := true, nextStart := 0, startHour := 8, setpoint := 26000, minTemp := 15000 } 10 (some 24500) (some 19400) true true).1 = .heat := by
  decide

end Poupool.C16
