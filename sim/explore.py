"""Parallel random exploration of the real code with all monitors:  python -m sim.explore N LEN SEED [--json out]"""
from __future__ import annotations

import collections
import json
import multiprocessing as mp
import random
import sys
import time


def _one(args):
    seed, i, length = args
    from . import monitors, scenario

    rng = random.Random(seed * 1_000_003 + i)
    scn = scenario.gen_scenario(rng, length)
    try:
        r = scenario.run_scenario(scn, monitors.all_monitors())
        return i, scn, r.findings, None, len(r.world.log)
    except BaseException as e:  # noqa: BLE001
        import traceback

        return i, scn, [], traceback.format_exc(), 0


def explore(n, length, seed, procs=None, pids=None):
    procs = procs or min(16, mp.cpu_count())
    with mp.Pool(procs, maxtasksperchild=20) as pool:
        res = pool.map(_one, [(seed, i, length) for i in range(n)], chunksize=1)
    agg = collections.OrderedDict()
    errors = []
    events = 0
    for i, scn, findings, err, nlog in res:
        events += nlog
        if err:
            errors.append((i, err, scn))
        for f in findings:
            if pids and f["property"] not in pids:
                continue
            k = (f["property"], f["key"])
            if k not in agg:
                agg[k] = {"count": 0, "first": i, "what": f["what"], "scenario": scn, "step": f["step"]}
            agg[k]["count"] += 1
    return agg, errors, events


if __name__ == "__main__":
    n, length, seed = int(sys.argv[1]), int(sys.argv[2]), int(sys.argv[3])
    t0 = time.time()
    agg, errors, events = explore(n, length, seed)
    print(f"{n} scenarios, {events} events, {time.time()-t0:.1f}s, {len(errors)} harness errors")
    for (pid, key), v in sorted(agg.items()):
        print(f"{v['count']:4d} {pid} {key}  (first: scenario {v['first']} step {v['step']}) {v['what']}")
    for i, err, scn in errors[:3]:
        print("ERROR in scenario", i, err)
        print(json.dumps(scn))
