"""Build the whole poupool controller (the REAL classes) on the simulated runtime with fake hardware."""
from __future__ import annotations

import datetime as _dt
import os
import sys
from typing import Optional

REPO = os.environ.get("POUPOOL_REPO", "/repo")
# an alternative configuration: a directory holding a config.ini (the code reads it relative to the working directory)
CONFIG_DIR = os.environ.get("POUPOOL_CONFIG_DIR") or REPO
CONFIG_PATH = os.path.join(CONFIG_DIR, "config.ini")

from . import runtime  # noqa: E402

_installed = False


def bootstrap():
    """chdir into the repo (config.ini is read relative to cwd), install the runtime, import the code."""
    global _installed
    if _installed:
        return
    os.chdir(CONFIG_DIR)
    if REPO not in sys.path:
        sys.path.insert(0, REPO)
    import logging

    logging.disable(logging.CRITICAL)
    runtime.install()
    import controller  # noqa: F401
    import controller.actor  # noqa: F401
    import controller.filtration  # noqa: F401
    import controller.tank  # noqa: F401
    import controller.heating  # noqa: F401
    import controller.disinfection  # noqa: F401
    import controller.swim  # noqa: F401
    import controller.light  # noqa: F401
    import controller.arduino  # noqa: F401
    import controller.sensor  # noqa: F401
    import controller.device  # noqa: F401
    import controller.dispatcher  # noqa: F401

    runtime.patch_modules()
    install_private_aliases()
    _installed = True


def install_private_aliases():
    """The harnesses and monitors reach a few private attributes of the controllers by their (mangled) names.  A rewrite that
    renames a private attribute must not break them: the names used here are CANONICAL names, and what the attribute with that
    role is called in the tree is found by translate/decisions.resolve_roles (the public setter the dispatcher calls, the
    constructor parameter it stores, the call that creates it); an alias property maps the canonical name onto the actual one."""
    import ast
    import importlib

    try:
        from translate import decisions as _d
    except Exception:  # noqa: BLE001
        return
    for modname, cls in (("controller.tank", "Tank"), ("controller.filtration", "Filtration"), ("controller.swim", "Swim"), ("controller.heating", "Heating")):
        try:
            mod = importlib.import_module(modname)
            tree = ast.parse(open(os.path.join(REPO, *modname.split(".")) + ".py").read())
            cdef = next(c for c in ast.walk(tree) if isinstance(c, ast.ClassDef) and c.name == cls)
            ren = _d.resolve_roles(cdef, cls)
        except Exception:  # noqa: BLE001
            continue
        klass = getattr(mod, cls)
        for actual, canon in ren.items():
            a, c = f"_{cls}{actual}", f"_{cls}{canon}"
            if hasattr(klass, c):
                continue

            def _get(self, a=a):
                return getattr(self, a)

            def _set(self, v, a=a):
                setattr(self, a, v)

            setattr(klass, c, property(_get, _set))


class Gpio:
    OUT = "OUT"
    BCM = "BCM"

    def __init__(self, world):
        self.world = world
        self.level = {}  # pin -> bool (True = inactive, relays are active low)

    def setmode(self, mode):
        pass

    def setup(self, pins, t):
        pass

    def output(self, pins, values):
        if isinstance(pins, (list, tuple)):
            if not isinstance(values, (list, tuple)):
                values = [values] * len(pins)
            for p, v in zip(pins, values):
                self._set(p, v)
        else:
            self._set(pins, values)

    def _set(self, pin, value):
        value = bool(value)
        if self.level.get(pin) != value:
            self.level[pin] = value
            self.world.emit("gpio", (pin, value))


class FakeAdc:
    """adc.read(channel) for the REAL TankSensorDevice. `raw` is the ADC count; fault => OSError."""

    def __init__(self):
        self.gain = None
        self.raw = 1000.0
        self.fault = False  # True: every read raises; int n: next n reads raise
        self.reads = 0

    def read(self, channel):
        self.reads += 1
        if self.fault is True:
            raise OSError("adc")
        if isinstance(self.fault, int) and self.fault > 0:
            self.fault -= 1
            raise OSError("adc")
        return self.raw


class FakeSensor:
    def __init__(self, name, value):
        self.name = name
        self._value = value

    @property
    def value(self):
        return self._value


class FakeDac:
    def __init__(self):
        self._value = 0
        self.fault = 0  # number of upcoming writes that raise OSError (True = always)
        self.writes = []

    def _maybe_fail(self):
        if self.fault is True:
            raise OSError("dac")
        if self.fault:
            self.fault -= 1
            raise OSError("dac")

    @property
    def normalized_value(self):
        return self._value

    @normalized_value.setter
    def normalized_value(self, v):
        self._maybe_fail()
        self._value = v
        self.writes.append(v)

    @property
    def value(self):
        return self._value

    @value.setter
    def value(self, v):
        self._maybe_fail()
        self._value = v


class FakeMethod:
    def __init__(self, fn):
        self.fn = fn

    def defer(self, *a, **k):
        self.fn(*a, **k)

    def __call__(self, *a, **k):
        return self.fn(*a, **k)


class FakeMqtt:
    def __init__(self, world):
        self.world = world
        self.last = {}
        self.retained = {}
        self.publish = FakeMethod(self._publish)

    def _publish(self, topic, payload, qos=0, retain=False):
        self.last[topic] = payload
        if retain:
            self.retained[topic] = payload
        self.world.emit("publish", (topic, payload, bool(retain)))
        return True


class FakeLcd:
    def __init__(self):
        self.update = FakeMethod(lambda *a, **k: None)


class PoolSystem:
    """The composition of poupool.main(), on the simulator."""

    CONTROLLERS = ("Filtration", "Tank", "Heating", "Heater", "Disinfection", "Swim", "Light", "Arduino")

    def __init__(
        self,
        start: Optional[_dt.datetime] = None,
        no_disinfection: bool = False,
        arduino_factory=None,
        tank_raw: float = 1000.0,
        temps: Optional[dict] = None,
        ph: float = 7.2,
        orp: float = 650.0,
        cover_rate: float = 4.0,
    ):
        bootstrap()
        import pykka

        import controller.device as device
        from controller.arduino import Arduino
        from controller.config import as_list, config
        from controller.disinfection import Disinfection
        from controller.dispatcher import Dispatcher
        from controller.encoder import Encoder
        from controller.filtration import Filtration
        from controller.heating import Heater, Heating
        from controller.light import Light
        from controller.sensor import DisinfectionReader, DisinfectionWriter, TemperatureReader, TemperatureWriter
        from controller.swim import Swim
        from controller.tank import Tank

        from .arduino_fake import FakeArduinoDevice

        pykka.ActorRegistry.stop_all() if False else None
        # make sure no actor of a previous world is still registered
        for ref in list(pykka.ActorRegistry.get_all()):
            pykka.ActorRegistry.unregister(ref)

        self.world = runtime.World(start or _dt.datetime(2024, 6, 3, 8, 0, 0))
        w = self.world
        self.config = config
        self.gpio = Gpio(w)
        reg = device.DeviceRegistry()
        self.registry = reg

        def create(cls, name):
            pins = as_list(config["pins", name])
            return cls(name, self.gpio, pins if len(pins) > 1 else pins[0])

        self.pins = {}
        for kind, cls, name in (
            ("pump", device.PumpDevice, "variable"),
            ("pump", device.SwitchDevice, "boost"),
            ("pump", device.SwitchDevice, "ph"),
            ("pump", device.SwitchDevice, "cl"),
            ("valve", device.SwitchDevice, "gravity"),
            ("valve", device.SwitchDevice, "backwash"),
            ("valve", device.SwitchDevice, "tank"),
            ("valve", device.SwitchDevice, "drain"),
            ("valve", device.SwitchDevice, "main"),
            ("valve", device.SwitchDevice, "heating"),
            ("valve", device.SwitchDevice, "light"),
        ):
            d = create(cls, name)
            self.pins[name] = as_list(config["pins", name])
            (reg.add_pump if kind == "pump" else reg.add_valve)(d)
        # tank sensor: REAL TankSensorDevice on a fake ADC
        self.adc = FakeAdc()
        self.adc.raw = tank_raw
        params = ((int, "channel"), (float, "gain"), (int, "low"), (int, "high"))
        self.adc_low = int(config["adc", "low"])
        self.adc_high = int(config["adc", "high"])
        reg.add_sensor(device.TankSensorDevice("tank", self.adc, *[t(config["adc", n]) for t, n in params]))
        # swim pump: REAL SwimPumpDevice on a fake DAC
        self.dac = FakeDac()
        self.pins["swim"] = [int(config["pins", "swim"])]
        reg.add_pump(device.SwimPumpDevice("swim", self.gpio, int(config["pins", "swim"]), self.dac))
        # pH / ORP
        self.s_ph = FakeSensor("ph", ph)
        self.s_orp = FakeSensor("orp", orp)
        reg.add_sensor(_as_sensor(device, self.s_ph))
        reg.add_sensor(_as_sensor(device, self.s_orp))
        # temperatures
        t = {"temperature_pool": 24.5, "temperature_local": 20.6, "temperature_air": 19.4, "temperature_ncc": 21.3}
        t.update(temps or {})
        self.s_temp = {k: FakeSensor(k, v) for k, v in t.items()}
        for s in self.s_temp.values():
            reg.add_sensor(_as_sensor(device, s))
        # arduino
        self.arduino_dev = (arduino_factory or FakeArduinoDevice)(w, rate=cover_rate)
        reg.add_device(_as_stoppable(device, self.arduino_dev))
        self.elevation = 45.0

        # --- the body of poupool.main() -------------------------------------
        self.dispatcher = Dispatcher()
        self.mqtt = FakeMqtt(w)
        self.encoder = Encoder(self.mqtt, FakeLcd())
        sensors = [reg.get_sensor(k) for k in ("temperature_pool", "temperature_local", "temperature_air", "temperature_ncc")]
        self.temperature_reader = TemperatureReader.start(sensors).proxy()
        self.temperature_writer = TemperatureWriter.start(self.encoder, self.temperature_reader).proxy()
        self.filtration = Filtration.start(self.temperature_reader, self.encoder, reg).proxy()
        self.swim = Swim.start(self.temperature_reader, self.encoder, reg).proxy()
        self.tank = Tank.start(self.encoder, reg).proxy()
        sensors = [reg.get_sensor("ph"), reg.get_sensor("orp")]
        self.disinfection_reader = DisinfectionReader.start(sensors).proxy()
        self.disinfection_writer = DisinfectionWriter.start(self.encoder, self.disinfection_reader).proxy()
        self.disinfection = Disinfection.start(
            self.encoder, reg, self.disinfection_reader, self.disinfection_writer, no_disinfection
        ).proxy()
        switch = reg.get_valve("heater")
        self.heater = Heater.start(self.temperature_reader, switch).proxy()
        self.heating = Heating.start(self.temperature_reader, self.encoder, reg).proxy()
        self.light = Light.start(self.encoder, reg).proxy()
        self.arduino = Arduino.start(self.encoder, reg).proxy()
        self.dispatcher.register(
            self.filtration, self.tank, self.swim, self.light, self.heater, self.heating, self.disinfection, self.arduino
        )
        self.temperature_reader.do_read.defer()
        self.temperature_writer.do_write.defer()
        self.disinfection_reader.do_read.defer()
        # sun elevation is an input
        import controller.filtration as _f

        system = self

        class _Sun:
            @staticmethod
            def elevation(*a, **k):
                return system.elevation

        _f.sun = _Sun
        w.settle()

    # ---- inputs -----------------------------------------------------------------
    def mqtt_in(self, topic: str, payload) -> None:
        if isinstance(payload, str):
            payload = payload.encode("utf-8")
        self.world.emit("mqtt", (topic, payload))
        self.dispatcher.dispatch(topic, payload)

    def set_tank_level(self, pct: float) -> None:
        """Set the ADC raw count so that TankSensorDevice.value maps to `pct` (may be outside 0..100)."""
        self.adc.raw = self.adc_low + (self.adc_high - self.adc_low) * pct / 100.0

    def set_temp(self, key: str, value, flush: bool = True) -> None:
        """Set a temperature; flush=True also overwrites the 30-sample history (or clears it for None)."""
        self.s_temp[key]._value = value
        self.world.emit("temp", (key, value))
        if flush:
            ma = self.world.actor("TemperatureReader").values[key]
            ma.clear()
            if value is not None:
                ma.push(value)

    def set_ph(self, v, flush=True):
        self.s_ph._value = v
        if flush:
            ma = self.world.actor("DisinfectionReader").values["ph"]
            ma.clear()
            if v is not None:
                ma.push(v)

    def set_orp(self, v, flush=True):
        self.s_orp._value = v
        if flush:
            ma = self.world.actor("DisinfectionReader").values["orp"]
            ma.clear()
            if v is not None:
                ma.push(v)

    # ---- observations ---------------------------------------------------------------
    def state(self, name: str) -> str:
        a = self.world.actor(name)
        return a.state

    def states(self) -> dict:
        return {n: (self.state(n) if self.world.alive(n) else "DEAD") for n in self.CONTROLLERS}

    def pin_on(self, name: str) -> bool:
        """Energised? (relays are active low)."""
        return not self.gpio.level.get(self.pins[name][0], True)

    def variable_speed(self) -> int:
        lv = [self.gpio.level.get(p, True) for p in self.pins["variable"]]
        on = [i for i, v in enumerate(lv) if not v]
        if len(on) == 1:
            return on[0]
        if not on:
            return -1  # nothing selected (boot state): pump idle
        return -2  # invalid: several selected

    def outputs(self) -> dict:
        d = {n: self.pin_on(n) for n in ("boost", "swim", "ph", "cl", "gravity", "backwash", "tank", "drain", "main", "heating", "light")}
        d["variable"] = self.variable_speed()
        return d

    def last_state_publish(self, ctrl: str):
        return self.mqtt.last.get(f"/status/{ctrl}/state")

    def settled(self) -> bool:
        return all(a.actor_inbox.empty() for a in self.world.actors if a.actor_ref.is_alive())


def _as_sensor(device, fake):
    class S(device.SensorDevice):
        def __init__(self):
            super().__init__(fake.name)

        @property
        def value(self):
            return fake.value

    return S()


def _as_stoppable(device, fake):
    class D(device.StoppableDevice):
        def __init__(self):
            super().__init__("arduino")

        def stop(self):
            fake.stop()

        def __getattr__(self, k):
            return getattr(fake, k)

    d = D()
    d.__class__.cover_position = property(lambda self: fake.cover_position)
    d.__class__.water_counter = property(lambda self: fake.water_counter)
    return d
