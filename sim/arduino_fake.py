"""Scripted fake of ArduinoDevice: the cover moves `rate` percent per virtual second while commanded."""
from __future__ import annotations


class FakeArduinoDevice:
    def __init__(self, world, rate: float = 4.0):
        self.world = world
        self.rate = rate  # percent / second
        self.pos = 0.0
        self.direction = 0
        self.last_us = world.now_us
        self.stalled = False
        self.fail_position = 0  # number of upcoming position reads returning None
        self.water = 0
        self.water_none = False
        self.calls = []

    def _update(self):
        now = self.world.now_us
        dt = (now - self.last_us) / 1e6
        self.last_us = now
        if self.direction and not self.stalled:
            self.pos = min(100.0, max(0.0, self.pos + self.direction * self.rate * dt))
            if (self.direction > 0 and self.pos >= 100.0) or (self.direction < 0 and self.pos <= 0.0):
                self.direction = 0  # firmware stops at the end points

    @property
    def cover_position(self):
        self._update()
        if self.fail_position:
            self.fail_position -= 1
            return None
        return int(self.pos)

    def _cmd(self, name, d):
        self._update()
        self.direction = d
        self.calls.append((self.world.now_us, name))
        self.world.emit("arduino", name)

    def cover_open(self):
        self._cmd("open", 1)

    def cover_close(self):
        self._cmd("close", -1)

    def cover_stop(self):
        self._cmd("stop", 0)

    @property
    def water_counter(self):
        if self.water_none:
            return None
        return self.water

    def stop(self):
        self.cover_stop()
