"""Scenarios: lists of actions run against the simulated system; a scenario is a replay.

Action formats (JSON-able lists):
  ["mqtt", topic, payload]            dispatch an MQTT message (payload str) -- delivered promptly
  ["run", seconds]                    prompt scheduling for `seconds` of virtual time
  ["tank", pct] ["adc_fault", v]      tank level in percent / ADC fault (true|false|n)
  ["temp", key, value]                temperature (key pool|air|local|ncc; value float|None), history flushed
  ["ph", v] ["orp", v]                EZO readings (history flushed)
  ["elevation", deg]                  sun elevation
  ["cover", "stall"|"free"|rate]      cover behaviour;  ["cover", "fail", n]: the next n position reads return None
  ["dac_fault", n]                    next n DAC writes raise OSError (true = always)
  ["race", actor, topic, payload, delta]   the command is queued `delta` s before `actor`'s next timer fires, the
                                      timer fires while the command is still undelivered (stale-timer race), then settle
                                      (delta < 0: the timer fires first and the command arrives before the fired call is delivered)
  ["burst", [[topic,payload],...]]    several commands queued back to back before anything is delivered
  ["queue", topic, payload]           queue a command without delivering anything
  ["settle"]                          deliver everything queued
  ["lag", actor, seconds]             `actor` is slow (inbox not served) for `seconds` while the others run
  ["lagcmd", actor, seconds, topic, payload]   the command arrives while `actor` is slow
  ["postlag", actor, seconds, topic, payload]  `actor` processes the command at once and is slow afterwards
  ["racelag", actor, seconds, topic, payload]  `actor`'s next timer fires while it is slow; the command arrives meanwhile
"""
from __future__ import annotations

import datetime as _dt
import json
import random

from .system import PoolSystem

TEMP_KEYS = {"pool": "temperature_pool", "air": "temperature_air", "local": "temperature_local", "ncc": "temperature_ncc"}


class Runner:
    def __init__(self, opts=None, monitors=None):
        opts = dict(opts or {})
        start = opts.pop("start", None)
        order_seed = opts.pop("order_seed", None)
        self.order_rng = random.Random(order_seed) if order_seed is not None else None
        if isinstance(start, str):
            start = _dt.datetime.fromisoformat(start)
        self.opts_temps = opts.get("temps")
        self.sys = PoolSystem(start=start, **opts)
        self.world = self.sys.world
        self.monitors = monitors or []
        self.findings = []  # (pid, key, what, at_us)
        self._seen = set()
        self.step_no = 0
        self.stop_on_death = True
        for m in self.monitors:
            m.attach(self)

    def order(self, runnable):
        """Which inbox is served next: deterministic (start order) or seeded-random (part of the scenario)."""
        if self.order_rng is None:
            return runnable[0]
        return self.order_rng.choice(runnable)

    def report(self, pid, key, what):
        k = (pid, key)
        if k not in self._seen:
            self._seen.add(k)
            self.findings.append({"property": pid, "key": key, "what": what, "at_us": self.world.now_us, "step": self.step_no, "states": self.sys.states(), "outputs": self.sys.outputs()})

    def at_settled(self):
        if self.world.deadlock is not None:
            return
        if self.stop_on_death and self.world.dead:
            if not getattr(self, "_death_reported", False):
                self._death_reported = True
                for m in self.monitors:
                    if m.pid == "C14":
                        m.settled(self)
            return
        # settled = nothing is waiting in any inbox (a lagging actor with queued messages is not settled)
        if any(not a.actor_inbox.empty() for a in self.world.actors if a.actor_ref.is_alive() and a.sim_name != "Mqtt"):
            return
        for m in self.monitors:
            m.settled(self)

    def run_prompt(self, seconds):
        w = self.world
        until = w.now_us + int(round(seconds * 1e6))
        n = 0
        while w.deadlock is None:
            w.settle(order=self.order)
            self.at_settled()
            nd = w.next_due()
            if nd is None or nd > until:
                break
            w.advance_to(nd)
            for e in w.due_timers():
                if not e[2].cancelled and not e[2].fired:
                    w.fire(e)
            n += 1
        w.advance_to(until)

    def do(self, a):
        s, w = self.sys, self.world
        self.step_no += 1
        for m in self.monitors:
            m.before_action(self, a)
        op = a[0]
        if op == "mqtt":
            s.mqtt_in(a[1], a[2])
            w.settle(order=self.order)
            self.at_settled()
        elif op == "queue":
            s.mqtt_in(a[1], a[2])
        elif op == "settle":
            w.settle(order=self.order)
            self.at_settled()
        elif op == "run":
            self.run_prompt(a[1])
        elif op == "until_pin":
            # ["until_pin", name, on?, max_s]: run (in steps of 0.25 s) until output `name` is on / off — anchors what follows to
            # an event of the run instead of an absolute time (the time of a dosing pulse shifts with every change of a delay)
            t = 0.0
            while s.pin_on(a[1]) != bool(a[2]) and t < float(a[3]):
                self.run_prompt(0.25)
                t += 0.25
        elif op == "until_state":
            # ["until_state", actor, phase, max_s]: run until the controller is in the phase (prefix match)
            t = 0.0
            while not s.state(a[1]).startswith(a[2]) and t < float(a[3]):
                self.run_prompt(0.25)
                t += 0.25
        elif op == "tank":
            s.set_tank_level(a[1])
        elif op == "adc_fault":
            s.adc.fault = a[1]
        elif op == "temp":
            s.set_temp(TEMP_KEYS[a[1]], a[2])
        elif op == "ph":
            s.set_ph(a[1])
        elif op == "orp":
            s.set_orp(a[1])
        elif op == "elevation":
            s.elevation = a[1]
        elif op == "cover":
            if a[1] == "stall":
                s.arduino_dev.stalled = True
            elif a[1] == "free":
                s.arduino_dev.stalled = False
            elif a[1] == "fail":
                s.arduino_dev.fail_position = int(a[2])  # the next n position reads fail (the driver returns None)
            else:
                s.arduino_dev._update()
                s.arduino_dev.rate = float(a[1])
        elif op == "dac_fault":
            s.dac.fault = a[1]
        elif op == "lag":
            # actor `a[1]` is slow: its inbox is not served for a[2] seconds (<= latency bound) while the others run
            act = w.actor(a[1])
            w.frozen.add(act)
            self.run_prompt(a[2])
            w.frozen.discard(act)
            w.settle(order=self.order)
            self.at_settled()
        elif op == "postlag":
            # the command is processed by `a[1]` at once, which is then slow for a[2] s while the others react to what it told them
            act = w.actor(a[1])
            s.mqtt_in(a[3], a[4])
            guard = 0
            while not act.actor_inbox.empty() and act.actor_ref.is_alive() and guard < 50 and w.deadlock is None:
                w.deliver(act)
                guard += 1
            w.frozen.add(act)
            self.run_prompt(a[2])
            w.frozen.discard(act)
            w.settle(order=self.order)
            self.at_settled()
        elif op == "lagcmd":
            # the command arrives while actor `a[1]` is slow (does not serve its inbox for a[2] seconds)
            act = w.actor(a[1])
            w.frozen.add(act)
            s.mqtt_in(a[3], a[4])
            self.run_prompt(a[2])
            w.frozen.discard(act)
            w.settle(order=self.order)
            self.at_settled()
        elif op == "burst":
            for t, p in a[1]:
                s.mqtt_in(t, p)
            w.settle(order=self.order)
            self.at_settled()
        elif op == "race":
            actor, topic, payload, delta = a[1], a[2], a[3], a[4]
            mine = [e for e in w.pending_timers() if e[2].owner == actor]
            if not mine:
                s.mqtt_in(topic, payload)
                w.settle(order=self.order)
                self.at_settled()
                return
            due = mine[0][0]
            if delta < 0:
                # the timer fires first, the command arrives before the fired call is delivered
                if due > w.now_us:
                    self.run_prompt((due - w.now_us) / 1e6 - 0.000001)
                w.advance_to(due)
                for e in w.due_timers():
                    if e[2].owner == actor and not e[2].cancelled and not e[2].fired:
                        w.fire(e)
                s.mqtt_in(topic, payload)
                w.settle(order=self.order)
                self.at_settled()
                return
            tgt = due - int(delta * 1e6)
            if tgt > w.now_us:
                self.run_prompt((tgt - w.now_us) / 1e6)
            s.mqtt_in(topic, payload)  # queued, not delivered
            w.advance_to(due)
            for e in w.due_timers():
                if e[2].owner == actor and not e[2].cancelled and not e[2].fired:
                    w.fire(e)
            w.settle(order=self.order)
            self.at_settled()
        elif op == "racelag":
            # `actor`'s next timer fires while the actor is slow (busy for a[2] s, e.g. in a slow sensor read): the fired call
            # waits in its inbox, the command arrives meanwhile and the others react to it; then the actor catches up
            actor, secs, topic, payload = a[1], a[2], a[3], a[4]
            act = w.actor(actor)
            mine = [e for e in w.pending_timers() if e[2].owner == actor]
            if mine:
                due = mine[0][0]
                if due > w.now_us:
                    self.run_prompt((due - w.now_us) / 1e6 - 0.000001)
                w.frozen.add(act)
                w.advance_to(due)
                for e in w.due_timers():
                    if e[2].owner == actor and not e[2].cancelled and not e[2].fired:
                        w.fire(e)
            else:
                w.frozen.add(act)
            s.mqtt_in(topic, payload)
            self.run_prompt(secs)
            w.frozen.discard(act)
            w.settle(order=self.order)
            self.at_settled()
        else:
            raise ValueError(f"unknown action {a}")
        for m in self.monitors:
            m.after_action(self, a)

    def run(self, actions):
        self.actions = list(actions)
        for a in actions:
            if self.world.deadlock is not None or (self.stop_on_death and self.world.dead):
                break
            self.do(a)
        for m in self.monitors:
            m.finish(self)
        self.world.close()
        return self.findings


def run_scenario(scn: dict, monitors):
    r = Runner(scn.get("opts"), monitors)
    r.run(scn["actions"])
    return r


# ----------------------------------------------------------------------------------------------
# generation

MODES = ["halt", "eco", "standby", "overflow", "comfort", "sweep", "wash", "wintering"]
SETTINGS = {
    "/settings/filtration/duration": ["3600", "36000", "86400", "1", "172800"],
    "/settings/filtration/period": ["1", "3", "10"],
    "/settings/filtration/reset_hour": ["0", "9", "23"],
    "/settings/filtration/tank_percentage": ["0", "0.1", "0.5"],
    "/settings/filtration/stir_duration": ["0", "120", "600"],
    "/settings/filtration/stir_period": ["0", "600", "3600", "7200"],
    "/settings/filtration/boost_duration": ["0", "60", "300", "600"],
    "/settings/filtration/backwash/period": ["0", "2", "30", "90"],
    "/settings/filtration/backwash/backwash_duration": ["0", "120", "300"],
    "/settings/filtration/backwash/rinse_duration": ["0", "60", "300"],
    "/settings/filtration/speed/eco": ["1", "2", "3"],
    "/settings/filtration/speed/standby": ["0", "1", "2"],
    "/settings/filtration/speed/overflow": ["1", "2", "3", "4"],
    "/settings/filtration/overflow_in_comfort": ["ON", "OFF"],
    "/settings/cover/position/eco": ["0", "30", "100"],
    "/settings/tank/force_empty": ["ON", "OFF"],
    "/settings/swim/timer": ["1", "5", "60"],
    "/settings/swim/speed": ["1", "50", "100"],
    "/settings/heating/enable": ["ON", "OFF"],
    "/settings/heating/setpoint": ["10", "26", "27.5", "32"],
    "/settings/heating/start_hour": ["0", "8", "14", "23"],
    "/settings/heating/min_temp": ["5", "15", "25"],
    "/settings/disinfection/ph/enable": ["ON", "OFF"],
    "/settings/disinfection/ph/setpoint": ["6", "7", "8"],
    "/settings/disinfection/ph/pterm": ["0", "1", "10"],
    "/settings/disinfection/orp/enable": ["ON", "OFF"],
    "/settings/disinfection/orp/setpoint": ["500", "650", "800"],
    "/settings/disinfection/orp/pterm": ["0", "1", "10"],
    "/settings/heater/setpoint": ["0", "5", "30"],
}
TANK_LEVELS = [0, 5, 9, 10, 11, 14, 15, 16, 24, 25, 26, 34, 35, 36, 50, 54, 55, 56, 64, 65, 66, 74, 75, 76, 90, 100]
DURATIONS = [0.2, 1, 2, 5, 10, 11, 30, 60, 120, 301, 600, 1300, 3600, 4 * 3600, 7 * 3600]
TIMER_ACTORS = ["Filtration", "Tank", "Heating", "Disinfection", "Swim"]


def gen_action(rng: random.Random, profile: str = "general"):
    x = rng.random()
    if x < 0.22:
        return ["mqtt", "/settings/mode", rng.choice(MODES)]
    if x < 0.30:
        return ["mqtt", "/settings/swim/mode", rng.choice(["halt", "timed", "continuous"])]
    if x < 0.42:
        t = rng.choice(list(SETTINGS))
        return ["mqtt", t, rng.choice(SETTINGS[t])]
    if x < 0.62:
        return ["run", rng.choice(DURATIONS)]
    if x < 0.70:
        return ["tank", rng.choice(TANK_LEVELS)]
    if x < 0.74:
        return ["temp", rng.choice(["pool", "air", "ncc"]), rng.choice([None, -5.0, 0.0, 4.0, 5.0, 14.0, 15.0, 20.0, 25.5, 26.0, 26.5, 27.0, 30.0])]
    if x < 0.77:
        return ["ph", rng.choice([5.0, 6.9, 7.0, 7.1, 7.5, 9.0, 14.0])] if rng.random() < 0.5 else ["orp", rng.choice([0, 400, 599, 600, 650, 900])]
    if x < 0.79:
        return ["elevation", rng.choice([-10, 19, 20, 60])]
    if x < 0.82:
        return ["cover", rng.choice(["stall", "free", 1.0, 4.0, 40.0])]
    if x < 0.84:
        return ["adc_fault", rng.choice([True, False, 3])]
    if x < 0.85:
        return ["dac_fault", rng.choice([0, 1, 3, 5])]
    if x < 0.95:
        actor = rng.choice(TIMER_ACTORS)
        if actor == "Swim" and rng.random() < 0.7:
            topic, payload = "/settings/swim/mode", rng.choice(["halt", "timed", "continuous"])
        elif rng.random() < 0.75:
            topic, payload = "/settings/mode", rng.choice(MODES)
        else:
            topic = rng.choice(list(SETTINGS))
            payload = rng.choice(SETTINGS[topic])
        return ["race", actor, topic, payload, rng.choice([0.0, 0.3, 0.9, -1])]
    if x < 0.96:
        return ["postlag", "Filtration", rng.choice([1.5, 3.0]), "/settings/mode", rng.choice(MODES)]
    if x < 0.965:
        return ["lagcmd", rng.choice(["Disinfection", "Heating", "Swim", "Tank"]), rng.choice([1.5, 3.0]), "/settings/mode", rng.choice(MODES)]
    if x < 0.97:
        return ["lag", rng.choice(["Filtration", "Heating", "Tank", "Swim", "Disinfection", "TemperatureReader", "DisinfectionReader"]), rng.choice([0.5, 1.0, 12.0])]
    if x < 0.975:
        return ["racelag", rng.choice(["Disinfection", "Heating", "Swim", "Tank"]), rng.choice([1.5, 3.0]), "/settings/mode", rng.choice(MODES)]
    n = rng.randint(2, 4)
    cmds = []
    for _ in range(n):
        if rng.random() < 0.7:
            cmds.append(["/settings/mode", rng.choice(MODES)])
        else:
            t = rng.choice(list(SETTINGS))
            cmds.append([t, rng.choice(SETTINGS[t])])
    return ["burst", cmds]


def gen_scenario(rng: random.Random, length: int):
    opts = {
        "start": _dt.datetime(2024, rng.choice([1, 6, 7]), rng.randint(1, 28), rng.randint(0, 23), rng.choice([0, 30, 59]), 0).isoformat(),
        "tank_raw": rng.choice([83.0, 500.0, 1000.0, 1400.0, 1665.0]),
        "cover_rate": rng.choice([1.0, 4.0, 25.0]),
    }
    if rng.random() < 0.6:
        opts["order_seed"] = rng.randint(0, 10**6)
    acts = []
    # a useful prefix most of the time: get out of halt
    if rng.random() < 0.8:
        acts.append(["mqtt", "/settings/mode", rng.choice(["eco", "eco", "eco", "wintering"])])
        acts.append(["run", rng.choice([1, 10, 30, 120])])
    for _ in range(length):
        acts.append(gen_action(rng))
    acts.append(["run", 5])
    return {"opts": opts, "actions": acts}


def shrink(scn: dict, still_fails) -> dict:
    """Delta-debugging on the action list."""
    acts = list(scn["actions"])
    n = 2
    while len(acts) >= 2:
        chunk = max(1, len(acts) // n)
        reduced = False
        for i in range(0, len(acts), chunk):
            cand = acts[:i] + acts[i + chunk:]
            if cand and still_fails({"opts": scn.get("opts"), "actions": cand}):
                acts = cand
                n = max(n - 1, 2)
                reduced = True
                break
        if not reduced:
            if chunk == 1:
                break
            n = min(n * 2, len(acts))
    return {"opts": scn.get("opts"), "actions": acts}


def dumps(scn):
    return json.dumps(scn, default=str)
