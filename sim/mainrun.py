"""Run the REAL poupool.py as __main__ (argv: --fake-devices) on the simulator, with fault / signal injection (C18).

Everything runs in this process: call it in a subprocess (it patches time.sleep, signal.signal, print and paho globally).
    python -m sim.mainrun '<json spec>'      spec = {"commands": [[t, topic, payload], ...], "crash": [actor, k] | null,
                                                     "sigterm_at": seconds | null, "dac_fault_at": [t, n] | null, "max_s": 600}
prints one line  RESULT {json}
"""
from __future__ import annotations

import builtins
import gc
import io
import json
import os
import re
import runpy
import signal
import sys
import time as _time


def run(spec):
    from . import runtime
    from .system import REPO, bootstrap

    bootstrap()
    import datetime

    import controller.mqtt as cm

    w = runtime.World(datetime.datetime(2024, 6, 3, 8, 0, 0))
    state = {"client": None, "handlers": {}, "t_loop_exit": None, "exit": None, "lines": [], "t_death": None, "t_signal": None}

    class FakeClient:
        def __init__(self, *a, **k):
            state["client"] = self
            self.on_connect = self.on_message = self.on_disconnect = None
            self.published = []

        def connect(self, host):
            if self.on_connect:
                self.on_connect(self, None, None, 0)

        def subscribe(self, topic):
            pass

        def loop(self, timeout=0.0):
            return 0

        def publish(self, topic, payload, qos=0, retain=False):
            self.published.append((topic, payload, retain))
            return (0, 1)

        def disconnect(self):
            pass

    cm.mqtt.Client = FakeClient

    class Msg:
        def __init__(self, topic, payload):
            self.topic = topic
            self.payload = payload.encode() if isinstance(payload, str) else payload

    commands = sorted([list(c) for c in (spec.get("commands") or [])] + [[t, "", "<snapshot>"] for t in (spec.get("snapshots") or [])], key=lambda c: (c[0], c[1] != ""))
    snapshots = []
    crash = spec.get("crash")
    sigterm_at = spec.get("sigterm_at")
    dac_fault_at = spec.get("dac_fault_at")
    max_us = int(spec.get("max_s", 600) * 1e6)

    if crash:
        target, k = crash

        def hook(actor, msg, idx):
            if actor == target and idx >= k and not state.get("crashed") and not msg.startswith(("is_", "get:", "set:", "get_", "<")):
                state["crashed"] = True
                state["t_death"] = w.now_us
                state["crash_msg"] = msg
                return RuntimeError("injected fault")
            return None

        w.fault_hook = hook
    crash_on = spec.get("crash_on")
    if crash_on:
        # fault in the n-th message of `target` whose name starts with `prefix` (e.g. the first poll after a phase entry)
        target2, prefix, nth = crash_on
        seen = {"n": 0}

        def hook2(actor, msg, idx):
            if actor == target2 and msg.startswith(prefix) and not state.get("crashed"):
                seen["n"] += 1
                if seen["n"] >= nth:
                    state["crashed"] = True
                    state["t_death"] = w.now_us
                    state["crash_msg"] = msg
                    return RuntimeError("injected fault")
            return None

        w.fault_hook = hook2

    def mqtt_actor():
        for a in w.actors:
            if a.__class__.__name__ == "Mqtt":
                return a
        return None

    def vsleep(seconds):
        if w.stack:
            w.sleep(seconds)
            return
        # main thread: let the simulated world run
        ma = mqtt_actor()
        if ma is not None:
            w.frozen.add(ma)  # its do_loop re-defers itself for ever; publishes are irrelevant here
        until = w.now_us + int(round(seconds * 1e6))
        while commands and commands[0][0] * 1e6 <= until:
            t, topic, payload = commands.pop(0)
            w.run_until(max(w.now_us, int(t * 1e6)))
            if payload == "<snapshot>" and topic == "":
                snapshots.append({"t": t, "levels": {str(k): v for k, v in levels_of(buf.getvalue()).items()},
                                  "states": {a.sim_name: getattr(a, "state", None) for a in w.actors if hasattr(a, "state") and a.actor_ref.is_alive()}})
                continue
            c = state["client"]
            if c is not None and c.on_message is not None:
                c.on_message(c, None, Msg(topic, payload))
        if dac_fault_at and dac_fault_at[0] * 1e6 <= until and not state.get("dac_set"):
            state["dac_set"] = True
            for o in gc.get_objects():
                if o.__class__.__name__ == "FakeDAC":
                    n = [dac_fault_at[1]]
                    cls = o.__class__

                    def setter(self, v, n=n):
                        if n[0] > 0:
                            n[0] -= 1
                            raise OSError("dac")
                        self._FakeDAC__value = v

                    cls.normalized_value = property(lambda self: self._FakeDAC__value, setter)
        if sigterm_at is not None and sigterm_at * 1e6 <= until and state["t_signal"] is None:
            w.run_until(max(w.now_us, int(sigterm_at * 1e6)))
            state["t_signal"] = w.now_us
            h = state["handlers"].get(signal.SIGTERM)
            if h:
                h(signal.SIGTERM, None)
            n2 = spec.get("sigterm2_after_handlers")
            if n2 is not None:
                # a second signal while the shutdown is in progress: after n2 more handler executions of any actor
                cnt = {"n": 0}

                def on_step(actor, hname, when):
                    if when != "post" or state.get("second_done"):
                        return
                    cnt["n"] += 1
                    if cnt["n"] >= n2:
                        state["second_done"] = True
                        h2 = state["handlers"].get(signal.SIGTERM)
                        if callable(h2):
                            h2(signal.SIGTERM, None)
                        else:
                            # default action: the process is terminated on the spot
                            state["killed_levels"] = {str(k): v for k, v in levels_of(buf.getvalue()).items()}

                w.on_step = on_step
        w.run_until(until)
        if w.now_us > max_us:
            h = state["handlers"].get(signal.SIGTERM)
            state["timeout"] = True
            if h:
                h(signal.SIGTERM, None)

    def levels_of(text):
        level = {}
        for m in re.finditer(r"Set pin\(s\) (\[[^\]]*\]|\d+) to (\[[^\]]*\]|True|False)", text):
            pins = json.loads(m.group(1)) if m.group(1).startswith("[") else [int(m.group(1))]
            vals_s = m.group(2)
            vals = [v.strip() == "True" for v in vals_s.strip("[]").split(",")] if vals_s.startswith("[") else [vals_s == "True"] * len(pins)
            for p, v in zip(pins, vals):
                level[p] = v
        return level

    buf = io.StringIO()
    real_sleep, real_signal, real_print = _time.sleep, signal.signal, builtins.print
    _time.sleep = vsleep
    def fake_signal(signo, handler):
        state["handlers"][signo] = handler
        # "sigterm_in_setup": the signal arrives while the hardware is being set up, i.e. right after the program has installed
        # its handlers and before main() runs (systemd stopping a service that is still starting)
        if spec.get("sigterm_in_setup") and len(state["handlers"]) >= 2 and state["t_signal"] is None:
            state["t_signal"] = w.now_us
            h = state["handlers"].get(signal.SIGTERM)
            if callable(h):
                h(signal.SIGTERM, None)

    signal.signal = fake_signal
    builtins.print = lambda *a, **k: buf.write(" ".join(str(x) for x in a) + k.get("end", "\n"))
    argv = sys.argv
    sys.argv = ["poupool.py", "--fake-devices", "--log-config", "/nonexistent"]
    code = None
    err = None
    try:
        try:
            runpy.run_path(os.path.join(REPO, "poupool.py"), run_name="__main__")
        except SystemExit as e:
            code = e.code
        except BaseException as e:  # noqa: BLE001
            err = repr(e)
    finally:
        _time.sleep, signal.signal, builtins.print = real_sleep, real_signal, real_print
        sys.argv = argv
    out = buf.getvalue()
    # reconstruct pin levels from the fake GPIO's prints
    level = {}
    for m in re.finditer(r"Set pin\(s\) (\[[^\]]*\]|\d+) to (\[[^\]]*\]|True|False)", out):
        pins = json.loads(m.group(1)) if m.group(1).startswith("[") else [int(m.group(1))]
        vals_s = m.group(2)
        vals = [v.strip() == "True" for v in vals_s.strip("[]").split(",")] if vals_s.startswith("[") else [vals_s == "True"] * len(pins)
        for p, v in zip(pins, vals):
            level[p] = v
    ard = None
    for o in gc.get_objects():
        if o.__class__.__name__ == "FakeArduino":
            ard = getattr(o, "_FakeArduino__cover_direction", None)
    alive = [a.sim_name for a in w.actors if a.actor_ref.is_alive()]
    res = {"exit": code, "error": err, "levels": {str(k): v for k, v in level.items()}, "arduino_direction": ard, "alive_after": alive, "dead": w.dead,
           "t_death_us": state["t_death"], "t_signal_us": state["t_signal"], "t_end_us": w.now_us, "deadlock": w.deadlock, "timeout": state.get("timeout", False),
           "crash_msg": state.get("crash_msg"), "crashed": bool(state.get("crashed")), "snapshots": snapshots,
           "killed_levels": state.get("killed_levels"), "second_signal_delivered": bool(state.get("second_done"))}
    w.close()
    return res


if __name__ == "__main__":
    spec = json.loads(sys.argv[1]) if len(sys.argv) > 1 else {}
    print("RESULT " + json.dumps(run(spec)))
