"""Deterministic single-threaded runtime for the REAL poupool code (Engine C).

No edit to /repo is needed: ``pykka.ThreadingActor`` is replaced by ``SimActor``
(built on pykka's own extension points) *before* ``controller.*`` is imported,
``threading.Timer`` / ``datetime`` / ``time`` of the controller modules are
replaced by virtual versions.  The scheduler owns every choice (which inbox is
served, which due timer fires, when time advances); a list of choices is a
schedule and replays exactly.

Ask semantics ("atomic asks", DESIGN.md 3.3): ``Future.get()`` on an unresolved
future drains the inbox of the actor that owns the envelope, in FIFO order,
until the future is resolved.  If that actor is already on the ask stack the
wait is cyclic: with a timeout the caller gets ``pykka.Timeout`` after the
virtual timeout, without one the runtime records a deadlock and raises
``SimDeadlock`` (which unwinds everything and marks the world deadlocked).
"""
from __future__ import annotations

import collections
import datetime as _dt
import heapq
import itertools
import sys
import threading
from typing import Any, Callable, Optional

import pykka
from pykka import messages as _messages
from pykka._future import Future as _Future


class SimDeadlock(BaseException):
    """Cyclic wait without timeout (BaseException: must not be swallowed by `except Exception`)."""

    def __init__(self, cycle):
        super().__init__(" -> ".join(cycle))
        self.cycle = cycle


class SimAbort(BaseException):
    """Raised inside a parked helper thread when its world is closed."""


class World:
    """Global virtual world: clock, timers, actors, event log."""

    current: "World" = None  # type: ignore

    def __init__(self, start: _dt.datetime, tick_us: int = 1):
        self.t0 = start
        self.now_us = 0  # microseconds since t0
        self.timers: list = []  # heap of (due_us, seq, SimTimer)
        self.seq = itertools.count()
        self.actors: list = []  # SimActor instances in start order
        self.stack: list = []  # Frames of the handlers in progress on the running chain (ask stack)
        self.parked: list = []  # Ctx objects: suspended handlers whose asker timed out
        self.deadlock = None
        self.deadlock_handlers = None
        self.log: list = []  # (now_us, kind, data)
        self.ask_log: list = []  # (caller, callee, timeout, handler)
        self.dead: dict = {}  # actor name -> repr(exception)
        self.on_handler: Optional[Callable] = None
        self.on_state: list = []  # callbacks (actor, old state, new state, handler name, instant) at every phase change
        self.on_step: Optional[Callable] = None  # (actor, handler name, 'pre'|'post') for EVERY envelope, nested asks included
        self.fault_hook: Optional[Callable] = None  # (actor_name, msg_name, index) -> exception or None
        self.msg_index: dict = collections.Counter()
        self.dropped_tells: list = []
        self.frozen: set = set()  # actors whose inbox is not served by the scheduler (slow thread)
        World.current = self

    # ---- time -------------------------------------------------------------
    def now(self) -> _dt.datetime:
        return self.t0 + _dt.timedelta(microseconds=self.now_us)

    def time(self) -> float:
        return self.t0.timestamp() + self.now_us / 1e6

    def sleep(self, seconds: float) -> None:
        self.now_us += int(round(seconds * 1_000_000))

    def advance_to(self, us: int) -> None:
        if us > self.now_us:
            self.now_us = us

    # ---- timers -----------------------------------------------------------
    def next_due(self) -> Optional[int]:
        while self.timers and (self.timers[0][2].cancelled or self.timers[0][2].fired):
            heapq.heappop(self.timers)
        return self.timers[0][0] if self.timers else None

    def due_timers(self) -> list:
        self.next_due()
        return sorted(
            (e for e in self.timers if not e[2].cancelled and not e[2].fired and e[0] <= self.now_us),
            key=lambda e: (e[0], e[1]),
        )

    def pending_timers(self) -> list:
        return sorted(
            (e for e in self.timers if not e[2].cancelled and not e[2].fired), key=lambda e: (e[0], e[1])
        )

    def emit(self, kind: str, data: Any) -> None:
        self.log.append((self.now_us, kind, data))

    # ---- actors -----------------------------------------------------------
    def actor(self, name: str) -> "SimActor":
        for a in self.actors:
            if a.sim_name == name:
                return a
        raise KeyError(name)

    def alive(self, name: str) -> bool:
        try:
            return self.actor(name).actor_ref.is_alive()
        except KeyError:
            return False

    def inbox_names(self, name: str) -> list:
        return [envelope_name(e) for e in self.actor(name).actor_inbox.items]

    def runnable(self) -> list:
        """Actors with a non-empty inbox that are alive (deterministic order)."""
        return [
            a
            for a in self.actors
            if a.actor_ref.is_alive() and not a.actor_inbox.empty() and a not in self.frozen and self.parked_ctx_of(a) is None
        ]

    def deliver(self, actor: "SimActor") -> Optional[str]:
        """Deliver exactly one envelope of `actor` (top level scheduler step)."""
        assert not self.stack, "deliver() is a top-level step"
        if actor.actor_inbox.empty() or not actor.actor_ref.is_alive():
            return None
        try:
            return actor._sim_process_one()
        except SimDeadlock as d:
            self.deadlock = d.cycle
            self.stack.clear()
            self.emit("deadlock", list(d.cycle))
            return "DEADLOCK"

    def settle(self, limit: int = 100000, order: Optional[Callable] = None) -> int:
        """Deliver until every inbox is empty (timers are NOT fired). Returns number of deliveries."""
        n = 0
        while n < limit and self.deadlock is None:
            try:
                if self.resume_ready():
                    n += 1
                    continue
            except SimDeadlock as d:
                self.deadlock = d.cycle
                self.stack.clear()
                self.emit("deadlock", list(d.cycle))
                break
            r = self.runnable()
            if not r:
                break
            a = order(r) if order else r[0]
            self.deliver(a)
            n += 1
        return n

    def fire(self, entry=None) -> bool:
        """Fire one due timer (its callback puts a message in an inbox)."""
        due = self.due_timers()
        if not due:
            return False
        e = entry or due[0]
        t = e[2]
        t.fired = True
        self.emit("fire", (t.owner, t.label))
        try:
            t.function(*t.args, **t.kwargs)
        except pykka.ActorDeadError:
            pass
        return True

    def run_until(self, until_us: int, order: Optional[Callable] = None, max_events: int = 10_000_000) -> None:
        """Prompt scheduling: settle, then jump to the next timer, fire it, settle, ..."""
        n = 0
        while self.deadlock is None and n < max_events:
            self.settle(order=order)
            nd = self.next_due()
            if nd is None or nd > until_us:
                break
            self.advance_to(nd)
            for e in self.due_timers():
                if not e[2].cancelled and not e[2].fired:
                    self.fire(e)
                    n += 1
        self.settle(order=order)
        self.advance_to(until_us)

    def run_for(self, seconds: float, **kw) -> None:
        self.run_until(self.now_us + int(round(seconds * 1_000_000)), **kw)

    def close(self) -> None:
        """Release the helper threads of handlers that are still parked."""
        for c in list(self.parked):
            c.abandoned = True
            c.yield_evt.clear()
            c.resume_evt.set()
            c.yield_evt.wait(2)
        self.parked.clear()

    def stop_all(self) -> None:
        for a in reversed(list(self.actors)):
            if a.actor_ref.is_alive():
                try:
                    a.actor_ref.stop(block=True)
                except (pykka.ActorDeadError, SimDeadlock):
                    pass


    # ---- asks ---------------------------------------------------------------------
    @property
    def handler_stack(self):
        return [f.handler for f in self.stack]

    def busy_in_stack(self, actor):
        for i, f in enumerate(self.stack):
            if f.actor is actor:
                return i
        return None

    def parked_ctx_of(self, actor):
        for c in self.parked:
            if any(f.actor is actor for f in c.segment):
                return c
        return None

    def busy(self, actor) -> bool:
        return self.busy_in_stack(actor) is not None or self.parked_ctx_of(actor) is not None

    def resume(self, ctx) -> None:
        """Resume a parked context whose awaited future is done; runs until it finishes or parks again."""
        self.parked.remove(ctx)
        base = len(self.stack)
        self.stack.extend(ctx.segment)
        ctx.segment = []
        status = ctx.switch_in()
        if status == "parked":
            # parked again: frames above `base` stay suspended
            ctx.segment = self.stack[base:]
            del self.stack[base:]
            self.parked.append(ctx)
        else:
            del self.stack[base:]
            if isinstance(ctx.exc, SimDeadlock):
                raise ctx.exc

    def resume_ready(self) -> bool:
        for c in list(self.parked):
            if c.waiting is None or c.waiting._done:
                self.resume(c)
                return True
        return False

    def resolve(self, fut, timeout) -> None:
        """Block the running frame until `fut` is done: atomic-ask semantics with faithful timeouts."""
        my = len(self.stack) - 1
        caller = self.stack[my].actor.sim_name if my >= 0 else "<main>"
        handler = self.stack[my].handler if my >= 0 else "<main>"
        owner = fut.owner
        if owner is None:
            raise pykka.Timeout("no owner")
        self.ask_log.append((caller, owner.sim_name, timeout, handler))
        if my >= 0:
            self.stack[my].wait_timeout = timeout
            self.stack[my].wait_future = fut
        try:
            while not fut._done:
                idx = self.busy_in_stack(owner)
                pctx = self.parked_ctx_of(owner) if idx is None else None
                if idx is None and pctx is None and owner in self.frozen and timeout is not None:
                    # the callee is slow (its thread does not get to its inbox within the latency bound): the wait expires
                    self.emit("ask_timeout", (caller, handler, timeout, [caller, owner.sim_name + "(slow)"]))
                    self.sleep(timeout)
                    self._expire(my, timeout, None, None)
                if idx is None and pctx is None:
                    # owner idle: drain its inbox
                    if owner.actor_inbox.empty() or not owner.actor_ref.is_alive():
                        if not owner.actor_ref.is_alive():
                            owner._actor_loop_teardown()
                        if fut._done:
                            break
                        # nobody will ever answer
                        if timeout is not None:
                            self.sleep(timeout)
                            self._expire(my, timeout, None, None)
                        self.deadlock_handlers = self.handler_stack
                        raise SimDeadlock([caller, owner.sim_name + "(no answer)"])
                    if timeout is None:
                        owner._sim_process_one()
                    else:
                        self._drain_in_ctx(owner, fut, timeout, my)
                    continue
                if pctx is not None:
                    g = pctx.waiting
                    if g is not None and not g._done:
                        gowner = g.owner
                        if not self.busy(gowner):
                            # make the parked handler's own question progress first
                            if gowner.actor_inbox.empty() or not gowner.actor_ref.is_alive():
                                if not gowner.actor_ref.is_alive():
                                    gowner._actor_loop_teardown()
                                if not g._done:
                                    self._stuck(fut, timeout, my, 0, [caller, owner.sim_name, gowner.sim_name + "(no answer)"])
                                    continue
                            else:
                                gowner._sim_process_one()
                            continue
                        gi = self.busy_in_stack(gowner)
                        self._stuck(fut, timeout, my, gi if gi is not None else 0, [caller, owner.sim_name, gowner.sim_name])
                        continue
                    self.resume(pctx)
                    continue
                # owner is busy on the running chain: cyclic wait
                cycle = [f.actor.sim_name for f in self.stack[idx:]] + [owner.sim_name]
                self._stuck(fut, timeout, my, idx, cycle)
        finally:
            if my >= 0 and my < len(self.stack):
                self.stack[my].wait_timeout = None
                self.stack[my].wait_future = None

    LIVELOCK_TIMEOUTS = 60

    def _expire(self, my, timeout, caller, handler):
        """the wait of frame `my` expires; a handler that keeps asking again after every timeout never returns: its
        controller processes no further request (reported like a deadlock)"""
        if 0 <= my < len(self.stack):
            fr = self.stack[my]
            key = (fr.actor.sim_name, fr.handler)
            cnt = self._to_counts = getattr(self, "_to_counts", {})
            # the count is per handler execution: it is reset when the handler's delivery index changes
            tag = (key, self.msg_index.get(fr.actor.sim_name))
            if cnt.get("tag") != tag:
                cnt.clear()
                cnt["tag"] = tag
                cnt["n"] = 0
            cnt["n"] += 1
            if cnt["n"] > self.LIVELOCK_TIMEOUTS:
                self.deadlock_handlers = self.handler_stack
                raise SimDeadlock([fr.actor.sim_name, f"(livelock: {fr.handler} still waiting after {cnt['n']} expired timeouts)"])
        raise pykka.Timeout(f"{timeout} seconds")

    def _stuck(self, fut, timeout, my, lo, cycle):
        """No progress is possible for the wait of frame `my` (cycle through frames lo..my).  The wait with the
        smallest timeout on the cycle expires; none => deadlock."""
        cands = []
        for j in range(max(lo, 0), my):
            if self.stack[j].wait_timeout is not None:
                cands.append((self.stack[j].wait_timeout, j))
        if timeout is not None:
            cands.append((timeout, my))
        if not cands:
            self.deadlock_handlers = self.handler_stack
            raise SimDeadlock(cycle)
        t, j = min(cands)
        self.emit("ask_timeout", (self.stack[j].actor.sim_name if j >= 0 else "<main>", self.stack[j].handler if j >= 0 else "<main>", t, cycle))
        if j == my:
            self.sleep(timeout)
            self._expire(my, timeout, None, None)
        ctx = _cur_ctx()
        if ctx is None:
            # frames above j do not live in a helper thread (cannot happen: asks with timeout always spawn one)
            self.deadlock_handlers = self.handler_stack
            raise SimDeadlock(cycle + ["<unparkable>"])
        ctx.park(j, fut)

    def _drain_in_ctx(self, owner, fut, timeout, my):
        """Process ONE envelope of `owner` inside a helper thread so that it can be parked if our wait times out."""
        world = self

        def body(ctx):
            _tls.ctx = ctx
            owner._sim_process_one()

        ctx = Ctx(body)
        base = len(self.stack)
        while True:
            status = ctx.switch_in()
            if status == "done":
                del self.stack[base:]
                if ctx.exc is not None:
                    raise ctx.exc
                return
            # parked
            if ctx.park_target == my:
                ctx.segment = self.stack[base:]
                del self.stack[base:]
                self.parked.append(ctx)
                self.sleep(timeout)
                self._expire(my, timeout, None, None)
            # the timed-out frame is further down: propagate by parking ourselves too
            outer = _cur_ctx()
            if outer is None:
                self.deadlock_handlers = self.handler_stack
                raise SimDeadlock(["<unparkable-propagation>"])
            outer.park(ctx.park_target, ctx.waiting)


def envelope_name(env) -> str:
    m = env.message
    if isinstance(m, _messages.ProxyCall):
        name = ".".join(m.attr_path)
        if name == "do_delayed" and len(m.args) >= 2:
            return f"{m.args[1]}@{m.args[0]}"
        return name
    if isinstance(m, _messages.ProxyGetAttr):
        return "get:" + ".".join(m.attr_path)
    if isinstance(m, _messages.ProxySetAttr):
        return "set:" + ".".join(m.attr_path)
    if isinstance(m, _messages._ActorStop):
        return "<stop>"
    return repr(m)


class SimInbox:
    def __init__(self):
        self.items: collections.deque = collections.deque()
        self.owner: Optional["SimActor"] = None

    def put(self, envelope) -> None:
        self.items.append(envelope)
        if envelope.reply_to is not None and isinstance(envelope.reply_to, SimFuture):
            envelope.reply_to.owner_inbox = self

    def get(self):
        return self.items.popleft()

    def empty(self) -> bool:
        return not self.items


class Frame:
    __slots__ = ("actor", "handler", "wait_timeout", "wait_future")

    def __init__(self, actor, handler):
        self.actor = actor
        self.handler = handler
        self.wait_timeout = None
        self.wait_future = None


class Ctx:
    """A helper thread hosting the drain started by an ask WITH timeout, so that the frames above the asking
    frame can stay suspended (parked) when that ask times out.  Exactly one thread runs at any time."""

    def __init__(self, fn):
        self.fn = fn
        self.resume_evt = threading.Event()
        self.yield_evt = threading.Event()
        self.status = None  # 'done' | 'parked'
        self.exc = None
        self.segment = []  # frames parked with this context
        self.waiting = None  # innermost future the parked frames wait for
        self.park_target = None
        self.abandoned = False
        self.thread = threading.Thread(target=self._main, daemon=True)
        self.started = False

    def _main(self):
        self.resume_evt.wait()
        self.resume_evt.clear()
        try:
            self.fn(self)
        except BaseException as e:  # noqa: BLE001
            self.exc = e
        self.status = "done"
        self.yield_evt.set()

    def switch_in(self):
        if not self.started:
            self.started = True
            self.thread.start()
        self.yield_evt.clear()
        self.resume_evt.set()
        self.yield_evt.wait()
        return self.status

    def park(self, target, waiting):
        self.status = "parked"
        self.park_target = target
        self.waiting = waiting
        self.yield_evt.set()
        self.resume_evt.wait()
        self.resume_evt.clear()
        if self.abandoned:
            raise SimAbort()


_tls = threading.local()


def _cur_ctx():
    return getattr(_tls, "ctx", None)


class SimFuture(_Future):
    def __init__(self):
        super().__init__()
        self._done = False
        self._value = None
        self._exc = None
        self.owner_inbox: Optional[SimInbox] = None

    @property
    def owner(self):
        return self.owner_inbox.owner if self.owner_inbox is not None else None

    def set(self, value=None):
        self._done = True
        self._value = value

    def set_exception(self, exc_info=None):
        if exc_info is None:
            exc_info = sys.exc_info()
        self._done = True
        self._exc = exc_info

    def get(self, *, timeout=None):
        try:
            return super().get(timeout=timeout)
        except NotImplementedError:
            pass
        w = World.current
        if not self._done:
            w.resolve(self, timeout)
        if self._exc is not None:
            (exc_type, exc_value, exc_tb) = self._exc
            if exc_value is None:
                exc_value = exc_type()
            raise exc_value
        return self._value


class SimActor(pykka.Actor):
    """Drop-in for pykka.ThreadingActor; no thread, the World drives it."""

    use_daemon_thread = False

    @staticmethod
    def _create_actor_inbox():
        return SimInbox()

    @staticmethod
    def _create_future():
        return SimFuture()

    def __init__(self, *args, **kwargs):
        super().__init__(*args, **kwargs)
        self.actor_inbox.owner = self
        base = self.__class__.__name__
        w = World.current
        n = sum(1 for a in w.actors if a.__class__.__name__ == base)
        self.sim_name = base if n == 0 else f"{base}{n + 1}"

    def _start_actor_loop(self) -> None:
        w = World.current
        w.actors.append(self)
        self._actor_loop_setup()

    # one iteration of pykka's _actor_loop_running, verbatim semantics
    def _sim_process_one(self) -> str:
        w = World.current
        envelope = self.actor_inbox.get()
        name = envelope_name(envelope)
        w.stack.append(Frame(self, f"{self.sim_name}.{name}"))
        idx = w.msg_index[self.sim_name]
        w.msg_index[self.sim_name] += 1
        if envelope.reply_to is None:
            w.now_us += 1  # the wall clock is strictly monotonic between two handlers
            w.emit("deliver", (self.sim_name, name))
        if w.on_step is not None:
            w.on_step(self, name, "pre")
        st_before = getattr(self, "state", None) if w.on_state else None
        log_before = len(w.log)
        try:
            try:
                # faults are injected into told messages and into delayed calls however they were posted (an exception in an
                # asked call goes to the asker and does not kill the controller)
                if w.fault_hook is not None and (envelope.reply_to is None or "@" in name):
                    exc = w.fault_hook(self.sim_name, name, idx)
                    if exc is not None:
                        raise exc
                response = self._handle_receive(envelope.message)
                if envelope.reply_to is not None:
                    envelope.reply_to.set(response)
            except Exception:  # noqa: BLE001
                if envelope.reply_to is not None:
                    envelope.reply_to.set_exception()
                else:
                    ei = sys.exc_info()
                    w.dead[self.sim_name] = f"{ei[0].__name__}: {ei[1]} in {name}"
                    w.emit("actor_died", (self.sim_name, name, f"{ei[0].__name__}: {ei[1]}"))
                    self._handle_failure(*ei)
                    try:
                        self.on_failure(*ei)
                    except Exception:  # noqa: BLE001
                        self._handle_failure(*sys.exc_info())
        finally:
            w.stack.pop()
        if w.on_state:
            st_after = getattr(self, "state", None)
            if st_after != st_before:
                for cb in w.on_state:
                    cb(self, st_before, st_after, name, w.now_us, log_before)
        if w.on_step is not None:
            w.on_step(self, name, "post")
        if self.actor_stopped.is_set():
            self._actor_loop_teardown()
        if w.on_handler is not None and not w.stack:
            w.on_handler(self.sim_name, name)
        return name


class SimTimer:
    """Replacement for threading.Timer in controller.actor."""

    def __init__(self, interval, function, args=None, kwargs=None):
        self.interval = interval
        self.function = function
        self.args = args if args is not None else []
        self.kwargs = kwargs if kwargs is not None else {}
        self.cancelled = False
        self.fired = False
        w = World.current
        self.owner = w.stack[-1].actor.sim_name if w.stack else "<main>"
        try:
            self.label = ".".join(function.__self__._attr_path)  # CallableProxy.defer
            if self.label == "do_delayed" and len(self.args) >= 2:
                self.label = f"{self.args[1]}"
        except Exception:  # noqa: BLE001
            self.label = getattr(function, "__name__", "?")
        self.due_us = None

    def start(self):
        w = World.current
        self.due_us = w.now_us + int(round(self.interval * 1_000_000))
        heapq.heappush(w.timers, (self.due_us, next(w.seq), self))
        w.emit("timer_start", (self.owner, self.label, self.interval))

    def cancel(self):
        if not self.fired and not self.cancelled:
            World.current.emit("timer_cancel", (self.owner, self.label))
        self.cancelled = True

    def is_alive(self):
        return not (self.cancelled or self.fired)

    def join(self, timeout=None):
        return None


class _VDatetimeMeta(type(_dt.datetime)):
    pass


class VDatetime(_dt.datetime):
    """datetime whose now() is the virtual clock."""

    @classmethod
    def now(cls, tz=None):
        n = World.current.now()
        return cls(n.year, n.month, n.day, n.hour, n.minute, n.second, n.microsecond)


class VTime:
    """Replacement for the `time` module inside controller modules."""

    @staticmethod
    def time():
        return World.current.time()

    @staticmethod
    def sleep(seconds):
        World.current.sleep(seconds)

    @staticmethod
    def monotonic():
        return World.current.time()


def install() -> None:
    """Install the simulated actor base class. Must run before `controller` is imported."""
    if "controller.actor" in sys.modules:
        raise RuntimeError("install() must be called before importing controller.*")
    pykka.ThreadingActor = SimActor  # type: ignore
    import pykka._threading as _t

    _t.ThreadingActor = SimActor  # type: ignore


class _VThreading:
    """`threading` as seen by a controller module: Timer is the simulated one, everything else is the real module"""

    Timer = SimTimer

    def __getattr__(self, name):
        import threading as _th

        return getattr(_th, name)


class _VTimeModule:
    """`time` as seen by a controller module: time/sleep/monotonic are virtual, everything else is the real module"""

    time = staticmethod(VTime.time)
    sleep = staticmethod(VTime.sleep)
    monotonic = staticmethod(VTime.monotonic)

    def __getattr__(self, name):
        import time as _tm

        return getattr(_tm, name)


class _VDtModule:
    """the `datetime` MODULE as seen by a controller module (`import datetime`): datetime.datetime is the virtual class"""

    datetime = VDatetime

    def __getattr__(self, name):
        return getattr(_dt, name)


def patch_modules() -> None:
    """Replace the time sources and timers of EVERY loaded controller module (after import): a module that starts its own
    `threading.Timer`, sleeps or reads the clock is simulated like controller.actor (a change that moves such a call into
    another module must not escape virtual time)."""
    import threading as _th
    import time as _tm

    import controller.actor
    import controller.device
    import controller.disinfection
    import controller.filtration
    import controller.heating
    import controller.swim
    import controller.util

    controller.actor.Timer = SimTimer
    for name, mod in list(sys.modules.items()):
        if mod is None or not (name == "controller" or name.startswith("controller.")):
            continue
        if getattr(mod, "datetime", None) is _dt.datetime:
            mod.datetime = VDatetime
        if getattr(mod, "Timer", None) is _th.Timer:
            mod.Timer = SimTimer
        if getattr(mod, "threading", None) is _th:
            mod.threading = _VThreading()
        if getattr(mod, "datetime", None) is _dt:
            mod.datetime = _VDtModule()
        if getattr(mod, "time", None) is _tm:
            mod.time = _VTimeModule()
        if getattr(mod, "sleep", None) is _tm.sleep:
            mod.sleep = VTime.sleep
