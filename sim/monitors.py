"""Property monitors over traces of the REAL code running on the simulator (Engine S).

A monitor decides its property's statement on the trace it sees.  Monitors support the search for a
failing input and validate the Lean model's predictions; they never stand in for a theorem."""
from __future__ import annotations

NO_TREATMENT = (
    "halt", "closing", "opening_standby", "opening_overflow", "eco_waiting", "eco_tank",
    "standby_boost", "overflow_boost", "sweep", "wash_backwash", "wash_rinse", "wintering_waiting", "wintering_stir",
)
SWIM_NEVER_PREFIX = ("halt", "eco", "heating", "wash", "opening", "closing")

# leaf -> UI string published on /status/<ctrl>/state (oracle table, mirrors Properties/C15.lean)
NAME_OF = {
    "Filtration": {
        "halt": "halt", "closing": "closing", "opening_standby": "opening", "opening_overflow": "opening",
        "eco_compute": "eco_compute", "eco_normal": "eco_normal", "eco_tank": "eco_tank", "eco_waiting": "eco_waiting",
        "heating_running": "heating_running", "heating_delay_none": "heating_delay", "heating_delay_standby": "heating_delay",
        "heating_delay_overflow": "heating_delay", "standby_boost": "standby_boost", "standby_normal": "standby",
        "overflow_boost": "overflow_boost", "overflow_normal": "overflow", "comfort": "comfort", "sweep": "sweep",
        "wash_backwash": "backwash", "wash_rinse": "rinse", "wintering_stir": "wintering_stir", "wintering_waiting": "wintering_waiting",
    },
    "Tank": {k: k for k in ("halt", "fill", "low", "normal", "high")},
    "Heating": {"halt": "halt", "waiting": "waiting", "heating": "heating", "forcing": "heating", "recovering": "recovering"},
    "Disinfection": {"halt": "halt", "waiting": "waiting", "running_adjusting": "adjusting", "running_treating": "treating"},
    "Swim": {k: k for k in ("halt", "timed", "continuous", "wintering_stir", "wintering_waiting")},
    "Light": {"halt": "halt", "on": "on"},
}

# leaves in which an actor legitimately has no timer and no poll
QUIET = {
    "Filtration": {"halt", "sweep"},
    "Tank": {"halt"},
    "Heating": {"halt", "forcing"},
    "Heater": {"halt"},
    "Disinfection": {"halt"},
    "Swim": {"halt"},
    "Light": {"halt", "on"},
    "Arduino": {"halt"},
}


class Monitor:
    pid = "?"

    def attach(self, r):
        pass

    def settled(self, r):
        pass

    def after_action(self, r, a):
        pass

    def before_action(self, r, a):
        pass

    def finish(self, r):
        pass


def _alive(r, n):
    return r.world.alive(n)


class C01(Monitor):
    pid = "C01"

    def settled(self, r):
        s = r.sys
        if not _alive(r, "Filtration") or s.state("Filtration") != "halt":
            return
        o = s.outputs()
        bad = [k for k in ("boost", "swim", "ph", "cl", "heating", "gravity", "tank", "drain", "backwash") if o[k]]
        if o["variable"] > 0:
            bad.append(f"variable={o['variable']}")
        if bad:
            r.report("C01", "halt-with-output:" + ",".join(sorted(bad)), f"Filtration halt and settled but energised: {bad}")


class C01b(Monitor):
    """C01, last sentence: once halted the system stays halted until a NEW mode request is accepted: every exit from halt
    must consume a mode request received over MQTT (after the one consumed by the previous exit)"""

    pid = "C01"

    def attach(self, r):
        self.r = r
        self.consumed = 0
        r.world.on_state.append(self.on_state)

    def on_state(self, actor, old, new, hname, now, log_before):
        if actor.sim_name != "Filtration" or old != "halt" or new == "halt":
            return
        trig = hname.split("@")[0]
        log = self.r.world.log
        for i in range(self.consumed, len(log)):
            t, kind, data = log[i]
            if kind == "mqtt" and data[0] == "/settings/mode":
                pay = data[1].decode() if isinstance(data[1], (bytes, bytearray)) else str(data[1])
                if pay == trig:
                    self.consumed = i + 1
                    return
        self.r.report("C01", f"halt-left-without-request:{trig}", f"Filtration left halt by `{hname}` (now {new}) although no mode request `{trig}` has been received since the last one was honoured: the halt was undone by an internal message")


class C02(Monitor):
    pid = "C02"

    def settled(self, r):
        s = r.sys
        o = s.outputs()
        if not (o["ph"] or o["cl"]):
            return
        f = s.state("Filtration") if _alive(r, "Filtration") else "DEAD"
        d = s.state("Disinfection") if _alive(r, "Disinfection") else "DEAD"
        if o["variable"] <= 0:
            r.report("C02", f"dosing-without-flow:{f}", f"dosing pump on with variable speed {o['variable']} (filtration {f}, disinfection {d})")
        elif not d.startswith("running"):
            r.report("C02", f"dosing-not-running:{f}:{d}", f"dosing pump on while disinfection is {d} (filtration {f})")
        elif f in NO_TREATMENT:
            r.report("C02", f"dosing-in-no-treatment:{f}", f"dosing pump on in no-treatment mode {f}")


class C05i(Monitor):
    pid = "C05"

    def settled(self, r):
        s = r.sys
        if s.pin_on("main") and _alive(r, "Tank") and s.state("Tank") not in ("fill", "low"):
            r.report("C05", "main-open-in:" + s.state("Tank"), f"mains valve open in tank state {s.state('Tank')}")


class C05t(Monitor):
    """the mains valve is never open for longer than the safety limit of the phase the tank controller is in (2 h in fill, 6 h in
    low): observed on the pin, whatever the tank controller believes — a poll chain that died silently with the valve open is
    counted like any other overrun"""
    pid = "C05"

    def attach(self, r):
        self.since = None
        self.st = None

    def settled(self, r):
        s = r.sys
        now = r.world.now_us
        st = s.state("Tank") if _alive(r, "Tank") else "DEAD"
        if s.pin_on("main"):
            if getattr(self, "since", None) is None or st != getattr(self, "st", None):
                self.since, self.st = now, st
            else:
                limit = (2 if st == "fill" else 6) * 3600 + 60
                if now - self.since > limit * 1_000_000:
                    r.report("C05", "main-valve-open-too-long:" + st, f"the mains valve has been open for {(now - self.since) / 3.6e9:.2f} h with the tank controller in {st} (limit {2 if st == 'fill' else 6} h)")
        else:
            self.since = None
            self.st = None


class C06a(Monitor):
    pid = "C06"

    def settled(self, r):
        s = r.sys
        if not s.pin_on("heating"):
            return
        f = s.state("Filtration") if _alive(r, "Filtration") else "DEAD"
        h = s.state("Heating") if _alive(r, "Heating") else "DEAD"
        ok = (h == "heating" and f == "heating_running") or (h == "forcing" and f == "comfort")
        if not ok or s.variable_speed() <= 0:
            r.report("C06", f"heat-without-phase:{f}:{h}", f"heat pump enabled with filtration {f}, heating {h}, speed {s.variable_speed()}")


class C07a(Monitor):
    pid = "C07"

    def settled(self, r):
        s = r.sys
        if (s.pin_on("drain") or s.pin_on("backwash")) :
            f = s.state("Filtration") if _alive(r, "Filtration") else "DEAD"
            if f not in ("wash_backwash", "wash_rinse"):
                r.report("C07", f"drain-open-in:{f}", f"drain/backwash valve open in {f}")
        # "entered only when the tank is high": at the first settled instant of a cycle (no time has passed since the guard was
        # evaluated: the tank controller only changes phase in its own polls) the tank controller is in `high`
        if _alive(r, "Filtration") and _alive(r, "Tank"):
            f = s.state("Filtration")
            prev = getattr(self, "_prev_f", None)
            if f == "wash_backwash" and prev is not None and not prev.startswith("wash") and s.state("Tank") != "high":
                r.report("C07", "backwash-entered-with-tank:" + s.state("Tank"), f"a backwash cycle was entered (from {prev}) while the tank controller is in {s.state('Tank')}, not high")
            self._prev_f = f


class C12a(Monitor):
    pid = "C12"

    def settled(self, r):
        s = r.sys
        if not _alive(r, "Filtration"):
            return
        f = s.state("Filtration")
        if f.startswith("opening") or f == "closing":
            if s.variable_speed() > 0 or s.pin_on("boost"):
                r.report("C12", f"pump-on-while-cover-moves:{f}", f"pump running in {f}")


class C12b(Monitor):
    """C12: open modes are entered only after the cover has reported fully open, eco from an open mode only after it reported
    closed to the configured position - judged on the TRUE position of the (fake) cover at the instant the phase is left"""

    pid = "C12"

    def attach(self, r):
        self.r = r
        r.world.on_state.append(self.on_state)

    def on_state(self, actor, old, new, hname, now, log_before):
        if actor.sim_name != "Filtration" or old is None or new is None:
            return
        dev = self.r.sys.arduino_dev
        try:
            dev._update()
            pos = int(dev.pos)
        except Exception:  # noqa: BLE001
            return
        if old.startswith("opening") and new in ("standby_boost", "overflow_boost", "standby_normal", "overflow_normal") and pos < 100:
            self.r.report("C12", "opened-before-fully-open", f"{new} entered from {old} by {hname} with the cover at {pos} % (never reported fully open)")
        if old == "closing" and new.startswith("eco"):
            try:
                eco_pos = int(getattr(actor, "_Filtration__cover_position_eco"))
            except Exception:  # noqa: BLE001
                eco_pos = 0
            if pos > eco_pos:
                self.r.report("C12", "closed-before-eco-position", f"{new} entered from closing by {hname} with the cover at {pos} % (configured eco position {eco_pos} %)")


class C13a(Monitor):
    pid = "C13"

    def settled(self, r):
        s = r.sys
        if not s.pin_on("swim") or not _alive(r, "Filtration"):
            return
        f = s.state("Filtration")
        if f.startswith(SWIM_NEVER_PREFIX):
            r.report("C13", f"swim-on-in:{f.split('_')[0]}", f"swim pump on while filtration is {f} (swim {s.state('Swim') if _alive(r,'Swim') else 'DEAD'})")
        elif f.startswith("wintering") and _alive(r, "Swim") and s.state("Swim") in ("timed", "continuous"):
            r.report("C13", "swim-user-request-in-wintering", f"a user swim request was accepted while filtration is {f}: swim is {s.state('Swim')}, pump on")
        elif f.startswith("wintering") and _alive(r, "Swim") and s.state("Swim") in ("wintering_waiting", "halt"):
            r.report("C13", f"swim-on-in-wintering:{s.state('Swim')}", f"swim pump on in wintering while its controller is {s.state('Swim')}: started neither by a request nor by the wintering cycle")


class C13c(Monitor):
    """C13, last clause: in timed mode the pump stops by itself after the configured number of minutes (the value the
    controller holds when the run starts or, if it is changed during the run, the larger of the values in force)"""

    pid = "C13"

    def attach(self, r):
        self.r = r
        self.t0 = None
        self.limit = None
        r.world.on_state.append(self.on_state)

    def _delay(self, actor):
        try:
            return getattr(actor, "_Swim__timer").delay.total_seconds()
        except Exception:  # noqa: BLE001
            return None

    def slack(self):
        return 5.0 + sum([float(a[2]) for a in getattr(self.r, "actions", []) if a and a[0] in ("lag", "lagcmd", "postlag", "racelag")] + [0.0])

    def on_state(self, actor, old, new, hname, now, log_before):
        if actor.sim_name != "Swim":
            return
        if old == "timed" and self.t0 is not None:
            d = self._delay(actor)
            lim = max(x for x in (self.limit, d) if x is not None) if (self.limit is not None or d is not None) else None
            dur = (now - self.t0) / 1e6
            if lim is not None and dur > lim + self.slack():
                self.r.report("C13", "timed-run-too-long", f"the timed run of the counter-current pump lasted {dur:.0f} s (configured {lim:.0f} s), ended by {hname}")
            self.t0 = None
        if new == "timed":
            self.t0 = now
            self.limit = self._delay(actor)

    def finish(self, r):
        if self.t0 is None or not _alive(r, "Swim") or r.world.deadlock is not None:
            return
        try:
            actor = r.world.actor("Swim")
        except Exception:  # noqa: BLE001
            return
        d = self._delay(actor)
        lim = max(x for x in (self.limit, d) if x is not None) if (self.limit is not None or d is not None) else None
        dur = (r.world.now_us - self.t0) / 1e6
        if lim is not None and dur > lim + self.slack() + 2:
            r.report("C13", "timed-run-never-ends", f"the counter-current pump is still in its timed run after {dur:.0f} s (configured {lim:.0f} s)")


class C15a(Monitor):
    pid = "C15"

    def settled(self, r):
        s = r.sys
        for ctrl, table in NAME_OF.items():
            if not _alive(r, ctrl):
                continue
            leaf = s.state(ctrl)
            last = s.last_state_publish(ctrl.lower())
            if last is None:
                continue
            want = table.get(leaf)
            if leaf in ("opening_standby", "opening_overflow") and isinstance(last, str) and last.startswith("opening"):
                continue
            if leaf == "closing" and isinstance(last, str) and last.startswith("closing"):
                continue
            if want is None:
                if leaf.startswith("reload"):
                    continue
                r.report("C15", f"unknown-leaf:{ctrl}:{leaf}", f"{ctrl} leaf {leaf} has no UI name")
            elif last != want:
                r.report("C15", f"stale-state:{ctrl}:{leaf}:{last}", f"{ctrl} is in {leaf} but last published state is {last!r}")


class C16a(Monitor):
    """C16 on the composed system: the scheduled heating phase is entered only if the policy allows it at that instant:
    enabled, start time reached, the averaged pool temperature not KNOWN to be at or above the setpoint (+ hysteresis), the
    averaged air temperature not KNOWN to be below the minimum.  Ground truth = the TemperatureReader's own windows."""

    pid = "C16"

    def attach(self, r):
        self.r = r
        r.world.on_state.append(self.on_state)

    def on_state(self, actor, old, new, hname, now, log_before):
        if actor.sim_name != "Heating" or new != "heating":
            return
        import configparser

        from .system import CONFIG_PATH

        r = self.r
        try:
            reader = r.world.actor("TemperatureReader")
            pool = reader.values["temperature_pool"].mean()
            air = reader.values["temperature_air"].mean()
            enable = getattr(actor, "_Heating__enable")
            setpoint = float(getattr(actor, "_Heating__setpoint"))
            min_temp = float(getattr(actor, "_Heating__min_temp"))
            next_start = getattr(actor, "_Heating__next_start")
        except Exception:  # noqa: BLE001
            return
        c = configparser.ConfigParser()
        c.read(CONFIG_PATH)
        hd = float(c["heating"]["hysteresis_down"])
        why = []
        if not enable:
            why.append("heating is disabled")
        if pool is not None and pool - hd >= setpoint:
            why.append(f"the averaged pool temperature {pool:.2f} is at or above the setpoint {setpoint:.1f}")
        if air is not None and air < min_temp:
            why.append(f"the averaged air temperature {air:.2f} is below the minimum {min_temp:.1f}")
        try:
            if r.world.now() < next_start and False:
                why.append("before the start time")
        except Exception:  # noqa: BLE001
            pass
        if why:
            r.report("C16", "heating-started-against-policy", "scheduled heating started although " + " and ".join(why))


class C17a(Monitor):
    pid = "C17"

    def attach(self, r):
        self.user_swim = False

    def before_action(self, r, a):
        if a and a[0] in ("mqtt", "queue", "lagcmd", "postlag", "race", "racelag") and "/settings/swim/mode" in [x for x in a if isinstance(x, str)]:
            self.user_swim = True
        if a and a[0] == "burst" and any(t == "/settings/swim/mode" for t, _ in a[1]):
            self.user_swim = True

    def settled(self, r):
        s = r.sys
        if _alive(r, "Filtration") and _alive(r, "Swim"):
            f = s.state("Filtration")
            if not f.startswith("wintering"):
                self.user_swim = False
            elif not self.user_swim and not s.state("Swim").startswith("wintering"):
                r.report("C17", "swim-not-in-wintering-cycle", f"filtration is {f} but the counter-current pump controller is {s.state('Swim')}: its wintering stir cycle never runs")
        if _alive(r, "Filtration") and s.state("Filtration") == "wintering_waiting" and s.variable_speed() > 0:
            r.report("C17", "pump-on-in-wintering-waiting", "circulation pump on in wintering_waiting")
        if _alive(r, "Swim") and _alive(r, "Filtration") and s.state("Filtration").startswith("wintering"):
            if s.state("Swim") != "wintering_stir" and s.pin_on("swim"):
                if s.state("Swim") in ("timed", "continuous"):
                    r.report("C17", "swim-user-request-in-wintering", f"swim pump on outside the wintering stir phase: a user request was accepted, swim is {s.state('Swim')}")
                else:
                    r.report("C17", f"swim-on-outside-stir:{s.state('Swim')}", f"swim pump on in wintering while swim is {s.state('Swim')}")


class C08(Monitor):
    """Deafness and stale polls, observed on the simulator's Timer objects at settled instants."""

    pid = "C08"

    def settled(self, r):
        s, w = r.sys, r.world
        pend = {}
        for e in w.pending_timers():
            pend.setdefault(e[2].owner, []).append(e[2])
        for ctrl in s.CONTROLLERS:
            if not _alive(r, ctrl):
                continue
            leaf = s.state(ctrl)
            if leaf.startswith("reload") or not w.actor(ctrl).actor_inbox.empty():
                continue
            mine = pend.get(ctrl, [])
            if leaf not in QUIET[ctrl] and not mine:
                r.report("C08", f"deaf:{ctrl}:{leaf}", f"{ctrl} is in {leaf} with no timer and nothing queued: the phase never ends / is never polled again")
            for t in mine:
                if t.label.startswith("do_repeat_"):
                    ph = t.label[len("do_repeat_"):]
                    if not (leaf == ph or leaf.startswith(ph + "_")):
                        r.report("C08", f"stale-poll:{ctrl}:{ph}-in-{leaf}", f"{ctrl} is in {leaf} but the poll loop of {ph} is still armed")
            if leaf in QUIET[ctrl] and mine:
                r.report("C08", f"timer-in-quiet:{ctrl}:{leaf}:{mine[0].label}", f"{ctrl} is in quiet state {leaf} with timer {mine[0].label} armed")
        for name, why in w.dead.items():
            pass


class Liveness(Monitor):
    """An actor died on an exception (C14 / C07 / C18 trigger); a deadlock (C09)."""

    pid = "C14"

    def settled(self, r):
        for name, why in r.world.dead.items():
            r.report("C14", f"actor-died:{name}:{why.split(':')[0]}:{why.rsplit(' in ', 1)[-1]}", f"{name} died: {why}")

    def finish(self, r):
        self.settled(r)
        if r.world.deadlock is not None:
            r.report("C09", "deadlock:" + "->".join(r.world.deadlock), f"cyclic wait without timeout: {r.world.deadlock}")


class Timed(Monitor):
    """Trace analyses at the end of a run (virtual timestamps): C02 (dosing off within 2 s of entering a no-treatment phase),
    C06 (b) post-run flow and (c) rest period, C07 bounded backwash cycle."""

    pid = "C06"

    def finish(self, r):
        import configparser
        import os

        from .system import CONFIG_PATH

        c = configparser.ConfigParser()
        c.read(CONFIG_PATH)
        d_eco, d_open, recover = float(c["heating"]["delay_to_eco"]), float(c["heating"]["delay_to_open"]), float(c["heating"]["recover_period"])
        s = r.sys
        pin = {n: s.pins[n][0] for n in ("heating", "ph", "cl", "drain", "backwash")}
        var = s.pins["variable"]
        fstate, hstate = "halt", "halt"
        heat_off_sched = None      # instant the heat pump was switched off at the end/interruption of a SCHEDULED run
        heat_off_any = None
        heat_halted_since_off = True
        speed = 0
        levels = {}
        no_treat_since = None
        wash_start = None
        bw = rinse = None
        set_bw, set_rinse = 120.0, 60.0
        open_requested = False
        # an actor that lags longer than the latency bound eats into the "(less 2 s)" allowance
        slack = 2.0 + max([float(a[2]) for a in getattr(r, "actions", []) if a and a[0] in ("lag", "lagcmd", "racelag")] + [0.0])
        for (t, kind, data) in r.world.log:
            if kind == "mqtt":
                try:
                    if data[0] == "/settings/filtration/backwash/backwash_duration" and 0 <= float(data[1]) <= 300:
                        set_bw = float(int(float(data[1])))
                    if data[0] == "/settings/filtration/backwash/rinse_duration" and 0 <= float(data[1]) <= 300:
                        set_rinse = float(int(float(data[1])))
                except (ValueError, TypeError):
                    pass
                if data[0] == "/settings/mode" and data[1] in (b"standby", b"overflow", "standby", "overflow") and fstate in ("heating_running", "heating_delay"):
                    open_requested = True
                continue
            if kind == "publish" and data[0] == "/status/filtration/state":
                prev = fstate
                fstate = data[1]
                if fstate == "heating_running":
                    open_requested = False
                if fstate == "halt":
                    heat_off_sched = None
                nt = fstate in ("halt", "closing", "opening", "eco_waiting", "eco_tank", "standby_boost", "overflow_boost", "sweep", "backwash", "rinse", "wintering_stir", "wintering_waiting") or str(fstate).startswith(("closing_", "opening_"))
                if nt and no_treat_since is None:
                    no_treat_since = t
                if not nt:
                    no_treat_since = None
                if fstate == "backwash" and prev != "backwash":
                    wash_start = t
                    bw, rinse = set_bw, set_rinse
                if fstate == "rinse":
                    rinse = max(rinse or 0, set_rinse)  # the rinse duration is read when the rinse phase is entered
                if wash_start is not None and fstate not in ("backwash", "rinse"):
                    if fstate != "halt" and bw is not None and rinse is not None:
                        limit = bw + rinse + 4 + 4
                        if (t - wash_start) / 1e6 > limit:
                            r.report("C07", "backwash-cycle-too-long", f"backwash cycle lasted {(t - wash_start) / 1e6:.0f} s (limit {limit:.0f} s)")
                    wash_start = None
            elif kind == "publish" and data[0] == "/status/heating/state":
                hstate = data[1]
                if hstate == "halt":
                    heat_halted_since_off = True
            elif kind == "gpio":
                p, v = data
                was = levels.get(p, True)
                levels[p] = v
                if p == pin["heating"]:
                    if v is True and was is False:  # de-energised (was energised)
                        heat_off_any = t
                        heat_halted_since_off = False
                        if fstate in ("heating_running", "heating_delay"):
                            heat_off_sched = t
                    elif v is False:
                        if heat_off_any is not None and not heat_halted_since_off and (t - heat_off_any) / 1e6 < recover - 1:
                            r.report("C06", "heat-pump-restarted-before-recover-period", f"heat pump switched on again {(t - heat_off_any) / 1e6:.0f} s after it was switched off (recover period {recover:.0f} s, no halt in between)")
                if p in var:
                    lv = [levels.get(x, True) for x in var]
                    on = [i for i, x in enumerate(lv) if not x]
                    new_speed = on[0] if len(on) == 1 else 0
                    if new_speed == 0 and speed > 0 and heat_off_sched is not None and fstate != "halt":
                        need = d_open if open_requested else d_eco
                        if (t - heat_off_sched) / 1e6 < need - slack:
                            r.report("C06", "pump-stopped-too-early-after-heating", f"circulation pump stopped {(t - heat_off_sched) / 1e6:.1f} s after the heat pump was switched off (configured {need:.0f} s), filtration {fstate}")
                        heat_off_sched = None
                    speed = new_speed
            elif kind == "arduino" and data in ("open", "close"):
                if heat_off_sched is not None and fstate != "halt" and (t - heat_off_sched) / 1e6 < d_open - slack:
                    r.report("C06", "cover-moved-too-early-after-heating", f"cover command {data} {(t - heat_off_sched) / 1e6:.1f} s after the heat pump was switched off (configured {d_open:.0f} s)")


class PhaseTimes(Monitor):
    """C08 (and C06/C07/C17 for their phases): every time-limited phase is left no later than its configured duration after
    it was entered (+ 2 s, + the lag the scenario injects).  The oracle durations come from config.ini and from the duration
    settings as they are when the phase is entered; phases that a message may legitimately restart are measured from the
    last restart."""

    pid = "C08"

    def attach(self, r):
        import configparser
        import os

        from .system import CONFIG_PATH

        c = configparser.ConfigParser()
        c.read(CONFIG_PATH)
        f = lambda sec, k: float(c[sec][k])  # noqa: E731

        def attr(name):
            return lambda a: getattr(a, f"_Filtration__{name}").total_seconds()

        self.table = {
            ("Filtration", "standby_boost"): ("C08", attr("boost_duration")),
            ("Filtration", "overflow_boost"): ("C08", attr("boost_duration")),
            ("Filtration", "wash_backwash"): ("C07", attr("backwash_backwash_duration")),
            ("Filtration", "wash_rinse"): ("C07", attr("backwash_rinse_duration")),
            ("Filtration", "heating_delay_none"): ("C08", lambda a: f("heating", "delay_to_eco")),
            ("Filtration", "heating_delay_standby"): ("C08", lambda a: f("heating", "delay_to_open")),
            ("Filtration", "heating_delay_overflow"): ("C08", lambda a: f("heating", "delay_to_open")),
            ("Filtration", "wintering_stir"): ("C17", lambda a: f("wintering", "duration")),
            ("Filtration", "eco_compute"): ("C08", lambda a: 5.0),
            ("Heating", "recovering"): ("C08", lambda a: f("heating", "recover_period")),
            ("Disinfection", "waiting"): ("C08", lambda a: f("disinfection", "start_delay")),
            ("Disinfection", "running_treating"): ("C08", lambda a: f("disinfection", "waiting_delay")),
            ("Swim", "wintering_stir"): ("C17", lambda a: f("wintering", "swim_duration")),
        }
        self.restart = {("Filtration", "heating_delay_none"): "heating_delay"}
        self.min_phase = {("Heating", "recovering"): "C06"}
        self.open = {}
        self._idx = {}
        self.r = r
        r.world.on_state.append(self.on_state)

    def last_due(self, owner, t0, now, end_idx=None):
        """due instant of the timer `owner` armed last in [t0, now] (an actor has a single timer slot), or None"""
        due = None
        for (t, kind, data) in self.r.world.log[self._idx.get(owner, 0):end_idx]:
            if t > now:
                break
            if kind == "timer_start" and data[0] == owner:
                due = t + float(data[2]) * 1e6
        return due

    def judge(self, k, t0, bound, now, how, end_idx=None):
        r = self.r
        dur = (now - t0) / 1e6
        if dur <= bound + 0.5:
            return
        due = self.last_due(k[0], t0, now, end_idx)
        # the phase's timeout must be DUE no later than its duration after the entry; how long its delivery then takes is the
        # scheduling lag (a busy, lagging or blocked controller), which the property allows for
        if due is None or (due - t0) / 1e6 > bound + 0.5:
            late = "no timer was armed" if due is None else f"its timer is due after {(due - t0) / 1e6:.1f} s"
            for p in {self.table[k][0], "C08"}:
                r.report(p, f"phase-too-long:{k[0]}.{k[1]}", f"{k[0]} stayed {dur:.1f} s in the time-limited phase {k[1]} (configured {bound:.0f} s): {late}; {how}")

    def on_state(self, actor, old, new, hname, now, log_before):
        r = self.r
        ko = (actor.sim_name, old)
        if ko in self.open:
            t0, bound, idx = self.open.pop(ko)
            self._idx[ko[0]] = idx
            rs = self.restart.get(ko)
            if rs is not None:
                # measured from the last delivery of the restart message inside the phase
                for (t, kind, data) in reversed(r.world.log):
                    if t < t0:
                        break
                    if kind == "deliver" and data == (ko[0], rs):
                        t0 = t
                        break
            self.judge(ko, t0, bound, now, f"left by {hname}", log_before)
            dur = (now - t0) / 1e6
            if ko in self.min_phase and new != "halt" and dur < bound - 1.0:
                r.report(self.min_phase[ko], f"phase-too-short:{ko[0]}.{old}", f"{ko[0]} left {old} after {dur:.1f} s (configured {bound:.0f} s) by {hname}")
        kn = (actor.sim_name, new)
        if kn in self.table:
            try:
                self.open[kn] = (now, float(self.table[kn][1](actor)), log_before)
            except Exception:  # noqa: BLE001
                pass

    def finish(self, r):
        now = r.world.now_us
        for k, (t0, bound, idx) in list(self.open.items()):
            if not _alive(r, k[0]) or r.world.deadlock is not None or k in self.restart:
                continue
            self._idx[k[0]] = idx
            self.judge(k, t0, bound, now, "still in it at the end of the run")


class BackwashDue(Monitor):
    """C07, last sentence: an AUTOMATIC backwash (no `wash` request) starts only when at least the configured number of days
    (the value last accepted on /settings/filtration/backwash/period, default 30) has passed since the last one (the retained
    /status/filtration/backwash/last, or the completion the controller published itself)"""

    pid = "C07"

    def finish(self, r):
        import datetime as dt

        period = 30
        last = None
        wash_requested = False
        in_wash = False
        for (t, kind, data) in r.world.log:
            if kind == "mqtt":
                topic = data[0]
                pay = data[1].decode("utf-8", "replace") if isinstance(data[1], (bytes, bytearray)) else str(data[1])
                if topic == "/settings/filtration/backwash/period":
                    try:
                        v = float(pay)
                        if v == v and 0 <= v <= 90:
                            period = int(v)
                    except ValueError:
                        pass
                elif topic == "/status/filtration/backwash/last":
                    try:
                        last = dt.datetime.strptime(pay, "%c")
                    except ValueError:
                        pass
                elif topic == "/settings/mode" and pay == "wash":
                    wash_requested = True
            elif kind == "publish" and data[0] == "/status/filtration/backwash/last":
                try:
                    last = dt.datetime.strptime(str(data[1]), "%c")
                except ValueError:
                    pass
            elif kind == "publish" and data[0] == "/status/filtration/state":
                if data[1] == "backwash" and not in_wash:
                    in_wash = True
                    now = r.world.t0 + dt.timedelta(microseconds=t)
                    if not wash_requested and last is not None and period > 0 and (now - last) < dt.timedelta(days=period) - dt.timedelta(seconds=60):
                        r.report("C07", "automatic-backwash-before-due", f"automatic backwash started {(now - last).days} days after the last one ({last:%c}); configured period {period} days")
                    wash_requested = False
                elif data[1] not in ("backwash", "rinse"):
                    in_wash = False


class WinterCycle(Monitor):
    """C17 on the pin trace (virtual timestamps): in wintering mode, while the temperature the pump's policy looks at is at or
    below its threshold (or unknown), the pump runs at least once every configured period + one poll (2 min).  Oracle values
    come from the configuration file, not from the code's constants."""

    pid = "C17"

    def finish(self, r):
        import configparser

        from .system import CONFIG_PATH

        if r.world.deadlock is not None or not (_alive(r, "Filtration") and _alive(r, "Swim") and _alive(r, "TemperatureReader")):
            return
        c = configparser.ConfigParser()
        c.read(CONFIG_PATH)
        wn = c["wintering"]
        s = r.sys
        var = set(s.pins["variable"][1:])
        swim = set(s.pins["swim"])
        slack = 15.0 + sum([float(a[2]) for a in getattr(r, "actions", []) if a and a[0] in ("lag", "lagcmd", "postlag", "racelag")] + [0.0])
        pumps = {
            "F": {"pins": var, "key": "temperature_air", "period": float(wn["period"]), "thr": float(wn["only_below"]), "name": "circulation pump"},
            "S": {"pins": swim, "key": "temperature_ncc", "period": float(wn["swim_period"]), "thr": float(wn["swim_only_below"]), "name": "counter-current pump"},
        }
        temps = {k: v._value for k, v in s.s_temp.items()}
        # initial temperatures are those of the first log instant: replay the temp events from the defaults
        temps = {"temperature_pool": 24.5, "temperature_local": 20.6, "temperature_air": 19.4, "temperature_ncc": 21.3}
        temps.update((getattr(r, "opts_temps", None) or {}))
        in_winter = False
        user_swim = False
        on = {"F": set(), "S": set()}
        ref = {"F": None, "S": None}

        def cold(k):
            v = temps.get(pumps[k]["key"])
            return v is None or v <= pumps[k]["thr"]

        def check(k, t):
            if ref[k] is not None and (t - ref[k]) / 1e6 > pumps[k]["period"] + 120.0 + slack and not (k == "S" and user_swim):
                r.report("C17", f"no-stir-within-period:{k}", f"wintering, {pumps[k]['key']} at or below {pumps[k]['thr']} (or unknown): the {pumps[k]['name']} did not run for {(t - ref[k]) / 1e6:.0f} s (configured period {pumps[k]['period']:.0f} s + one poll of 120 s)")
                ref[k] = None

        for (t, kind, data) in r.world.log:
            for k in pumps:
                check(k, t)
            if kind == "publish" and data[0] == "/status/filtration/state":
                w = str(data[1]).startswith("wintering")
                if w and not in_winter:
                    for k in pumps:
                        ref[k] = t if cold(k) and not on[k] else None
                if not w:
                    ref = {"F": None, "S": None}
                    user_swim = False
                in_winter = w
            elif kind == "mqtt" and data[0] == "/settings/swim/mode" and in_winter:
                user_swim = True
            elif kind == "temp":
                before = {k: cold(k) for k in pumps}
                temps[data[0]] = data[1]
                for k in pumps:
                    if in_winter and not on[k]:
                        if cold(k) and not before[k]:
                            ref[k] = t
                        elif not cold(k):
                            ref[k] = None
            elif kind == "gpio":
                p, v = data
                for k in pumps:
                    if p in pumps[k]["pins"]:
                        was = bool(on[k])
                        if v is False:
                            on[k].add(p)
                        else:
                            on[k].discard(p)
                        if on[k]:
                            ref[k] = None
                        elif was and in_winter and cold(k):
                            ref[k] = t
        for k in pumps:
            check(k, r.world.now_us)


class C04a(Monitor):
    """C04 on every explored run: once the initial fill has completed (the tank controller has been in low / normal / high), a
    level that reads below too_low — or a dead level sensor — for more than 30 s (+ the scheduling allowance) leaves the whole
    system halted: Filtration in `halt` (C01 then applies to the outputs).  Runs in which the tank controller itself is slow
    (a `lag` action on Tank or Filtration inside the interval) are not judged: the 30 s presuppose prompt scheduling."""
    pid = "C04"

    def attach(self, r):
        self.below_since = None
        self.filled = False
        self.lagged = False

    def _too_low(self, r):
        try:
            import controller.tank as T
            lim = float(T.Tank.levels_too_low)
        except Exception:  # noqa: BLE001
            lim = 10.0
        s = r.sys
        dead = s.adc.fault is True
        lvl = (s.adc.raw - s.adc_low) * 100.0 / (s.adc_high - s.adc_low)
        return dead or lvl < lim

    def before_action(self, r, a):
        if a and a[0] in ("lag", "lagcmd", "postlag", "racelag") and a[1] in ("Tank", "Filtration"):
            self.lagged = True

    def settled(self, r):
        if not hasattr(self, "filled"):
            self.attach(r)
        s = r.sys
        if not _alive(r, "Tank") or not _alive(r, "Filtration"):
            self.below_since = None
            return
        st, f = s.state("Tank"), s.state("Filtration")
        now = r.world.now_us
        # an episode: the level reads too low while the tank controller is RUNNING past its initial fill (low / normal / high) and
        # the system is not halted; it ends when the level recovers or the system is halted (a restart begins with a new initial
        # fill, during which a low level is expected: the 2 h limit of C05 applies there)
        if f == "halt" or st == "fill" or not self._too_low(r):
            # `fill` is only entered from the tank's halt: the system was stopped and restarted (possibly inside one burst of
            # commands, with no settled instant in between); a new initial fill is in progress
            self.below_since = None
            return
        if self.below_since is None:
            if st in ("low", "normal", "high"):
                self.below_since = now
                self.lagged = False
            return
        if now - self.below_since > 33_000_000 and not self.lagged:
            r.report("C04", "not-halted-with-tank-too-low:" + st, f"the tank level has read below too_low (or the sensor has been dead) for {(now - self.below_since) / 1e6:.0f} s, starting while the tank controller was running past its initial fill; tank controller now: {st}, filtration: {f} (not halted)")


SETTLED_MONITORS = [C04a, C01, C01b, C02, C05i, C05t, C06a, C07a, C08, C12a, C12b, C13a, C13c, C15a, C16a, C17a, Liveness, Timed, PhaseTimes, WinterCycle, BackwashDue]


def all_monitors():
    return [m() for m in SETTLED_MONITORS]
