"""Replay a scenario file against the real code:  POUPOOL_REPO=<tree> python -m sim.replay <scenario.json>"""
import json
import sys

from . import monitors, scenario


def main():
    scn = json.load(open(sys.argv[1]))
    if "replay" in scn and "scenario" in scn["replay"]:
        scn = scn["replay"]["scenario"]
    r = scenario.run_scenario(scn, monitors.all_monitors())
    for f in r.findings:
        print(json.dumps(f))
    print("states", r.sys.states())
    print("outputs", r.sys.outputs())
    print("dead", r.world.dead, "deadlock", r.world.deadlock, r.world.deadlock_handlers)
    return 1 if r.findings else 0


if __name__ == "__main__":
    sys.exit(main())
