#!/bin/bash
# Offline setup after a fresh restore: regenerate the Lean data from /repo and warm the lake cache, so that the first
# check does not pay for the cold build.  Every check regenerates/rebuilds what it needs anyway.
cd "$(dirname "$0")"
mkdir -p .cache evidence replays
/venv/bin/python checks/regen_all.py 2>&1 | tail -8
cd lean
mods=""
for f in Poupool/Properties/*.lean; do m=$(basename "$f" .lean); mods="$mods Poupool.Properties.$m"; done
for f in Poupool/Properties/DecisionsTie/*.lean; do m=$(basename "$f" .lean); mods="$mods Poupool.Properties.DecisionsTie.$m"; done
lake build fixpoint timeddrv stepdrv $mods 2>&1 | grep -v "^✔\|^⚠\|warning\|Hint\|Note\|apply\]\|^$\|List.all_append" | tail -5
exit 0
