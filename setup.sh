#!/bin/bash
# Offline setup after a fresh restore: build the Lean library from the files on disk (the Generated/ files are
# regenerated from /repo by the checks themselves; this only warms the lake cache).
set -e
cd "$(dirname "$0")"
mkdir -p .cache evidence replays
/venv/bin/python - <<'PY'
import sys
sys.path.insert(0, ".")
from checks import regen_all
regen_all.main()
PY
cd lean
lake build Poupool 2>&1 | tail -3
