"""Engine T6: the synchronous-ask graph, from the AST of controller/*.py and poupool.py.

Every `<call>(...).get(...)` (a pykka future) and every attribute assignment through a proxy (pykka's
ActorProxy.__setattr__ is a blocking ask) is an ask site.  For each: the class it is in, the callee actor class (resolved
from `self.get_actor("Name")`, local aliases, constructor-injected proxies, PWM.start(...).proxy()), whether it has a
timeout, and whether it sits inside a helper (`try: return future.get(timeout=T) except pykka.Timeout`) whose argument is
the future.  A receiver that cannot be resolved becomes the callee "?" (which the Lean side treats as "may be anybody").

Output: lean/Poupool/Generated/AskGraph.lean
"""
from __future__ import annotations

import ast
import json
import os
import sys

VERIF = os.path.dirname(os.path.dirname(os.path.abspath(__file__)))
sys.path.insert(0, VERIF)

FILES = ["filtration", "tank", "heating", "disinfection", "swim", "light", "arduino", "sensor", "lcd", "mqtt", "actor"]
# constructor-injected proxies (poupool.main wiring), validated against the live system by translate/actors.py
INJECTED = {
    ("Disinfection", "__sensors_reader"): "DisinfectionReader",
    ("Disinfection", "__sensors_writer"): "DisinfectionWriter",
    ("Disinfection", "__ph"): "PWM",
    ("Disinfection", "__cl"): "PWM",
    ("Filtration", "__temperature"): "TemperatureReader",
    ("Heating", "__temperature"): "TemperatureReader",
    ("Heater", "__temperature"): "TemperatureReader",
    ("Swim", "__temperature"): "TemperatureReader",
    ("DisinfectionWriter", "__reader"): "DisinfectionReader",
    ("TemperatureWriter", "__reader"): "TemperatureReader",
}


def write_if_changed(path, text):
    os.makedirs(os.path.dirname(path), exist_ok=True)
    if os.path.exists(path) and open(path).read() == text:
        return False
    with open(path, "w") as fh:
        fh.write(text)
    return True


def resolve(node, cls, fn, aliases):
    """actor class a proxy expression denotes"""
    if isinstance(node, ast.Name):
        return aliases.get(node.id)
    if isinstance(node, ast.Call) and isinstance(node.func, ast.Attribute) and node.func.attr == "get_actor" and node.args:
        a = node.args[0]
        if isinstance(a, ast.Constant):
            return a.value
        if isinstance(a, ast.Name):
            return aliases.get("$str:" + a.id, "?")
        return "?"
    if isinstance(node, ast.Attribute) and isinstance(node.value, ast.Name) and node.value.id == "self":
        if node.attr == "_proxy":
            return cls
        return INJECTED.get((cls, node.attr))
    return None


def scan_function(cls, fn, classes, out, via=None, str_args=None):
    aliases = {}
    if str_args:
        for k, v in str_args.items():
            aliases["$str:" + k] = v
    params = [a.arg for a in fn.args.args]
    for st in ast.walk(fn):
        if isinstance(st, ast.Assign) and len(st.targets) == 1 and isinstance(st.targets[0], ast.Name):
            r = resolve(st.value, cls, fn, aliases)
            if r is not None:
                aliases[st.targets[0].id] = r
    for n in ast.walk(fn):
        # future.get(...)
        if isinstance(n, ast.Call) and isinstance(n.func, ast.Attribute) and n.func.attr == "get":
            recv = n.func.value
            timeout = None
            for k in n.keywords:
                if k.arg == "timeout":
                    timeout = ast.literal_eval(k.value) if isinstance(k.value, ast.Constant) else "?"
            if isinstance(recv, ast.Call) and isinstance(recv.func, ast.Attribute):
                callee = resolve(recv.func.value, cls, fn, aliases)
                if callee is None and isinstance(recv.func.value, ast.Attribute):
                    # self.__devices.get_sensor(...)  .value etc. are not futures; dict.get etc.
                    continue
                if callee is None:
                    callee = "?"
                out.append({"caller": cls, "fn": fn.name if via is None else f"{via}->{fn.name}", "callee": callee, "method": recv.func.attr, "timeout": timeout, "line": n.lineno})
            elif isinstance(recv, ast.Name) and recv.id in params:
                # a future passed in as a parameter: resolved at the call sites of this helper
                out.append({"caller": cls, "fn": fn.name, "callee": "$param:" + recv.id, "method": "?", "timeout": timeout, "line": n.lineno})
        # proxy attribute assignment
        if isinstance(n, ast.Assign):
            for t in n.targets:
                if isinstance(t, ast.Attribute) and isinstance(t.value, ast.Attribute) and isinstance(t.value.value, ast.Name) and t.value.value.id == "self":
                    callee = INJECTED.get((cls, t.value.attr))
                    if callee is not None:
                        out.append({"caller": cls, "fn": fn.name, "callee": callee, "method": "set:" + t.attr, "timeout": None, "line": n.lineno})
        # calls of helpers taking a future: self.__helper(X.m(), default)
        if isinstance(n, ast.Call) and isinstance(n.func, ast.Attribute) and isinstance(n.func.value, ast.Name) and n.func.value.id == "self":
            callee_fn = classes[cls].get(n.func.attr)
            if callee_fn is not None and n.args:
                for i, a in enumerate(n.args):
                    if isinstance(a, ast.Call) and isinstance(a.func, ast.Attribute):
                        tgt = resolve(a.func.value, cls, fn, aliases)
                        if tgt is not None:
                            pname = callee_fn.args.args[i + 1].arg if i + 1 < len(callee_fn.args.args) else None
                            out.append({"caller": cls, "fn": fn.name, "callee": tgt, "method": a.func.attr, "timeout": "$via:" + n.func.attr + ":" + str(pname), "line": n.lineno})
            # helpers called with a literal actor name: self.__actor_halt("Swim")
            if callee_fn is not None and n.args and isinstance(n.args[0], ast.Constant) and isinstance(n.args[0].value, str):
                pname = callee_fn.args.args[1].arg if len(callee_fn.args.args) > 1 else None
                if pname:
                    scan_function(cls, callee_fn, classes, out, via=fn.name, str_args={pname: n.args[0].value})


def extract(repo):
    classes = {}
    trees = {}
    for f in FILES:
        p = os.path.join(repo, "controller", f + ".py")
        if not os.path.exists(p):
            continue
        tree = ast.parse(open(p).read())
        for node in tree.body:
            if isinstance(node, ast.ClassDef):
                classes[node.name] = {n.name: n for n in node.body if isinstance(n, ast.FunctionDef)}
    raw = []
    for cls, fns in classes.items():
        for name, fn in fns.items():
            scan_function(cls, fn, classes, raw)
    # resolve helper parameters: a `$param:x` site inside helper h gets its timeout; call sites `$via:h:x` inherit it
    helper_timeout = {}
    for r in raw:
        if r["callee"].startswith("$param:"):
            helper_timeout[(r["caller"], r["fn"], r["callee"][7:])] = r["timeout"]
    edges = []
    for r in raw:
        if r["callee"].startswith("$param:"):
            continue
        if isinstance(r["timeout"], str) and r["timeout"].startswith("$via:"):
            _, h, pname = r["timeout"].split(":")
            key = (r["caller"], h, pname)
            if key not in helper_timeout:
                continue  # the helper does not wait on this argument
            r = dict(r, timeout=helper_timeout[key])
        # helpers scanned with a literal name also appear unresolved ("?") in their own generic scan: drop those
        if r["callee"] == "?" and any(x is not r and x["line"] == r["line"] and x["caller"] == r["caller"] and x["callee"] != "?" for x in raw):
            continue
        if r not in edges:
            edges.append(r)
    return edges


def rank_of(actors, strict):
    """topological rank (longest path) or None if cyclic"""
    rank = {a: 0 for a in actors}
    for _ in range(len(actors) + 1):
        changed = False
        for a, b in strict:
            if rank[a] < rank[b] + 1:
                rank[a] = rank[b] + 1
                changed = True
        if not changed:
            return rank
    return None


def handler_loops(repo):
    """`while` statements inside methods of the actor classes of controller/*.py (driver classes of device.py excluded: their
    loops are bounded by serial time-outs): a handler that loops never returns to its inbox, whatever the ask graph says"""
    import ast
    import glob

    out = []
    for path in sorted(glob.glob(os.path.join(repo, "controller", "*.py"))):
        if os.path.basename(path) in ("device.py",):
            continue
        tree = ast.parse(open(path).read())
        for cls in [n for n in ast.walk(tree) if isinstance(n, ast.ClassDef)]:
            for fn in [n for n in cls.body if isinstance(n, ast.FunctionDef)]:
                for w in [n for n in ast.walk(fn) if isinstance(n, ast.While)]:
                    out.append({"file": os.path.basename(path), "class": cls.name, "method": fn.name, "line": w.lineno, "test": ast.unparse(w.test)[:80]})
    return out


def generate(repo=None):
    from vlib.common import REPO

    repo = repo or REPO
    edges = extract(repo)
    actors = sorted({e["caller"] for e in edges} | {e["callee"] for e in edges})
    aid = {a: i for i, a in enumerate(actors)}
    strict = sorted({(e["caller"], e["callee"]) for e in edges if e["timeout"] is None})
    timed = sorted({(e["caller"], e["callee"]) for e in edges if e["timeout"] is not None})
    if "?" in aid:
        # an unresolved callee may be anybody
        strict += [("?", a) for a in actors if a != "?"]
    rank = rank_of(actors, strict)
    lines = ["-- GENERATED by translate/askgraph.py. Do not edit.", "namespace Poupool.Gen.Ask", ""]
    lines.append("def actors : List String := [" + ", ".join(f'"{a}"' for a in actors) + "]")
    lines.append("/-- ask sites WITHOUT timeout: (caller, callee) -/")
    lines.append("def strictEdges : List (Nat × Nat) := [" + ", ".join(f"({aid[a]}, {aid[b]})" for a, b in strict) + "]")
    lines.append("/-- ask sites with a timeout -/")
    lines.append("def timedEdges : List (Nat × Nat) := [" + ", ".join(f"({aid[a]}, {aid[b]})" for a, b in timed) + "]")
    lines.append("/-- candidate topological rank of the strict graph (checked by the kernel, not trusted) -/")
    r = rank or {a: 0 for a in actors}
    lines.append("def rank : List Nat := [" + ", ".join(str(r[a]) for a in actors) + "]")
    for a in actors:
        if a.isidentifier():
            lines.append(f"abbrev a_{a} : Nat := {aid[a]}")
    lines.append("\nend Poupool.Gen.Ask\n")
    write_if_changed(os.path.join(VERIF, "lean", "Poupool", "Generated", "AskGraph.lean"), "\n".join(lines))
    side = {"edges": edges, "actors": actors, "strict": strict, "timed": timed, "rank": rank, "handler_loops": handler_loops(repo)}
    with open(os.path.join(VERIF, "lean", "Poupool", "Generated", "askgraph.json"), "w") as fh:
        json.dump(side, fh, indent=1)
    return side


if __name__ == "__main__":
    s = generate()
    print("actors", s["actors"])
    print("strict", s["strict"])
    print("timed", s["timed"])
    print("rank", s["rank"])
    for e in s["edges"]:
        print(e)
