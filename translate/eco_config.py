"""Translator for C10 / C11:  controller/filtration.py + controller/util.py + controller/dispatcher.py +
controller/heating.py + controller/arduino.py + config.ini  ->  lean/Poupool/Generated/EcoConfig.lean

Read from the working tree on every run:
 * the constants Model/Eco.lean is parametrised with (minimum on-duration, minimum tank duration, persistence
   interval, poll delay, compute delay, defaults, the factor passed to EcoMode.update by every poll, the
   heating -> eco delay of config.ini, the dispatcher bounds and `once` flags of the topics involved);
 * two structural flags the model follows (`offClamp`: compute clamps a negative pause to zero;
   `keepElapsed`: Filtration.duration() puts today's elapsed time back after changing the daily duration);
 * the *shape*: normalised (ast.unparse, logging removed) text of every function the model mirrors is compared
   with the text the model was written against, the constants above being holes.  A deviation does not stop the
   translation: `shapeOk := false` + the list of deviating functions; the checks turn it into a failed obligation.
"""
from __future__ import annotations

import ast
import configparser
import os

from vlib.common import LEAN_DIR, REPO

OUT = os.path.join(LEAN_DIR, "Poupool", "Generated", "EcoConfig.lean")

UNIT_US = {
    "microseconds": 1,
    "milliseconds": 1000,
    "seconds": 1_000_000,
    "minutes": 60_000_000,
    "hours": 3_600_000_000,
    "days": 86_400_000_000,
}


class TranslateError(Exception):
    pass


def _strip_logging(fn):
    class T(ast.NodeTransformer):
        def visit_Expr(self, n):
            v = n.value
            if isinstance(v, ast.Call) and isinstance(v.func, ast.Attribute) and isinstance(v.func.value, ast.Name) and v.func.value.id == "logger":
                return None
            if isinstance(v, ast.Constant) and isinstance(v.value, str):
                return None  # docstring
            return n

    fn = T().visit(fn)
    ast.fix_missing_locations(fn)
    return fn


def _functions(path):
    """{(class, name, kind)} -> normalised FunctionDef; kind = '' | 'setter' | 'property'."""
    with open(path) as fh:
        tree = ast.parse(fh.read())
    out = {}
    for c in tree.body:
        if isinstance(c, ast.ClassDef):
            for f in c.body:
                if isinstance(f, ast.FunctionDef):
                    kind = ""
                    for d in f.decorator_list:
                        s = ast.unparse(d)
                        if s.endswith(".setter"):
                            kind = "setter"
                        elif s == "property":
                            kind = "property"
                    out[(c.name, f.name, kind)] = _strip_logging(f)
                elif isinstance(f, ast.ClassDef):
                    for g in f.body:
                        if isinstance(g, ast.FunctionDef):
                            out[(c.name + "." + f.name, g.name, "")] = _strip_logging(g)
                elif isinstance(f, ast.Assign) and len(f.targets) == 1 and isinstance(f.targets[0], ast.Name):
                    out[(c.name, f.targets[0].id, "const")] = f
    return out, tree


def _td_us(node) -> int:
    """timedelta(unit=n) -> microseconds."""
    if not (isinstance(node, ast.Call) and ast.unparse(node.func) == "timedelta"):
        raise TranslateError(f"not a timedelta(): {ast.unparse(node)}")
    if node.args:
        raise TranslateError(f"positional timedelta(): {ast.unparse(node)}")
    us = 0
    for k in node.keywords:
        if k.arg not in UNIT_US or not isinstance(k.value, ast.Constant) or not isinstance(k.value.value, int):
            raise TranslateError(f"unsupported timedelta(): {ast.unparse(node)}")
        us += UNIT_US[k.arg] * k.value.value
    return us


def _ratio(node):
    """numeric literal -> (num, den) exactly as Python computes with it (ints stay ints, floats as_integer_ratio)."""
    if isinstance(node, ast.Constant) and isinstance(node.value, bool):
        raise TranslateError("bool factor")
    if isinstance(node, ast.Constant) and isinstance(node.value, int):
        return (node.value, 1)
    if isinstance(node, ast.Constant) and isinstance(node.value, float):
        return node.value.as_integer_ratio()
    raise TranslateError(f"not a numeric literal: {ast.unparse(node)}")


def _find_if(fn, lhs: str):
    """the `if <lhs> < timedelta(...): <lhs> = timedelta(...)` statement of fn (or None)."""
    for n in fn.body:
        if isinstance(n, ast.If) and isinstance(n.test, ast.Compare) and ast.unparse(n.test.left) == lhs and len(n.test.ops) == 1 and isinstance(n.test.ops[0], ast.Lt):
            return n
    return None


def _clamp(fn, lhs):
    n = _find_if(fn, lhs)
    if n is None:
        return None
    bound = _td_us(n.test.comparators[0])
    if len(n.body) != 1 or not isinstance(n.body[0], ast.Assign) or ast.unparse(n.body[0].targets[0]) != lhs or n.orelse:
        raise TranslateError(f"unexpected clamp of {lhs}")
    val = _td_us(n.body[0].value)
    return bound, val


def _update_factor(fn, default):
    """the factor expression(s) of the single self.__eco_mode.update(...) call in fn -> list of (num, den)."""
    calls = [n for n in ast.walk(fn) if isinstance(n, ast.Call) and ast.unparse(n.func) == "self.__eco_mode.update"]
    if len(calls) != 1:
        raise TranslateError(f"{fn.name}: {len(calls)} eco_mode.update calls")
    c = calls[0]
    if c.keywords:
        raise TranslateError(f"{fn.name}: keyword factor")
    if len(c.args) == 1:
        return [default]
    e = c.args[1]
    if isinstance(e, ast.Name):
        defs = [n for n in ast.walk(fn) if isinstance(n, ast.Assign) and ast.unparse(n.targets[0]) == e.id]
        if len(defs) != 1:
            raise TranslateError(f"{fn.name}: factor variable")
        e = defs[0].value
    if isinstance(e, ast.IfExp):
        return [_ratio(e.body), _ratio(e.orelse)]
    return [_ratio(e)]


def _delay_args(fn):
    """first arguments of every self.do_delay(...) in fn, unparsed."""
    return [ast.unparse(n.args[0]) for n in ast.walk(fn) if isinstance(n, ast.Call) and ast.unparse(n.func) == "self.do_delay"]


def _dispatcher_entries(path):
    with open(path) as fh:
        tree = ast.parse(fh.read())
    for n in ast.walk(tree):
        if isinstance(n, ast.Assign) and ast.unparse(n.targets[0]) == "self.__mapping" and isinstance(n.value, ast.Dict) and n.value.keys:
            d = {}
            for k, v in zip(n.value.keys, n.value.values):
                if not (isinstance(k, ast.Constant) and isinstance(v, ast.Tuple) and len(v.elts) == 5):
                    raise TranslateError("dispatcher entry shape")
                d[k.value] = v.elts
            return d, tree
    raise TranslateError("dispatcher mapping not found")


def _between(node):
    if isinstance(node, ast.Call) and ast.unparse(node.func) == "between" and len(node.args) == 2:
        vals = []
        for a in node.args:
            v = ast.literal_eval(compile(ast.Expression(a), "<b>", "eval").co_consts[0]) if False else eval(compile(ast.Expression(a), "<b>", "eval"), {"__builtins__": {}})  # noqa: S307 (literals and products only)
            vals.append(v)
        return vals
    if isinstance(node, ast.Call) and ast.unparse(node.func) == "greater_equal" and len(node.args) == 1:
        return [eval(compile(ast.Expression(node.args[0]), "<b>", "eval"), {"__builtins__": {}}), None]  # noqa: S307
    raise TranslateError(f"predicate: {ast.unparse(node)}")


# ---------------------------------------------------------------------------------------------------------------
# shapes the model was written against; {..} = holes
# ---------------------------------------------------------------------------------------------------------------
SHAPES = {
    ("filtration", "EcoMode", "__init__", ""): """def __init__(self, encoder):
    self.__encoder = encoder
    self.filtration = Timer('filtration')
    self.current = Timer('current')
    self.reset_hour = {D_RESET}
    self.__period = {D_PERIOD}
    self.tank_percentage = {D_TANK}
    self.daily = {D_DAILY}
    self.period_duration = timedelta(hours=1)
    self.off_duration = timedelta()
    self.on_duration = timedelta()
    self.tank_duration = timedelta()
    self.__duration_last_save = datetime.now()""",
    ("filtration", "EcoMode", "reset_hour", "setter"): """@reset_hour.setter
def reset_hour(self, hour):
    tm = datetime.now()
    self.__next_reset = tm.replace(hour=hour, minute=0, second=0, microsecond=0)
    if self.__next_reset < tm:
        self.__next_reset += timedelta(days=1)""",
    ("filtration", "EcoMode", "reset_hour", "property"): """@property
def reset_hour(self):
    return self.__next_reset""",
    ("filtration", "EcoMode", "__recompute_period_duration", ""): """def __recompute_period_duration(self):
    self.period_duration = self.filtration.delay / self.period
    assert self.period_duration > timedelta()""",
    ("filtration", "EcoMode", "period", "setter"): """@period.setter
def period(self, value):
    self.__period = value
    self.__recompute_period_duration()""",
    ("filtration", "EcoMode", "period", "property"): """@property
def period(self):
    return self.__period""",
    ("filtration", "EcoMode", "daily", "setter"): """@daily.setter
def daily(self, value):
    self.filtration.delay = value
    self.__recompute_period_duration()""",
    ("filtration", "EcoMode", "daily", "property"): """@property
def daily(self):
    return self.filtration.delay""",
    ("filtration", "EcoMode", "clear", ""): """def clear(self):
    self.filtration.clear()
    self.current.delay = timedelta()
    self.__encoder.filtration_next(str(round_timedelta(self.current.remaining)))""",
    ("filtration", "EcoMode", "compute", ""): """def compute(self):
    remaining_duration = max(timedelta(), self.filtration.delay - self.filtration.duration)
    assert self.period_duration > timedelta()
    remaining_periods = max(1, int(remaining_duration / self.period_duration))
    remaining_time = max(timedelta(), self.reset_hour - datetime.now())
    self.on_duration = min(remaining_time, remaining_duration / remaining_periods)
    if self.on_duration < {MIN_ON}:
        self.on_duration = {MIN_ON}
    self.off_duration = (remaining_time - remaining_duration) / remaining_periods
{OFF_CLAMP}    self.tank_duration = self.tank_percentage * self.on_duration
    if self.tank_duration < {TANK_MIN}:
        self.tank_duration = {TANK_MIN}
    if self.on_duration > self.tank_duration:
        self.on_duration -= self.tank_duration""",
    ("filtration", "EcoMode", "set_current", ""): """def set_current(self, duration):
    self.current.delay = duration""",
    ("filtration", "EcoMode", "update", ""): """def update(self, now, factor={UPD_DEFAULT}):
    self.current.update(now)
    self.filtration.update(now, factor)
    self.__encoder.filtration_next(str(round_timedelta(self.current.remaining)))
    seconds = (self.filtration.delay - self.filtration.duration).total_seconds()
    remaining = max(timedelta(), timedelta(seconds=int(seconds)))
    self.__encoder.filtration_remaining(str(remaining))
    reset = False
    if now >= self.__next_reset:
        self.__next_reset += timedelta(days=1)
        self.filtration.reset()
        reset = True
    if now - self.__duration_last_save > {SAVE} or reset:
        self.__duration_last_save = now
        value = str(round(self.filtration.duration.total_seconds()))
        self.__encoder.filtration_duration(value, retain=True)
    return reset""",
    ("filtration", "EcoMode", "elapsed_on", ""): """def elapsed_on(self):
    return self.current.elapsed() or self.filtration.elapsed()""",
    ("filtration", "EcoMode", "elapsed_off", ""): """def elapsed_off(self):
    return self.current.elapsed() and (not self.filtration.elapsed())""",
    # the reload is two self-sent messages: `reload` (to the reload state of the mode: timers cleared) and, sent by
    # on_enter_reload, `reloaded` (back to eco: eco_compute); in the model: reloadEco (lateness j1, j2)
    ("filtration", "Filtration", "__reload_eco", ""): """def __reload_eco(self):
    if self.is_eco(allow_substates=True):
        self._proxy.reload.defer()""",
    ("filtration", "Filtration", "on_enter_reload", ""): """def on_enter_reload(self):
    self._proxy.reloaded.defer()""",
    ("filtration", "Filtration", "duration", ""): """def duration(self, value):
    current_duration = self.__eco_mode.filtration.duration
    self.__eco_mode.daily = timedelta(seconds=value)
{KEEP}    self.__reload_eco()""",
    ("filtration", "Filtration", "period", ""): """def period(self, value):
    self.__eco_mode.period = value
    self.__reload_eco()""",
    ("filtration", "Filtration", "restore_duration", ""): """def restore_duration(self, value):
    self.__eco_mode.filtration.duration = timedelta(seconds=value)""",
    ("filtration", "Filtration", "tank_percentage", ""): """def tank_percentage(self, value):
    self.__eco_mode.tank_percentage = value
    self.__reload_eco()""",
    ("filtration", "Filtration", "reset_hour", ""): """def reset_hour(self, value):
    self.__eco_mode.reset_hour = value
    self.__reload_eco()""",
    ("filtration", "Filtration", "__before_state_change", ""): """def __before_state_change(self):
    self.__eco_mode.clear()""",
    ("filtration", "Filtration", "on_enter_eco_compute", ""): """def on_enter_eco_compute(self):
    self.__encoder.filtration_state('eco_compute')
    self.__eco_mode.update(datetime.now(), {F_COMPUTE})
    self.__eco_mode.compute()
    if self.__eco_mode.off_duration.total_seconds() > 0:
        self.do_delay({COMPUTE_DELAY}, 'eco_waiting')
    elif self.__eco_mode.on_duration.total_seconds() > 0:
        self.do_delay({COMPUTE_DELAY}, 'eco_normal')
    else:
        self.do_delay({COMPUTE_DELAY}, 'eco_waiting')""",
    ("filtration", "Filtration", "on_enter_eco_normal", ""): """@do_repeat()
def on_enter_eco_normal(self):
    self.__encoder.filtration_state('eco_normal')
    self.__eco_mode.set_current(self.__eco_mode.on_duration)
    self.__disinfection_start()
    self.__devices.get_pump('variable').speed(self.__speed_eco)""",
    ("filtration", "Filtration", "do_repeat_eco_normal", ""): """def do_repeat_eco_normal(self):
    now = datetime.now()
    if self.__start_backwash():
        self._proxy.wash.defer()
    elif self.__eco_mode.update(now{F_NORMAL}):
        self.__reload_eco()
    elif self.__eco_mode.elapsed_on():
        if self.tank_is_low():
            self._proxy.eco_waiting.defer()
        elif self.__eco_mode.tank_duration > timedelta():
            self._proxy.eco_tank.defer()
    else:
        self.__stir_mode.update(now)
    self.do_delay(self.STATE_REFRESH_DELAY, self.do_repeat_eco_normal.__name__)""",
    ("filtration", "Filtration", "on_enter_eco_tank", ""): """@do_repeat()
def on_enter_eco_tank(self):
    self.__encoder.filtration_state('eco_tank')
    self.__eco_mode.set_current(self.__eco_mode.tank_duration)
    self.__actor_halt('Disinfection')
    self.__stir_mode.clear(datetime.now())
    self.__devices.get_valve('tank').on()
    self.__devices.get_pump('variable').speed(1)""",
    ("filtration", "Filtration", "do_repeat_eco_tank", ""): """def do_repeat_eco_tank(self):
    if self.__eco_mode.update(datetime.now(){F_TANK}):
        self.__reload_eco()
    elif self.__eco_mode.elapsed_on():
        self._proxy.eco_waiting.defer()
    else:
        self.do_delay(self.STATE_REFRESH_DELAY, self.do_repeat_eco_tank.__name__)""",
    ("filtration", "Filtration", "on_enter_heating_running", ""): """@do_repeat()
def on_enter_heating_running(self):
    self.__encoder.filtration_state('heating_running')
    self.__eco_mode.clear()
    self.__disinfection_start()
    self.__devices.get_pump('variable').speed(2)""",
    ("filtration", "Filtration", "do_repeat_heating_running", ""): """def do_repeat_heating_running(self):
    now = datetime.now()
    self.__eco_mode.update(now{F_HEATING})
    self.__stir_mode.update(now)
    self.do_delay(self.STATE_REFRESH_DELAY, self.do_repeat_heating_running.__name__)""",
    ("filtration", "Filtration", "on_enter_heating_delay_none", ""): """def on_enter_heating_delay_none(self):
    self.do_delay(Filtration.HEATING_DELAY_TO_ECO, 'heating_delayed')""",
    ("filtration", "Filtration", "on_enter_eco_waiting", ""): """@do_repeat()
def on_enter_eco_waiting(self):
    self.__encoder.filtration_state('eco_waiting')
    self.__eco_mode.set_current(self.__eco_mode.off_duration)
    self.__actor_halt('Disinfection')
    self.__devices.get_pump('variable').off()""",
    ("filtration", "Filtration", "do_repeat_eco_waiting", ""): """def do_repeat_eco_waiting(self):
    now = datetime.now()
    if self.__start_backwash():
        self._proxy.wash.defer()
    elif self.__eco_mode.update(now{F_WAITING}):
        self.__reload_eco()
    elif self.__eco_mode.elapsed_off():
        self._proxy.eco_normal.defer()
    else:
        self.__stir_mode.update(now)
    self.do_delay(self.STATE_REFRESH_DELAY, self.do_repeat_eco_waiting.__name__)""",
    ("filtration", "Filtration", "HEATING_DELAY_TO_ECO", "const"): "HEATING_DELAY_TO_ECO = int(config['heating', 'delay_to_eco'])",
    ("util", "Timer", "__init__", ""): """def __init__(self, name):
    self.__duration = timedelta()
    self.__name = name
    self.__last = None
    self.__last_print = datetime(2000, 1, 1)
    self.__delay = timedelta()""",
    ("util", "Timer", "remaining", "property"): """@property
def remaining(self):
    return max(timedelta(), self.__delay - self.__duration)""",
    ("util", "Timer", "duration", "setter"): """@duration.setter
def duration(self, value):
    self.__duration = value""",
    ("util", "Timer", "delay", "setter"): """@delay.setter
def delay(self, value):
    self.__delay = value
    self.reset()""",
    ("util", "Timer", "clear", ""): """def clear(self):
    self.__last = None""",
    ("util", "Timer", "reset", ""): """def reset(self):
    self.clear()
    self.__duration = timedelta()""",
    ("util", "Timer", "update", ""): """def update(self, now, factor=1):
    if self.__last is not None:
        self.__duration += factor * (now - self.__last)
        remaining = max(timedelta(), self.delay - self.__duration)
        if self.__last_print + timedelta(seconds=20) <= now:
            self.__last_print = now
    self.__last = now""",
    ("util", "Timer", "elapsed", ""): """def elapsed(self):
    return self.__duration >= self.__delay""",
    ("util", "Duration", "init", ""): """def init(self, value):
    assert isinstance(value, timedelta)
    self.__total_duration = value""",
    ("util", "Duration", "stop", ""): """def stop(self, value=None):
    value = value or datetime.now()
    assert isinstance(value, datetime)
    diff = value - self.__start
    assert diff > timedelta()
    self.__total_duration += diff
    if self.__callback:
        self.__callback(self.__total_duration)""",
    ("heating", "Heating", "total_seconds", ""): """def total_seconds(self, value):
    duration = timedelta(seconds=value)
    self.__total_duration.init(duration)""",
    ("heating", "Heating.DurationEncoderCallback", "__call__", ""): """def __call__(self, value):
    self.__encoder.heating_total__seconds(round(value.total_seconds()), retain=True)""",
    ("arduino", "Arduino", "restore_water_counter", ""): """def restore_water_counter(self, value):
    self.__water_counter = value""",
    ("arduino", "Arduino", "do_repeat_run", ""): """def do_repeat_run(self):
    value = self.__arduino.water_counter
    if value is not None:
        if self.__water_counter_last is not None and self.__water_counter_last != value:
            self.__water_counter += value - self.__water_counter_last
            self.__encoder.water_counter(self.__water_counter, retain=True)
        self.__water_counter_last = value
    self.do_delay(self.STATE_REFRESH_DELAY, self.do_repeat_run.__name__)""",
}


def _lit(x):
    return f"({x} : Int)"


def extract():
    """returns (values: dict, deviations: list[str])."""
    fpath = os.path.join(REPO, "controller", "filtration.py")
    funcs = {}
    for mod in ("filtration", "util", "heating", "arduino"):
        fs, _ = _functions(os.path.join(REPO, "controller", f"{mod}.py"))
        for (c, n, k), f in fs.items():
            funcs[(mod, c, n, k)] = f

    def fn(mod, cls, name, kind=""):
        f = funcs.get((mod, cls, name, kind))
        if f is None:
            raise TranslateError(f"{mod}.{cls}.{name} not found")
        return f

    v = {}
    holes = {}
    # --- EcoMode.__init__ defaults
    init = fn("filtration", "EcoMode", "__init__")
    dflt = {}
    for st in init.body:
        if isinstance(st, ast.Assign):
            dflt[ast.unparse(st.targets[0])] = st.value
    v["defaultResetHour"] = _ratio(dflt["self.reset_hour"])[0]
    v["defaultPeriod"] = _ratio(dflt["self.__period"])[0]
    v["defaultTank"] = _ratio(dflt["self.tank_percentage"])
    v["defaultDailyUs"] = _td_us(dflt["self.daily"])
    holes.update(
        D_RESET=ast.unparse(dflt["self.reset_hour"]),
        D_PERIOD=ast.unparse(dflt["self.__period"]),
        D_TANK=ast.unparse(dflt["self.tank_percentage"]),
        D_DAILY=ast.unparse(dflt["self.daily"]),
    )
    # --- compute
    comp = fn("filtration", "EcoMode", "compute")
    c_on = _clamp(comp, "self.on_duration")
    if c_on is None or c_on[0] != c_on[1]:
        raise TranslateError("minimum on-duration clamp not found / inconsistent")
    v["minOnUs"] = c_on[0]
    holes["MIN_ON"] = ast.unparse(_find_if(comp, "self.on_duration").test.comparators[0])
    c_tank = _clamp(comp, "self.tank_duration")
    if c_tank is None or c_tank[0] != c_tank[1]:
        raise TranslateError("minimum tank-duration clamp not found / inconsistent")
    v["tankMinUs"] = c_tank[0]
    holes["TANK_MIN"] = ast.unparse(_find_if(comp, "self.tank_duration").test.comparators[0])
    c_off = _clamp(comp, "self.off_duration")
    if c_off is None:
        v["offClamp"] = False
        holes["OFF_CLAMP"] = ""
    else:
        if c_off != (0, 0):
            raise TranslateError("off clamp is not at zero")
        v["offClamp"] = True
        holes["OFF_CLAMP"] = "    if self.off_duration < timedelta():\n        self.off_duration = timedelta()\n"
    # --- update
    upd = fn("filtration", "EcoMode", "update")
    if len(upd.args.defaults) != 1:
        raise TranslateError("EcoMode.update default factor")
    v["updateDefaultFactor"] = _ratio(upd.args.defaults[0])
    holes["UPD_DEFAULT"] = ast.unparse(upd.args.defaults[0])
    save = None
    for n in ast.walk(upd):
        if isinstance(n, ast.Compare) and ast.unparse(n.left) == "now - self.__duration_last_save" and isinstance(n.ops[0], ast.Gt):
            save = n.comparators[0]
    if save is None:
        raise TranslateError("persistence rule not found in EcoMode.update")
    v["saveIntervalUs"] = _td_us(save)
    holes["SAVE"] = ast.unparse(save)
    # --- Filtration
    with open(fpath) as fh:
        tree = ast.parse(fh.read())
    srd = None
    for c in tree.body:
        if isinstance(c, ast.ClassDef) and c.name == "Filtration":
            for st in c.body:
                if isinstance(st, ast.Assign) and ast.unparse(st.targets[0]) == "STATE_REFRESH_DELAY":
                    srd = st.value
    if not (isinstance(srd, ast.Constant) and isinstance(srd.value, int)):
        raise TranslateError("Filtration.STATE_REFRESH_DELAY")
    v["pollDelayUs"] = srd.value * 1_000_000
    dflt_f = v["updateDefaultFactor"]
    for key, meth in (
        ("Compute", "on_enter_eco_compute"),
        ("Normal", "do_repeat_eco_normal"),
        ("Waiting", "do_repeat_eco_waiting"),
        ("Tank", "do_repeat_eco_tank"),
        ("Heating", "do_repeat_heating_running"),
        ("Comfort", "do_repeat_comfort"),
    ):
        f = _update_factor(fn("filtration", "Filtration", meth), dflt_f)
        if len(f) != 1:
            raise TranslateError(f"{meth}: conditional factor")
        v["factor" + key] = f[0]
    f = _update_factor(fn("filtration", "Filtration", "do_repeat_standby_normal"), dflt_f)
    v["factorStandbyOn"], v["factorStandbyOff"] = (f + f)[:2]
    f = _update_factor(fn("filtration", "Filtration", "do_repeat_overflow_normal"), dflt_f)
    v["factorOverflowFast"], v["factorOverflowSlow"] = (f + f)[:2]

    def factor_text(meth):
        c = [n for n in ast.walk(fn("filtration", "Filtration", meth)) if isinstance(n, ast.Call) and ast.unparse(n.func) == "self.__eco_mode.update"][0]
        return "" if len(c.args) == 1 else ", " + ast.unparse(c.args[1])

    holes["F_NORMAL"] = factor_text("do_repeat_eco_normal")
    holes["F_WAITING"] = factor_text("do_repeat_eco_waiting")
    holes["F_TANK"] = factor_text("do_repeat_eco_tank")
    holes["F_HEATING"] = factor_text("do_repeat_heating_running")
    holes["F_COMPUTE"] = factor_text("on_enter_eco_compute")[2:]
    # compute delay
    d = set(_delay_args(fn("filtration", "Filtration", "on_enter_eco_compute")))
    if len(d) != 1:
        raise TranslateError(f"eco_compute delays differ: {d}")
    cd = d.pop()
    try:
        v["computeDelayUs"] = int(round(float(cd) * 1_000_000))
    except ValueError as e:
        raise TranslateError(f"eco_compute delay {cd}") from e
    holes["COMPUTE_DELAY"] = cd
    for meth in ("do_repeat_eco_normal", "do_repeat_eco_waiting", "do_repeat_eco_tank", "do_repeat_heating_running"):
        if set(_delay_args(fn("filtration", "Filtration", meth))) != {"self.STATE_REFRESH_DELAY"}:
            raise TranslateError(f"{meth}: poll delay is not STATE_REFRESH_DELAY")
    # keepElapsed
    dur = fn("filtration", "Filtration", "duration")
    texts = [ast.unparse(s) for s in dur.body]
    keep = "self.__eco_mode.filtration.duration = current_duration"
    if keep in texts and texts.index(keep) > texts.index("self.__eco_mode.daily = timedelta(seconds=value)"):
        v["keepElapsed"] = True
        holes["KEEP"] = "    " + keep + "\n"
    else:
        v["keepElapsed"] = False
        holes["KEEP"] = ""
    # config.ini
    cp = configparser.ConfigParser()
    cp.read(os.path.join(REPO, "config.ini"))
    v["heatingDelayToEcoUs"] = int(cp["heating"]["delay_to_eco"]) * 1_000_000
    v["variablePins"] = [int(x) for x in cp["pins"]["variable"].split(",")]
    # dispatcher
    ent, _ = _dispatcher_entries(os.path.join(REPO, "controller", "dispatcher.py"))

    def once(topic):
        e = ent.get(topic)
        if e is None:
            raise TranslateError(f"dispatcher: {topic} missing")
        if not (isinstance(e[4], ast.Constant) and isinstance(e[4].value, bool)):
            raise TranslateError(f"dispatcher: once flag of {topic}")
        return e[4].value

    v["onceFiltrationDuration"] = once("/status/filtration/duration")
    v["onceHeatingTotal"] = once("/status/heating/total_seconds")
    v["onceWaterCounter"] = once("/status/water/counter")
    v["onceDailySetting"] = once("/settings/filtration/duration")
    v["restoreMin"], v["restoreMax"] = _between(ent["/status/filtration/duration"][1])
    v["dailyMin"], v["dailyMax"] = _between(ent["/settings/filtration/duration"][1])
    v["periodMin"], v["periodMax"] = _between(ent["/settings/filtration/period"][1])
    v["resetHourMin"], v["resetHourMax"] = _between(ent["/settings/filtration/reset_hour"][1])
    tmin, tmax = _between(ent["/settings/filtration/tank_percentage"][1])
    v["tankPctMin"] = float(tmin).as_integer_ratio()
    v["tankPctMax"] = float(tmax).as_integer_ratio()
    v["methods"] = {
        t: ast.unparse(ent[t][2]) for t in ("/status/filtration/duration", "/status/heating/total_seconds", "/status/water/counter", "/settings/filtration/duration")
    }
    # --- shapes
    deviations = []
    for (mod, cls, name, kind), tmpl in SHAPES.items():
        f = funcs.get((mod, cls, name, kind))
        if f is None:
            deviations.append(f"{mod}.{cls}.{name}: missing")
            continue
        want = tmpl
        for h, val in holes.items():
            want = want.replace("{" + h + "}", val)
        got = ast.unparse(f)
        if got.strip() != want.strip():
            deviations.append(f"{mod}.{cls}.{name}")
    exp_methods = {
        "/status/filtration/duration": "lambda _: 'restore_duration'",
        "/status/heating/total_seconds": "lambda _: 'total_seconds'",
        "/status/water/counter": "lambda _: 'restore_water_counter'",
        "/settings/filtration/duration": "lambda _: 'duration'",
    }
    for t, m in exp_methods.items():
        if v["methods"][t] != m:
            deviations.append(f"dispatcher:{t}")
    v["deviations"] = deviations
    return v


def render(v) -> str:
    def b(x):
        return "true" if x else "false"

    L = [
        "-- GENERATED by translate/eco_config.py from controller/{filtration,util,dispatcher,heating,arduino}.py, config.ini.",
        "-- Never edit by hand; rewritten (when changed) by every run of ./check C10 / C11.",
        "namespace Poupool.Generated.EcoConfig",
        f"def minOnUs : Int := {v['minOnUs']}",
        f"def tankMinUs : Int := {v['tankMinUs']}",
        f"def offClamp : Bool := {b(v['offClamp'])}",
        f"def saveIntervalUs : Int := {v['saveIntervalUs']}",
        f"def pollDelayUs : Int := {v['pollDelayUs']}",
        f"def computeDelayUs : Int := {v['computeDelayUs']}",
        f"def heatingDelayToEcoUs : Int := {v['heatingDelayToEcoUs']}",
        f"def defaultDailyUs : Int := {v['defaultDailyUs']}",
        f"def defaultPeriod : Int := {v['defaultPeriod']}",
        f"def defaultResetHour : Int := {v['defaultResetHour']}",
        f"def defaultTankNum : Int := {v['defaultTank'][0]}",
        f"def defaultTankDen : Int := {v['defaultTank'][1]}",
    ]
    for k in ("updateDefaultFactor", "factorCompute", "factorNormal", "factorWaiting", "factorTank", "factorHeating", "factorComfort", "factorStandbyOn", "factorStandbyOff", "factorOverflowFast", "factorOverflowSlow"):
        L.append(f"def {k}Num : Int := {v[k][0]}")
        L.append(f"def {k}Den : Int := {v[k][1]}")
    L += [
        f"def keepElapsed : Bool := {b(v['keepElapsed'])}",
        f"def onceFiltrationDuration : Bool := {b(v['onceFiltrationDuration'])}",
        f"def onceHeatingTotal : Bool := {b(v['onceHeatingTotal'])}",
        f"def onceWaterCounter : Bool := {b(v['onceWaterCounter'])}",
        f"def onceDailySetting : Bool := {b(v['onceDailySetting'])}",
        f"def restoreMinS : Int := {int(v['restoreMin'])}",
        f"def restoreMaxS : Int := {int(v['restoreMax'])}",
        f"def dailyMinS : Int := {int(v['dailyMin'])}",
        f"def dailyMaxS : Int := {int(v['dailyMax'])}",
        f"def periodMin : Int := {int(v['periodMin'])}",
        f"def periodMax : Int := {int(v['periodMax'])}",
        f"def resetHourMin : Int := {int(v['resetHourMin'])}",
        f"def resetHourMax : Int := {int(v['resetHourMax'])}",
        f"def tankPctMinNum : Int := {v['tankPctMin'][0]}",
        f"def tankPctMinDen : Int := {v['tankPctMin'][1]}",
        f"def tankPctMaxNum : Int := {v['tankPctMax'][0]}",
        f"def tankPctMaxDen : Int := {v['tankPctMax'][1]}",
        f"def shapeOk : Bool := {b(not v['deviations'])}",
        "def deviations : List String := [" + ", ".join('"' + d.replace('"', "'") + '"' for d in v["deviations"]) + "]",
        "end Poupool.Generated.EcoConfig",
        "",
    ]
    return "\n".join(L)


def generate():
    """(values, changed).  Raises TranslateError when the source cannot be read."""
    v = extract()
    text = render(v)
    os.makedirs(os.path.dirname(OUT), exist_ok=True)
    old = None
    if os.path.exists(OUT):
        with open(OUT) as fh:
            old = fh.read()
    if old != text:
        tmp = OUT + ".tmp%d" % os.getpid()
        with open(tmp, "w") as fh:
            fh.write(text)
        os.replace(tmp, OUT)
    return v, old != text


if __name__ == "__main__":
    import json
    import sys

    sys.path.insert(0, os.path.dirname(os.path.dirname(os.path.abspath(__file__))))
    vals, ch = generate()
    print(json.dumps({k: x for k, x in vals.items()}, indent=1, default=str))
    print("changed" if ch else "unchanged")
