"""Translator for C19: reads arduino/cover/cover.ino (working tree of POUPOOL_REPO) with regular expressions and writes
lean/Poupool/Generated/FirmwareConst.lean: every constant of the sketch the Lean model depends on, the comparison
operators of the end-point tests, and the serial command table (command string -> list of print / action ops) parsed
from loop().  A construct the translator cannot read raises TranslateError (= broken tie, see CONVENTIONS.md).

Usage:  generate() -> dict of what was read;  python firmware_const.py  prints it."""
from __future__ import annotations

import json
import os
import re
import sys

sys.path.insert(0, os.path.dirname(os.path.dirname(os.path.abspath(__file__))))
from vlib.common import LEAN_DIR, REPO  # noqa: E402

OUT = os.path.join(LEAN_DIR, "Poupool", "Generated", "FirmwareConst.lean")


class TranslateError(Exception):
    pass


def ino_path():
    return os.path.join(REPO, "arduino", "cover", "cover.ino")


def _strip_comments(src: str) -> str:
    src = re.sub(r"/\*.*?\*/", " ", src, flags=re.S)
    return "\n".join(line.split("//")[0] for line in src.split("\n"))


def _one(pattern, text, what, flags=re.S):
    ms = list(re.finditer(pattern, text, flags))
    if len(ms) != 1:
        raise TranslateError(f"cover.ino: expected exactly one match for {what}, found {len(ms)}")
    return ms[0]


def _body(text, header_re, what):
    """text of the brace block following the (unique) match of header_re."""
    m = _one(header_re, text, what)
    i = text.index("{", m.end() - 1) if text[m.end() - 1] != "{" else m.end() - 1
    depth = 0
    for j in range(i, len(text)):
        if text[j] == "{":
            depth += 1
        elif text[j] == "}":
            depth -= 1
            if depth == 0:
                return text[i + 1 : j]
    raise TranslateError(f"unbalanced braces in {what}")


def _cstr(s: str) -> list:
    """bytes of a C string literal body (only the escapes the sketch could plausibly use)."""
    out = []
    i = 0
    esc = {"n": 10, "r": 13, "t": 9, "0": 0, "\\": 92, '"': 34}
    while i < len(s):
        if s[i] == "\\":
            if i + 1 >= len(s) or s[i + 1] not in esc:
                raise TranslateError(f"unsupported escape in string literal {s!r}")
            out.append(esc[s[i + 1]])
            i += 2
        else:
            out.append(ord(s[i]))
            i += 1
    if any(b > 127 for b in out):
        raise TranslateError(f"non-ASCII string literal {s!r}")
    return out


_DIRS = {"OPEN": "setOpen", "CLOSE": "setClose", "STOP": "setStop"}


def _ops(body: str, what: str) -> list:
    """statements of a dispatch branch -> list of (op, arg)."""
    ops = []
    stmts = [s.strip() for s in body.split(";") if s.strip()]
    for st in stmts:
        m = re.fullmatch(r'Serial\.(print|println)\(\s*F\(\s*"((?:[^"\\]|\\.)*)"\s*\)\s*\)', st)
        if m:
            ops.append((m.group(1), _cstr(m.group(2))))
            continue
        if re.fullmatch(r"Serial\.println\(\s*cover\.get_position_percentage\(\)\s*\)", st):
            ops.append(("printlnPct", None))
        elif re.fullmatch(r"Serial\.println\(\s*water\.get_counter\(\)\s*\)", st):
            ops.append(("printlnWater", None))
        elif re.fullmatch(r"Serial\.println\(\s*buffer\s*\)", st):
            ops.append(("printlnBuf", None))
        elif re.fullmatch(r"cover\.debug\(\)", st):
            ops.append(("debug", None))
        elif re.fullmatch(r"cover\.reset\(\)", st):
            ops.append(("reset", None))
        else:
            m = re.fullmatch(r"cover\.set_direction\(\s*Cover::Direction::(OPEN|CLOSE|STOP)\s*\)", st)
            if not m:
                raise TranslateError(f"cannot read statement {st!r} in {what}")
            ops.append((_DIRS[m.group(1)], None))
    return ops


def read():
    with open(ino_path()) as fh:
        src = _strip_comments(fh.read())
    c = {}
    # --- ReadBuffer -----------------------------------------------------------------------------------------
    c["bufSize"] = int(_one(r"ReadBuffer<\s*char\s*,\s*(\d+)\s*>\s+buffer\s*;", src, "ReadBuffer<char, N> buffer").group(1))
    add = _body(src, r"bool\s+add\s*\(\s*byte\s+b\s*\)\s*\{", "ReadBuffer::add")
    S = c["bufSize"]

    def sexpr(e):
        e = e.strip().strip("()").strip()
        m = re.fullmatch(r"S(?:\s*([+-])\s*(\d+))?", e)
        if not m:
            raise TranslateError(f"cannot read buffer bound {e!r}")
        k = int(m.group(2) or 0)
        return S + k if m.group(1) == "+" else S - k

    shape = re.fullmatch(
        r"\s*if\s*\(\s*b\s*==\s*'\\r'\s*\)\s*\{\s*return\s+false\s*;\s*\}"
        r"\s*else\s+if\s*\(\s*m_position\s*==\s*(\(?[^){]*\)?)\s*\)\s*\{\s*m_buffer\[m_position\+\+\]\s*=\s*0\s*;\s*return\s+true\s*;\s*\}"
        r"\s*else\s+if\s*\(\s*m_position\s*>=\s*(\(?[^){]*\)?)\s*\)\s*\{\s*return\s+true\s*;\s*\}"
        r"\s*else\s+if\s*\(\s*b\s*==\s*'\\n'\s*\)\s*\{\s*m_buffer\[m_position\+\+\]\s*=\s*0\s*;\s*return\s+true\s*;\s*\}"
        r"\s*else\s*\{\s*m_buffer\[m_position\+\+\]\s*=\s*b\s*;\s*return\s+false\s*;\s*\}\s*",
        add,
    )
    if not shape:
        raise TranslateError("ReadBuffer::add does not have the modelled shape (CR / full / ignore / LF / store)")
    c["bufFullAt"] = sexpr(shape.group(1))
    c["bufIgnoreAt"] = sexpr(shape.group(2))
    clear = _body(src, r"void\s+clear\s*\(\s*\)\s*\{", "ReadBuffer::clear")
    if not re.fullmatch(r"\s*memset\(\s*m_buffer\s*,\s*0\s*,\s*S\s*\*\s*sizeof\(T\)\s*\)\s*;\s*m_position\s*=\s*0\s*;\s*", clear):
        raise TranslateError("ReadBuffer::clear does not have the modelled shape")
    if not re.search(r"T\s+m_buffer\[S\]", src):
        raise TranslateError("ReadBuffer::m_buffer is not T[S]")
    # --- Cover constants ------------------------------------------------------------------------------------
    c["maxRunningMarginMs"] = int(_one(r"MAX_RUNNING_MARGIN_IN_MS\s*=\s*(\d+)\s*;", src, "MAX_RUNNING_MARGIN_IN_MS").group(1))
    c["pulsesPerSecond"] = int(_one(r"PULSES_PER_SECOND\s*=\s*(\d+)\s*;", src, "PULSES_PER_SECOND").group(1))
    _one(r"MAX_PULSE_MARGIN\s*=\s*PULSES_PER_SECOND\s*\*\s*MAX_RUNNING_MARGIN_IN_MS\s*/\s*1000\s*;", src, "MAX_PULSE_MARGIN formula")
    c["maxPulseMargin"] = c["pulsesPerSecond"] * c["maxRunningMarginMs"] // 1000
    ens = _body(src, r"void\s+ensure_consistency\s*\(\s*unsigned\s+long\s+now\s*\)\s*\{", "ensure_consistency")
    c["stallWindowMs"] = int(_one(r"now\s*-\s*m_previous_time\s*>\s*(\d+)", ens, "stall window").group(1))
    c["stallMinPulses"] = int(_one(r"abs\(\s*position\s*-\s*m_previous_position\s*\)\s*<\s*(\d+)", ens, "stall pulse threshold").group(1))
    _one(
        r"if\s*\(\s*m_set_limits\s*==\s*SetLimit::NONE\s*\)\s*\{\s*const\s+auto\s+position\s*=\s*get_position\(\)\s*;\s*"
        r"if\s*\(\s*position\s*<\s*\(\s*m_position\.close\s*-\s*MAX_PULSE_MARGIN\s*\)\s*\|\|\s*position\s*>\s*"
        r"\(\s*m_position\.open\s*\+\s*MAX_PULSE_MARGIN\s*\)\s*\)\s*\{\s*emergency_stop\(\)\s*;",
        ens,
        "envelope test of ensure_consistency",
    )
    _one(r"if\s*\(\s*m_direction\s*!=\s*Direction::STOP\s*\)\s*\{", ens, "direction guard of ensure_consistency")
    pstop = _body(src, r"void\s+process_stop\s*\(\s*unsigned\s+long\s+now\s*\)\s*\{", "process_stop")
    _one(r"now\s*-\s*m_do_stop_time\s*>\s*MAX_RUNNING_MARGIN_IN_MS", pstop, "process_stop delay")
    pdir = _body(src, r"void\s+process_direction\s*\(\s*unsigned\s+long\s+now\s*\)\s*\{", "process_direction")
    delays = set(re.findall(r"delay\(\s*(\d+)\s*\)", pdir))
    if len(delays) != 1 or len(re.findall(r"delay\(", pdir)) != 2:
        raise TranslateError("process_direction: expected two equal delay(N)")
    c["relayDelayMs"] = int(delays.pop())
    # which value ends up in m_previous_direction: the direction read once at the top (fixed sketch) or the volatile
    # m_direction re-read after the delay (the ISR may have set it to STOP in between: the stop is then lost)
    once = re.search(r"const\s+(?:auto|Direction)\s+direction\s*=\s*m_direction\s*;\s*if\s*\(\s*direction\s*!=\s*m_previous_direction\s*\)\s*\{\s*switch\s*\(\s*direction\s*\)", pdir)
    reread = re.search(r"^\s*if\s*\(\s*m_direction\s*!=\s*m_previous_direction\s*\)\s*\{\s*switch\s*\(\s*m_direction\s*\)", pdir)
    if once and re.search(r"m_previous_direction\s*=\s*direction\s*;", pdir) and len(re.findall(r"\bm_direction\b", pdir)) == 1:
        c["prevDirRereadsVolatile"] = False
    elif reread and re.search(r"m_previous_direction\s*=\s*m_direction\s*;", pdir):
        c["prevDirRereadsVolatile"] = True
    else:
        raise TranslateError("process_direction: neither 'direction read once' nor 'm_previous_direction = m_direction' shape")
    for d, run, hi, lo in (("OPEN", "OPEN", "cover_close", "cover_open"), ("CLOSE", "CLOSE", "cover_open", "cover_close")):
        _one(
            r"case\s+Direction::" + d + r"\s*:\s*m_running_direction\s*=\s*Direction::" + run + r"\s*;\s*digitalWrite\(\s*pins\." + hi
            + r"\s*,\s*HIGH\s*\)\s*;\s*delay\(\s*\d+\s*\)\s*;\s*digitalWrite\(\s*pins\." + lo + r"\s*,\s*LOW\s*\)\s*;\s*m_previous_position\s*=\s*get_position\(\)\s*;"
            r"\s*m_previous_time\s*=\s*now\s*;\s*m_do_stop_time\s*=\s*0\s*;\s*break\s*;",
            pdir,
            f"process_direction case {d}",
        )
    _one(
        r"case\s+Direction::STOP\s*:\s*digitalWrite\(\s*pins\.cover_close\s*,\s*LOW\s*\)\s*;\s*digitalWrite\(\s*pins\.cover_open\s*,\s*LOW\s*\)\s*;\s*m_do_stop_time\s*=\s*now\s*;\s*break\s*;",
        pdir,
        "process_direction case STOP",
    )
    # --- step(): end-point tests ----------------------------------------------------------------------------
    step = _body(src, r"void\s+step\s*\(\s*\)\s*\{\s*switch\s*\(\s*m_running_direction\s*\)", "Cover::step")
    m = _one(r"\+\+m_position\.position\s*;\s*if\s*\(\s*m_set_limits\s*==\s*SetLimit::NONE\s*&&\s*m_position\.position\s*(>=|>)\s*m_position\.open\s*(?:([+-])\s*(\d+))?\s*\)\s*\{\s*m_direction\s*=\s*Direction::STOP\s*;", step, "open end-point test in step()")
    c["stepOpenStrict"] = m.group(1) == ">"
    c["stepOpenOffset"] = int(m.group(3) or 0) * (-1 if m.group(2) == "-" else 1)
    m = _one(r"--m_position\.position\s*;\s*if\s*\(\s*m_set_limits\s*==\s*SetLimit::NONE\s*&&\s*m_position\.position\s*(<=|<)\s*m_position\.close\s*(?:([+-])\s*(\d+))?\s*\)\s*\{\s*m_direction\s*=\s*Direction::STOP\s*;", step, "close end-point test in step()")
    c["stepCloseStrict"] = m.group(1) == "<"
    c["stepCloseOffset"] = int(m.group(3) or 0) * (-1 if m.group(2) == "-" else 1)
    sd = _body(src, r"void\s+set_direction\s*\(\s*Direction\s+direction\s*\)\s*\{", "set_direction")
    _one(r"m_set_limits\s*!=\s*SetLimit::NONE\s*\|\|\s*position\s*<\s*m_position\.open\s*\)\s*\{\s*m_direction\s*=\s*Direction::OPEN", sd, "set_direction OPEN guard")
    _one(r"m_set_limits\s*!=\s*SetLimit::NONE\s*\|\|\s*position\s*>\s*m_position\.close\s*\)\s*\{\s*m_direction\s*=\s*Direction::CLOSE", sd, "set_direction CLOSE guard")
    _one(r"case\s+Direction::STOP\s*:\s*m_direction\s*=\s*Direction::STOP\s*;", sd, "set_direction STOP")
    # --- percentage -----------------------------------------------------------------------------------------
    pct = _body(src, r"byte\s+get_position_percentage\s*\(\s*\)\s*const\s*\{", "get_position_percentage")
    _one(r"const\s+auto\s+diff\s*=\s*m_position\.open\s*-\s*m_position\.close\s*;\s*if\s*\(\s*diff\s*==\s*0\s*\)\s*return\s+0\s*;", pct, "diff == 0 guard")
    m = _one(r"return\s+constrain\(\s*(\d+)\s*\*\s*\(\s*position\s*-\s*m_position\.close\s*\)\s*/\s*diff\s*,\s*(\d+)\s*,\s*(\d+)\s*\)\s*;", pct, "constrain(...) of get_position_percentage")
    c["pctMul"], c["pctLo"], c["pctHi"] = int(m.group(1)), int(m.group(2)), int(m.group(3))
    # --- ISRs -----------------------------------------------------------------------------------------------
    cisr = _body(src, r"static\s+void\s+cover_isr\s*\(\s*\)\s*\{", "cover_isr")
    c["coverDebounceMs"] = int(_one(r"interrupt_time\s*-\s*last_interrupt_time\s*>\s*(\d+)", cisr, "cover_isr debounce").group(1))
    wisr = _body(src, r"static\s+void\s+water_isr\s*\(\s*\)\s*\{", "water_isr")
    c["waterDebounceMs"] = int(_one(r"interrupt_time\s*-\s*last_interrupt_time\s*>\s*(\d+)", wisr, "water_isr debounce").group(1))
    # --- emergency stop text --------------------------------------------------------------------------------
    em = _body(src, r"void\s+emergency_stop\s*\(\s*\)\s*\{", "emergency_stop")
    m = re.fullmatch(r'\s*m_direction\s*=\s*Direction::STOP\s*;\s*Serial\.println\(F\("((?:[^"\\]|\\.)*)"\)\)\s*;\s*Serial\.println\(F\("((?:[^"\\]|\\.)*)"\)\)\s*;\s*', em)
    if not m:
        raise TranslateError("emergency_stop does not have the modelled shape")
    c["emergencyText"] = _cstr(m.group(1))
    c["emergencyTerminator"] = _cstr(m.group(2))
    # --- debug() --------------------------------------------------------------------------------------------
    dbg = _body(src, r"void\s+debug\s*\(\s*\)\s*const\s*\{", "Cover::debug")
    fields = re.findall(r'Serial\.print\(F\("((?:[^"\\]|\\.)*)"\)\)\s*;\s*Serial\.println\(\s*m_position\.(position|open|close)\s*\)\s*;', dbg)
    if len(fields) != 3 or re.sub(r'Serial\.print\(F\("((?:[^"\\]|\\.)*)"\)\)\s*;\s*Serial\.println\(\s*m_position\.(position|open|close)\s*\)\s*;', "", dbg).strip():
        raise TranslateError("Cover::debug does not have the modelled shape")
    c["debugFields"] = [(_cstr(a), b) for a, b in fields]
    # --- command dispatch in loop() -------------------------------------------------------------------------
    loop = _body(src, r"void\s+loop\s*\(\s*\)\s*\{", "loop")
    m = _one(r"if\s*\(\s*Serial\.available\(\)\s*>\s*0\s*\)\s*\{\s*if\s*\(\s*buffer\.add\(\s*Serial\.read\(\)\s*\)\s*\)\s*\{", loop, "serial read in loop()")
    rest = loop[m.end() :]
    cmds = []
    pos = 0
    first = True
    while True:
        mm = re.match((r"\s*" if first else r"\s*else\s+") + r'if\s*\(\s*strcmp\(\s*buffer\s*,\s*"((?:[^"\\]|\\.)*)"\s*\)\s*==\s*0\s*\)\s*\{([^{}]*)\}', rest[pos:])
        if not mm:
            break
        cmds.append((_cstr(mm.group(1)), _ops(mm.group(2), f"command {mm.group(1)!r}")))
        pos += mm.end()
        first = False
    if not cmds:
        raise TranslateError("no strcmp(buffer, ...) chain found in loop()")
    mm = re.match(r'\s*else\s*\{([^{}]*)\}\s*Serial\.println\(F\("((?:[^"\\]|\\.)*)"\)\)\s*;\s*buffer\.clear\(\)\s*;\s*\}\s*\}', rest[pos:])
    if not mm:
        raise TranslateError("tail of the command dispatch (else branch / terminator / buffer.clear()) not as modelled")
    c["commands"] = cmds
    c["errorOps"] = _ops(mm.group(1), "error branch")
    c["terminator"] = _cstr(mm.group(2))
    tail = rest[pos + mm.end() :]
    if not re.fullmatch(
        r"\s*const\s+auto\s+now\s*=\s*millis\(\)\s*;\s*button\.process\(now\)\s*;\s*cover\.process_direction\(now\)\s*;"
        r"\s*cover\.ensure_consistency\(now\)\s*;\s*cover\.process_stop\(now\)\s*;\s*",
        tail,
    ):
        raise TranslateError("order of the actions at the end of loop() not as modelled")
    return c


def _nat_list(bs):
    return "[" + ", ".join(str(b) for b in bs) + "]"


def _txt(bs):
    return "".join(chr(b) if 32 <= b < 127 else "\\x%02x" % b for b in bs)


def _op(op):
    k, a = op
    if k in ("print", "println"):
        return f".{k} {_nat_list(a)}"
    return f".{k}"


def render(c) -> str:
    L = []
    L.append("-- GENERATED by /verif/translate/firmware_const.py from arduino/cover/cover.ino -- do not edit, not committed.")
    L.append("namespace Poupool.FirmwareConst")
    L.append("")
    for k in ("bufSize", "bufFullAt", "bufIgnoreAt", "maxRunningMarginMs", "pulsesPerSecond", "stallWindowMs", "relayDelayMs", "coverDebounceMs", "waterDebounceMs"):
        L.append(f"def {k} : Nat := {c[k]}")
    for k in ("maxPulseMargin", "stallMinPulses", "stepOpenOffset", "stepCloseOffset", "pctMul", "pctLo", "pctHi"):
        v = c[k]
        L.append(f"def {k} : Int := {v if v >= 0 else f'({v})'}")
    for k in ("stepOpenStrict", "stepCloseStrict", "prevDirRereadsVolatile"):
        L.append(f"def {k} : Bool := {'true' if c[k] else 'false'}")
    for k in ("emergencyText", "emergencyTerminator", "terminator"):
        L.append(f"def {k} : List Nat := {_nat_list(c[k])}  -- \"{_txt(c[k])}\"")
    L.append("")
    L.append("/-- which field of `Position` a line of `Cover::debug` prints -/")
    L.append("inductive Field | fPosition | fOpen | fClose")
    L.append("  deriving DecidableEq, Repr")
    L.append("def debugFields : List (List Nat × Field) := [")
    L.append(",\n".join(f"  ({_nat_list(a)}, .f{b.capitalize()})" for a, b in c["debugFields"]))
    L.append("]")
    L.append("")
    L.append("/-- one statement of a branch of the command dispatch in `loop()` -/")
    L.append("inductive Op")
    L.append("  | print (s : List Nat) | println (s : List Nat) | printlnPct | printlnWater | printlnBuf")
    L.append("  | setOpen | setClose | setStop | debug | reset")
    L.append("  deriving DecidableEq, Repr")
    L.append("")
    L.append("/-- the `strcmp(buffer, \"...\") == 0` chain, in source order -/")
    L.append("def commands : List (List Nat × List Op) := [")
    rows = []
    for name, ops in c["commands"]:
        rows.append(f"  ({_nat_list(name)}, [{', '.join(_op(o) for o in ops)}])")
    L.append(",\n".join(rows))
    L.append("]")
    L.append("/-- the final `else` branch -/")
    L.append(f"def errorOps : List Op := [{', '.join(_op(o) for o in c['errorOps'])}]")
    L.append("")
    L.append("end Poupool.FirmwareConst")
    return "\n".join(L) + "\n"


def generate():
    c = read()
    text = render(c)
    os.makedirs(os.path.dirname(OUT), exist_ok=True)
    old = None
    if os.path.exists(OUT):
        with open(OUT) as fh:
            old = fh.read()
    if old != text:
        with open(OUT, "w") as fh:
            fh.write(text)
    return c


if __name__ == "__main__":
    print(json.dumps(generate(), indent=1))
