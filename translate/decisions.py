"""Translator D: the decision code of the poll methods -> lean/Poupool/Generated/Decisions.lean.

The hand-written decision models (Model/Tank.lean, Heating.lean, Winter.lean, Cover.lean) carry the K1 theorems of C04, C05,
C12, C13, C16 and C17.  Until now they were tied to the code only by the differential correspondence.  This translator
regenerates, on every run and from the working tree, one Lean function per poll method by SYMBOLIC EXECUTION of the method's
AST, and `Properties/DecisionsTie.lean` proves — for ALL inputs — that each generated function equals the hand-written one
(rendered as the list of effects it stands for).  A change of a comparison, a threshold, an operand, a branch order that
matters, a delay or a told trigger makes the equality theorem fail (broken obligation => failing-input search with the
existing differential harness); a rewrite that keeps the decision (reordered independent statements, an extracted local,
logging) keeps it provable by the same tactic.

Subset: straight-line code, `if/elif/else`, `return`, `raise StopRepeatException`, local assignments, short-circuit boolean
operators, comparisons of linear terms, `x is None` / `x is not None`.  A generated function returns the ordered list of
effects (strings) of the path taken.  Reading an Optional value in a comparison while it is None is the effect
`raise TypeError` (the real code would die there).  Everything outside the subset becomes the effect `opaque:<source>`,
which no hand-written model renders, so the tie theorem fails (never silently dropped).

Atoms (what a sub-expression of the method stands for in the model: a parameter of the generated function) are declared
per method below; an expression that is neither an atom, a local nor inside the arithmetic subset is opaque.
"""
from __future__ import annotations

import ast
import configparser
import os
import re
from fractions import Fraction

from vlib.common import LEAN_DIR, REPO

OUT = os.path.join(LEAN_DIR, "Poupool", "Generated", "Decisions.lean")

US = {"microseconds": 1, "milliseconds": 1000, "seconds": 1_000_000, "minutes": 60_000_000, "hours": 3_600_000_000,
      "days": 86_400_000_000, "weeks": 7 * 86_400_000_000}


# ------------------------------------------------------------------------------------------------------------------
# specifications: which methods, which atoms
# ------------------------------------------------------------------------------------------------------------------
def _tank(extra=None):
    a = {
        "self.__get_tank_height()": ("int", "h"),
        "self.levels_too_low": ("int", "c.tooLow"),
        "self.hysteresis": ("int", "c.hyst"),
        "self.levels['low']": ("int", "c.low"),
        "self.levels['high']": ("int", "c.high"),
        "self.__machine.get_time_in_state()": ("int", "tis"),
    }
    a.update(extra or {})
    return a


_HEAT = {
    "self.__enable": ("bool", "s.enable"),
    "datetime.now()": ("int", "now"),
    "self.__next_start": ("int", "s.nextStart"),
    "self.__setpoint": ("int", "s.setpoint"),
    "self.__min_temp": ("int", "s.minTemp"),
    "self.__next_start_hour": ("int", "s.startHour"),
    "Heating.HYSTERESIS_DOWN": ("int", "c.hystDown"),
    "Heating.HYSTERESIS_UP": ("int", "c.hystUp"),
    "Heating.HYSTERESIS_MIN_TEMP": ("int", "c.hystMin"),
    "self.__read_temperature()": ("opt", "pool"),
    "self.__read_temperature('temperature_air')": ("opt", "air"),
    "self.filtration_ready_for_heating()": ("bool", "ready"),
    "self.filtration_allow_heating()": ("bool", "allow"),
}

SPECS = [
    dict(lean="tankEnterFill", file="controller/tank.py", cls="Tank", method="on_enter_fill", params="(c : Poupool.Tank.Cfg) (h : Int)", atoms=_tank()),
    dict(lean="tankHeight", file="controller/tank.py", cls="Tank", method="__get_tank_height", returns="value", params="",
         atoms={"self.__devices.get_sensor('tank').value": ("int", "sensor value")}),
    dict(lean="heatingReadTemperature", file="controller/heating.py", cls="Heating", method="__read_temperature", returns="value", params="", signature=True,
         atoms={"self.__temperature.get_temperature(key).get()": ("opt", "reader value of key")}),
    dict(lean="tankPollFill", file="controller/tank.py", cls="Tank", method="do_repeat_fill", params="(c : Poupool.Tank.Cfg) (h tis : Int)", atoms=_tank()),
    dict(lean="tankPollLow", file="controller/tank.py", cls="Tank", method="do_repeat_low", params="(c : Poupool.Tank.Cfg) (h tis : Int)", atoms=_tank()),
    dict(lean="tankPollNormal", file="controller/tank.py", cls="Tank", method="do_repeat_normal", params="(c : Poupool.Tank.Cfg) (h : Int)", atoms=_tank()),
    dict(lean="tankPollHigh", file="controller/tank.py", cls="Tank", method="do_repeat_high", params="(c : Poupool.Tank.Cfg) (h : Int)", atoms=_tank()),
    dict(lean="filtrationWinterPoll", file="controller/filtration.py", cls="Filtration", method="do_repeat_wintering_waiting",
         params="(tis periodS : Int) (temp : Option Int) (threshold : Int)",
         atoms={"self.__machine.get_time_in_state()": ("int", "tis"), "Filtration.WINTERING_PERIOD": ("int", "periodS"),
                "self.__temperature.get_temperature('temperature_air').get()": ("opt", "temp"), "Filtration.WINTERING_ONLY_BELOW": ("int", "threshold")}),
    dict(lean="swimWinterPoll", file="controller/swim.py", cls="Swim", method="do_repeat_wintering_waiting",
         params="(tis periodS : Int) (temp : Option Int) (threshold : Int)",
         atoms={"self.__machine.get_time_in_state()": ("int", "tis"), "Swim.WINTERING_PERIOD": ("int", "periodS"),
                "self.__temperature.get_temperature('temperature_ncc').get()": ("opt", "temp"), "Swim.WINTERING_ONLY_BELOW": ("int", "threshold")}),
    dict(lean="swimTimedPoll", file="controller/swim.py", cls="Swim", method="do_repeat_timed", params="(elapsed : Bool)",
         atoms={"self.__timer.elapsed()": ("bool", "elapsed")},
         effects={r"self\.__timer\.update\(datetime\.now\(\)\)": "timer update now", r"self\.__devices\.get_pump\('swim'\)\.speed\(self\.__speed\)": "pump swim speed setting"}),
    dict(lean="coverOpeningPoll", file="controller/filtration.py", cls="Filtration", method="do_repeat_opening", params="(position : Int)",
         atoms={"@Arduino.cover_position().get()": ("int", "position")}),
    dict(lean="coverClosingPoll", file="controller/filtration.py", cls="Filtration", method="do_repeat_closing", params="(position eco : Int)",
         atoms={"@Arduino.cover_position().get()": ("int", "position"), "self.__cover_position_eco": ("int", "eco")}),
    dict(lean="heatingWaitingPoll", file="controller/heating.py", cls="Heating", method="do_repeat_waiting",
         params="(c : Poupool.Heating.Cfg) (s : Poupool.Heating.St) (now : Int) (pool air : Option Int) (ready allow : Bool)", atoms=_HEAT,
         effects={r"self\.__set_next_start\(\)": "set next start"}),
    dict(lean="startBackwash", file="controller/filtration.py", cls="Filtration", method="__start_backwash", returns=True,
         params="(now last periodDays : Int) (tankHigh : Bool)",
         atoms={"datetime.now()": ("int", "now"), "self.__backwash_last": ("int", "last"), "self.__backwash_period": ("int", "periodDays"),
                "self.tank_is_high()": ("bool", "tankHigh")}),
    dict(lean="ecoNormalPoll", file="controller/filtration.py", cls="Filtration", method="do_repeat_eco_normal",
         params="(due dayEnded elapsedOn tankLow inEco : Bool) (tankDur : Int)",
         atoms={"datetime.now()": ("int", "now"), "self.__start_backwash()": ("bool", "due"), "self.__eco_mode.update(now)": ("bool", "dayEnded"),
                "self.__eco_mode.elapsed_on()": ("bool", "elapsedOn"), "self.tank_is_low()": ("bool", "tankLow"), "self.__eco_mode.tank_duration": ("int", "tankDur"),
                "self.is_eco(allow_substates=True)": ("bool", "inEco")},
         effects={r"self\.__stir_mode\.update\(now\)": "stir update"}),
    dict(lean="ecoWaitingPoll", file="controller/filtration.py", cls="Filtration", method="do_repeat_eco_waiting",
         params="(due dayEnded elapsedOff inEco : Bool)",
         atoms={"datetime.now()": ("int", "now"), "self.__start_backwash()": ("bool", "due"), "self.__eco_mode.update(now, 0)": ("bool", "dayEnded"),
                "self.__eco_mode.elapsed_off()": ("bool", "elapsedOff"), "self.is_eco(allow_substates=True)": ("bool", "inEco")},
         effects={r"self\.__stir_mode\.update\(now\)": "stir update"}),
    dict(lean="ecoTankPoll", file="controller/filtration.py", cls="Filtration", method="do_repeat_eco_tank",
         params="(dayEnded elapsedOn inEco : Bool)",
         atoms={"self.__eco_mode.update(datetime.now())": ("bool", "dayEnded"), "self.__eco_mode.elapsed_on()": ("bool", "elapsedOn"),
                "self.is_eco(allow_substates=True)": ("bool", "inEco")}),
    dict(lean="comfortPoll", file="controller/filtration.py", cls="Filtration", method="do_repeat_comfort", params="(forcing recovering : Bool)",
         atoms={"self.__heating_ask(@Heating.is_forcing(), True)": ("bool", "forcing"), "self.__heating_ask(@Heating.is_recovering(), True)": ("bool", "recovering")},
         effects={r"self\.__eco_mode\.update\(.*\)": "eco update", r"self\.__stir_mode\.update\(.*\)": "stir update"}),
    dict(lean="standbyNormalPoll", file="controller/filtration.py", cls="Filtration", method="do_repeat_standby_normal", params="(speedStandby : Int)",
         atoms={"self.__speed_standby": ("int", "speedStandby")}, effects={r"self\.__eco_mode\.update\(.*\)": "eco update", r"self\.__stir_mode\.update\(.*\)": "stir update"}),
    dict(lean="overflowNormalPoll", file="controller/filtration.py", cls="Filtration", method="do_repeat_overflow_normal", params="", atoms={}, effects={r"self\.__eco_mode\.update\(.*\)": "eco update", r"self\.__stir_mode\.update\(.*\)": "stir update"}),
    dict(lean="heatingRunningPoll", file="controller/filtration.py", cls="Filtration", method="do_repeat_heating_running", params="",
         atoms={"datetime.now()": ("int", "now")}, effects={r"self\.__eco_mode\.update\(.*\)": "eco update", r"self\.__stir_mode\.update\(.*\)": "stir update"}),
    dict(lean="tankForceEmpty", file="controller/tank.py", cls="Tank", method="force_empty", params="(previous value halted : Bool)",
         atoms={"self.__force_empty": ("bool", "previous"), "value": ("bool", "value"), "self.is_halt()": ("bool", "halted")}),
    dict(lean="tankIsLow", file="controller/filtration.py", cls="Filtration", method="tank_is_low", returns=True, params="(isHalt isLow isFill : Bool)",
         atoms={"@Tank": ("obj", "Tank"), "@Tank.is_halt().get()": ("bool", "isHalt"), "@Tank.is_low().get()": ("bool", "isLow"),
                "@Tank.is_fill().get()": ("bool", "isFill")}),
    dict(lean="tankIsHigh", file="controller/filtration.py", cls="Filtration", method="tank_is_high", returns=True, params="(isHigh : Bool)",
         atoms={"@Tank.is_high().get()": ("bool", "isHigh")}),
    dict(lean="pumpStoppedInStandby", file="controller/filtration.py", cls="Filtration", method="pump_stopped_in_standby", returns=True, params="(speedStandby : Int)",
         atoms={"self.__speed_standby": ("int", "speedStandby")}),
    dict(lean="swimAllowSwim", file="controller/swim.py", cls="Swim", method="filtration_allow_swim", returns=True,
         params="(isOverflow isStandby isComfort isWintering : Bool)",
         atoms={"@Filtration": ("obj", "Filtration"), "@Filtration.is_overflow_normal().get()": ("bool", "isOverflow"),
                "@Filtration.is_standby_normal().get()": ("bool", "isStandby"), "@Filtration.is_comfort().get()": ("bool", "isComfort"),
                "self.filtration_is_wintering()": ("bool", "isWintering")}),
    dict(lean="swimIsWintering", file="controller/swim.py", cls="Swim", method="filtration_is_wintering", returns=True, params="(isWaiting isStir : Bool)",
         atoms={"@Filtration": ("obj", "Filtration"), "@Filtration.is_wintering_waiting().get()": ("bool", "isWaiting"),
                "@Filtration.is_wintering_stir().get()": ("bool", "isStir")}),
    dict(lean="heatingAllow", file="controller/heating.py", cls="Heating", method="filtration_allow_heating", returns=True, params="(isHeatingRunning : Bool)",
         atoms={"@Filtration": ("obj", "Filtration"), "@Filtration.is_heating_running().get()": ("bool", "isHeatingRunning"),
                "@Filtration.is_heating_running().get()": ("bool", "isHeatingRunning")}),
    dict(lean="heatingReady", file="controller/heating.py", cls="Heating", method="filtration_ready_for_heating", returns=True, params="(isEcoWaiting isEcoNormal : Bool)",
         atoms={"@Filtration": ("obj", "Filtration"), "@Filtration.is_eco_waiting().get()": ("bool", "isEcoWaiting"),
                "@Filtration.is_eco_normal().get()": ("bool", "isEcoNormal")}),
    dict(lean="heatingSetNextStart", file="controller/heating.py", cls="Heating", method="__set_next_start", params="(s : Poupool.Heating.St) (now : Int)",
         atoms=_HEAT, tracks=["self.__next_start"]),
    dict(lean="heatingSetpoint", file="controller/heating.py", cls="Heating", method="setpoint", params="(s : Poupool.Heating.St) (now v : Int)",
         atoms={**_HEAT, "value": ("int", "v")}, tracks=["self.__next_start", "self.__setpoint"]),
    dict(lean="heatingStartHour", file="controller/heating.py", cls="Heating", method="start_hour", params="(s : Poupool.Heating.St) (now v : Int)",
         atoms={**_HEAT, "value": ("int", "v")}, tracks=["self.__next_start", "self.__next_start_hour"]),
    dict(lean="heatingExit", file="controller/heating.py", cls="Heating", method="on_exit_heating", params="(s : Poupool.Heating.St) (now : Int) (allow : Bool)",
         atoms=_HEAT, tracks=["self.__next_start"], effects={r"self\.__total_duration\.stop\(\)": "duration stop"}),
    dict(lean="heatingHeatingPoll", file="controller/heating.py", cls="Heating", method="do_repeat_heating",
         params="(c : Poupool.Heating.Cfg) (s : Poupool.Heating.St) (pool air : Option Int)", atoms=_HEAT),
]


# ------------------------------------------------------------------------------------------------------------------
# private names by ROLE: the atoms above use canonical private names; what a private attribute / method is called in the tree
# is found through its role (the public setter the dispatcher calls by name, the constructor parameter it stores, the call
# that creates it, what a private helper reads), so that renaming a private name changes nothing here
# ------------------------------------------------------------------------------------------------------------------
_COMMON = {"__temperature": ("param", "temperature"), "__devices": ("param", "devices"), "__encoder": ("param", "encoder"),
           "__machine": ("init_call", "PoupoolModel")}
ROLES = {
    "Tank": {**_COMMON, "__force_empty": ("setter", "force_empty"), "__get_tank_height": ("method_containing", "get_sensor('tank')")},
    "Filtration": {**_COMMON, "__eco_mode": ("init_call", "EcoMode"), "__stir_mode": ("init_call", "StirMode"),
                   "__start_backwash": ("method_containing", "tank_is_high()"), "__heating_ask": ("method_containing", "future.get(timeout"), "__reload_eco": ("method_containing", "reload.defer()"), "__cover_position_eco": ("setter", "cover_position_eco"), "__backwash_period": ("setter", "backwash_period"),
                   "__backwash_last": ("setter", "backwash_last"), "__speed_standby": ("setter", "speed_standby")},
    "Swim": {**_COMMON, "__timer": ("setter", "timer"), "__speed": ("setter", "speed")},
    "Heating": {**_COMMON, "__enable": ("setter", "enable"), "__setpoint": ("setter", "setpoint"), "__min_temp": ("setter", "min_temp"),
                "__next_start": ("init_value", "datetime.now()"), "__read_temperature": ("method_containing", ".get_temperature("),
                "__set_next_start": ("method_assigning", "__next_start"),
                "__next_start_hour": ("setter", "start_hour"), "__total_duration": ("init_call", "Duration")},
}


def _self_attr(node):
    """name X of `self.X` or of the base of `self.X.y...`"""
    while isinstance(node, ast.Attribute):
        if isinstance(node.value, ast.Name) and node.value.id == "self":
            return node.attr
        node = node.value
    return None


def resolve_roles(cdef: ast.ClassDef, cls: str):
    """{actual private name -> canonical private name} for class `cls`"""
    out = {}
    methods = {f.name: f for f in cdef.body if isinstance(f, ast.FunctionDef)}
    init = methods.get("__init__")
    init_params = [a.arg for a in init.args.args[1:]] if init else []
    pending = []
    for canon, (kind, arg) in ROLES.get(cls, {}).items():
        actual = None
        if kind == "setter" and arg in methods:
            f = methods[arg]
            params = {a.arg for a in f.args.args[1:]}
            for n in ast.walk(f):
                if isinstance(n, ast.Assign) and len(n.targets) == 1 and any(isinstance(x, ast.Name) and x.id in params for x in ast.walk(n.value)):
                    a = _self_attr(n.targets[0])
                    if a and a.startswith("__"):
                        actual = a
                        break
        elif kind == "param" and init is not None and arg in init_params:
            for n in init.body:
                if isinstance(n, ast.Assign) and isinstance(n.value, ast.Name) and n.value.id == arg:
                    a = _self_attr(n.targets[0])
                    if a:
                        actual = a
                        break
        elif kind == "init_call" and init is not None:
            for n in init.body:
                if isinstance(n, ast.Assign) and isinstance(n.value, ast.Call) and ast.unparse(n.value.func).split(".")[-1] == arg:
                    actual = _self_attr(n.targets[0])
                    break
        elif kind == "init_value" and init is not None:
            for n in init.body:
                if isinstance(n, ast.Assign) and ast.unparse(n.value) == arg:
                    actual = _self_attr(n.targets[0])
                    break
        elif kind == "method_containing":
            for name, f in methods.items():
                if name.startswith("__") and not name.endswith("__") and arg in ast.unparse(f):
                    actual = name
                    break
        elif kind == "method_assigning":
            pending.append((canon, arg))
            continue
        if actual:
            out[actual] = canon
    inv = {v: k for k, v in out.items()}
    for canon, role in pending:
        target = inv.get(role, role)
        for name, f in methods.items():
            if name.startswith("__") and not name.endswith("__") and any(
                    isinstance(n, (ast.Assign, ast.AugAssign)) and _self_attr(n.targets[0] if isinstance(n, ast.Assign) else n.target) == target for n in ast.walk(f)):
                out[name] = canon
                break
    return {a: c for a, c in out.items() if a != c}


class _Canon(ast.NodeTransformer):
    def __init__(self, ren):
        self.ren = ren

    def visit_Attribute(self, node):
        self.generic_visit(node)
        if isinstance(node.value, ast.Name) and node.value.id == "self" and node.attr in self.ren:
            node.attr = self.ren[node.attr]
        return node


# ------------------------------------------------------------------------------------------------------------------
# trees
# ------------------------------------------------------------------------------------------------------------------
class Leaf:
    def __init__(self, effects, finals=None):
        self.effects = list(effects)
        self.finals = finals  # Lean Int terms of the tracked attributes at the end of this path (None: not tracked)


class Ite:
    def __init__(self, cond, t, f):
        self.cond, self.t, self.f = cond, t, f


class MatchOpt:
    def __init__(self, var, none, some):
        self.var, self.none, self.some = var, none, some


class Opaque(Exception):
    pass


class Ctx:
    """one method being translated"""

    def __init__(self, spec, tree, consts):
        self.spec = spec
        self.consts = consts  # class name -> {const name -> Fraction}
        self.atoms = spec["atoms"]
        self.user_effects = [(re.compile("^" + k + "$"), v) for k, v in spec.get("effects", {}).items()]
        self.cls = spec["cls"]
        self.helpers = {}

    # ---------------------------------------------------------------- constants (for delays)
    def const_eval(self, node) -> Fraction:
        if isinstance(node, ast.Constant) and isinstance(node.value, (int, float)) and not isinstance(node.value, bool):
            return Fraction(str(node.value))
        if isinstance(node, ast.BinOp) and isinstance(node.op, (ast.Add, ast.Sub, ast.Mult, ast.Div)):
            a, b = self.const_eval(node.left), self.const_eval(node.right)
            return {ast.Add: a + b, ast.Sub: a - b, ast.Mult: a * b, ast.Div: a / b if b else None}[type(node.op)]
        if isinstance(node, ast.Attribute) and isinstance(node.value, ast.Name):
            owner = self.cls if node.value.id == "self" else node.value.id
            v = self.consts.get(owner, {}).get(node.attr)
            if v is not None:
                return v
        raise Opaque(ast.unparse(node))


def class_constants(tree, cfg):
    """class-level numeric constants: literals and int(config[a, b]) / float(config[a, b])"""
    out = {}
    for cls in [n for n in ast.walk(tree) if isinstance(n, ast.ClassDef)]:
        d = {}
        for st in cls.body:
            tgt = val = None
            if isinstance(st, ast.Assign) and len(st.targets) == 1 and isinstance(st.targets[0], ast.Name):
                tgt, val = st.targets[0].id, st.value
            elif isinstance(st, ast.AnnAssign) and isinstance(st.target, ast.Name) and st.value is not None:
                tgt, val = st.target.id, st.value
            if tgt is None:
                continue
            try:
                if isinstance(val, ast.Constant) and isinstance(val.value, (int, float)) and not isinstance(val.value, bool):
                    d[tgt] = Fraction(str(val.value))
                elif (isinstance(val, ast.Call) and isinstance(val.func, ast.Name) and val.func.id in ("int", "float") and len(val.args) == 1
                      and isinstance(val.args[0], ast.Subscript) and isinstance(val.args[0].value, ast.Name) and val.args[0].value.id == "config"):
                    sl = val.args[0].slice
                    sec, key = sl.elts[0].value, sl.elts[1].value
                    raw = cfg.get(sec, key)
                    d[tgt] = Fraction(str(int(raw))) if val.func.id == "int" else Fraction(raw)
            except Exception:  # noqa: BLE001  (unreadable constant: simply not available)
                pass
        out[cls.name] = d
    return out


# ------------------------------------------------------------------------------------------------------------------
# symbolic execution
# ------------------------------------------------------------------------------------------------------------------
def unp(node):
    return ast.unparse(node)


class Exec:
    def __init__(self, ctx: Ctx):
        self.ctx = ctx
        self.scale = ctx.spec.get("scale", 1)

    # env: {"locals": {name: ("int", lean) | ("opt", var) | ("bool", lean)}, "opt": {var: "none" | "some"}}
    def term(self, node, env):
        """Lean Int term of an arithmetic expression; raises Opaque; returns (lean, set of optional vars it reads)"""
        s = unp(node)
        b = self.lookup(node, env)
        if b is not None:
            kind, lean = b
            if kind == "int":
                return lean, set()
            if kind == "opt":
                return f"{lean}!", {lean}
            raise Opaque(s)
        if isinstance(node, ast.Name):
            raise Opaque(s)
        if isinstance(node, ast.Constant) and isinstance(node.value, int) and not isinstance(node.value, bool):
            return (str(node.value) if node.value >= 0 else f"({node.value})"), set()
        if isinstance(node, ast.Call) and unp(node.func) in ("timedelta", "datetime.timedelta"):
            if not node.args and not node.keywords:
                return "0", set()
            parts, reads = [], set()
            if len(node.args) > 1:
                raise Opaque(s)
            if node.args:  # first positional argument of timedelta: days
                t, r = self.term(node.args[0], env)
                reads |= r
                parts.append(f"{t} * {US['days']}")
            for kw in node.keywords:
                if kw.arg not in US:
                    raise Opaque(s)
                t, r = self.term(kw.value, env)
                reads |= r
                parts.append(f"{t} * {US[kw.arg]}")
            return "(" + " + ".join(parts) + ")", reads
        if (isinstance(node, ast.Call) and isinstance(node.func, ast.Attribute) and node.func.attr == "replace" and not node.args
                and sorted(k.arg for k in node.keywords) == ["hour", "microsecond", "minute", "second"]
                and all(isinstance(k.value, ast.Constant) and k.value.value == 0 for k in node.keywords if k.arg != "hour")):
            # <instant>.replace(hour=H, minute=0, second=0, microsecond=0): H o'clock of the same day (instants in µs since a midnight)
            t, rt = self.term(node.func.value, env)
            hh, rh = self.term([k.value for k in node.keywords if k.arg == "hour"][0], env)
            return f"(({t} - {t} % {US['days']}) + {hh} * {US['hours']})", rt | rh
        if isinstance(node, ast.BinOp) and isinstance(node.op, (ast.Add, ast.Sub)):
            a, ra = self.term(node.left, env)
            b, rb = self.term(node.right, env)
            return f"({a} {'+' if isinstance(node.op, ast.Add) else '-'} {b})", ra | rb
        if isinstance(node, ast.BinOp) and isinstance(node.op, ast.Mult):
            a, ra = self.term(node.left, env)
            b, rb = self.term(node.right, env)
            return f"({a} * {b})", ra | rb
        raise Opaque(s)

    def branch(self, test, env, kt, kf):
        """compile a test with short-circuit semantics; kt / kf : env -> tree"""
        if isinstance(test, ast.BoolOp):
            vals = test.values
            if isinstance(test.op, ast.Or):
                def go(i, e):
                    if i == len(vals) - 1:
                        return self.branch(vals[i], e, kt, kf)
                    return self.branch(vals[i], e, kt, lambda e2: go(i + 1, e2))
                return go(0, env)
            def go2(i, e):
                if i == len(vals) - 1:
                    return self.branch(vals[i], e, kt, kf)
                return self.branch(vals[i], e, lambda e2: go2(i + 1, e2), kf)
            return go2(0, env)
        if isinstance(test, ast.UnaryOp) and isinstance(test.op, ast.Not):
            return self.branch(test.operand, env, kf, kt)
        s = unp(test)
        if isinstance(test, ast.Constant) and isinstance(test.value, bool):
            return kt(env) if test.value else kf(env)
        # boolean attribute written earlier in this handler / boolean atom / boolean local
        b = self.lookup(test, env)
        if b is not None and b[0] == "bool":
            if b[1] == "true":
                return kt(env)
            if b[1] == "false":
                return kf(env)
            return Ite(f"{b[1]} = true", kt(env), kf(env))
        if isinstance(test, ast.Compare) and len(test.ops) == 1:
            op, l, r = test.ops[0], test.left, test.comparators[0]
            if isinstance(op, (ast.Is, ast.IsNot)) and isinstance(r, ast.Constant) and r.value is None:
                var = self.optvar(l, env)
                if var is None:
                    raise Opaque(s)
                yes, no = (kt, kf) if isinstance(op, ast.Is) else (kf, kt)
                known = env["opt"].get(var)
                if known == "none":
                    return yes(env)
                if known == "some":
                    return no(env)
                return MatchOpt(var, yes(self.know(env, var, "none")), no(self.know(env, var, "some")))
            sym = {ast.Lt: "<", ast.LtE: "≤", ast.Gt: ">", ast.GtE: "≥", ast.Eq: "=", ast.NotEq: "≠"}.get(type(op))
            if sym is None:
                raise Opaque(s)
            a, ra = self.term(l, env)
            b, rb = self.term(r, env)
            reads = sorted(ra | rb)
            return self.with_opts(reads, env, lambda e: Ite(f"{self.subst(a, e)} {sym} {self.subst(b, e)}", kt(e), kf(e)))
        raise Opaque(s)

    def key_of(self, node, env):
        """source text of an expression, with the object a call chain starts from written `@<Actor>` when it is
        `self.get_actor('<Actor>')` or a local bound to it (so that the name of such a local does not matter)"""
        import copy

        class R(ast.NodeTransformer):
            def visit_Call(s2, n):
                if ast.unparse(n.func) == "self.get_actor" and len(n.args) == 1 and isinstance(n.args[0], ast.Constant):
                    return ast.Name(id="@" + str(n.args[0].value), ctx=ast.Load())
                s2.generic_visit(n)
                return n

            def visit_Name(s2, n):
                b = env["locals"].get(n.id)
                if b is not None and b[0] == "obj":
                    return ast.Name(id="@" + b[1], ctx=ast.Load())
                return n

        return ast.unparse(R().visit(copy.deepcopy(node)))

    def leaf(self, env, extra=()):
        tracks = self.ctx.spec.get("tracks")
        finals = None
        if tracks:
            finals = []
            for key in tracks:
                b = env.get("attrs", {}).get(key) or self.ctx.atoms.get(key)
                finals.append(self.subst(b[1], env) if b is not None and b[0] == "int" else "0 /- untracked -/")
        return Leaf(list(env["effects"]) + list(extra), finals)

    def lookup(self, node, env):
        """binding (kind, lean) of an expression that is a written attribute, an atom or a local; None otherwise"""
        s = self.key_of(node, env)
        if s in env.get("attrs", {}):
            return env["attrs"][s]
        if s in self.ctx.atoms:
            return self.ctx.atoms[s]
        if isinstance(node, ast.Name) and node.id in env["locals"]:
            return env["locals"][node.id]
        return None

    def subst(self, lean, env):
        for var, k in env["opt"].items():
            if k == "some":
                lean = lean.replace(f"{var}!", f"{var}_v")
        return lean

    def with_opts(self, reads, env, k):
        """make sure every optional variable read is known: split when unknown, TypeError when None"""
        for var in reads:
            known = env["opt"].get(var)
            if known == "none":
                return self.leaf(env, ["raise TypeError"])
            if known is None:
                rest = [v for v in reads if v != var]
                return MatchOpt(var, self.leaf(env, ["raise TypeError"]), self.with_opts(rest, self.know(env, var, "some"), k))
        return k(env)

    def know(self, env, var, what):
        e = dict(env)
        e["opt"] = dict(env["opt"])
        e["opt"][var] = what
        return e

    def optvar(self, node, env):
        b = self.lookup(node, env)
        return b[1] if b is not None and b[0] == "opt" else None

    # ---------------------------------------------------------------- statements
    def effect_of_call(self, node, env):
        """effect string of an expression statement; None = ignored"""
        s = self.key_of(node, env)
        if re.match(r"^logger\.\w+\(", s):
            return None
        for rx, eff in self.ctx.user_effects:
            if rx.match(s):
                return eff
        m = re.match(r"^self\._proxy\.(\w+)\.defer\(\)$", s)
        if m:
            return f"tell self {m.group(1)}"
        m = re.match(r"^@(\w+)\.(\w+)\.defer\(\)$", s)
        if m:
            return f"tell {m.group(1)} {m.group(2)}"
        m = re.match(r"^@(\w+)\.(\w+)\(\)\.get\(\)$", s)
        if m:
            return f"ask {m.group(1)} {m.group(2)}"
        m = re.match(r"^self\.__devices\.get_(valve|pump)\('(\w+)'\)\.(on|off)\(\)$", s)
        if m:
            return f"{m.group(1)} {m.group(2)} {m.group(3)}"
        m = re.match(r"^self\.__encoder\.(\w+)\(", s)
        if m:
            return f"publish {m.group(1)}"
        if isinstance(node, ast.Call) and unp(node.func) == "self.do_delay" and len(node.args) == 2 and not node.keywords:
            try:
                d = self.ctx.const_eval(node.args[0]) * 2
            except Opaque:
                return f"opaque:{s}"
            if d.denominator != 1:
                return f"opaque:{s}"
            n = node.args[1]
            if isinstance(n, ast.Constant) and isinstance(n.value, str):
                name = n.value
            else:
                m = re.match(r"^self\.(\w+)\.__name__$", unp(n))
                if not m:
                    return f"opaque:{s}"
                name = m.group(1)
            return f"delay {int(d)} {name}"
        return f"opaque:{s}"

    def run(self, stmts, env):
        if not stmts:
            if env.get("k") is not None:  # end of an inlined private helper: back in the caller
                return env["k"](env)
            return self.leaf(env)
        st, rest = stmts[0], stmts[1:]
        try:
            if isinstance(st, ast.Return) and env.get("k") is not None:
                if st.value is not None:  # the value of an inlined statement-level call is dropped; its evaluation is not
                    raise Opaque(unp(st))
                return env["k"](env)
            if isinstance(st, ast.Return):
                if st.value is not None:
                    if not self.ctx.spec.get("returns"):
                        return self.leaf(env, [f"opaque:{unp(st)}"])
                    if self.ctx.spec.get("returns") == "value":
                        # the helper hands a value on: which atom it is (anything computed on the way is visible in the name)
                        b = self.lookup(st.value, env)
                        if b is None:
                            return self.leaf(env, [f"opaque:{unp(st)}"])
                        return Leaf(env["effects"] + [f"return {b[1]}"])
                    return self.branch(st.value, env, lambda e: self.leaf(e, ["return True"]), lambda e: self.leaf(e, ["return False"]))
                return self.leaf(env)
            if isinstance(st, ast.Raise):
                if unp(st) in ("raise StopRepeatException", "raise StopRepeatException()"):
                    return self.leaf(env, ["stop repeat"])
                return self.leaf(env, [f"opaque:{unp(st)}"])
            if isinstance(st, ast.If):
                return self.branch(st.test, env, lambda e: self.run(list(st.body) + rest, e), lambda e: self.run(list(st.orelse) + rest, e))
            if isinstance(st, ast.AugAssign) and isinstance(st.op, (ast.Add, ast.Sub)) and isinstance(st.target, (ast.Name, ast.Attribute)):
                import copy
                load = copy.deepcopy(st.target)
                load.ctx = ast.Load()
                st = ast.Assign(targets=[st.target], value=ast.BinOp(left=load, op=st.op, right=st.value))
                ast.fix_missing_locations(st)
            if isinstance(st, ast.Assign) and len(st.targets) == 1 and isinstance(st.targets[0], (ast.Name, ast.Attribute)):
                tgt = st.targets[0]
                is_attr = isinstance(tgt, ast.Attribute)

                def bind(e0, binding):
                    e = dict(e0)
                    if is_attr:
                        e["attrs"] = dict(e0.get("attrs", {}))
                        e["attrs"][unp(tgt)] = binding
                        e["effects"] = e0["effects"] + [f"set {unp(tgt)} := {unp(st.value)}"]
                    else:
                        e["locals"] = dict(e0["locals"])
                        e["locals"][tgt.id] = binding
                    return self.run(rest, e)

                b = self.lookup(st.value, env)
                if b is None and re.match(r"^@\w+$", self.key_of(st.value, env)):
                    b = ("obj", self.key_of(st.value, env)[1:])
                if b is not None:
                    return bind(env, b)
                if isinstance(st.value, ast.IfExp):
                    # x = a if c else b
                    va, vb = st.value.body, st.value.orelse

                    def arm(e, v):
                        b2 = self.lookup(v, e)
                        if b2 is None:
                            t2, r2 = self.term(v, e)
                            if r2:
                                raise Opaque(unp(st))
                            b2 = ("int", t2)
                        return bind(e, b2)

                    return self.branch(st.value.test, env, lambda e: arm(e, va), lambda e: arm(e, vb))
                if isinstance(st.value, (ast.BoolOp, ast.Compare)) or (isinstance(st.value, ast.UnaryOp) and isinstance(st.value.op, ast.Not)):
                    # a boolean expression: evaluated with short-circuit semantics, the local is then a known literal
                    return self.branch(st.value, env, lambda e: bind(e, ("bool", "true")), lambda e: bind(e, ("bool", "false")))
                t, reads = self.term(st.value, env)
                if reads:
                    raise Opaque(unp(st))
                return bind(env, ("int", t))
            if isinstance(st, ast.Expr):
                if isinstance(st.value, ast.Constant):  # docstring
                    return self.run(rest, env)
                eff = self.effect_of_call(st.value, env)
                if eff is not None and eff.startswith("opaque:"):
                    # a call of a private helper of the same class without arguments: executed in place
                    m = re.match(r"^self\.(__\w+)\(\)$", unp(st.value))
                    helper = self.ctx.helpers.get(m.group(1)) if m else None
                    if helper is not None and env.get("depth", 0) < 3 and not helper.args.args[1:]:
                        caller = env

                        def back(e, caller=caller):
                            return self.run(rest, dict(e, locals=caller["locals"], k=caller.get("k"), depth=caller.get("depth", 0)))

                        return self.run(list(helper.body), dict(env, locals={}, k=back, depth=env.get("depth", 0) + 1))
                e = env if eff is None else dict(env, effects=env["effects"] + [eff])
                return self.run(rest, e)
            if isinstance(st, ast.Pass):
                return self.run(rest, env)
            raise Opaque(unp(st))
        except Opaque as o:
            return Leaf(env["effects"] + [f"opaque:{str(o)[:120]}"])


# ------------------------------------------------------------------------------------------------------------------
# emission
# ------------------------------------------------------------------------------------------------------------------
def lean_str(s):
    return '"' + s.replace("\\", "\\\\").replace('"', '\\"') + '"'


def emit(tree, ind):
    pad = "  " * ind
    if isinstance(tree, Leaf):
        return pad + "[" + ", ".join(lean_str(e) for e in tree.effects) + "]"
    if isinstance(tree, Ite):
        return f"{pad}if {tree.cond} then\n{emit(tree.t, ind + 1)}\n{pad}else\n{emit(tree.f, ind + 1)}"
    if isinstance(tree, MatchOpt):
        return f"{pad}match {tree.var} with\n{pad}| none =>\n{emit(tree.none, ind + 2)}\n{pad}| some {tree.var}_v =>\n{emit(tree.some, ind + 2)}"
    raise TypeError(tree)


def emit_finals(tree, ind):
    pad = "  " * ind
    if isinstance(tree, Leaf):
        return pad + "[" + ", ".join(tree.finals or []) + "]"
    if isinstance(tree, Ite):
        return f"{pad}if {tree.cond} then\n{emit_finals(tree.t, ind + 1)}\n{pad}else\n{emit_finals(tree.f, ind + 1)}"
    return f"{pad}match {tree.var} with\n{pad}| none =>\n{emit_finals(tree.none, ind + 2)}\n{pad}| some {tree.var}_v =>\n{emit_finals(tree.some, ind + 2)}"


def leaves(tree):
    if isinstance(tree, Leaf):
        yield tree
    elif isinstance(tree, Ite):
        yield from leaves(tree.t)
        yield from leaves(tree.f)
    else:
        yield from leaves(tree.none)
        yield from leaves(tree.some)


def find_method(tree, cls, method):
    """the method, with the private names of its class replaced by their canonical (role) names"""
    import copy

    for c in ast.walk(tree):
        if isinstance(c, ast.ClassDef) and c.name == cls:
            ren = resolve_roles(c, cls)
            wanted = {v: k for k, v in ren.items()}.get(method, method)
            for f in c.body:
                if isinstance(f, ast.FunctionDef) and f.name == wanted:
                    return _Canon(ren).visit(copy.deepcopy(f)) if ren else f
    return None


def read_config():
    cfg = configparser.ConfigParser()
    d = os.environ.get("POUPOOL_CONFIG_DIR") or REPO
    cfg.read([os.path.join(d, "config.ini"), os.path.join(d, "config.ini.local")])
    return cfg


def translate_all():
    """returns (lean source, report)"""
    cfg = read_config()
    trees = {}
    out = ["/- GENERATED by translate/decisions.py from the working tree of the repository: do not edit. -/",
           "import Poupool.Model.Tank", "import Poupool.Model.Heating", "", "namespace Poupool.Gen.Decisions", ""]
    report = {}
    for spec in SPECS:
        path = os.path.join(REPO, spec["file"])
        if path not in trees:
            src = open(path).read()
            t = ast.parse(src)
            trees[path] = (t, class_constants(t, cfg))
        t, consts = trees[path]
        fn = find_method(t, spec["cls"], spec["method"])
        name = spec["lean"]
        if fn is None:
            tree = Leaf([f"opaque:method {spec['cls']}.{spec['method']} not found"])
        else:
            ctx = Ctx(spec, t, consts)
            for c in ast.walk(t):
                if isinstance(c, ast.ClassDef) and c.name == spec["cls"]:
                    ren = resolve_roles(c, spec["cls"])
                    import copy
                    ctx.helpers = {ren.get(f.name, f.name): (_Canon(ren).visit(copy.deepcopy(f)) if ren else f) for f in c.body
                                   if isinstance(f, ast.FunctionDef) and f.name.startswith("__") and not f.name.endswith("__")}
            ex = Exec(ctx)
            eff0 = [f"signature {ast.unparse(fn.args)}"] if spec.get("signature") else []
            tree = ex.run(list(fn.body), {"locals": {}, "opt": {}, "effects": eff0})
        lv = list(leaves(tree))
        opaque = sorted({e for l in lv for e in l.effects if e.startswith("opaque:")})
        report[name] = {"method": f"{spec['cls']}.{spec['method']}", "paths": len(lv), "opaque": opaque,
                        "decorators": [unp(d) for d in fn.decorator_list] if fn is not None else []}
        out.append(f"/-- {spec['file']}: {spec['cls']}.{spec['method']} -/")
        out.append(f"def {name} {spec['params']} : List String :=")
        out.append(emit(tree, 1))
        out.append("")
        if spec.get("tracks") and all(l.finals is not None for l in lv):
            out.append(f"/-- {spec['cls']}.{spec['method']}: the values of {', '.join(spec['tracks'])} when the method returns -/")
            out.append(f"def {name}Final {spec['params']} : List Int :=")
            out.append(emit_finals(tree, 1))
            out.append("")
    out.append("end Poupool.Gen.Decisions")
    return "\n".join(out) + "\n", report


def generate():
    src, report = translate_all()
    os.makedirs(os.path.dirname(OUT), exist_ok=True)
    old = open(OUT).read() if os.path.exists(OUT) else None
    if old != src:
        with open(OUT, "w") as fh:
            fh.write(src)
    return report


if __name__ == "__main__":
    import json
    print(json.dumps(generate(), indent=1))
