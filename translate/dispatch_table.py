"""T3: the dispatcher table of the tree under test -> lean/Poupool/Generated/Dispatch.lean.

The REAL `controller.dispatcher.Dispatcher` is instantiated and `register` is called with eight distinct sentinel
objects.  Every entry (target, predicate, method, converter, once) is then *recognised structurally*: its code object
must be byte-for-byte the code of one of the reference shapes below (same interpreter, so identical source shape gives
identical `co_code`/`co_names`/`co_freevars`), and the parameters are read from the closure cells / `co_consts`.  The
resulting description is finally validated by probing the real predicate/method/converter on boundary values and
comparing with `predict` (a Python mirror of Model/Dispatch.lean with Python's own float()/lower() plugged in).
Anything that is not recognised, or any probe mismatch, raises TranslatorError (the check then follows the violation
protocol: search, otherwise `no-failing-input-found`).

Also emitted: the setter methods per controller, pykka's actor API names (must never be reachable by name), and the
"raising primitives" a told value can reach inside the setters (light AST taint scan, see scan_setters)."""
from __future__ import annotations

import ast
import importlib
import inspect
import json
import math
import os
import sys
from fractions import Fraction

VERIF = os.path.dirname(os.path.dirname(os.path.abspath(__file__)))
if VERIF not in sys.path:
    sys.path.insert(0, VERIF)

from vlib.common import LEAN_DIR, REPO  # noqa: E402

OUT = os.path.join(LEAN_DIR, "Poupool", "Generated", "Dispatch.lean")

TARGET_CLASS = {
    "filtration": ("filtration.py", "Filtration"),
    "tank": ("tank.py", "Tank"),
    "swim": ("swim.py", "Swim"),
    "light": ("light.py", "Light"),
    "heater": ("heating.py", "Heater"),
    "heating": ("heating.py", "Heating"),
    "disinfection": ("disinfection.py", "Disinfection"),
    "arduino": ("arduino.py", "Arduino"),
}


class TranslatorError(Exception):
    pass


# ---------------------------------------------------------------------------------------------------------------
# reference shapes
def _ref_between(minimum, maximum):
    return lambda x: minimum <= float(x) <= maximum


def _ref_greater_equal(value):
    return lambda x: float(x) >= value


def _ref_to_bool(x):
    return x.lower() in ("true", "1", "y", "yes", "on")


def _ref_to_int(x):
    return int(float(x))


def _ref_to_float(x):
    return float(x)


def _ref_to_string(x):
    return str(x)


_REF_IN = lambda x: x in ("a", "b")  # noqa: E731
_REF_IN_LOWER = lambda x: x.lower() in ("a", "b")  # noqa: E731
_REF_TRUE = lambda _: True  # noqa: E731
_REF_CONST = lambda _: "name"  # noqa: E731
_REF_ID = lambda x: x  # noqa: E731


def _shape(fn):
    c = fn.__code__
    return (c.co_code, c.co_names, c.co_freevars, c.co_argcount, c.co_kwonlyargcount, c.co_flags & 0x0C)


def _same_shape(fn, ref):
    return inspect.isfunction(fn) and _shape(fn) == _shape(ref) and not fn.__defaults__ and not fn.__kwdefaults__


def _consts_like(fn, ref):
    """co_consts have the same layout/types as the reference (values may differ)."""
    a, b = fn.__code__.co_consts, ref.__code__.co_consts
    return len(a) == len(b) and all(type(x) is type(y) for x, y in zip(a, b))


def _cells(fn):
    return dict(zip(fn.__code__.co_freevars, [c.cell_contents for c in (fn.__closure__ or ())]))


def _frac(v, what):
    if isinstance(v, bool) or not isinstance(v, (int, float)) or (isinstance(v, float) and not math.isfinite(v)):
        raise TranslatorError(f"{what}: bound {v!r} is not a finite int/float")
    return Fraction(v)


def _str_tuple(t, what):
    if not (isinstance(t, tuple) and t and all(isinstance(s, str) for s in t)):
        raise TranslatorError(f"{what}: expected a tuple of strings, got {t!r}")
    return list(t)


def describe_predicate(fn, what):
    if _same_shape(fn, _ref_between(0, 1)):
        c = _cells(fn)
        return {"kind": "between", "lo": _frac(c["minimum"], what), "hi": _frac(c["maximum"], what)}
    if _same_shape(fn, _ref_greater_equal(0)):
        return {"kind": "greaterEqual", "lo": _frac(_cells(fn)["value"], what)}
    if _same_shape(fn, _REF_IN) and _consts_like(fn, _REF_IN):
        return {"kind": "inSet", "set": _str_tuple(fn.__code__.co_consts[1], what), "ci": False}
    if _same_shape(fn, _REF_IN_LOWER) and _consts_like(fn, _REF_IN_LOWER):
        return {"kind": "inSet", "set": _str_tuple(fn.__code__.co_consts[1], what), "ci": True}
    if _same_shape(fn, _REF_TRUE) and fn.__code__.co_consts == _REF_TRUE.__code__.co_consts:
        return {"kind": "always"}
    raise TranslatorError(f"{what}: predicate not recognised ({fn.__qualname__} consts={fn.__code__.co_consts!r})")


def describe_method(fn, what):
    if _same_shape(fn, _REF_CONST) and _consts_like(fn, _REF_CONST):
        return {"kind": "const", "name": fn.__code__.co_consts[1]}
    if _same_shape(fn, _REF_ID) and _consts_like(fn, _REF_ID):
        return {"kind": "identity"}
    raise TranslatorError(f"{what}: method selector not recognised (consts={fn.__code__.co_consts!r})")


def describe_converters(mod):
    """name -> (function object, kind); the module's converters must have the reference shapes."""
    res = {}
    bool_true = None
    for name, ref, kind in (
        ("to_int", _ref_to_int, "toInt"),
        ("to_float", _ref_to_float, "toFloat"),
        ("to_bool", _ref_to_bool, "toBool"),
        ("to_string", _ref_to_string, "toString"),
    ):
        fn = getattr(mod, name, None)
        if fn is None or not _same_shape(fn, ref) or not _consts_like(fn, ref):
            raise TranslatorError(f"converter {name} not recognised")
        if kind == "toBool":
            bool_true = _str_tuple(fn.__code__.co_consts[1], name)
        elif fn.__code__.co_consts != ref.__code__.co_consts:
            raise TranslatorError(f"converter {name}: unexpected constants {fn.__code__.co_consts!r}")
        for g in fn.__code__.co_names:
            if g in ("int", "float", "str") and (g in vars(mod)):
                raise TranslatorError(f"converter {name}: builtin {g} is shadowed in the module")
        res[name] = (fn, kind)
    for g in ("int", "float", "str"):
        if g in vars(mod):
            raise TranslatorError(f"builtin {g} is shadowed in controller.dispatcher")
    return res, bool_true


# ---------------------------------------------------------------------------------------------------------------
class Sentinel:
    """Stands for a controller proxy: any attribute is a recorder with .defer()."""

    def __init__(self, name, log=None):
        object.__setattr__(self, "_name", name)
        object.__setattr__(self, "_log", log if log is not None else [])

    def __getattr__(self, attr):
        s = self

        class _M:
            def defer(self, *args, **kwargs):
                s._log.append((s._name, attr, args, kwargs))

        return _M()

    def __repr__(self):
        return f"<sentinel {self._name}>"


def import_dispatcher():
    """Import controller.dispatcher of the tree under test (no other controller module is needed)."""
    if REPO not in sys.path:
        sys.path.insert(0, REPO)
    mod = sys.modules.get("controller.dispatcher")
    if mod is None:
        cwd = os.getcwd()
        os.chdir(REPO)
        try:
            mod = importlib.import_module("controller.dispatcher")
        finally:
            os.chdir(cwd)
    f = os.path.realpath(mod.__file__)
    if not f.startswith(os.path.realpath(REPO) + os.sep):
        raise TranslatorError(f"controller.dispatcher was imported from {f}, not from {REPO}")
    return mod


def new_dispatcher(mod, log=None):
    d = mod.Dispatcher()
    params = [p for p in inspect.signature(d.register).parameters]
    if sorted(params) != sorted(TARGET_CLASS):
        raise TranslatorError(f"Dispatcher.register parameters changed: {params}")
    sentinels = {p: Sentinel(p, log) for p in params}
    d.register(*[sentinels[p] for p in params])
    return d, sentinels


def extract():
    mod = import_dispatcher()
    d, sentinels = new_dispatcher(mod)
    mapping = None
    for k, v in vars(d).items():
        if k.endswith("__mapping"):
            mapping = v
    if not isinstance(mapping, dict) or set(mapping) != set(d.topics()):
        raise TranslatorError("cannot read Dispatcher.__mapping")
    convs, bool_true = describe_converters(mod)
    by_obj = {id(fn): kind for fn, kind in convs.values()}
    entries, real = [], {}
    for topic, entry in mapping.items():
        what = f"topic {topic}"
        if not (isinstance(topic, str) and isinstance(entry, tuple) and len(entry) == 5):
            raise TranslatorError(f"{what}: entry is not a 5-tuple")
        fsm, predicate, method, value, once = entry
        target = [n for n, s in sentinels.items() if s is fsm]
        if len(target) != 1:
            raise TranslatorError(f"{what}: target is not one of the registered controllers")
        if value is None:
            conv = "none"
        elif id(value) in by_obj:
            conv = by_obj[id(value)]
        else:
            raise TranslatorError(f"{what}: converter {value!r} not recognised")
        if not isinstance(once, bool):
            raise TranslatorError(f"{what}: once flag {once!r} is not a bool")
        e = {
            "topic": topic,
            "target": target[0],
            "pred": describe_predicate(predicate, what),
            "method": describe_method(method, what),
            "conv": conv,
            "once": once,
        }
        entries.append(e)
        real[topic] = (predicate, method, value)
    table = {"entries": entries, "boolTrue": bool_true}
    validate_by_probing(table, real)
    table["dispatchShapeKnown"] = validate_dispatch_source(mod)
    table["setters"] = setters_of(table)
    table["actorApi"] = actor_api()
    table["setterPrims"] = scan_setters(table)
    return table


# ---------------------------------------------------------------------------------------------------------------
# Python mirror of Model/Dispatch.lean (Python's float()/lower() plugged in for the abstract functions)
EXC = "EXC"


def py_parse(s):
    try:
        return float(s)
    except ValueError:
        return None


def predict_pred(p, s, parse=py_parse, lower=str.lower):
    k = p["kind"]
    if k in ("between", "greaterEqual"):
        x = parse(s)
        if x is None:
            return EXC
        if math.isnan(x):
            return False
        if math.isinf(x):
            return k == "greaterEqual" and x > 0
        fx = Fraction(x)
        return p["lo"] <= fx and (k == "greaterEqual" or fx <= p["hi"])
    if k == "inSet":
        return (lower(s) if p["ci"] else s) in p["set"]
    return True


def predict_conv(conv, s, bool_true, parse=py_parse, lower=str.lower):
    if conv in ("toInt", "toFloat"):
        x = parse(s)
        if x is None:
            return EXC
        if conv == "toFloat":
            return x
        if math.isnan(x) or math.isinf(x):
            return EXC
        return math.trunc(Fraction(x))
    if conv == "toBool":
        return lower(s) in bool_true
    if conv == "toString":
        return s
    return None


def predict(table, removed, topic, data, parse=py_parse, lower=str.lower):
    """-> None (no tell) or (target, method, value-or-None); `removed` is updated."""
    e = next((e for e in table["entries"] if e["topic"] == topic), None)
    if e is None or topic in removed or data is None:
        return None
    if predict_pred(e["pred"], data, parse, lower) is not True:
        return None
    m = e["method"]["name"] if e["method"]["kind"] == "const" else data
    v = predict_conv(e["conv"], data, table["boolTrue"], parse, lower)
    if isinstance(v, str) and v == EXC and e["conv"] != "toString":
        return None
    if e["once"]:
        removed.add(topic)
    return (e["target"], m, v)


def same_value(a, b):
    if type(a) is not type(b):
        return False
    if isinstance(a, float):
        return (math.isnan(a) and math.isnan(b)) or a == b
    return a == b


GENERIC_PROBES = [
    "", " ", "0", "1", "-1", "5", " 5 ", "5\n", "1_0", "1__0", "_1", "+3", "-0", "-0.0", "0.0", "1.0", "1e0", "1E2",
    "0x10", "1,5", "1.5.2", "nan", "NaN", "-nan", "inf", "-inf", "+inf", "Infinity", "-Infinity", "infinity", "1e400",
    "-1e400", "1e-400", "1e308", "1.7976931348623157e308", "9" * 400, "-" + "9" * 400, "0." + "0" * 400 + "1",
    "١", "٣٠", "٥.٥", "１２", "١٢٣", "True", "False", "None", "true", "TRUE", "y", "Y",
    "yes", "YES", "n", "no", "ON", "on", "On", "oN", "OFF", "off", "Off", "0 ", " on", "on ", "ON\n", "İ", "ǅ", "ß",
    "__class__", "__init__", "__dict__", "__del__", "stop", "halt ", " halt", "Halt", "HALT", "halt\x00", "eco",
    "eco_normal", "reload", "closing", "do_cancel", "do_delay", "get_actor", "on_failure", "on_stop", "actor_ref",
    "_proxy", "state", "to_halt", "trigger", "defer", "\x00", "é", "\U0001f600", "a" * 1000, "1e5", "3.9999999999999996",
    "2.9999999999999996", "0.9999999999999999", "0.99999999999999999999", "4.000000000000001", "172800.99",
    "Mon Jun  3 08:00:00 2024", "2024-06-03",
]


def probes_for(e):
    out = list(GENERIC_PROBES)
    p = e["pred"]
    if p["kind"] in ("between", "greaterEqual"):
        bounds = [p["lo"]] + ([p["hi"]] if p["kind"] == "between" else [])
        for b in bounds:
            f = float(b)
            for v in (f, f - 1, f + 1, f - 0.5, f + 0.5, math.nextafter(f, -math.inf), math.nextafter(f, math.inf), -f, f * 2, f / 2):
                out.append(repr(v))
                if v == int(v):
                    out.append(str(int(v)))
            if b.denominator == 1:
                n = b.numerator
                out += [f"{n}.0000000000000000000000001", f"{n - 1}.9999999999999999999999999", f"{n}e0", f" {n}", f"{n}_0", f"+{n}"]
    if p["kind"] == "inSet":
        for s in p["set"]:
            out += [s, s.upper(), s.lower(), s.capitalize(), s + " ", " " + s, s + "\n", s[:-1], s + s, s.swapcase(), "_" + s]
    return out


def validate_by_probing(table, real):
    n = 0
    for e in table["entries"]:
        predicate, method, value = real[e["topic"]]
        for s in probes_for(e):
            n += 1
            try:
                got_p = predicate(s)
            except Exception:  # noqa: BLE001
                got_p = EXC
            want_p = predict_pred(e["pred"], s)
            if got_p is not want_p and got_p != want_p or (got_p is not EXC and not isinstance(got_p, bool)):
                raise TranslatorError(f"probe mismatch: predicate of {e['topic']} on {s!r}: real {got_p!r}, description {want_p!r}")
            if got_p is not True:
                continue
            got_m = method(s)
            want_m = e["method"]["name"] if e["method"]["kind"] == "const" else s
            if got_m != want_m:
                raise TranslatorError(f"probe mismatch: method of {e['topic']} on {s!r}: real {got_m!r}, description {want_m!r}")
            try:
                got_v = value(s) if value else None
                exc = False
            except Exception:  # noqa: BLE001
                got_v, exc = None, True
            want_v = predict_conv(e["conv"], s, table["boolTrue"])
            want_exc = isinstance(want_v, str) and want_v == EXC and e["conv"] != "toString"
            if exc != want_exc or (not exc and not same_value(got_v, want_v)):
                raise TranslatorError(f"probe mismatch: converter of {e['topic']} on {s!r}: real {got_v!r} exc={exc}, description {want_v!r}")
    table["probes"] = n


DISPATCH_REF = '''
def dispatch(self, topic, payload):
    entry = self.__mapping.get(topic)
    if entry:
        fsm, predicate, method, value, once = entry
        try:
            data = payload.decode("utf-8")
            if predicate(data):
                func = getattr(fsm, method(data))
                param = value(data) if value else None
                if param is not None:
                    func.defer(param)
                else:
                    func.defer()
                if once:
                    logger.debug(f"Removing {topic}, only processed once")
                    del self.__mapping[topic]
        except Exception:
            logger.exception(f"Unable to process data for {topic}: {payload!s}")
'''


def validate_dispatch_source(mod):
    """The control skeleton of Dispatcher.dispatch (hand-modelled in Model/Dispatch.lean) must be the known one,
    modulo comments/logging text.  A different shape is a translator failure; the behavioural tie is the
    dispatch correspondence of the check."""
    src = inspect.getsource(mod.Dispatcher.dispatch)
    import textwrap

    got = ast.dump(ast.parse(textwrap.dedent(src)).body[0], include_attributes=False)
    want = ast.dump(ast.parse(textwrap.dedent(DISPATCH_REF)).body[0], include_attributes=False)
    return got == want  # informational (recorded by the check); the correspondence decides


def setters_of(table):
    res = {}
    for e in table["entries"]:
        names = [e["method"]["name"]] if e["method"]["kind"] == "const" else list(e["pred"].get("set", []))
        for n in names:
            if n not in res.setdefault(e["target"], []):
                res[e["target"]].append(n)
    return res


def actor_api():
    import pykka

    names = set(dir(pykka.ThreadingActor)) | {"actor_ref", "actor_urn", "actor_inbox", "actor_stopped", "_proxy", "defer"}
    return sorted(names)


# ---------------------------------------------------------------------------------------------------------------
# light taint scan of the setters: which raising primitives can a told value reach?
def _mentions(node, names, attrs):
    for n in ast.walk(node):
        if isinstance(n, ast.Name) and n.id in names:
            return True
        if isinstance(n, ast.Attribute) and isinstance(n.value, ast.Name) and n.value.id == "self" and n.attr in attrs:
            return True
    return False


def _is_raw(node, names):
    return isinstance(node, ast.Name) and node.id in names


class _ModuleIndex:
    def __init__(self, path):
        self.path = path
        self.tree = ast.parse(open(path).read())
        self.funcs = {}  # name -> [(class, FunctionDef, is_property_setter)]
        for cls in [n for n in self.tree.body if isinstance(n, ast.ClassDef)]:
            for f in [n for n in cls.body if isinstance(n, ast.FunctionDef)]:
                is_setter = any(isinstance(d, ast.Attribute) and d.attr == "setter" for d in f.decorator_list)
                is_getter = any(isinstance(d, ast.Name) and d.id == "property" for d in f.decorator_list)
                if is_getter:
                    continue
                self.funcs.setdefault(f.name, []).append((cls.name, f, is_setter))

    def method(self, cls, name):
        for c, f, s in self.funcs.get(name, []):
            if c == cls and not s:
                return f
        return None


def _guarded(stack):
    for n in stack:
        if isinstance(n, ast.Try):
            for h in n.handlers:
                names = []
                if h.type is None:
                    return True
                for t in ast.walk(h.type):
                    if isinstance(t, ast.Name):
                        names.append(t.id)
                if "ValueError" in names or "Exception" in names:
                    return True
    return False


def _scan_fn(idx, fn, tainted, attrs, prims, depth, seen):
    """tainted: local names carrying the raw value; attrs: self attributes carrying the raw value (updated)."""
    key = (fn.name, fn.lineno, tuple(sorted(tainted)))
    if key in seen or depth > 4:
        return
    seen.add(key)

    def visit(node, stack):
        if isinstance(node, ast.Assert):
            prims.append("assert:" + ast.unparse(node.test))
        if isinstance(node, ast.Call):
            f = node.func
            fname = f.id if isinstance(f, ast.Name) else (f.attr if isinstance(f, ast.Attribute) else None)
            if fname == "timedelta":
                for i, a in enumerate(node.args):
                    if _mentions(a, tainted, attrs):
                        prims.append("td:" + ("days", "seconds", "microseconds")[i] if i < 3 else "td:other")
                for kw in node.keywords:
                    if _mentions(kw.value, tainted, attrs):
                        prims.append(f"td:{kw.arg}")
            elif fname == "replace":
                for kw in node.keywords:
                    if _mentions(kw.value, tainted, attrs):
                        prims.append(f"replace:{kw.arg}")
            elif fname == "strptime":
                if node.args and _mentions(node.args[0], tainted, attrs):
                    prims.append("strptime:" + ("guarded" if _guarded(stack) else "unguarded"))
            elif fname in ("int", "float") and node.args and _mentions(node.args[0], tainted, attrs):
                prims.append(f"cast:{fname}")
            elif isinstance(f, ast.Attribute) and fname in idx.funcs:
                # call of a method defined in this module (self.x(...), self.__obj.x(...))
                targets = [(c, g) for c, g, s in idx.funcs[fname] if not s]
                on_self_chain = any(isinstance(n, ast.Name) and n.id == "self" for n in ast.walk(f.value))
                if on_self_chain:
                    for c, g in targets:
                        params = [a.arg for a in g.args.args][1:]
                        t2 = {p for p, a in zip(params, node.args) if _is_raw(a, tainted)}
                        if t2 or not node.args:
                            _scan_fn(idx, g, t2, attrs, prims, depth + 1, seen)
        is_fmt = isinstance(node, ast.BinOp) and isinstance(node.left, ast.Constant) and isinstance(node.left.value, str)
        if isinstance(node, ast.BinOp) and isinstance(node.op, (ast.Div, ast.FloorDiv, ast.Mod)) and not is_fmt:
            if _mentions(node.right, tainted, attrs | {"period"}) and (tainted or "period" in attrs or "__period" in attrs):
                prims.append("div:" + ast.unparse(node))
        if isinstance(node, ast.Assign):
            for tgt in node.targets:
                if isinstance(tgt, ast.Attribute):
                    raw = _is_raw(node.value, tainted)
                    if isinstance(tgt.value, ast.Name) and tgt.value.id == "self":
                        if raw:
                            attrs.add(tgt.attr)
                    else:
                        # self.__obj.prop = <expr>: property setter of a helper class of this module?
                        for c, g, s in idx.funcs.get(tgt.attr, []):
                            if s:
                                params = [a.arg for a in g.args.args][1:]
                                t2 = set(params[:1]) if raw else set()
                                if raw or _mentions(node.value, tainted, attrs):
                                    if not raw:
                                        # the derived value (e.g. a timedelta) flows on: scan only for asserts/divisions
                                        pass
                                    _scan_fn(idx, g, t2, attrs, prims, depth + 1, seen)
        for ch in ast.iter_child_nodes(node):
            visit(ch, stack + [node])

    for st in fn.body:
        visit(st, [])


def scan_setters(table):
    """-> list of (target, method, prim) ; prim strings:
    td:<unit>  replace:hour  strptime:guarded|unguarded  assert:<expr>  div:<expr>  cast:int|float
    Also follows attributes that store the raw value (self.__x = value) into every other method of the class."""
    res = []
    cache = {}
    for e in table["entries"]:
        if e["method"]["kind"] != "const":
            continue
        fname, cls = TARGET_CLASS[e["target"]]
        path = os.path.join(REPO, "controller", fname)
        idx = cache.get(path) or cache.setdefault(path, _ModuleIndex(path))
        fn = idx.method(cls, e["method"]["name"])
        if fn is None:
            res.append((e["target"], e["method"]["name"], "missing-setter"))
            continue
        params = [a.arg for a in fn.args.args][1:]
        if len(params) != 1:
            res.append((e["target"], e["method"]["name"], f"arity:{len(params)}"))
            continue
        prims, attrs, seen = [], set(), set()
        _scan_fn(idx, fn, set(params), attrs, prims, 0, seen)
        # second pass: raw value stored in attributes -> uses anywhere in the module
        if attrs:
            for name, lst in idx.funcs.items():
                for c, g, s in lst:
                    if (g.name, g.lineno, ()) in seen:
                        continue
                    sub = []
                    _scan_fn(idx, g, set(), set(attrs), sub, 4, set())
                    prims += [p for p in sub if not p.startswith("assert:")]
        for p in sorted(set(prims)):
            res.append((e["target"], e["method"]["name"], p))
    return res


# ---------------------------------------------------------------------------------------------------------------
def lean_str(s):
    out = ['"']
    for ch in s:
        o = ord(ch)
        if ch == '"':
            out.append('\\"')
        elif ch == "\\":
            out.append("\\\\")
        elif ch == "\n":
            out.append("\\n")
        elif ch == "\t":
            out.append("\\t")
        elif o < 32 or o == 127 or o > 126:
            out.append("\\u{%x}" % o)
        else:
            out.append(ch)
    out.append('"')
    return "".join(out)


def lean_list(xs):
    return "[" + ", ".join(xs) + "]"


def lean_q(fr):
    n = f"({fr.numerator})" if fr.numerator < 0 else str(fr.numerator)
    return f"(q {n} {fr.denominator})"


def lean_pred(p):
    if p["kind"] == "between":
        return f".between {lean_q(p['lo'])} {lean_q(p['hi'])}"
    if p["kind"] == "greaterEqual":
        return f".greaterEqual {lean_q(p['lo'])}"
    if p["kind"] == "inSet":
        return f".inSet {lean_list([lean_str(s) for s in p['set']])} {'true' if p['ci'] else 'false'}"
    return ".always"


def lean_prim(p):
    kind, _, arg = p.partition(":")
    if kind == "td" and arg in ("seconds", "minutes", "hours", "days"):
        return ".td ." + arg
    if p == "replace:hour":
        return ".hourReplace"
    if p == "strptime:guarded":
        return ".strptimeGuarded"
    if p == "strptime:unguarded":
        return ".strptimeUnguarded"
    if p == "assert:self.period_duration > timedelta()":
        return ".assertPeriodDuration"
    if p == "div:self.filtration.delay / self.period":
        return ".divByPeriod"
    return f".unknown {lean_str(p)}"


def render(table):
    L = [
        "-- GENERATED by translate/dispatch_table.py from controller/dispatcher.py of the tree under test. Do not edit.",
        "import Poupool.Model.Dispatch",
        "namespace Poupool.Generated.Dispatch",
        "open Poupool.Dispatch",
        "",
        "def table : List Entry := [",
    ]
    rows = []
    for e in table["entries"]:
        m = f".const {lean_str(e['method']['name'])}" if e["method"]["kind"] == "const" else ".identity"
        rows.append(
            f"  {{ topic := {lean_str(e['topic'])}, target := {lean_str(e['target'])}, pred := {lean_pred(e['pred'])},\n"
            f"    method := {m}, conv := .{e['conv']}, once := {'true' if e['once'] else 'false'} }}"
        )
    L.append(",\n".join(rows))
    L.append("]")
    L.append("")
    L.append(f"def boolTrue : List String := {lean_list([lean_str(s) for s in table['boolTrue']])}")
    L.append("")
    L.append("/-- setter / trigger names the dispatcher can call, per controller -/")
    L.append("def setters : List (String × List String) := [")
    L.append(",\n".join(f"  ({lean_str(t)}, {lean_list([lean_str(s) for s in ms])})" for t, ms in table["setters"].items()))
    L.append("]")
    L.append("")
    L.append("/-- attribute names of pykka's actor API (must never be callable by name through MQTT) -/")
    L.append(f"def actorApi : List String := {lean_list([lean_str(s) for s in table['actorApi']])}")
    L.append("")
    L.append("/-- raising primitives a told value reaches inside the setters (AST taint scan) -/")
    L.append("def setterPrims : List (String × String × Prim) := [")
    L.append(",\n".join(f"  ({lean_str(t)}, {lean_str(m)}, {lean_prim(p)})" for t, m, p in table["setterPrims"]))
    L.append("]")
    L.append("")
    L.append("end Poupool.Generated.Dispatch")
    return "\n".join(L) + "\n"


def write_if_changed(path, content):
    os.makedirs(os.path.dirname(path), exist_ok=True)
    try:
        if open(path).read() == content:
            return False
    except OSError:
        pass
    tmp = path + ".tmp%d" % os.getpid()
    with open(tmp, "w") as fh:
        fh.write(content)
    os.replace(tmp, path)
    return True


def regenerate():
    table = extract()
    changed = write_if_changed(OUT, render(table))
    return table, changed


def to_json(table):
    def conv(o):
        if isinstance(o, Fraction):
            return f"{o.numerator}/{o.denominator}"
        raise TypeError(o)

    return json.dumps(table, default=conv, indent=1)


if __name__ == "__main__":
    t, ch = regenerate()
    print(f"{len(t['entries'])} entries, {t['probes']} probes ok, changed={ch}")
    for x in t["setterPrims"]:
        print("  prim", x)
