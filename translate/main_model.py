"""Engine T8: poupool.py's supervision loop and shutdown path, from the AST -> lean/Poupool/Generated/Main.lean"""
from __future__ import annotations

import ast
import json
import os
import sys

VERIF = os.path.dirname(os.path.dirname(os.path.abspath(__file__)))
sys.path.insert(0, VERIF)


class TranslateError(Exception):
    pass


def write_if_changed(path, text):
    os.makedirs(os.path.dirname(path), exist_ok=True)
    if os.path.exists(path) and open(path).read() == text:
        return False
    with open(path, "w") as fh:
        fh.write(text)
    return True


def extract(repo):
    src = open(os.path.join(repo, "poupool.py")).read()
    tree = ast.parse(src)
    fns = {n.name: n for n in tree.body if isinstance(n, ast.FunctionDef)}
    out = {"pumps": [], "valves": [], "devices": [], "unregistered": []}
    OUTPUT_CLASSES = {"PumpDevice", "SwitchDevice", "SwimPumpDevice"}
    STOPPABLE = {"ArduinoDevice", "LcdDevice", "FakeArduino", "FakeLcd"}
    for fname in ("setup_gpio", "setup_rpi", "setup_fake"):
        fn = fns.get(fname)
        if fn is None:
            raise TranslateError(f"{fname} not found")
        registered_calls = set()
        for n in ast.walk(fn):
            if isinstance(n, ast.Call) and isinstance(n.func, ast.Attribute) and n.func.attr in ("add_pump", "add_valve", "add_device") and n.args:
                inner = n.args[0]
                registered_calls.add(id(inner))
                kind = {"add_pump": "pumps", "add_valve": "valves", "add_device": "devices"}[n.func.attr]
                name = None
                if isinstance(inner, ast.Call):
                    # create(Cls, "name")  or  Cls("name", ...)
                    for a in inner.args:
                        if isinstance(a, ast.Constant) and isinstance(a.value, str):
                            name = a.value
                            break
                if name is None:
                    raise TranslateError(f"cannot read the device name in {ast.unparse(n)}")
                if fname != "setup_fake" and name not in out[kind]:
                    out[kind].append(name)
                if fname == "setup_fake" and kind != "devices" and name not in out[kind]:
                    out[kind].append(name)
        # every output device that is constructed must be registered
        for n in ast.walk(fn):
            if isinstance(n, ast.Call):
                cls = None
                if isinstance(n.func, ast.Name) and n.func.id in OUTPUT_CLASSES:
                    cls = n.func.id
                if isinstance(n.func, ast.Name) and n.func.id == "create" and n.args and isinstance(n.args[0], ast.Name) and n.args[0].id in OUTPUT_CLASSES:
                    cls = n.args[0].id
                if cls and id(n) not in registered_calls:
                    out["unregistered"].append(f"{fname}: {ast.unparse(n)}")
    # main(): supervised actors, loop condition, exit code
    main = fns.get("main")
    if main is None:
        raise TranslateError("main not found")
    supervised, loop, ret, halt_after = None, None, None, False
    for n in ast.walk(main):
        if isinstance(n, ast.Assign) and isinstance(n.targets[0], ast.Name) and n.targets[0].id == "main_actors":
            supervised = [ast.unparse(e).split(".")[0] for e in n.value.elts]
        if isinstance(n, ast.While):
            loop = ast.unparse(n.test)
            out["loop_sleep"] = [ast.unparse(s) for s in n.body]
        if isinstance(n, ast.Return):
            ret = ast.unparse(n.value)
    body_src = [ast.unparse(s) for s in main.body]
    idx_while = next(i for i, s in enumerate(main.body) if isinstance(s, ast.While))
    tail = [ast.unparse(s) for s in main.body[idx_while + 1:]]
    out["supervised"] = supervised
    out["loop"] = loop
    out["return"] = ret
    out["after_loop"] = tail
    # the __main__ block
    blk = None
    for n in tree.body:
        if isinstance(n, ast.If) and "__name__" in ast.unparse(n.test):
            blk = n
    if blk is None:
        raise TranslateError("no __main__ block")
    tr = [s for s in blk.body if isinstance(s, ast.Try)]
    if len(tr) != 1:
        raise TranslateError("__main__ block: expected exactly one try/finally")
    fin = tr[0].finalbody
    ops = []
    for s in fin:
        txt = ast.unparse(s)
        if "stop_all" in txt:
            ops.append("stopAll")
        elif isinstance(s, ast.For) and ".off()" in txt:
            it = ast.unparse(s.iter)
            ops.append("offAll:" + ("P" if "get_pumps" in it else "") + ("V" if "get_valves" in it else ""))
        elif isinstance(s, ast.For) and ".stop()" in txt:
            ops.append("stopDevices")
        elif "cleanup" in txt:
            ops.append("cleanup")
        else:
            ops.append("other:" + txt[:60])
    out["finally"] = ops
    out["main_in_try"] = any("main(" in ast.unparse(s) for s in tr[0].body)
    out["exit_wraps_main"] = any("sys.exit(main(" in ast.unparse(s) for s in ast.walk(tr[0]) if isinstance(s, ast.Expr))
    return out


def render(m):
    L = lambda xs: "[" + ", ".join(f'"{x}"' for x in xs) + "]"  # noqa: E731
    lines = ["-- GENERATED by translate/main_model.py. Do not edit.", "namespace Poupool.Gen.Main", ""]
    lines.append(f"def pumps : List String := {L(m['pumps'])}")
    lines.append(f"def valves : List String := {L(m['valves'])}")
    lines.append(f"def stoppable : List String := {L(m['devices'])}")
    lines.append(f"def unregisteredOutputs : List String := {L(m['unregistered'])}")
    lines.append(f"def supervised : List String := {L(m['supervised'] or [])}")
    lines.append(f"def loopCondition : String := {json.dumps(m['loop'])}")
    lines.append(f"def loopBody : List String := {L(m.get('loop_sleep', []))}")
    lines.append(f"def afterLoop : List String := {L(m['after_loop'])}")
    lines.append(f"def returnExpr : String := {json.dumps(m['return'])}")
    lines.append(f"def finallyOps : List String := {L(m['finally'])}")
    lines.append(f"def exitWrapsMain : Bool := {'true' if m['exit_wraps_main'] else 'false'}")
    lines.append("\nend Poupool.Gen.Main\n")
    return "\n".join(lines)


def generate(repo=None):
    from vlib.common import REPO

    m = extract(repo or REPO)
    write_if_changed(os.path.join(VERIF, "lean", "Poupool", "Generated", "Main.lean"), render(m))
    return m


if __name__ == "__main__":
    print(json.dumps(generate(), indent=1))
