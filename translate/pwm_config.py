"""Translator for C03 / C20:  controller/disinfection.py + controller/util.py + config.ini  ->
lean/Poupool/Generated/PwmConfig.lean  (an instance of Poupool.Pwm.Cfg).

Two things are read from the working tree on every run:
 * the constants the model is parametrised with (unit keyword of the security delay, reset period, default
   period / min_runtime, tick delay, constrain bounds of PController.compute, constructor arguments, the sign that
   Disinfection.ph_pterm / orp_pterm apply, config.ini values);
 * the *shape*: the normalised (ast.unparse, logging removed) text of every function that Model/Pwm.lean mirrors
   statement by statement is compared with the text the model was written against, with the constants above as holes.
   A deviation does not stop the translation; it is reported as `shapeOk := false` + a list of deviating functions
   and the check turns it into a failed obligation (violation protocol of CONVENTIONS.md section 4).
"""
from __future__ import annotations

import ast
import configparser
import os
import re
from fractions import Fraction

from vlib.common import LEAN_DIR, REPO

OUT = os.path.join(LEAN_DIR, "Poupool", "Generated", "PwmConfig.lean")

UNIT_US = {
    "microseconds": 1,
    "milliseconds": 1000,
    "seconds": 1_000_000,
    "minutes": 60_000_000,
    "hours": 3_600_000_000,
    "days": 86_400_000_000,
    "weeks": 7 * 86_400_000_000,
}


class TranslateError(Exception):
    pass


# ---------------------------------------------------------------------------------------------------------
# expected shapes ({NAME} = hole filled with an extracted constant)
# ---------------------------------------------------------------------------------------------------------
EXPECTED = {
    "PWM.SECURITY_DURATION": "SECURITY_DURATION = int(config['disinfection', 'security_duration'])",
    "PWM.__init__": """def __init__(self, name, pump, period={PERIOD}, min_runtime={MINRT}):
    super().__init__()
    self.__name = name
    self.__pump = pump
    self.period = period
    self.__last = None
    self.__duration = 0
    self.__state = False
    self.__security_duration = Timer(f'PWM for {name}')
    self.__security_duration.delay = timedelta({UNIT}=PWM.SECURITY_DURATION)
    self.__security_reset = datetime.now() + timedelta({RESET_KW}={RESET_N})
    self.__min_runtime = min_runtime
    self.value = 0.0""",
    "PWM.do_cancel": """def do_cancel(self):
    super().do_cancel()
    if self.__state:
        self.__security_duration.update(datetime.now())
    self.__security_duration.clear()
    self.__last = None
    self.__duration = 0
    self.__state = False
    self.__pump.off()""",
    "PWM.do_run": """def do_run(self):
    now = time.time()
    if self.__last is not None:
        diff = now - self.__last
        self.__duration += diff
        self.__duration = constrain(self.__duration, 0, self.period)
        duty_on = self.value * self.period
        if duty_on != 0 and duty_on < self.__min_runtime:
            duty_on = self.__min_runtime
        elif duty_on > self.period - self.__min_runtime:
            duty_on = self.period
        duty_off = self.period - duty_on
        if self.__state:
            self.__security_duration.update(datetime.now())
            security_ok = not self.__security_duration.elapsed()
            done = self.__duration >= duty_on and self.__duration >= self.__min_runtime
            if done and duty_on != self.period or not security_ok:
                self.__duration = 0
                self.__state = False
                self.__pump.off()
        else:
            self.__security_duration.update(datetime.now(), 0)
            security_ok = not self.__security_duration.elapsed()
            if self.__duration >= duty_off and duty_off != self.period and security_ok:
                self.__duration = 0
                self.__state = True
                self.__pump.on()
    if datetime.now() > self.__security_reset:
        self.__security_duration.reset()
        self.__security_reset += timedelta({RESET_KW}={RESET_N})
    self.__last = now
    self.do_delay({TICK}, self.do_run.__name__)""",
    "PController.__init__": """def __init__(self, pterm={PC_PTERM}, scale={PC_SCALE}):
    self.setpoint = 0
    self.current = 0
    self.pterm = pterm
    self.__scale = scale""",
    "PController.compute": """def compute(self):
    error = self.setpoint - self.current
    return constrain(self.pterm * self.__scale * error, {PC_LO}, {PC_HI})""",
    "Timer.__init__": """def __init__(self, name):
    self.__duration = timedelta()
    self.__name = name
    self.__last = None
    self.__last_print = datetime(2000, 1, 1)
    self.__delay = timedelta()""",
    "Timer.delay.setter": """@delay.setter
def delay(self, value):
    self.__delay = value
    self.reset()""",
    "Timer.clear": """def clear(self):
    self.__last = None""",
    "Timer.reset": """def reset(self):
    self.clear()
    self.__duration = timedelta()""",
    "Timer.update": """def update(self, now, factor=1):
    if self.__last is not None:
        self.__duration += factor * (now - self.__last)
        remaining = max(timedelta(), self.delay - self.__duration)
    self.__last = now""",
    "Timer.elapsed": """def elapsed(self):
    return self.__duration >= self.__delay""",
    "constrain": """def constrain(x, out_min, out_max):
    return min(max(x, out_min), out_max)""",
    "Disinfection.ph_pterm": """def ph_pterm(self, value):
    self.__ph_controller.pterm = {PH_SIGN}value""",
    "Disinfection.orp_pterm": """def orp_pterm(self, value):
    self.__orp_controller.pterm = {ORP_SIGN}value""",
    "Disinfection.ph_setpoint": """def ph_setpoint(self, value):
    self.__ph_controller.setpoint = value""",
    "Disinfection.orp_setpoint": """def orp_setpoint(self, value):
    self.__orp_controller.setpoint = value""",
    "Disinfection.PH_PWM_PERIOD": "PH_PWM_PERIOD = int(config['disinfection', 'ph_pwm_period'])",
    "Disinfection.CL_PWM_PERIOD": "CL_PWM_PERIOD = int(config['disinfection', 'cl_pwm_period'])",
}


# ---------------------------------------------------------------------------------------------------------
class _StripLogging(ast.NodeTransformer):
    """Remove logger.* expression statements and `if`s whose body is logging only (they do not touch the state)."""

    @staticmethod
    def _is_log(node):
        return (
            isinstance(node, ast.Expr)
            and isinstance(node.value, ast.Call)
            and isinstance(node.value.func, ast.Attribute)
            and isinstance(node.value.func.value, ast.Name)
            and node.value.func.value.id == "logger"
        )

    def _strip(self, body):
        out = []
        for st in body:
            st = self.visit(st)
            if st is None:
                continue
            out.append(st)
        return out

    def visit_Expr(self, node):
        return None if self._is_log(node) else node

    def visit_If(self, node):
        self.generic_visit(node)
        if not node.body and not node.orelse:
            return None
        if not node.body:
            node.body = [ast.Pass()]
        return node

    def visit_Assign(self, node):
        # `self.__last_print = now` inside the logging `if` of Timer.update disappears with the `if` only if the `if`
        # body becomes empty; keep the rule simple: drop assignments to __last_print inside update
        for t in node.targets:
            if isinstance(t, ast.Attribute) and t.attr == "__last_print" and not isinstance(node.value, ast.Call):
                return None
        return node


def _norm(node) -> str:
    node = _StripLogging().visit(ast.fix_missing_locations(node))
    return ast.unparse(node).strip()


def _find(tree, cls, name, setter=False):
    for n in tree.body:
        if cls is None and isinstance(n, ast.FunctionDef) and n.name == name:
            return n
        if isinstance(n, ast.ClassDef) and n.name == cls:
            for m in n.body:
                if isinstance(m, ast.FunctionDef) and m.name == name:
                    is_setter = any(isinstance(d, ast.Attribute) and d.attr == "setter" for d in m.decorator_list)
                    if is_setter == setter and (setter or not m.decorator_list):
                        return m
                if isinstance(m, ast.Assign) and isinstance(m.targets[0], ast.Name) and m.targets[0].id == name:
                    return m
    raise TranslateError(f"{cls}.{name} not found")


def _num(text: str) -> Fraction:
    """exact value of a Python numeric literal (decimal value as written)."""
    text = text.strip()
    try:
        return Fraction(text)
    except (ValueError, ZeroDivisionError) as e:
        raise TranslateError(f"not a numeric literal: {text!r}") from e


def _grab(pattern, text, what):
    m = re.search(pattern, text)
    if not m:
        raise TranslateError(f"cannot read {what}")
    return m


def extract(repo: str = REPO) -> dict:
    dis = ast.parse(open(os.path.join(repo, "controller", "disinfection.py")).read())
    util = ast.parse(open(os.path.join(repo, "controller", "util.py")).read())
    cp = configparser.ConfigParser()
    cp.read(os.path.join(repo, "config.ini"))

    texts = {
        "PWM.SECURITY_DURATION": _norm(_find(dis, "PWM", "SECURITY_DURATION")),
        "PWM.__init__": _norm(_find(dis, "PWM", "__init__")),
        "PWM.do_cancel": _norm(_find(dis, "PWM", "do_cancel")),
        "PWM.do_run": _norm(_find(dis, "PWM", "do_run")),
        "PController.__init__": _norm(_find(dis, "PController", "__init__")),
        "PController.compute": _norm(_find(dis, "PController", "compute")),
        "Timer.__init__": _norm(_find(util, "Timer", "__init__")),
        "Timer.delay.setter": _norm(_find(util, "Timer", "delay", setter=True)),
        "Timer.clear": _norm(_find(util, "Timer", "clear")),
        "Timer.reset": _norm(_find(util, "Timer", "reset")),
        "Timer.update": _norm(_find(util, "Timer", "update")),
        "Timer.elapsed": _norm(_find(util, "Timer", "elapsed")),
        "constrain": _norm(_find(util, None, "constrain")),
        "Disinfection.ph_pterm": _norm(_find(dis, "Disinfection", "ph_pterm")),
        "Disinfection.orp_pterm": _norm(_find(dis, "Disinfection", "orp_pterm")),
        "Disinfection.ph_setpoint": _norm(_find(dis, "Disinfection", "ph_setpoint")),
        "Disinfection.orp_setpoint": _norm(_find(dis, "Disinfection", "orp_setpoint")),
        "Disinfection.PH_PWM_PERIOD": _norm(_find(dis, "Disinfection", "PH_PWM_PERIOD")),
        "Disinfection.CL_PWM_PERIOD": _norm(_find(dis, "Disinfection", "CL_PWM_PERIOD")),
    }
    init = texts["PWM.__init__"]
    run = texts["PWM.do_run"]
    holes = {}
    m = _grab(r"period=([^,)]+), min_runtime=([^,)]+)\)", init, "PWM.__init__ defaults")
    holes["PERIOD"], holes["MINRT"] = m.group(1), m.group(2)
    m = _grab(r"__security_duration\.delay = timedelta\((\w+)=PWM\.SECURITY_DURATION\)", init, "security delay unit keyword")
    holes["UNIT"] = m.group(1)
    if holes["UNIT"] not in UNIT_US:
        raise TranslateError(f"unknown timedelta keyword {holes['UNIT']}")
    m = _grab(r"__security_reset = datetime\.now\(\) \+ timedelta\((\w+)=([0-9.]+)\)", init, "security reset period")
    holes["RESET_KW"], holes["RESET_N"] = m.group(1), m.group(2)
    m2 = _grab(r"__security_reset \+= timedelta\((\w+)=([0-9.]+)\)", run, "security reset increment")
    reset_inc = (m2.group(1), m2.group(2))
    m = _grab(r"self\.do_delay\(([0-9.]+), self\.do_run\.__name__\)", run, "tick delay")
    holes["TICK"] = m.group(1)
    m = _grab(r"pterm=([-0-9.]+), scale=([-0-9.]+)\)", texts["PController.__init__"], "PController defaults")
    holes["PC_PTERM"], holes["PC_SCALE"] = m.group(1), m.group(2)
    m = _grab(r"return constrain\(.*, ([-0-9.]+), ([-0-9.]+)\)$", texts["PController.compute"], "compute bounds")
    holes["PC_LO"], holes["PC_HI"] = m.group(1), m.group(2)
    m = _grab(r"__ph_controller\.pterm = (-?)value$", texts["Disinfection.ph_pterm"], "ph_pterm sign")
    holes["PH_SIGN"] = m.group(1)
    m = _grab(r"__orp_controller\.pterm = (-?)value$", texts["Disinfection.orp_pterm"], "orp_pterm sign")
    holes["ORP_SIGN"] = m.group(1)

    # constructor arguments in Disinfection.__init__
    dinit = _norm(_find(dis, "Disinfection", "__init__"))
    m = _grab(r"self\.__ph_controller = PController\(([^)]*)\)", dinit, "pH PController ctor")
    ph_args = dict(a.strip().split("=") for a in m.group(1).split(",") if a.strip())
    m = _grab(r"self\.__orp_controller = PController\(([^)]*)\)", dinit, "ORP PController ctor")
    orp_args = dict(a.strip().split("=") for a in m.group(1).split(",") if a.strip())
    if set(ph_args) - {"pterm", "scale"} or set(orp_args) - {"pterm", "scale"}:
        raise TranslateError("PController constructor called with unexpected arguments")
    ph_sp = _grab(r"self\.__ph_controller\.setpoint = ([-0-9.]+)", dinit, "pH setpoint default").group(1)
    orp_sp = _grab(r"self\.__orp_controller\.setpoint = ([-0-9.]+)", dinit, "ORP setpoint default").group(1)
    ph_period_from_cfg = re.search(r"self\.__ph\.period = Disinfection\.PH_PWM_PERIOD", dinit) is not None
    cl_period_from_cfg = re.search(r"self\.__cl\.period = Disinfection\.CL_PWM_PERIOD", dinit) is not None

    deviations = []
    for k, tmpl in EXPECTED.items():
        want = tmpl
        for h, v in holes.items():
            want = want.replace("{" + h + "}", v)
        if texts[k] != want:
            deviations.append(k)
    if reset_inc != (holes["RESET_KW"], holes["RESET_N"]):
        deviations.append("PWM.do_run:reset increment differs from PWM.__init__")
    if not (ph_period_from_cfg and cl_period_from_cfg):
        deviations.append("Disinfection.__init__:pwm periods")
    if holes["RESET_KW"] not in UNIT_US:
        raise TranslateError("unknown reset keyword")

    try:
        sec = int(cp["disinfection"]["security_duration"])
        php = int(cp["disinfection"]["ph_pwm_period"])
        clp = int(cp["disinfection"]["cl_pwm_period"])
    except (KeyError, ValueError) as e:
        raise TranslateError(f"config.ini [disinfection]: {e}") from e

    cfg = {
        "securityDuration": sec,
        "securityUnit": holes["UNIT"],
        "securityUnitUs": UNIT_US[holes["UNIT"]],
        "resetPeriodUs": int(_num(holes["RESET_N"]) * UNIT_US[holes["RESET_KW"]]),
        "defaultPeriod": _num(holes["PERIOD"]),
        "defaultMinRuntime": _num(holes["MINRT"]),
        "tickDelayUs": int(_num(holes["TICK"]) * 1_000_000),
        "phPeriod": php,
        "clPeriod": clp,
        "pcLo": _num(holes["PC_LO"]),
        "pcHi": _num(holes["PC_HI"]),
        "pcDefaultPterm": _num(holes["PC_PTERM"]),
        "pcDefaultScale": _num(holes["PC_SCALE"]),
        "phCtorPterm": _num(ph_args.get("pterm", holes["PC_PTERM"])),
        "phScale": _num(ph_args.get("scale", holes["PC_SCALE"])),
        "phSetpoint0": _num(ph_sp),
        "orpCtorPterm": _num(orp_args.get("pterm", holes["PC_PTERM"])),
        "orpScale": _num(orp_args.get("scale", holes["PC_SCALE"])),
        "orpSetpoint0": _num(orp_sp),
        "phPtermSign": Fraction(-1 if holes["PH_SIGN"] == "-" else 1),
        "orpPtermSign": Fraction(-1 if holes["ORP_SIGN"] == "-" else 1),
        "shapeOk": not deviations,
        "deviations": deviations,
        "texts": texts,
    }
    return cfg


def _rat(fr: Fraction) -> str:
    fr = Fraction(fr)
    if fr.denominator == 1:
        return f"({fr.numerator} : Rat)"
    return f"(({fr.numerator} : Rat) / {fr.denominator})"


def render(cfg: dict) -> str:
    lines = [
        "-- GENERATED by translate/pwm_config.py from controller/disinfection.py, controller/util.py, config.ini.",
        "-- Never edit by hand; rewritten (when changed) by every run of ./check C03 / C20.",
        "import Poupool.Model.Pwm",
        "namespace Poupool.Generated",
        "open Poupool.Pwm",
        f"-- security delay applied as timedelta({cfg['securityUnit']}=PWM.SECURITY_DURATION)",
    ]
    if cfg["deviations"]:
        lines.append("-- shape deviations: " + "; ".join(cfg["deviations"]))
    lines += [
        "def pwmCfg : Cfg where",
        f"  securityDuration := {cfg['securityDuration']}",
        f"  securityUnitUs := {cfg['securityUnitUs']}",
        f"  resetPeriodUs := {cfg['resetPeriodUs']}",
        f"  defaultPeriod := {_rat(cfg['defaultPeriod'])}",
        f"  defaultMinRuntime := {_rat(cfg['defaultMinRuntime'])}",
        f"  tickDelayUs := {cfg['tickDelayUs']}",
        f"  phPeriod := {cfg['phPeriod']}",
        f"  clPeriod := {cfg['clPeriod']}",
        f"  pcLo := {_rat(cfg['pcLo'])}",
        f"  pcHi := {_rat(cfg['pcHi'])}",
        f"  pcDefaultPterm := {_rat(cfg['pcDefaultPterm'])}",
        f"  pcDefaultScale := {_rat(cfg['pcDefaultScale'])}",
        f"  phCtorPterm := {_rat(cfg['phCtorPterm'])}",
        f"  phScale := {_rat(cfg['phScale'])}",
        f"  phSetpoint0 := {_rat(cfg['phSetpoint0'])}",
        f"  orpCtorPterm := {_rat(cfg['orpCtorPterm'])}",
        f"  orpScale := {_rat(cfg['orpScale'])}",
        f"  orpSetpoint0 := {_rat(cfg['orpSetpoint0'])}",
        f"  phPtermSign := {_rat(cfg['phPtermSign'])}",
        f"  orpPtermSign := {_rat(cfg['orpPtermSign'])}",
        f"  shapeOk := {'true' if cfg['shapeOk'] else 'false'}",
        "end Poupool.Generated",
        "",
    ]
    return "\n".join(lines)


def generate(repo: str = REPO) -> dict:
    """Regenerate Generated/PwmConfig.lean from the working tree (rewritten only when the content changed)."""
    cfg = extract(repo)
    text = render(cfg)
    os.makedirs(os.path.dirname(OUT), exist_ok=True)
    old = open(OUT).read() if os.path.exists(OUT) else None
    if old != text:
        tmp = OUT + f".tmp{os.getpid()}"
        with open(tmp, "w") as fh:
            fh.write(text)
        os.replace(tmp, OUT)
    return cfg


if __name__ == "__main__":
    c = generate()
    print({k: v for k, v in c.items() if k != "texts"})
