"""Engine T (T1 + T2 + T6): regenerate the per-actor Lean models from /repo's working tree.

T1  transition rows: obtained by EXECUTING the real `transitions` machine of a live controller instance for
    every (leaf, trigger, guard valuation) with recording callbacks.
T2  one `Stmt` program per Python method, from the AST (subset; anything else becomes `opaque`).
T6  who tells / asks whom (with timeout or not), from the same AST walk.

Output: lean/Poupool/Generated/Actors.lean  (+ a JSON side file with the same tables for the Python side).
"""
from __future__ import annotations

import ast
import re
import inspect
import itertools
import json
import math
import os
import sys
import textwrap

VERIF = os.path.dirname(os.path.dirname(os.path.abspath(__file__)))
sys.path.insert(0, VERIF)

CONTROLLERS = ["Filtration", "Tank", "Heating", "Disinfection", "Swim", "Light", "Arduino", "Heater"]
MODULE_OF = {
    "Filtration": "filtration", "Tank": "tank", "Heating": "heating", "Heater": "heating", "Disinfection": "disinfection",
    "Swim": "swim", "Light": "light", "Arduino": "arduino", "PWM": "disinfection", "StirMode": "filtration", "EcoMode": "filtration",
}
# attribute -> class of the helper object whose methods are inlined
INLINE_HELPERS = {"Filtration": {"__stir_mode": "StirMode"}}
# attributes holding objects with NO modelled effect (checked: their classes never touch devices/actors/timers)
PURE_HELPERS = {"__eco_mode", "__timer", "__total_duration", "__temperature", "__ph_controller", "__orp_controller",
                "__security_duration", "__machine", "__sensors_reader", "__current", "__city"}
SMALL_RANGE = 8
# ghost "last request" variables that are kept in the modelled state (the others are only emitted as effects)
TRACKED_GHOSTS = {"Filtration": {"Disinfection", "Heating", "Swim"}, "Disinfection": {"PWMph", "PWMcl"}}
# extra knowledge variables of a master about a slave: value 1 = "the slave is known not to be in phase <phase>"
# (it was told one of `tells`, or answered is_<phase>() False / is_halt() True); forgotten (0) whenever the master's
# handler ends in a phase in which the slave's own start guard `guard` can be true.
KNOWLEDGE = {
    "Filtration": [
        {"var": "ks:Heating", "target": "Heating", "tells": {"wait", "halt"}, "ask_false": {"is_heating"}, "ask_true": {"is_halt"},
         "guard": ("Heating", "filtration_allow_heating"), "init": 1},
    ]
}
# ghost variables that are forgotten in the phases in which the slave's start guard can be true
HAVOC_GHOSTS = {"Filtration": [("rq:Swim", ("Swim", "filtration_allow_swim"))]}


class Names:
    """string interning"""

    def __init__(self, first=()):
        self.ids = {}
        self.list = []
        for f in first:
            self.id(f)

    def id(self, s):
        if s not in self.ids:
            self.ids[s] = len(self.list)
            self.list.append(s)
        return self.ids[s]


# ----------------------------------------------------------------------------------------------
# Lean term builders (as strings)

def L_list(xs):
    return "[" + ", ".join(xs) + "]"


def L_int(n):
    return f"({n})" if n < 0 else str(n)


class S:
    skip = ".skip"

    @staticmethod
    def seq(xs):
        xs = [x for x in xs if x != ".skip"]
        if not xs:
            return ".skip"
        r = xs[-1]
        for x in reversed(xs[:-1]):
            r = f"(.seq {x} {r})"
        return r

    @staticmethod
    def set(v, e):
        return f"(.set {v} {e})"

    @staticmethod
    def ite(c, t, e):
        return f"(.ite {c} {t} {e})"

    @staticmethod
    def choose(a, b):
        return f"(.choose {a} {b})"


# ----------------------------------------------------------------------------------------------
# T2: AST -> Stmt

class Untranslatable(Exception):
    pass


class ClassInfo:
    def __init__(self, name, tree):
        self.name = name
        self.methods = {}
        self.decorated = set()
        for node in tree.body:
            if isinstance(node, ast.FunctionDef):
                self.methods[node.name] = node
                for d in node.decorator_list:
                    if isinstance(d, ast.Call) and isinstance(d.func, ast.Name) and d.func.id == "do_repeat":
                        self.decorated.add(node.name)


def parse_classes(repo):
    classes = {}
    for mod in sorted(set(MODULE_OF.values())):
        src = open(os.path.join(repo, "controller", mod + ".py")).read()
        tree = ast.parse(src)
        for node in tree.body:
            if isinstance(node, ast.ClassDef):
                classes[node.name] = ClassInfo(node.name, node)
    return classes


def attr_chain(node):
    """self.a.b.c -> ['self','a','b','c'];  calls inside the chain are kept as ('call', name, args)."""
    out = []
    while True:
        if isinstance(node, ast.Attribute):
            out.append(node.attr)
            node = node.value
        elif isinstance(node, ast.Call):
            out.append(("call", node))
            node = node.func
        elif isinstance(node, ast.Name):
            out.append(node.id)
            break
        else:
            out.append(("expr", node))
            break
    return list(reversed(out))


def mentions(node, words):
    for n in ast.walk(node):
        if isinstance(n, ast.Attribute) and n.attr in words:
            return True
        if isinstance(n, ast.Name) and n.id in words:
            return True
    return False


EFFECT_WORDS = {"__devices", "get_actor", "_proxy", "do_delay", "do_cancel", "get_pump", "get_valve", "__ph", "__cl",
                "__sensors_writer", "__heater", "__arduino", "defer"}


class Translator:
    def __init__(self, ctrl, classes, ctx, view="safety"):
        self.view = view  # "safety": keep variables, drop unguarded self-tells; "timer": the converse
        self.ctrl = ctrl
        self.classes = classes
        self.ctx = ctx  # global context: names, leaves per controller, triggers per controller, settings, var tables
        self.cls = classes[ctrl]
        self.vars = ctx["vars"].setdefault(ctrl, Names())
        self.opaque = []
        self.tells = ctx["tells"]  # (sender, handler, receiver, method, kind)
        self.asks = ctx["asks"]  # (caller, handler, callee, method, timeout)
        self.handler = "?"

    # -- helpers -------------------------------------------------------------
    def var(self, name):
        return self.vars.id(name)

    def msg(self, name):
        return self.ctx["msgs"][self.ctrl].id(name)

    def name_id(self, s):
        return self.ctx["names"].id(s)

    def mk_set(self, v, e):
        return S.set(v, e) if self.view == "safety" else S.skip

    def mk_opaque(self, node, why):
        src = ast.unparse(node) if isinstance(node, ast.AST) else str(node)
        self.opaque.append((self.handler, why, src[:120]))
        return f"(.opaque {len(self.opaque)})"

    # -- entry ------------------------------------------------------------------
    def method_stmt(self, cname, mname, env=None, depth=0, wrap_settings=True):
        """Stmt for method `mname` of class `cname` (own class or inlined helper)."""
        cls = self.classes[cname]
        fn = cls.methods.get(mname)
        if fn is None:
            raise Untranslatable(f"no method {cname}.{mname}")
        env = dict(env or {})
        env.setdefault("__class__", cname)
        body = self.block(fn.body, env, depth)
        return body

    def handler_stmt(self, mname):
        """Top-level handler: settings read anywhere inside are bound once around the whole body."""
        self.handler = mname
        self.locals_alloc = []  # list of (attr, vals)
        env = {"__class__": self.ctrl, "__settings__": {}}
        body = self.method_stmt(self.ctrl, mname, env)
        if mname in self.cls.decorated:
            poll = mname.replace("on_enter_", "do_repeat_")
            body = f"(.doRepeat {body} {self.msg(poll)})"
            fd = self.ctx.get("repeat_first_delay")
            self.ctx["delays"].setdefault(self.ctrl, []).append((mname, poll, "@do_repeat", int(fd * 2) if isinstance(fd, (int, float)) and float(fd * 2).is_integer() else None))
        for i, (attr, vals) in reversed(list(enumerate(self.locals_alloc))):
            body = f"(.forSetting {i} {L_list([L_int(v) for v in vals])} {body})"
        return body

    def setting_local(self, attr):
        """local index of setting attribute `attr` (allocated on first use in this handler) or None"""
        rng = self.ctx["settings"].get(self.ctrl, {}).get(attr)
        if rng is None:
            return None
        for i, (a, _) in enumerate(self.locals_alloc):
            if a == attr:
                return i
        self.locals_alloc.append((attr, rng))
        return len(self.locals_alloc) - 1

    # -- statements ----------------------------------------------------------------
    def block(self, stmts, env, depth):
        out = []
        for i, st in enumerate(stmts):
            out.append(self.stmt(st, env, depth))
        return S.seq(out)

    def stmt(self, node, env, depth):
        if isinstance(node, ast.Expr):
            if isinstance(node.value, ast.Constant):
                return S.skip  # docstring
            return self.expr_stmt(node.value, env, depth)
        if isinstance(node, ast.Pass):
            return S.skip
        if isinstance(node, ast.Assert):
            return S.skip
        if isinstance(node, ast.Return):
            if node.value is not None and mentions(node.value, EFFECT_WORDS) and not self.is_pure_expr(node.value, env):
                return self.mk_opaque(node, "return with effect")
            return ".ret"
        if isinstance(node, ast.Raise):
            exc = node.exc
            name = exc.id if isinstance(exc, ast.Name) else (exc.func.id if isinstance(exc, ast.Call) and isinstance(exc.func, ast.Name) else None)
            if name == "StopRepeatException":
                return ".stopRepeat"
            return self.mk_opaque(node, "raise")
        if isinstance(node, ast.If):
            c = self.cond(node.test, env)
            t = self.block(node.body, dict(env), depth)
            e = self.block(node.orelse, dict(env), depth) if node.orelse else S.skip
            return S.ite(c, t, e)
        if isinstance(node, ast.Try):
            # try: <ask with timeout ...> except pykka.Timeout: H   ->  choose body H
            if node.finalbody or node.orelse or len(node.handlers) != 1:
                return self.mk_opaque(node, "try shape")
            h = node.handlers[0]
            hname = ast.unparse(h.type) if h.type is not None else ""
            if hname not in ("pykka.Timeout", "ValueError"):
                return self.mk_opaque(node, f"except {hname}")
            body = self.block(node.body, dict(env), depth)
            handler = self.block(h.body, dict(env), depth)
            return S.choose(body, handler)
        if isinstance(node, ast.Assign):
            return self.assign(node, env, depth)
        if isinstance(node, ast.AugAssign):
            if mentions(node, EFFECT_WORDS):
                return self.mk_opaque(node, "augassign")
            return S.skip
        if isinstance(node, (ast.Global, ast.Nonlocal, ast.Import, ast.ImportFrom)):
            return S.skip
        if isinstance(node, ast.For):
            return self.mk_opaque(node, "loop")
        return self.mk_opaque(node, type(node).__name__)

    def assign(self, node, env, depth):
        if len(node.targets) != 1:
            return self.mk_opaque(node, "multi-assign")
        tgt = node.targets[0]
        val = node.value
        if isinstance(tgt, ast.Name):
            if isinstance(val, ast.Name) and val.id in env and not val.id.startswith("__"):
                env[tgt.id] = env[val.id]  # plain alias of a known local
                return S.skip
            ch = attr_chain(val)
            # alias to an actor proxy
            a = self.actor_of(val, env)
            if a is not None:
                env[tgt.id] = ("actor", a)
                return S.skip
            d = self.device_of(val, env)
            if d is not None:
                env[tgt.id] = ("device", d)
                return S.skip
            if ch[:1] == ["self"] and len(ch) == 2 and isinstance(ch[1], str):
                li = self.setting_local(ch[1])
                if li is not None:
                    env[tgt.id] = ("loc", li)
                    return S.skip
            if mentions(val, EFFECT_WORDS) and not self.is_pure_expr(val, env):
                return self.mk_opaque(node, "assign with effect")
            env[tgt.id] = ("unknown",)
            return S.skip
        if isinstance(tgt, ast.Attribute):
            ch = attr_chain(tgt)
            # proxy attribute assignment (blocking ask): self.__ph.value = x
            if ch[0] == "self" and len(ch) == 3 and ch[1] in self.ctx["proxy_attrs"].get(self.ctrl, {}):
                tgt_actor = self.ctx["proxy_attrs"][self.ctrl][ch[1]]
                self.asks.append((self.ctrl, self.handler, tgt_actor, f"set:{ch[2]}", None))
                return f"(.emit {self.name_id(f'{tgt_actor}.{ch[2]}=')})"
            if mentions(val, EFFECT_WORDS) and not self.is_pure_expr(val, env):
                return self.mk_opaque(node, "attr assign with effect")
            return S.skip
        if isinstance(tgt, (ast.Tuple, ast.Subscript)):
            if mentions(node, EFFECT_WORDS):
                return self.mk_opaque(node, "assign")
            return S.skip
        return self.mk_opaque(node, "assign")

    # -- recognisers -----------------------------------------------------------------
    def actor_of(self, node, env):
        """name of the actor a proxy expression denotes, or None"""
        if isinstance(node, ast.Name) and env.get(node.id, (None,))[0] == "actor":
            return env[node.id][1]
        if isinstance(node, ast.Call) and isinstance(node.func, ast.Attribute) and node.func.attr == "get_actor":
            if len(node.args) == 1:
                a = node.args[0]
                if isinstance(a, ast.Constant) and isinstance(a.value, str):
                    return a.value
                if isinstance(a, ast.Name) and env.get(a.id, (None,))[0] == "str":
                    return env[a.id][1]
            return None
        if isinstance(node, ast.Attribute) and isinstance(node.value, ast.Name) and node.value.id == "self":
            if node.attr == "_proxy":
                return self.ctrl
            pa = self.ctx["proxy_attrs"].get(self.ctrl, {})
            if node.attr in pa:
                return pa[node.attr]
        return None

    def device_of(self, node, env):
        if isinstance(node, ast.Name) and env.get(node.id, (None,))[0] == "device":
            return env[node.id][1]
        if isinstance(node, ast.Call) and isinstance(node.func, ast.Attribute) and node.func.attr in ("get_pump", "get_valve"):
            if len(node.args) == 1 and isinstance(node.args[0], ast.Constant):
                return node.args[0].value
        if isinstance(node, ast.Attribute) and isinstance(node.value, ast.Name) and node.value.id == "self" and node.attr == "__heater":
            return "heater"
        if isinstance(node, ast.Attribute) and isinstance(node.value, ast.Name) and node.value.id == "self" and node.attr == "__pump":
            return "pump"
        return None

    def is_pure_expr(self, node, env):
        """no modelled effect: only asks / reads"""
        for n in ast.walk(node):
            if isinstance(n, ast.Call) and isinstance(n.func, ast.Attribute):
                if n.func.attr in ("defer", "do_delay", "do_cancel", "on", "off", "speed"):
                    return False
        return True

    def expr(self, node, env):
        """integer expression"""
        if isinstance(node, ast.Constant) and isinstance(node.value, (int, bool)):
            return f"(.const {L_int(int(node.value))})"
        if isinstance(node, ast.Name):
            b = env.get(node.id)
            if b and b[0] == "loc":
                return f"(.loc {b[1]})"
            if b and b[0] == "int":
                return f"(.const {L_int(b[1])})"
            return ".unknown"
        if isinstance(node, ast.Attribute):
            ch = attr_chain(node)
            if ch[0] == "self" and len(ch) == 2:
                li = self.setting_local(ch[1])
                if li is not None:
                    return f"(.loc {li})"
            # class constants: Filtration.WINTERING_PUMP_SPEED
            if len(ch) == 2 and ch[0] in self.classes:
                v = self.ctx["class_consts"].get((ch[0], ch[1]))
                if isinstance(v, int):
                    return f"(.const {L_int(v)})"
            return ".unknown"
        if isinstance(node, ast.Call) and isinstance(node.func, ast.Name) and node.func.id == "min" and len(node.args) == 2:
            return f"(.min {self.expr(node.args[0], env)} {self.expr(node.args[1], env)})"
        return ".unknown"

    OPS = {ast.Lt: ".lt", ast.LtE: ".le", ast.Eq: ".eq", ast.NotEq: ".ne", ast.Gt: ".gt", ast.GtE: ".ge"}

    def cond(self, node, env):
        if isinstance(node, ast.BoolOp):
            parts = [self.cond(v, env) for v in node.values]
            op = ".and" if isinstance(node.op, ast.And) else ".or"
            r = parts[-1]
            for p in reversed(parts[:-1]):
                r = f"({op} {p} {r})"
            return r
        if isinstance(node, ast.UnaryOp) and isinstance(node.op, ast.Not):
            return f"(.not {self.cond(node.operand, env)})"
        if isinstance(node, ast.Compare):
            # chained comparison a < b < c
            items = [node.left] + node.comparators
            parts = []
            for (a, op, b) in zip(items, node.ops, items[1:]):
                if type(op) not in self.OPS:
                    if mentions(node, EFFECT_WORDS) and not self.is_pure_expr(node, env):
                        return "(.nondet) /- effect in compare -/"
                    return ".nondet"
                ea, eb = self.expr(a, env), self.expr(b, env)
                if ".unknown" in (ea, eb):
                    parts.append(".nondet")
                else:
                    parts.append(f"(.cmp {self.OPS[type(op)]} {ea} {eb})")
            r = parts[-1]
            for p in reversed(parts[:-1]):
                r = f"(.and {p} {r})"
            if not self.is_pure_expr(node, env):
                self.mk_opaque(node, "effect in condition")
            return r
        if isinstance(node, ast.Call):
            f = node.func
            # self.is_<state>(allow_substates=...)
            if isinstance(f, ast.Attribute) and isinstance(f.value, ast.Name) and f.value.id == "self" and f.attr.startswith("is_") and f.attr[3:] in self.ctx["states"][self.ctrl]:
                st = f.attr[3:]
                sub = any(k.arg == "allow_substates" and isinstance(k.value, ast.Constant) and k.value.value for k in node.keywords)
                leaves = self.ctx["leaves"][self.ctrl]
                ids = [i for i, l in enumerate(leaves) if l == st or (sub and l.startswith(st + "_"))]
                return f"(.leafIn {L_list([str(i) for i in ids])})"
            # X.is_halt().get(...)  on another actor
            if isinstance(f, ast.Attribute) and f.attr == "get" and isinstance(f.value, ast.Call):
                inner = f.value
                if isinstance(inner.func, ast.Attribute):
                    a = self.actor_of(inner.func.value, env)
                    if a is not None:
                        timeout = None
                        for k in node.keywords:
                            if k.arg == "timeout":
                                timeout = ast.literal_eval(k.value) if isinstance(k.value, ast.Constant) else "?"
                        self.asks.append((self.ctrl, self.handler, a, inner.func.attr, timeout))
                        return self.ask_cond(a, inner.func.attr)
            # own method used as a condition: must be pure w.r.t. the modelled state
            if isinstance(f, ast.Attribute) and isinstance(f.value, ast.Name) and f.value.id == "self":
                cname = env.get("__class__", self.ctrl)
                callee = self.classes[cname].methods.get(f.attr)
                if callee is not None and len(node.args) == 2:
                    to = self.ask_or_default(cname, f.attr)
                    q, d = node.args
                    if to is not None and isinstance(q, ast.Call) and isinstance(q.func, ast.Attribute) and isinstance(d, ast.Constant) and isinstance(d.value, bool):
                        a = self.actor_of(q.func.value, env)
                        if a is not None:
                            self.asks.append((self.ctrl, self.handler, a, q.func.attr, to))
                            inner = self.ask_cond(a, q.func.attr)
                            # a timeout yields the default without any knowledge, an answer yields the answer
                            return f"(.or .nondet {inner})" if d.value else f"(.and .nondet {inner})"
                if callee is not None:
                    self.scan_asks(callee, env, f.attr)
                    if self.fn_is_pure(cname, f.attr):
                        return ".nondet"
                    self.mk_opaque(node, "impure method in condition")
                    return ".nondet"
        if not self.is_pure_expr(node, env):
            self.mk_opaque(node, "effect in condition")
        self.scan_asks_expr(node, env)
        if isinstance(node, (ast.Attribute, ast.Name)):
            e = self.expr(node, env)
            if e != ".unknown":
                return f"(.cmp .ne {e} (.const 0))"
        return ".nondet"

    def ask_cond(self, a, method):
        """Cond for `a.method().get()` with the knowledge refinements of each answer"""
        if self.view != "safety" or a == self.ctrl:
            return ".nondet"
        on_true, on_false = [], []
        if method == "is_halt" and a in TRACKED_GHOSTS.get(self.ctrl, ()):
            on_true.append((self.var("rq:" + a), 0))
        for k in KNOWLEDGE.get(self.ctrl, []):
            if k["target"] == a:
                if method in k["ask_true"]:
                    on_true.append((self.var(k["var"]), 1))
                if method in k["ask_false"]:
                    on_false.append((self.var(k["var"]), 1))
        if not on_true and not on_false:
            return ".nondet"
        f = lambda l: L_list([f"({v}, {L_int(x)})" for v, x in l])  # noqa: E731
        return f"(.ask {f(on_true)} {f(on_false)})"

    def ask_or_default(self, cname, mname):
        """is `mname` the wrapper  try: return future.get(timeout=T)  except pykka.Timeout: return default ?"""
        fn = self.classes[cname].methods.get(mname)
        if fn is None or len(fn.args.args) != 3:
            return None
        body = [st for st in fn.body if not (isinstance(st, ast.Expr) and isinstance(st.value, ast.Constant))]
        if len(body) != 1 or not isinstance(body[0], ast.Try):
            return None
        t = body[0]
        fut, dflt = fn.args.args[1].arg, fn.args.args[2].arg
        if len(t.body) != 1 or not isinstance(t.body[0], ast.Return) or len(t.handlers) != 1:
            return None
        r = t.body[0].value
        if not (isinstance(r, ast.Call) and isinstance(r.func, ast.Attribute) and r.func.attr == "get" and isinstance(r.func.value, ast.Name) and r.func.value.id == fut):
            return None
        timeout = None
        for k in r.keywords:
            if k.arg == "timeout" and isinstance(k.value, ast.Constant):
                timeout = k.value.value
        h = t.handlers[0]
        if ast.unparse(h.type) != "pykka.Timeout" or len(h.body) != 1 or not isinstance(h.body[0], ast.Return):
            return None
        if not (isinstance(h.body[0].value, ast.Name) and h.body[0].value.id == dflt):
            return None
        return timeout

    def fn_is_pure(self, cname, mname, seen=None):
        seen = seen or set()
        if (cname, mname) in seen:
            return True
        seen.add((cname, mname))
        fn = self.classes[cname].methods.get(mname)
        if fn is None:
            return True
        for n in ast.walk(fn):
            if isinstance(n, ast.Call) and isinstance(n.func, ast.Attribute):
                if n.func.attr in ("defer", "do_delay", "do_cancel", "on", "off", "speed"):
                    return False
                if isinstance(n.func.value, ast.Name) and n.func.value.id == "self" and n.func.attr in self.classes[cname].methods:
                    if not self.fn_is_pure(cname, n.func.attr, seen):
                        return False
            if isinstance(n, ast.Raise):
                return False
        return True

    def scan_asks(self, fn, env, via):
        for n in ast.walk(fn):
            self._ask_node(n, env, via)

    def scan_asks_expr(self, node, env):
        for n in ast.walk(node):
            self._ask_node(n, env, None)

    def _ask_node(self, n, env, via):
        if isinstance(n, ast.Call) and isinstance(n.func, ast.Attribute) and n.func.attr == "get" and isinstance(n.func.value, ast.Call):
            inner = n.func.value
            if isinstance(inner.func, ast.Attribute):
                a = self.actor_of(inner.func.value, env)
                if a is None and isinstance(inner.func.value, ast.Name):
                    # local alias inside the scanned function: actor = self.get_actor("X")
                    a = env.get("__scan_alias__", {}).get(inner.func.value.id)
                if a is None:
                    a = self._scan_local_alias(inner.func.value, via)
                if a is not None:
                    timeout = None
                    for k in n.keywords:
                        if k.arg == "timeout":
                            timeout = ast.literal_eval(k.value) if isinstance(k.value, ast.Constant) else "?"
                    rec = (self.ctrl, self.handler + ("/" + via if via else ""), a, inner.func.attr, timeout)
                    if rec not in self.asks:
                        self.asks.append(rec)

    def _scan_local_alias(self, node, via):
        if not isinstance(node, ast.Name) or via is None:
            return None
        cname = self.ctrl
        fn = self.classes[cname].methods.get(via)
        if fn is None:
            return None
        for st in ast.walk(fn):
            if isinstance(st, ast.Assign) and len(st.targets) == 1 and isinstance(st.targets[0], ast.Name) and st.targets[0].id == node.id:
                return self.actor_of(st.value, {})
        return None

    # -- expression statements (calls) ----------------------------------------------------
    def expr_stmt(self, node, env, depth):
        if not isinstance(node, ast.Call):
            if mentions(node, EFFECT_WORDS):
                return self.mk_opaque(node, "expression")
            return S.skip
        f = node.func
        ch = attr_chain(node)
        # logger.*
        if isinstance(f, ast.Attribute) and isinstance(f.value, ast.Name) and f.value.id in ("logger", "logging"):
            return S.skip
        if isinstance(f, ast.Attribute) and isinstance(f.value, ast.Name) and f.value.id == "time" and f.attr == "sleep":
            return f"(.emit {self.name_id('sleep')})"
        # self.__encoder.x(...)
        if isinstance(f, ast.Attribute) and isinstance(f.value, ast.Attribute) and f.value.attr == "__encoder":
            name = f.attr
            own = self.ctrl.lower() + "_state"
            if name == own and node.args:
                a0 = node.args[0]
                if isinstance(a0, ast.Constant) and isinstance(a0.value, str):
                    s = a0.value
                elif isinstance(a0, ast.JoinedStr):
                    s = "".join(v.value if isinstance(v, ast.Constant) else "*" for v in a0.values)
                else:
                    return self.mk_opaque(node, "state publish of a computed value")
                self.ctx["published"].setdefault(self.ctrl, set()).add(s)
                return self.mk_set(self.var("pub"), f"(.const {self.name_id(s)})")
            retain = any(k.arg == "retain" for k in node.keywords)
            return f"(.emit {self.name_id('publish:' + name + (':retain' if retain else ''))})"
        # device writes
        if isinstance(f, ast.Attribute) and f.attr in ("on", "off", "speed"):
            d = self.device_of(f.value, env)
            if d is not None:
                v = self.var("dev:" + d)
                if f.attr == "on":
                    val = "(.const 3)" if d == "variable" else "(.const 1)"
                elif f.attr == "off":
                    val = "(.const 0)"
                else:
                    if d == "swim":
                        val = "(.const 1)"  # speed ∈ 1..100 (dispatcher range): relay on
                    else:
                        val = self.expr(node.args[0], env)
                        if val == ".unknown":
                            return self.mk_opaque(node, "pump speed not modelled")
                return self.mk_set(v, val)
        # X.m.defer(...)  /  X.m(...)  on an actor proxy
        if isinstance(f, ast.Attribute) and f.attr == "defer" and isinstance(f.value, ast.Attribute):
            a = self.actor_of(f.value.value, env)
            m = f.value.attr
            if a is not None:
                return self.tell(a, m, node)
        if isinstance(f, ast.Attribute) and f.attr == "get" and isinstance(f.value, ast.Call) and isinstance(f.value.func, ast.Attribute):
            a = self.actor_of(f.value.func.value, env)
            if a is not None:
                timeout = None
                for k in node.keywords:
                    if k.arg == "timeout":
                        timeout = ast.literal_eval(k.value) if isinstance(k.value, ast.Constant) else "?"
                self.asks.append((self.ctrl, self.handler, a, f.value.func.attr, timeout))
                return f"(.emit {self.name_id('ask:' + a + '.' + f.value.func.attr)})"
        # self.do_delay / do_cancel
        if isinstance(f, ast.Attribute) and isinstance(f.value, ast.Name) and f.value.id == "self":
            if f.attr == "do_delay":
                if len(node.args) >= 2:
                    m = self.method_name(node.args[1])
                    if m is not None:
                        self.ctx["delays"].setdefault(self.ctrl, []).append((self.handler, m, ast.unparse(node.args[0]), self.eval_duration(node.args[0])))
                        return f"(.delay {self.msg(m)})"
                return self.mk_opaque(node, "do_delay target")
            if f.attr == "do_cancel":
                return ".cancel"
            # own method call: inline
            cname = env.get("__class__", self.ctrl)
            if f.attr in self.classes[cname].methods:
                return self.inline(cname, f.attr, node, env, depth)
            if f.attr in ("cover_stop", "cover_open", "cover_close") and self.ctrl == "Arduino":
                pass
        # super().do_cancel()
        if isinstance(f, ast.Attribute) and f.attr == "do_cancel" and isinstance(f.value, ast.Call) and isinstance(f.value.func, ast.Name) and f.value.func.id == "super":
            return ".cancel"
        # helper objects
        if isinstance(f, ast.Attribute) and isinstance(f.value, ast.Attribute) and isinstance(f.value.value, ast.Name) and f.value.value.id == "self":
            helper = f.value.attr
            hmap = INLINE_HELPERS.get(env.get("__class__", self.ctrl), {})
            if helper in hmap:
                return self.inline(hmap[helper], f.attr, node, env, depth)
            if helper in PURE_HELPERS:
                return S.skip
            if helper == "__arduino":
                return f"(.emit {self.name_id('arduino:' + f.attr)})"
        if mentions(node, EFFECT_WORDS) and not self.is_pure_expr(node, env):
            return self.mk_opaque(node, "call")
        if mentions(node, {"__devices", "get_actor", "_proxy"}):
            return self.mk_opaque(node, "call")
        return S.skip

    def eval_duration(self, node):
        """duration of a do_delay in half seconds (int), or 'setting:<attr>' for `self.__x.total_seconds()`, or None"""
        consts = self.ctx["class_consts"]

        def ev(n):
            if isinstance(n, ast.Constant) and isinstance(n.value, (int, float)):
                return n.value
            if isinstance(n, ast.Attribute) and isinstance(n.value, ast.Name):
                owner = self.ctrl if n.value.id == "self" else n.value.id
                v = consts.get((owner, n.attr))
                if v is None:
                    raise ValueError(ast.unparse(n))
                return v
            if isinstance(n, ast.BinOp):
                a, b = ev(n.left), ev(n.right)
                if isinstance(n.op, ast.Mult):
                    return a * b
                if isinstance(n.op, ast.Div):
                    return a / b
                if isinstance(n.op, ast.Add):
                    return a + b
                if isinstance(n.op, ast.Sub):
                    return a - b
            raise ValueError(ast.unparse(n))

        if isinstance(node, ast.Call) and isinstance(node.func, ast.Attribute) and node.func.attr == "total_seconds" and isinstance(node.func.value, ast.Attribute):
            return "setting:" + node.func.value.attr.lstrip("_")
        try:
            v = ev(node) * 2
            return int(v) if float(v).is_integer() else None
        except Exception:  # noqa: BLE001
            return None

    def method_name(self, node):
        if isinstance(node, ast.Constant) and isinstance(node.value, str):
            return node.value
        if isinstance(node, ast.Attribute) and node.attr == "__name__" and isinstance(node.value, ast.Attribute):
            return node.value.attr
        return None

    def tell(self, a, m, node):
        kind = "self" if a == self.ctrl else "tell"
        self.tells.append((self.ctrl, self.handler, a, m, kind))
        if a == self.ctrl:
            return f"(.selfTell {self.msg(m)})" if self.view == "timer" else S.skip
        trig = self.ctx["triggers"].get(a)
        extra = [self.mk_set(self.var(k["var"]), "(.const 1)") for k in KNOWLEDGE.get(self.ctrl, []) if k["target"] == a and m in k["tells"]]
        if trig is not None and m in trig and a in TRACKED_GHOSTS.get(self.ctrl, ()):
            # the effect marker keeps the told message visible to the composition semantics (Model/Compose.lean)
            return S.seq([f"(.emit {self.name_id('tell:' + a + '.' + m)})", self.mk_set(self.var("rq:" + a), f"(.const {self.name_id(m)})")] + extra)
        return f"(.emit {self.name_id('tell:' + a + '.' + m)})"

    def inline(self, cname, mname, call, env, depth):
        if depth > 6:
            return self.mk_opaque(call, "inline depth")
        fn = self.classes[cname].methods[mname]
        params = [a.arg for a in fn.args.args][1:]
        new = {"__class__": cname}
        for p, a in zip(params, call.args):
            if isinstance(a, ast.Constant) and isinstance(a.value, str):
                new[p] = ("str", a.value)
            elif isinstance(a, ast.Constant) and isinstance(a.value, int):
                new[p] = ("int", int(a.value))
            elif isinstance(a, ast.Constant) and a.value is None:
                new[p] = ("none",)
            else:
                act = self.actor_of(a, env)
                new[p] = ("actor", act) if act else ("unknown",)
        body = self.block(fn.body, new, depth + 1)
        # a `return` inside the callee ends the callee only
        return f"(.scope {body})" if ".ret" in body else body


# The inlined-callee wrapper above would arm a poll; use a dedicated neutral encoding instead: a callee that
# contains `return` is wrapped in `choose`-free form by replacing the trailing-return pattern.  To stay exact we
# do not support early returns in inlined callees with modelled effects after them (checked below).


# ----------------------------------------------------------------------------------------------
# T1: rows by execution

def probe_rows(actor, machine, leaves, log):
    """Execute the real machine for every (leaf, trigger, guard valuation)."""
    import transitions

    triggers = sorted(machine.events.keys())
    # guards per trigger
    guards = {}
    for t, ev in machine.events.items():
        g = []
        for src, trs in ev.transitions.items():
            for tr in trs:
                for c in tr.conditions:
                    name = c.func if isinstance(c.func, str) else getattr(c.func, "__name__", repr(c.func))
                    if name not in g:
                        g.append(name)
        guards[t] = g
    record = []

    def rec(name):
        def f(*a, **k):
            record.append((name, actor.state))
        f.__name__ = name
        return f

    # replace callbacks by recorders -----------------------------------------------------
    cb_names = set()
    for st_name in machine.get_nested_state_names():
        st = machine.get_state(st_name)
        for lst in (st.on_enter, st.on_exit):
            for i, c in enumerate(lst):
                n = c if isinstance(c, str) else getattr(c, "__name__", repr(c))
                cb_names.add(n)
                lst[i] = rec(n)
    for ev in machine.events.values():
        for src, trs in ev.transitions.items():
            for tr in trs:
                for lst in (tr.before, tr.after, tr.prepare):
                    for i, c in enumerate(lst):
                        n = c if isinstance(c, str) else getattr(c, "__name__", repr(c))
                        cb_names.add(n)
                        lst[i] = rec(n)
    for attr in ("before_state_change", "after_state_change", "prepare_event", "finalize_event"):
        lst = getattr(machine, attr)
        new = []
        for c in lst:
            n = c if isinstance(c, str) else getattr(c, "__name__", repr(c))
            n = n.split("__")[-1] if n.startswith("_") and "__" in n[1:] else n
            cb_names.add(n)
            new.append(rec(n))
        setattr(machine, attr, new)
    valuation = {}

    def guard(name):
        def f(*a, **k):
            return valuation[name]
        return f

    for t, gs in guards.items():
        for g in gs:
            setattr(actor, g, guard(g))
    rows = []
    total = []
    for leaf in leaves:
        for t in triggers:
            gs = guards[t]
            fired_all = True
            seen = {}
            for vals in itertools.product([False, True], repeat=len(gs)):
                valuation.clear()
                valuation.update(dict(zip(gs, vals)))
                machine.set_state(leaf)
                del record[:]
                try:
                    res = getattr(actor, t)()
                except Exception as e:  # noqa: BLE001
                    raise RuntimeError(f"probe {leaf}/{t}: {e!r}")
                dest = actor.state
                if not record and dest == leaf and not res:
                    fired_all = False
                    continue
                # split the callback sequence at the state change
                pre, post = [], []
                changed = False
                for (n, st_at) in record:
                    if st_at != leaf and not changed:
                        changed = True
                    (post if changed else pre).append(n)
                internal = (dest == leaf) and not any(n.startswith(("on_enter_", "on_exit_")) for n, _ in record)
                if dest == leaf and not internal:
                    # re-entry of the same leaf: exits are before, enters after
                    pre = [n for n, _ in record if not n.startswith("on_enter_")]
                    k = next((i for i, (n, _) in enumerate(record) if n.startswith("on_enter_")), len(record))
                    pre = [n for n, _ in record[:k]]
                    post = [n for n, _ in record[k:]]
                key = (dest, internal, tuple(pre), tuple(post))
                seen.setdefault(key, []).append(dict(valuation))
            for (dest, internal, pre, post), vs in seen.items():
                rows.append({"src": leaf, "trig": t, "dest": dest, "internal": internal, "pre": list(pre), "post": list(post), "when": vs})
            if fired_all and seen:
                total.append((leaf, t))
    return rows, total, triggers, guards, sorted(cb_names)


# ----------------------------------------------------------------------------------------------

def small_settings(classes):
    """setting attribute -> accepted integer values, from the REAL dispatcher table (closure inspection + probing)"""
    from controller.dispatcher import Dispatcher, to_bool, to_int

    class Sent:
        def __init__(self, n):
            self.n = n

    names = ["Filtration", "Tank", "Swim", "Light", "Heater", "Heating", "Disinfection", "Arduino"]
    sents = [Sent(n) for n in names]
    d = Dispatcher()
    d.register(*sents)
    mapping = d._Dispatcher__mapping
    out = {}
    for topic, (tgt, pred, meth, conv, once) in mapping.items():
        try:
            m = meth(None)
        except Exception:  # noqa: BLE001
            continue
        vals = None
        if conv is to_int:
            cells = [c.cell_contents for c in (pred.__closure__ or [])]
            nums = [c for c in cells if isinstance(c, (int, float))]
            if len(nums) == 2:
                lo, hi = min(nums), max(nums)
                if math.floor(hi) - math.ceil(lo) >= SMALL_RANGE:
                    continue
                cand = list(range(math.ceil(lo), math.floor(hi) + 1))
                # probe the real predicate
                ok = all(pred(str(v)) for v in cand) and not pred(str(lo - 1)) and not pred(str(hi + 1))
                if ok and len(cand) <= SMALL_RANGE:
                    vals = cand
        elif conv is to_bool:
            vals = [0, 1]
        if vals is None:
            continue
        # which attribute does the setter write?
        fn = classes[tgt.n].methods.get(m)
        if fn is None:
            continue
        for st in fn.body:
            if isinstance(st, ast.Assign) and isinstance(st.targets[0], ast.Attribute) and isinstance(st.value, ast.Name) and st.value.id == fn.args.args[1].arg:
                out.setdefault(tgt.n, {})[st.targets[0].attr] = vals
                break
    return out


def guard_states(classes, slave, guard, seen=None):
    """state names of the master that the slave's guard method asks for (is_<state>), following own-method calls"""
    seen = seen or set()
    if (slave, guard) in seen:
        return set()
    seen.add((slave, guard))
    fn = classes[slave].methods.get(guard)
    out = set()
    if fn is None:
        return out
    for n in ast.walk(fn):
        if isinstance(n, ast.Call) and isinstance(n.func, ast.Attribute):
            if n.func.attr.startswith("is_") and not (isinstance(n.func.value, ast.Name) and n.func.value.id == "self"):
                out.add(n.func.attr[3:])
            if isinstance(n.func.value, ast.Name) and n.func.value.id == "self" and n.func.attr in classes[slave].methods:
                out |= guard_states(classes, slave, n.func.attr, seen)
    return out


def config_values():
    import configparser

    from vlib.common import REPO

    c = configparser.ConfigParser()
    c.read(os.path.join(REPO, "config.ini"))
    out = {}
    for sec in ("heating", "wintering", "disinfection"):
        for k, v in c[sec].items():
            try:
                f = float(v)
                if (f * 2).is_integer():
                    out[f"{sec}_{k}"] = int(f * 2)
            except ValueError:
                pass
    return out


def class_consts():
    import controller.filtration as f
    import controller.swim as s
    import controller.tank as t
    import controller.heating as h
    import controller.disinfection as d
    import controller.arduino as ar
    import controller.light as li

    out = {}
    for cls in (f.Filtration, s.Swim, t.Tank, h.Heating, h.Heater, d.Disinfection, d.PWM, ar.Arduino, li.Light):
        for k, v in vars(cls).items():
            if k.isupper() and isinstance(v, (int, float)):
                out[(cls.__name__, k)] = v
    return out


def repeat_first_delay(repo):
    """the delay with which the `@do_repeat()` decorator of controller/actor.py arms the first poll (None = not a literal)"""
    tree = ast.parse(open(os.path.join(repo, "controller", "actor.py")).read())
    for fn in ast.walk(tree):
        if isinstance(fn, ast.FunctionDef) and fn.name == "do_repeat":
            calls = [n for n in ast.walk(fn) if isinstance(n, ast.Call) and isinstance(n.func, ast.Attribute) and n.func.attr == "do_delay"]
            if len(calls) == 1 and calls[0].args and isinstance(calls[0].args[0], ast.Constant) and isinstance(calls[0].args[0].value, (int, float)):
                return calls[0].args[0].value
    return None


def generate(repo=None):
    from sim.system import PoolSystem, bootstrap

    bootstrap()
    from vlib.common import REPO

    repo = repo or REPO
    classes = parse_classes(repo)
    system = PoolSystem()
    world = system.world
    ctx = {
        "names": Names(["halt", "<none>"]),
        "vars": {}, "msgs": {}, "tells": [], "asks": [], "published": {}, "delays": {},
        "leaves": {}, "states": {}, "triggers": {}, "settings": small_settings(classes), "class_consts": class_consts(),
        "repeat_first_delay": repeat_first_delay(repo),
        "proxy_attrs": {"Disinfection": {"__ph": "PWMph", "__cl": "PWMcl", "__sensors_writer": "DisinfectionWriter", "__sensors_reader": "DisinfectionReader"},
                        "Filtration": {"__temperature": "TemperatureReader"}, "Heating": {"__temperature": "TemperatureReader"},
                        "Swim": {"__temperature": "TemperatureReader"}, "Heater": {"__temperature": "TemperatureReader"}},
    }
    # validate the proxy attribute table on the live objects
    for c, amap in ctx["proxy_attrs"].items():
        obj = world.actor(c)
        for attr, tgt in amap.items():
            real = getattr(obj, f"_{c}{attr}")
            cls = real.actor_ref.actor_class.__name__
            assert tgt.startswith(cls), (c, attr, tgt, cls)
    probes = {}
    for c in CONTROLLERS:
        actor = world.actor(c)
        machine = getattr(actor, f"_{c}__machine")
        names = machine.get_nested_state_names()
        leaves = [n for n in names if not machine.get_state(n).states]
        ctx["leaves"][c] = leaves
        ctx["states"][c] = set(names)
        ctx["triggers"][c] = set(machine.events.keys())
        ctx["msgs"][c] = Names()
    ctx["triggers"]["PWMph"] = {"do_run", "do_cancel"}
    ctx["triggers"]["PWMcl"] = {"do_run", "do_cancel"}
    for c in CONTROLLERS:
        actor = world.actor(c)
        machine = getattr(actor, f"_{c}__machine")
        init_leaf = actor.state
        rows, total, triggers, guards, cbs = probe_rows(actor, machine, ctx["leaves"][c], None)
        probes[c] = {"rows": rows, "total": total, "triggers": triggers, "guards": guards, "cbs": cbs, "init": init_leaf}
    world.close()
    out = {}
    for c, view in [(c, v) for c in CONTROLLERS for v in ("safety", "timer")]:
        tr = Translator(c, classes, ctx, view)
        p = probes[c]
        for t in p["triggers"]:
            tr.msg(t)
        # callbacks
        cb_ids = {}
        cb_prog = []
        for n in p["cbs"]:
            cb_ids[n] = len(cb_prog)
            if n == "do_cancel":
                cb_prog.append((n, ".cancel"))
            elif n in ("update_state_time", "__update_state_time"):
                cb_prog.append((n, ".skip"))
            elif n in tr.cls.methods:
                cb_prog.append((n, tr.handler_stmt(n)))
            elif ("__" + n) in tr.cls.methods:
                cb_prog.append((n, tr.handler_stmt("__" + n)))
            else:
                cb_prog.append((n, f"(.opaque 0) /- unknown callback {n} -/"))
                tr.opaque.append((n, "unknown callback", n))
        # guards of the rows are evaluated inside the receiving handler: record the asks they make (T6)
        for t, gs in p["guards"].items():
            for g in gs:
                fn = tr.cls.methods.get(g)
                if fn is not None:
                    tr.handler = f"{t}[guard {g}]"
                    tr.scan_asks(fn, {}, g)
                    # guards calling other own methods
                    for n in ast.walk(fn):
                        if isinstance(n, ast.Call) and isinstance(n.func, ast.Attribute) and isinstance(n.func.value, ast.Name) and n.func.value.id == "self" and n.func.attr in tr.cls.methods:
                            tr.scan_asks(tr.cls.methods[n.func.attr], {}, n.func.attr)
        # methods = every public method that is not a callback
        methods = []
        for m, fn in tr.cls.methods.items():
            if m.startswith("_") or m.startswith(("on_enter_", "on_exit_")) or m in ("on_failure", "on_stop"):
                continue
            methods.append(m)
        progs = []
        for m in methods:
            tr.msg(m)
        for m in methods:
            progs.append((m, tr.handler_stmt(m)))
        if view == "safety":
            out[c] = {"probe": p, "cb_ids": cb_ids, "cb_prog": cb_prog, "methods": progs, "opaque": tr.opaque}
        else:
            out[c]["timer_cb_prog"] = cb_prog
            out[c]["timer_methods"] = progs
            out[c]["opaque"] = out[c]["opaque"] + [o for o in tr.opaque if o not in out[c]["opaque"]]
    # PWM: an actor without state machine (one pseudo leaf), two instances of the same class
    ctx["leaves"]["PWM"] = ["loop"]
    ctx["states"]["PWM"] = set()
    ctx["msgs"]["PWM"] = Names()
    probes["PWM"] = {"rows": [], "total": [], "triggers": [], "guards": {}, "cbs": [], "init": "loop"}
    for view in ("safety", "timer"):
        tr = Translator("PWM", classes, ctx, view)
        progs = [(m, tr.handler_stmt(m)) for m in ("do_run", "do_cancel")]
        for m, _ in progs:
            tr.msg(m)
        if view == "safety":
            out["PWM"] = {"probe": probes["PWM"], "cb_ids": {}, "cb_prog": [], "methods": progs, "opaque": tr.opaque}
        else:
            out["PWM"]["timer_cb_prog"] = []
            out["PWM"]["timer_methods"] = progs
    out["PWM"]["plain"] = ["do_cancel", "do_run"]
    out["PWM"]["delayed"] = ["do_run"]
    # alphabets: a method can arrive as a PLAIN message only if somebody sends it that way (dispatcher, another actor's
    # tell/ask, an unguarded self-tell, main()); it can arrive DELAYED only if some do_delay/do_repeat names it.
    disp = dispatcher_methods()
    for c in CONTROLLERS:
        plain = set(disp.get(c, ()))
        for (snd, h, rcv, m, kind) in ctx["tells"]:
            if rcv == c:
                plain.add(m)
        for (snd, h, rcv, m, to) in ctx["asks"]:
            if rcv == c and not m.startswith("set:"):
                plain.add(m)
        delayed = {t[1] for t in ctx["delays"].get(c, [])}
        for cb in out[c]["cb_prog"]:
            pass
        for m in classes[c].decorated:
            delayed.add(m.replace("on_enter_", "do_repeat_"))
        out[c]["plain"] = sorted(plain)
        out[c]["delayed"] = sorted(delayed)
    # who sends what to whom as a plain message (for the 'only the master starts the slave' side conditions)
    snd = set()
    for c in CONTROLLERS:
        for m in disp.get(c, ()):
            snd.add(("<dispatcher>", c, m))
    for (s_, h, rcv, m, kind) in ctx["tells"]:
        snd.add((s_, rcv, m))
    for (s_, h, rcv, m, to) in ctx["asks"]:
        if not m.startswith("set:"):
            snd.add((s_, rcv, m))
    ctx["senders"] = sorted(snd)
    for c in CONTROLLERS:
        hv = []
        leaves = ctx["leaves"][c]
        vars_ = ctx["vars"][c]
        for (vname, (slave, guard)) in HAVOC_GHOSTS.get(c, []):
            sts = guard_states(classes, slave, guard)
            ls = [i for i, l in enumerate(leaves) if l in sts]
            hv.append((vars_.id(vname), ls, ctx["names"].id("<none>"), sorted(sts)))
        for k in KNOWLEDGE.get(c, []):
            sts = guard_states(classes, *k["guard"])
            ls = [i for i, l in enumerate(leaves) if l in sts]
            hv.append((vars_.id(k["var"]), ls, 0, sorted(sts)))
        out[c]["havoc"] = hv
        out[c]["var_init"] = {k["var"]: k["init"] for k in KNOWLEDGE.get(c, [])}
    for k in ("tells", "asks"):
        seen, ded = set(), []
        for t in ctx[k]:
            if tuple(t) not in seen:
                seen.add(tuple(t))
                ded.append(t)
        ctx[k][:] = ded
    for c in list(ctx["delays"]):
        ctx["delays"][c] = sorted(set(ctx["delays"][c]), key=lambda t: (t[0], t[1], str(t[3])))
    return ctx, out


def dispatcher_methods():
    from controller.dispatcher import Dispatcher

    class Sent:
        def __init__(self, n):
            self.n = n

    names = ["Filtration", "Tank", "Swim", "Light", "Heater", "Heating", "Disinfection", "Arduino"]
    d = Dispatcher()
    d.register(*[Sent(n) for n in names])
    out = {}
    for topic, (tgt, pred, meth, conv, once) in d._Dispatcher__mapping.items():
        try:
            m = meth(None)
            if not isinstance(m, str):
                raise ValueError
            out.setdefault(tgt.n, set()).add(m)
        except Exception:  # noqa: BLE001
            # mode topics: the method is the payload itself, restricted by the whitelist in the predicate
            for const in pred.__code__.co_consts:
                if isinstance(const, tuple):
                    out.setdefault(tgt.n, set()).update(x for x in const if isinstance(x, str))
    return out


def common_literals(when):
    """guard literals that hold in every valuation of `when`"""
    if not when:
        return []
    out = []
    for g in sorted(when[0]):
        vals = {w[g] for w in when}
        if len(vals) == 1:
            out.append((g, vals.pop()))
    return out


def lean_str(s):
    return '"' + s.replace("\\", "\\\\").replace('"', '\\"') + '"'


def emit(ctx, out, path):
    lines = ["-- GENERATED by translate/actors.py from the repository's working tree. Do not edit.", "import Poupool.Model.Actor", "namespace Poupool.Gen", "open Poupool", ""]
    lines.append(f"def names : List String := {L_list([lean_str(s) for s in ctx['names'].list])}")
    lines.append("/-- (sender, receiver, message): every plain message some code sends (dispatcher table, tells, asks, self-tells) -/")
    lines.append("def senders : List (String × String × String) := " + L_list(["(%s, %s, %s)" % (lean_str(a), lean_str(b), lean_str(c_)) for (a, b, c_) in ctx.get("senders", [])]))
    lines.append("-- config.ini values, in half seconds\nnamespace Cfg")
    for k, v in sorted(config_values().items()):
        lines.append(f"abbrev {k} : Nat := {v}")
    lines.append("end Cfg")
    lines.append("namespace N")
    for i, n in enumerate(ctx["names"].list):
        if re.fullmatch(r"[A-Za-z_][A-Za-z0-9_]*", n):
            lines.append(f"abbrev {n}_ : Int := {i}")
    lines.append("abbrev none_ : Int := 1\nabbrev closing_star : Int := %d\nabbrev opening_star : Int := %d" % (ctx["names"].id("closing_*"), ctx["names"].id("opening_*")))
    lines.append("end N")
    side = {"names": ctx["names"].list, "actors": {}, "tells": ctx["tells"], "asks": ctx["asks"], "delays": ctx["delays"], "published": {k: sorted(v) for k, v in ctx["published"].items()}, "settings": ctx["settings"]}
    for c, o in out.items():
        p = o["probe"]
        leaves = ctx["leaves"][c]
        lid = {l: i for i, l in enumerate(leaves)}
        msgs = ctx["msgs"][c]
        vars_ = ctx["vars"][c]
        lc = c.lower() if c.isupper() else c[0].lower() + c[1:]
        lines.append(f"\n/-! ## {c} -/")
        lines.append(f"def {lc}Leaves : List String := {L_list([lean_str(s) for s in leaves])}")
        lines.append(f"def {lc}Msgs : List String := {L_list([lean_str(s) for s in msgs.list])}")
        lines.append(f"def {lc}Vars : List String := {L_list([lean_str(s) for s in vars_.list])}")
        lines.append(f"def {lc}CallbackNames : List String := {L_list([lean_str(n) for n, _ in o['cb_prog']])}")
        for view, cbp, mp in (("Safety", o["cb_prog"], o["methods"]), ("Timer", o["timer_cb_prog"], o["timer_methods"])):
            for n, prog in cbp:
                lines.append(f"/-- {c}.{n} ({view.lower()} view) -/\ndef {lc}{view}_cb_{o['cb_ids'][n]} : Stmt := {prog}")
            for m, prog in mp:
                lines.append(f"/-- {c}.{m} ({view.lower()} view) -/\ndef {lc}{view}_m_{msgs.id(m)} : Stmt := {prog}")
        gnames = sorted({g for gs in p["guards"].values() for g in gs})
        gid = {g: i for i, g in enumerate(gnames)}
        lines.append(f"def {lc}Guards : List String := {L_list([lean_str(g) for g in gnames])}")
        by_leaf = [[] for _ in leaves]
        for r in p["rows"]:
            by_leaf[lid[r["src"]]].append(
                ("{ src := %d, trig := %d, dest := %d, internal := %s, pre := %s, post := %s"
                 % (lid[r["src"]], msgs.id(r["trig"]), lid[r["dest"]], "true" if r["internal"] else "false",
                    L_list([str(o["cb_ids"][n]) for n in r["pre"]]), L_list([str(o["cb_ids"][n]) for n in r["post"]])))
                + ", req := %s }" % L_list(["(%d, %s)" % (gid[g], "true" if v else "false") for g, v in common_literals(r["when"])])
            )
        lines.append(f"def {lc}Rows : List (List Row) := [\n  " + ",\n  ".join("[" + ",\n   ".join(rs) + "]" for rs in by_leaf) + "]")
        init_vars = []
        for v in vars_.list:
            if v == "pub":
                init_vars.append(L_int(ctx["names"].id("<none>")))
            else:
                init_vars.append(L_int(o.get("var_init", {}).get(v, 0)))
        hv_s = L_list(["(%d, %s, %s)" % (v, L_list([str(x) for x in ls]), L_int(x0)) for (v, ls, x0, _) in o.get("havoc", [])])
        po = []
        for m in msgs.list:
            if m.startswith("do_repeat_"):
                ph = m[len("do_repeat_"):]
                po.append("(%d, %s)" % (msgs.id(m), L_list([str(i) for i, l in enumerate(leaves) if l == ph or l.startswith(ph + "_")])))
        po_s = L_list(po)
        for view in ("Safety", "Timer"):
            nv = len(vars_.list) if view == "Safety" else 0
            iv = init_vars if view == "Safety" else []
            mp = o["methods"] if view == "Safety" else o["timer_methods"]
            lines.append(
                f"def {lc}{view}Desc : ActorDesc := {{\n  nLeaves := {len(leaves)}, nVars := {nv}, nMsgs := {len(msgs.list)},\n"
                f"  initLeaf := {lid[p['init']]}, initVars := {L_list(iv)},\n  rows := {lc}Rows,\n"
                f"  total := {L_list(['(%d, %d)' % (lid[l], msgs.id(t)) for l, t in p['total']])},\n"
                f"  callbacks := {L_list([f'{lc}{view}_cb_{i}' for i in range(len(o['cb_prog']))])},\n"
                f"  methods := {L_list(['(%d, %s%s_m_%d)' % (msgs.id(m), lc, view, msgs.id(m)) for m, _ in mp])},\n"
                f"  triggers := {L_list([str(msgs.id(t)) for t in p['triggers']])},\n"
                f"  plainMsgs := {L_list([str(msgs.id(t)) for t in o['plain']])},\n"
                f"  delayedMsgs := {L_list([str(msgs.id(t)) for t in o['delayed']])},\n"
                f"  pollOwner := {po_s},\n"
                f"  havoc := {hv_s if view == 'Safety' else '[]'} }}"
            )
        dl = []
        for (h, m, srcd, val) in ctx["delays"].get(c, []):
            if isinstance(val, int):
                dv = f"(.halfSeconds {val})"
            elif isinstance(val, str):
                dv = f"(.setting {lean_str(val[8:])})"
            else:
                dv = f"(.unknown {lean_str(srcd)})"
            dl.append(f"({lean_str(h)}, {lean_str(m)}, {dv})")
        lines.append(f"def {lc}Delays : List (String × String × Dur) := {L_list(dl)}")
        # (phase the arming handler ends in, armed message) -> the delays of every do_delay site that can arm it there
        dur_at = {}
        for (h, m, srcd, val) in ctx["delays"].get(c, []):
            if isinstance(val, int):
                dv = f"(.halfSeconds {val})"
            elif isinstance(val, str):
                dv = f"(.setting {lean_str(val[8:])})"
            else:
                dv = f"(.unknown {lean_str(srcd)})"
            ph = None
            for pre in ("on_enter_", "do_repeat_"):
                if h.startswith(pre):
                    ph = h[len(pre):]
            ls = [i for i, l in enumerate(leaves) if ph is not None and (l == ph or l.startswith(ph + "_"))]
            if not ls:
                ls = list(range(len(leaves)))
            for i in ls:
                lst = dur_at.setdefault((i, msgs.id(m)), [])
                if dv not in lst:
                    lst.append(dv)
        lines.append(f"def {lc}DurAt : List (Nat × Nat × List Dur) := " + L_list(["(%d, %d, %s)" % (i, m, L_list(v)) for (i, m), v in sorted(dur_at.items())]))
        # named indices (a renamed/removed state, message or device makes the property files fail to build)
        def ident(x):
            return re.sub(r"[^A-Za-z0-9_]", "_", x)
        lines.append(f"namespace {c}")
        for i, l in enumerate(leaves):
            lines.append(f"abbrev leaf_{ident(l)} : Nat := {i}")
        for i, m in enumerate(msgs.list):
            lines.append(f"abbrev m_{ident(m)} : Nat := {i}")
        for i, v in enumerate(vars_.list):
            lines.append(f"abbrev v_{ident(v)} : Nat := {i}")
        for i, g in enumerate(gnames):
            lines.append(f"abbrev g_{ident(g)} : Nat := {i}")
        for n, i in o["cb_ids"].items():
            lines.append(f"abbrev cb_{ident(n)} : Nat := {i}")
        lines.append(f"end {c}")
        side["actors"][c] = {"leaves": leaves, "msgs": msgs.list, "vars": vars_.list, "rows": p["rows"], "total": p["total"], "triggers": p["triggers"],
                             "guards": p["guards"], "callbacks": [n for n, _ in o["cb_prog"]], "methods": [m for m, _ in o["methods"]], "opaque": o["opaque"], "init": p["init"], "plain": o["plain"], "delayed": o["delayed"], "havoc": o.get("havoc", [])}
    lines.append("\nend Poupool.Gen\n")
    text = "\n".join(lines)
    os.makedirs(os.path.dirname(path), exist_ok=True)
    old = open(path).read() if os.path.exists(path) else None
    if old != text:
        with open(path, "w") as fh:
            fh.write(text)
    with open(os.path.join(os.path.dirname(path), "actors.json"), "w") as fh:
        json.dump(side, fh, indent=1, default=list)
    return side


if __name__ == "__main__":
    ctx, out = generate()
    side = emit(ctx, out, os.path.join(VERIF, "lean", "Poupool", "Generated", "Actors.lean"))
    for c, a in side["actors"].items():
        print(c, "leaves", len(a["leaves"]), "rows", len(a["rows"]), "msgs", len(a["msgs"]), "vars", a["vars"], "opaque", a["opaque"])
