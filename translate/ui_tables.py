"""T5: the shipped openHAB configuration and the state strings the controllers publish -> Generated/Ui.lean.

  state.map                     -> stateMapKeys
  controller/*.py (AST)         -> publishedStates: every `self.__encoder.<ctrl>_state(<literal | f-string>)`; the f-strings
                                   `closing_{position // 10 * 10}` are expanded over position 0..100 (range of the cover
                                   position, C19)
  things/poupool.things         -> channel -> commandTopic, transformationPatternOut, formatBeforePublish, on/off
  items/poupool.items           -> item -> (type, channel)
  sitemaps/poupool.sitemap      -> every widget that can send a command and EVERY payload string it can send
                                   (Setpoint/Slider: the complete min..max step grid, in each decimal spelling openHAB's
                                   BigDecimal arithmetic can produce; Selection/Switch mappings: the keys; Switch: ON/OFF)
For each payload the translator also records Python's own `lower()` and `float()` (exact rational) -- the abstract
functions of the dispatcher model supplied as data; checks/c15_ui.py validates them against the real dispatcher.
Anything the small parsers do not understand raises TranslatorError."""
from __future__ import annotations

import ast
import glob
import os
import re
import sys
from decimal import Decimal

VERIF = os.path.dirname(os.path.dirname(os.path.abspath(__file__)))
if VERIF not in sys.path:
    sys.path.insert(0, VERIF)

from translate.dispatch_table import TranslatorError, lean_list, lean_str, write_if_changed  # noqa: E402
from vlib.common import LEAN_DIR, REPO  # noqa: E402

OUT = os.path.join(LEAN_DIR, "Poupool", "Generated", "Ui.lean")
CONF = os.path.join(REPO, "raspberrypi", "openhab", "configurations")
POSITIONS = range(0, 101)


def parse_state_map(path=None):
    path = path or os.path.join(CONF, "transform", "state.map")
    keys = []
    for ln in open(path, encoding="utf-8").read().split("\n"):
        if not ln.strip() or ln.lstrip().startswith(("#", "!")):
            continue
        if "=" not in ln:
            raise TranslatorError(f"state.map: line without '=': {ln!r}")
        k = ln.split("=", 1)[0]
        keys.append(k.strip() if k.strip() else k)
    return keys


def published_states():
    """[(controller, state string, file:line)] from `<anything>.<ctrl>_state(arg)` calls in controller/*.py"""
    res = []
    for path in sorted(glob.glob(os.path.join(REPO, "controller", "*.py"))):
        tree = ast.parse(open(path).read())
        for node in ast.walk(tree):
            if not (isinstance(node, ast.Call) and isinstance(node.func, ast.Attribute) and node.func.attr.endswith("_state")):
                continue
            recv = node.func.value
            if not (isinstance(recv, ast.Attribute) and recv.attr.endswith("encoder")):
                continue
            ctrl = node.func.attr[: -len("_state")]
            where = f"{os.path.basename(path)}:{node.lineno}"
            if len(node.args) != 1:
                raise TranslatorError(f"{where}: state publish with {len(node.args)} positional arguments")
            a = node.args[0]
            if isinstance(a, ast.Constant) and isinstance(a.value, str):
                res.append((ctrl, a.value, where))
            elif isinstance(a, ast.JoinedStr):
                names = {n.id for n in ast.walk(a) if isinstance(n, ast.Name)}
                if names != {"position"}:
                    raise TranslatorError(f"{where}: f-string state over {names}, only `position` is understood")
                code = compile(ast.Expression(a), where, "eval")
                seen = []
                for p in POSITIONS:
                    s = eval(code, {"__builtins__": {}}, {"position": p})  # noqa: S307 - the expression is arithmetic on `position`
                    if s not in seen:
                        seen.append(s)
                res += [(ctrl, s, where) for s in seen]
            else:
                raise TranslatorError(f"{where}: state publish with a computed argument: {ast.unparse(a)}")
    if not res:
        raise TranslatorError("no state publish found")
    return res


def parse_things(path=None):
    path = path or os.path.join(CONF, "things", "poupool.things")
    src = open(path, encoding="utf-8").read()
    chans = {}
    for m in re.finditer(r"Type\s+(\w+)\s*:\s*(\w+)\s*\[(.*?)\]", src, flags=re.S):
        typ, cid, body = m.groups()
        params = dict(re.findall(r'(\w+)\s*=\s*"([^"]*)"', body))
        rest = re.sub(r'(\w+)\s*=\s*"([^"]*)"', "", body).replace(",", "").strip()
        if rest:
            raise TranslatorError(f"things: channel {cid}: cannot parse {rest!r}")
        if cid in chans:
            raise TranslatorError(f"things: duplicate channel {cid}")
        chans[cid] = dict(params, type=typ)
    if len(chans) != len(re.findall(r"^\s*Type\s", src, flags=re.M)):
        raise TranslatorError("things: some `Type` lines were not parsed")
    return chans


def parse_items(path=None):
    items = {}
    for path in sorted(glob.glob(os.path.join(CONF, "items", "*.items"))):
        for ln in open(path, encoding="utf-8").read().split("\n"):
            ln = ln.strip()
            if not ln or ln.startswith("//") or ln.startswith("Group"):
                continue
            m = re.match(r"^(\w+)\s+(\w+)\b(.*)$", ln)
            if not m:
                raise TranslatorError(f"items: cannot parse {ln!r}")
            typ, name, rest = m.groups()
            ch = re.search(r'channel\s*=\s*"([^"]*)"', rest)
            items[name] = {"type": typ, "channel": ch.group(1).split(":")[-1] if ch else None}
    return items


WIDGETS_SENDING = ("Switch", "Selection", "Setpoint", "Slider", "Colorpicker", "Input", "Buttongrid", "Button")
WIDGETS_PASSIVE = ("Text", "Chart", "Frame", "Group", "Image", "Video", "Webview", "Mapview", "Default", "sitemap")


def parse_sitemap(path=None):
    path = path or os.path.join(CONF, "sitemaps", "poupool.sitemap")
    widgets = []
    for no, ln in enumerate(open(path, encoding="utf-8").read().split("\n"), 1):
        s = ln.strip()
        if not s or s in ("{", "}") or s.startswith("//"):
            continue
        kind = s.split()[0]
        if kind in WIDGETS_PASSIVE:
            if kind == "Default" and "item=" in s:
                raise TranslatorError(f"sitemap:{no}: Default widget (type-dependent) not understood")
            continue
        if kind not in WIDGETS_SENDING:
            raise TranslatorError(f"sitemap:{no}: unknown widget {kind}")
        if kind not in ("Switch", "Selection", "Setpoint", "Slider"):
            raise TranslatorError(f"sitemap:{no}: widget {kind} not understood")
        item = re.search(r"\bitem=(\w+)", s)
        if not item:
            raise TranslatorError(f"sitemap:{no}: widget without item")
        w = {"kind": kind, "item": item.group(1), "line": no}
        mp = re.search(r"mappings=\[(.*?)\]", s)
        if mp:
            keys = []
            body = mp.group(1)
            for part in re.findall(r'\s*("[^"]*"|[^=,"\s][^=,"]*)\s*=\s*("[^"]*"|[^,"\s]+)\s*(?:,|$)', body):
                keys.append(part[0].strip().strip('"'))
            if len(keys) != body.count("=") or not keys:
                raise TranslatorError(f"sitemap:{no}: cannot parse mappings {body!r}")
            w["mappings"] = keys
        for k in ("minValue", "maxValue", "step"):
            m = re.search(rf"\b{k}=(-?[0-9.]+)", s)
            if m:
                w[k] = Decimal(m.group(1))
        widgets.append(w)
    return widgets


def js_transform(name, value_str):
    """the two shipped transforms: (function(i) { return (i OP N)|0; })(input)"""
    path = os.path.join(CONF, "transform", name)
    src = re.sub(r"\s+", "", open(path).read())
    m = re.fullmatch(r"\(function\(i\)\{return\(i([*/])(\d+)\)\|0;\}\)\(input\)", src)
    if not m:
        raise TranslatorError(f"{name}: JS transform not understood")
    op, n = m.group(1), int(m.group(2))
    x = float(value_str)  # JS: string * number -> Number
    y = x * n if op == "*" else x / n
    if y != y or abs(y) >= 2**31:
        raise TranslatorError(f"{name}: |0 on {y} (int32 wrap) not modelled")
    return str(int(y))  # |0 truncates toward zero


def spellings(d: Decimal):
    """decimal spellings openHAB can produce for the same grid value (BigDecimal keeps the scale of the step)"""
    out = [format(d, "f")]
    n = d.normalize()
    plain = format(n, "f")
    if plain not in out:
        out.append(plain)
    if n == n.to_integral_value():
        for s in (str(int(n)), f"{int(n)}.0"):
            if s not in out:
                out.append(s)
    return out


def widget_payloads(w, item, chan):
    """-> list of payload strings the widget can publish on the channel's commandTopic"""
    vals = []
    if "mappings" in w:
        vals = list(w["mappings"])
        numeric = item["type"] == "Number"
        if numeric:
            vals = [s for k in vals for s in spellings(Decimal(k))]
    elif w["kind"] == "Switch":
        if item["type"] != "Switch":
            raise TranslatorError(f"sitemap:{w['line']}: Switch without mappings on a {item['type']} item")
        vals = [chan.get("on", "ON"), chan.get("off", "OFF")]
    elif w["kind"] in ("Setpoint", "Slider"):
        lo = w.get("minValue", Decimal(0))
        hi = w.get("maxValue", Decimal(100))
        st = w.get("step", Decimal(1))
        if st <= 0 or hi < lo:
            raise TranslatorError(f"sitemap:{w['line']}: bad grid {lo}..{hi} step {st}")
        v = lo
        while v <= hi:
            vals += spellings(v)
            v += st
        if (hi - lo) % st != 0:
            vals += spellings(hi)  # the UI clamps to maxValue
    if "formatBeforePublish" in chan:
        raise TranslatorError("formatBeforePublish is not modelled")
    if "transformationPatternOut" in chan:
        t = chan["transformationPatternOut"]
        if not t.startswith("JS:"):
            raise TranslatorError(f"transformation {t} not understood")
        vals = [js_transform(t[3:], v) for v in vals]
    out = []
    for v in vals:
        if v not in out:
            out.append(v)
    return out


def extract():
    chans = parse_things()
    items = parse_items()
    widgets = parse_sitemap()
    cmds = {}  # topic -> list of dict(item, payload)
    used = []
    for w in widgets:
        it = items.get(w["item"])
        if it is None:
            raise TranslatorError(f"sitemap:{w['line']}: unknown item {w['item']}")
        if it["channel"] is None:
            continue
        ch = chans.get(it["channel"])
        if ch is None:
            raise TranslatorError(f"item {w['item']}: unknown channel {it['channel']}")
        topic = ch.get("commandTopic")
        if topic is None:
            raise TranslatorError(f"sitemap:{w['line']}: widget {w['kind']} on {w['item']} whose channel has no commandTopic")
        for p in widget_payloads(w, it, ch):
            lst = cmds.setdefault(topic, [])
            if not any(c["payload"] == p for c in lst):
                lst.append({"item": w["item"], "payload": p, "line": w["line"]})
        used.append(w["item"])
    for lst in cmds.values():
        for c in lst:
            p = c["payload"]
            c["lower"] = p.lower()
            try:
                f = float(p)
                c["num"] = f.as_integer_ratio() if f == f and abs(f) != float("inf") else None
                if c["num"] is None:
                    raise TranslatorError(f"UI payload {p!r} is not finite")
            except ValueError:
                c["num"] = None
    return {
        "stateMapKeys": parse_state_map(),
        "publishedStates": published_states(),
        "commandTopics": sorted({c["commandTopic"] for c in chans.values() if "commandTopic" in c}),
        "uiCommands": cmds,
        "widgets": len(widgets),
    }


def render(t):
    L = [
        "-- GENERATED by translate/ui_tables.py from raspberrypi/openhab/configurations and controller/*.py. Do not edit.",
        "import Poupool.Model.Dispatch",
        "namespace Poupool.Generated.Ui",
        "open Poupool.Dispatch",
        "",
        "/-- one command the shipped UI can send: payload, Python's payload.lower(), Python's float(payload) as n/d -/",
        "structure UiCmd where",
        "  item : String",
        "  payload : String",
        "  lower : String",
        "  num : Option (Int × Nat)",
        "",
        f"def stateMapKeys : List String := {lean_list([lean_str(k) for k in t['stateMapKeys']])}",
        "",
        "/-- (controller, state string) every `<ctrl>_state(..)` publish site can emit -/",
        "def publishedStates : List (String × String) := [",
    ]
    seen = []
    for c, s, _ in t["publishedStates"]:
        if (c, s) not in seen:
            seen.append((c, s))
    L.append(",\n".join(f"  ({lean_str(c)}, {lean_str(s)})" for c, s in seen))
    L.append("]")
    L.append("")
    L.append(f"def commandTopics : List String := {lean_list([lean_str(k) for k in t['commandTopics']])}")
    L.append("")
    L.append("def uiCommands : List (String × List UiCmd) := [")
    rows = []
    for topic, lst in t["uiCommands"].items():
        cs = []
        for c in lst:
            num = "none" if c["num"] is None else f"some (({c['num'][0]}), {c['num'][1]})"
            cs.append(f"    ⟨{lean_str(c['item'])}, {lean_str(c['payload'])}, {lean_str(c['lower'])}, {num}⟩")
        rows.append(f"  ({lean_str(topic)}, [\n" + ",\n".join(cs) + "])")
    L.append(",\n".join(rows))
    L.append("]")
    L.append("")
    L.append("end Poupool.Generated.Ui")
    return "\n".join(L) + "\n"


def regenerate():
    t = extract()
    changed = write_if_changed(OUT, render(t))
    return t, changed


if __name__ == "__main__":
    t, ch = regenerate()
    print(f"{len(t['stateMapKeys'])} map keys, {len({(c, s) for c, s, _ in t['publishedStates']})} published states, "
          f"{len(t['commandTopics'])} command topics, {sum(len(v) for v in t['uiCommands'].values())} ui commands on "
          f"{len(t['uiCommands'])} topics, changed={ch}")
    for topic, lst in t["uiCommands"].items():
        print(" ", topic, [c["payload"] for c in lst][:8], "..." if len(lst) > 8 else "")
