#!/bin/bash
# usage: tools/try_in_scratch.sh <patch.diff> <Cxx> [Cyy ...]   -- like try_mutation.sh, but the checks run from a scratch COPY of
# /verif's working tree (so that lean/Poupool/Generated and the lake cache of /verif itself are not disturbed and several
# experiments can run side by side).  Prints the VIOLATION / summary lines; removes both scratch copies.
patch="$(realpath "$1")"; shift
scr=$(mktemp -d /tmp/scrmut.XXXXXX); vs=$(mktemp -d /tmp/scrverif.XXXXXX)
git -C /repo archive HEAD | tar -x -C "$scr"
if ! (cd "$scr" && git init -q . && git apply "$patch"); then echo "PATCH DOES NOT APPLY"; rm -rf "$scr" "$vs"; exit 3; fi
rsync -a --exclude .git --exclude evidence --exclude replays /verif/ "$vs"/
mkdir -p "$vs/evidence" "$vs/replays"
cd "$vs"
for pid in "$@"; do
  POUPOOL_REPO="$scr" VERIF_SEED=${VERIF_SEED:-1} ./check "$pid" --tier ${TIER:-quick} > "$vs/out_$pid.txt" 2>&1
  grep -E "VIOLATION|KNOWN-FINDING|^\[C" "$vs/out_$pid.txt" | sed "s|^|$pid: |"
  if [ -n "$KEEP" ]; then cp "$vs/.cache/evidence_alt/$pid.json" "$KEEP/$pid.evidence.json" 2>/dev/null; cp "$vs/out_$pid.txt" "$KEEP/" ; cp -r "$vs/replays" "$KEEP/" 2>/dev/null; fi
done
rm -rf "$scr" "$vs"
