#!/venv/bin/python
"""Directed corpus: enter every time-limited phase, deliver every settings topic (and swim commands) in the middle of it,
run beyond its end.  A message that re-arms or cancels the phase's timeout makes the PhaseTimes monitor report.
Writes corpus/tp_<phase>_<variant>.json after checking on the real code that the recipe reaches the phase."""
import json
import os
import sys

VERIF = os.path.dirname(os.path.dirname(os.path.abspath(__file__)))
sys.path.insert(0, VERIF)
from sim.system import bootstrap  # noqa: E402

bootstrap()
from sim import scenario  # noqa: E402

OPTS = {"tank_raw": 1000.0, "cover_rate": 25.0, "ph": 7.6, "orp": 550.0, "start": "2024-06-03T10:00:00"}
COLD = {"tank_raw": 1000.0, "cover_rate": 25.0, "ph": 7.6, "orp": 550.0, "start": "2024-01-10T10:00:00"}
WASH = {"tank_raw": 1500.0, "cover_rate": 25.0, "ph": 7.6, "orp": 550.0, "start": "2024-06-03T10:00:00"}
HEAT = [["temp", "pool", 20.0], ["mqtt", "/settings/filtration/duration", "86400"], ["mqtt", "/settings/mode", "eco"], ["run", 1400]]
RECIPES = {
    # name: (opts, prefix actions, (actor, phase expected at the burst), run after)
    "standby_boost": (OPTS, [["mqtt", "/settings/mode", "eco"], ["run", 20], ["mqtt", "/settings/mode", "standby"], ["run", 60]], ("Filtration", "standby_boost"), 700),
    "overflow_boost": (OPTS, [["mqtt", "/settings/mode", "eco"], ["run", 20], ["mqtt", "/settings/mode", "overflow"], ["run", 60]], ("Filtration", "overflow_boost"), 700),
    "wash_backwash": (WASH, [["temp", "pool", 28.0], ["tank", 80], ["mqtt", "/settings/mode", "eco"], ["run", 20], ["mqtt", "/settings/mode", "wash"], ["run", 40]], ("Filtration", "wash_backwash"), 700),
    "wash_rinse": (WASH, [["temp", "pool", 28.0], ["tank", 80], ["mqtt", "/settings/mode", "eco"], ["run", 20], ["mqtt", "/settings/mode", "wash"], ["run", 150]], ("Filtration", "wash_rinse"), 700),
    "heating_delay_none": (OPTS, HEAT + [["temp", "pool", 31.0], ["run", 25]], ("Filtration", "heating_delay_none"), 500),
    "heating_delay_standby": (OPTS, HEAT + [["mqtt", "/settings/mode", "standby"], ["run", 8]], ("Filtration", "heating_delay_standby"), 500),
    "heating_delay_overflow": (OPTS, HEAT + [["mqtt", "/settings/mode", "overflow"], ["run", 8]], ("Filtration", "heating_delay_overflow"), 500),
    "recovering": (OPTS, HEAT + [["temp", "pool", 31.0], ["run", 100]], ("Heating", "recovering"), 700),
    "disinfection_waiting": (OPTS, [["mqtt", "/settings/mode", "eco"], ["run", 300]], ("Disinfection", "waiting"), 1500),
    "disinfection_treating": (OPTS, [["mqtt", "/settings/mode", "eco"], ["run", 1260]], ("Disinfection", "running_treating"), 400),
    "wintering_stir": (COLD, [["temp", "air", -5.0], ["temp", "ncc", -5.0], ["mqtt", "/settings/mode", "wintering"], ["run", 11400]], ("Filtration", "wintering_stir"), 2500),
    "swim_wintering_stir": (COLD, [["temp", "air", -5.0], ["temp", "ncc", -5.0], ["mqtt", "/settings/mode", "wintering"], ["run", 10830]], ("Swim", "wintering_stir"), 400),
}


def burst(variant):
    acts = []
    for t, vals in scenario.SETTINGS.items():
        if t == "/settings/tank/force_empty":
            continue
        acts.append(["mqtt", t, vals[0] if variant == 0 else vals[-1]])
    acts.append(["mqtt", "/settings/swim/mode", "halt"])
    return acts


STABLE = {
    "halt": (OPTS, [["run", 5]], ("Filtration", "halt")),
    "eco_normal": (OPTS, [["temp", "pool", 28.0], ["mqtt", "/settings/filtration/duration", "86400"], ["mqtt", "/settings/mode", "eco"], ["run", 30]], ("Filtration", "eco_normal")),
    "eco_waiting": (OPTS, [["temp", "pool", 28.0], ["mqtt", "/settings/filtration/duration", "3600"], ["mqtt", "/settings/filtration/period", "3"], ["mqtt", "/settings/mode", "eco"], ["run", 2000]], ("Filtration", "eco_waiting")),
    "heating_running": (OPTS, HEAT, ("Filtration", "heating_running")),
    "standby_normal": (OPTS, [["temp", "pool", 28.0], ["mqtt", "/settings/mode", "eco"], ["run", 20], ["mqtt", "/settings/mode", "standby"], ["run", 400]], ("Filtration", "standby_normal")),
    "overflow_normal": (OPTS, [["temp", "pool", 28.0], ["mqtt", "/settings/mode", "eco"], ["run", 20], ["mqtt", "/settings/mode", "overflow"], ["run", 400]], ("Filtration", "overflow_normal")),
    "comfort": (OPTS, [["temp", "pool", 28.0], ["mqtt", "/settings/mode", "eco"], ["run", 20], ["mqtt", "/settings/mode", "standby"], ["run", 400], ["mqtt", "/settings/mode", "comfort"], ["run", 30]], ("Filtration", "comfort")),
    "sweep": (OPTS, [["temp", "pool", 28.0], ["mqtt", "/settings/mode", "eco"], ["run", 20], ["mqtt", "/settings/mode", "standby"], ["run", 400], ["mqtt", "/settings/mode", "sweep"], ["run", 30]], ("Filtration", "sweep")),
    "wintering_waiting": (COLD, [["temp", "air", -5.0], ["temp", "ncc", -5.0], ["mqtt", "/settings/mode", "wintering"], ["run", 600]], ("Filtration", "wintering_waiting")),
    "swim_continuous": (OPTS, [["temp", "pool", 28.0], ["mqtt", "/settings/mode", "eco"], ["run", 20], ["mqtt", "/settings/mode", "overflow"], ["run", 400], ["mqtt", "/settings/swim/mode", "continuous"], ["run", 10]], ("Swim", "continuous")),
    "swim_timed": (OPTS, [["temp", "pool", 28.0], ["mqtt", "/settings/mode", "eco"], ["run", 20], ["mqtt", "/settings/mode", "standby"], ["run", 400], ["mqtt", "/settings/swim/timer", "5"], ["mqtt", "/settings/swim/mode", "timed"], ["run", 10]], ("Swim", "timed")),
    "tank_low": (OPTS, [["temp", "pool", 28.0], ["tank", 50], ["mqtt", "/settings/mode", "eco"], ["run", 60], ["tank", 22], ["run", 30]], ("Tank", "low")),
}
WILD = ["-1", "0", "1000000000", "nan", "", "abc", "101", "3.5", "4", "61", "-0.5", "ON", "inf"]
AFTER = [["run", 1500], ["mqtt", "/settings/mode", "eco"], ["run", 1500], ["mqtt", "/settings/mode", "halt"], ["run", 12]]


def wild_burst(k):
    """every settings topic with the SAME out-of-the-ordinary payload (one scenario per payload: a later valid value would
    overwrite an accepted bad one)"""
    acts = []
    for t in scenario.SETTINGS:
        if t == "/settings/tank/force_empty":
            continue
        acts.append(["mqtt", t, WILD[k % len(WILD)]])
    return acts


def stable():
    n = 0
    for name, (opts, prefix, (actor, phase)) in STABLE.items():
        r = scenario.run_scenario({"opts": opts, "actions": prefix}, [])
        got = r.sys.state(actor)
        if got != phase:
            print(f"recipe {name}: expected {actor}.{phase}, got {got} (states {r.sys.states()})")
            continue
        for v in (0, 1):
            json.dump({"opts": opts, "actions": prefix + burst(v)[:-1] + AFTER}, open(os.path.join(VERIF, "corpus", f"ps_{name}_{v}.json"), "w"))
            n += 1
        for k in range(len(WILD)) if name in ("halt", "eco_normal", "standby_normal", "overflow_normal", "comfort", "wintering_waiting", "heating_running") else (0, 5):
            json.dump({"opts": opts, "actions": prefix + wild_burst(k) + AFTER}, open(os.path.join(VERIF, "corpus", f"ps_{name}_wild{k}.json"), "w"))
            n += 1
    print("stable-phase scenarios written", n)


EARLY = {
    # phases whose ENTRY does several things one after the other (valve sequencing, sleeps, asks): (opts, actions up to and
    # including the command that leads there, (actor, phase))
    "wash_backwash": (WASH, [["temp", "pool", 28.0], ["tank", 80], ["mqtt", "/settings/mode", "eco"], ["run", 20], ["mqtt", "/settings/mode", "wash"]], ("Filtration", "wash_backwash")),
    "wash_backwash_auto": (WASH, [["temp", "pool", 28.0], ["tank", 80], ["mqtt", "/status/filtration/backwash/last", "Mon Jan  1 10:00:00 2024"], ["mqtt", "/settings/mode", "eco"]], ("Filtration", "wash_backwash")),
    "wash_rinse": (WASH, [["temp", "pool", 28.0], ["tank", 80], ["mqtt", "/settings/mode", "eco"], ["run", 20], ["mqtt", "/settings/mode", "wash"], ["run", 100]], ("Filtration", "wash_rinse")),
    "opening_standby": (OPTS, [["mqtt", "/settings/mode", "eco"], ["run", 20], ["mqtt", "/settings/mode", "standby"]], ("Filtration", "opening_standby")),
    "closing": (OPTS, [["mqtt", "/settings/mode", "eco"], ["run", 20], ["mqtt", "/settings/mode", "standby"], ["run", 400], ["mqtt", "/settings/mode", "eco"]], ("Filtration", "closing")),
    "standby_boost": (OPTS, [["mqtt", "/settings/mode", "eco"], ["run", 20], ["mqtt", "/settings/mode", "standby"], ["run", 10]], ("Filtration", "standby_boost")),
    "eco_tank": (OPTS, [["temp", "pool", 28.0], ["mqtt", "/settings/filtration/duration", "36000"], ["mqtt", "/settings/filtration/tank_percentage", "0.5"], ["mqtt", "/settings/mode", "eco"], ["run", 600]], ("Filtration", "eco_tank")),
    "heating_running": (OPTS, HEAT[:-1] + [["run", 600]], ("Filtration", "heating_running")),
    "heating_delay_none": (OPTS, HEAT + [["temp", "pool", 31.0]], ("Filtration", "heating_delay_none")),
    "comfort": (OPTS, [["temp", "pool", 28.0], ["mqtt", "/settings/mode", "eco"], ["run", 20], ["mqtt", "/settings/mode", "standby"], ["run", 400], ["mqtt", "/settings/mode", "comfort"]], ("Filtration", "comfort")),
    "sweep": (OPTS, [["temp", "pool", 28.0], ["mqtt", "/settings/mode", "eco"], ["run", 20], ["mqtt", "/settings/mode", "standby"], ["run", 400], ["mqtt", "/settings/mode", "sweep"]], ("Filtration", "sweep")),
    "wintering_stir": (COLD, [["temp", "air", -5.0], ["temp", "ncc", -5.0], ["mqtt", "/settings/mode", "wintering"], ["run", 10700]], ("Filtration", "wintering_stir")),
    "disinfection_running": (OPTS, [["mqtt", "/settings/mode", "eco"], ["run", 1100]], ("Disinfection", "running_adjusting")),
}


def early():
    """a command in the first seconds of a phase: the recipe is run up to its last action, then in steps of 0.25 s until the
    phase is entered; the command (halt / another mode) follows 0.3 s, 1.2 s, 2.6 s and 3.7 s after the entry"""
    n = 0
    for name, (opts, prefix, (actor, phase)) in EARLY.items():
        r = scenario.Runner(opts, [])
        for a in prefix:
            r.do(a)
        t = 0.0
        seen = r.sys.state(actor) == phase
        while not seen and t < 700:
            r.do(["run", 0.25])
            t += 0.25
            seen = r.sys.state(actor) == phase or (phase == "running_adjusting" and r.sys.state(actor).startswith("running"))
        r.world.close()
        if not seen:
            print(f"early recipe {name}: {actor}.{phase} not reached (states {r.sys.states()})")
            continue
        for i, off in enumerate((0.3, 1.2, 2.6, 3.7)):
            for cmd in ("halt", "eco") if not name.startswith(("wash", "opening", "closing")) else ("halt", "eco", "standby", "wintering"):
                acts = prefix + ([["run", max(0.0, t - 0.25) + off]]) + [["mqtt", "/settings/mode", cmd], ["run", 20], ["mqtt", "/settings/mode", "halt"], ["run", 12]]
                json.dump({"opts": opts, "actions": acts}, open(os.path.join(VERIF, "corpus", f"early_{name}_{cmd}_{i}.json"), "w"))
                n += 1
    print("early-command scenarios written", n)


def main():
    if "--early" in sys.argv:
        return early()
    stable()
    early()
    n = 0
    for name, (opts, prefix, (actor, phase), after) in RECIPES.items():
        r = scenario.run_scenario({"opts": opts, "actions": prefix}, [])
        got = r.sys.state(actor)
        if got != phase:
            print(f"recipe {name}: expected {actor}.{phase}, got {got} (states {r.sys.states()})")
            continue
        for v in (0, 1):
            scn = {"opts": opts, "actions": prefix + burst(v) + [["run", after], ["mqtt", "/settings/mode", "halt"], ["run", 12]]}
            json.dump(scn, open(os.path.join(VERIF, "corpus", f"tp_{name}_{v}.json"), "w"))
            n += 1
    print("written", n)


if __name__ == "__main__":
    main()
