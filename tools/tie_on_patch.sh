#!/bin/bash
# usage: tools/tie_on_patch.sh <patch.diff>...   -- decision translator + tie theorems only, on a scratch copy of /repo HEAD with the patch
# (fast: seconds); prints the opaque report and whether the five tie modules build.
for patch in "$@"; do
  patch="$(realpath "$patch")"
  scr=$(mktemp -d /tmp/scrmut.XXXXXX); vs=$(mktemp -d /tmp/scrverif.XXXXXX)
  git -C /repo archive HEAD | tar -x -C "$scr"
  if ! (cd "$scr" && git init -q . && git apply "$patch"); then echo "$(basename $patch): PATCH DOES NOT APPLY"; rm -rf "$scr" "$vs"; continue; fi
  rsync -a --exclude .git --exclude evidence --exclude replays /verif/ "$vs"/
  cd "$vs"
  rep=$(POUPOOL_REPO="$scr" /venv/bin/python -c "
import sys; sys.path.insert(0,'.')
from translate import decisions
r=decisions.generate()
print({k:v['opaque'] for k,v in r.items() if v['opaque']})")
  b=$(cd lean && lake build Poupool.Properties.DecisionsTie.Tank Poupool.Properties.DecisionsTie.Winter Poupool.Properties.DecisionsTie.Cover Poupool.Properties.DecisionsTie.Heating Poupool.Properties.DecisionsTie.Guards Poupool.Properties.DecisionsTie.Eco Poupool.Properties.DecisionsTie.Polls 2>&1 | grep -E "^error|✖|completed" | head -6 | tr '\n' ' ')
  echo "$(basename $(dirname $patch))/$(basename $patch): opaque=$rep build: $b"
  cd /verif; rm -rf "$scr" "$vs"
done
