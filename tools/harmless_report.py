#!/venv/bin/python
"""Harmless rewrites must not raise an alarm: for every patch under harmless/ (behaviour-preserving refactors: renaming,
reordering of independent statements, helper extraction, flipped comparisons, De Morgan, logging) run the pinned test suite
and ALL quick checks against a scratch copy of /repo HEAD + patch; every check must exit 0 without a VIOLATION line.
usage: tools/harmless_report.py [patch ...]   (writes harmless/REPORT.md)"""
import glob
import os
import shutil
import subprocess
import sys
import tempfile
import time

VERIF = os.path.dirname(os.path.dirname(os.path.abspath(__file__)))
PIDS = [f"C{i:02d}" for i in range(1, 21)]


def run_one(patch):
    scr = tempfile.mkdtemp(prefix="harmrun.")
    out = {"patch": os.path.basename(patch), "checks": {}}
    try:
        subprocess.run(f"git -C /repo archive HEAD | tar -x -C {scr}", shell=True, check=True)
        subprocess.run(["git", "init", "-q", "."], cwd=scr, check=True)
        p = subprocess.run(["git", "apply", patch], cwd=scr, capture_output=True, text=True)
        if p.returncode != 0:
            out["applies"] = False
            return out
        out["applies"] = True
        t = subprocess.run(["/venv/bin/python", "-m", "pytest", "-q", "-p", "no:cacheprovider", "--timeout=900", "test"], cwd=scr, capture_output=True, text=True)
        out["suite"] = t.stdout.strip().split("\n")[-1]
        env = dict(os.environ, POUPOOL_REPO=scr, VERIF_SEED=os.environ.get("VERIF_SEED", "1"))
        for pid in PIDS:
            t0 = time.time()
            p = subprocess.run([os.path.join(VERIF, "check"), pid, "--tier", "quick"], cwd=VERIF, capture_output=True, text=True, env=env, timeout=4000)
            viol = [l for l in (p.stdout + p.stderr).split("\n") if l.startswith("VIOLATION")]
            summ = [l for l in (p.stdout + p.stderr).split("\n") if l.startswith("[" + pid)]
            out["checks"][pid] = {"exit": p.returncode, "violations": viol[:3], "summary": summ[-1] if summ else "", "wall_s": round(time.time() - t0, 1)}
            print(out["patch"], pid, p.returncode, (viol[:1] or [""])[0], flush=True)
    finally:
        shutil.rmtree(scr, ignore_errors=True)
    return out


def main():
    patches = [os.path.abspath(a) if os.path.exists(a) else os.path.join(VERIF, "harmless", os.path.basename(a)) for a in sys.argv[1:]] or sorted(glob.glob(os.path.join(VERIF, "harmless", "*.diff")))
    import json
    store = os.path.join(VERIF, "harmless", "results.json")
    old = {}
    if os.path.exists(store):
        try:
            old = {r["patch"]: r for r in json.load(open(store))}
        except Exception:  # noqa: BLE001
            old = {}
    for p in patches:
        r = run_one(p)
        old[r["patch"]] = r
    res = [old[k] for k in sorted(old)]
    json.dump(res, open(store, "w"), indent=1)
    lines = ["# Harmless rewrites (no alarm expected)", "",
             "Each patch is a behaviour-preserving rewrite of /repo; the pinned suite passes with it and every quick check must exit 0.", "",
             "| patch | suite | checks exit 0 | alarms |", "|---|---|---|---|"]
    for r in res:
        if not r.get("applies"):
            lines.append(f"| {r['patch']} | does not apply | - | - |")
            continue
        ok = [k for k, v in r["checks"].items() if v["exit"] == 0 and not v["violations"]]
        bad = {k: v for k, v in r["checks"].items() if k not in ok}
        lines.append(f"| {r['patch']} | {r.get('suite', '')} | {len(ok)}/{len(r['checks'])} | {'; '.join(k + ': ' + (v['violations'][0] if v['violations'] else 'exit ' + str(v['exit'])) for k, v in bad.items()) or 'none'} |")
    open(os.path.join(VERIF, "harmless", "REPORT.md"), "w").write("\n".join(lines) + "\n")
    print("\n".join(lines))
    return 0 if all(r.get("applies") and all(v["exit"] == 0 and not v["violations"] for v in r["checks"].values()) for r in res) else 1


if __name__ == "__main__":
    sys.exit(main())
