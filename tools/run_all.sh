#!/bin/bash
# run every check of MANIFEST.json (quick by default) against /repo and print one line per check
cd "$(dirname "$0")/.."
tier=${1:-quick}
for c in C01 C02 C03 C04 C05 C06 C07 C08 C09 C10 C11 C12 C13 C14 C15 C16 C17 C18 C19 C20; do
  out=$(./check $c --tier $tier 2>&1); rc=$?
  echo "$c rc=$rc $(echo "$out" | grep -E '^\[C' | tail -1)"
  echo "$out" | grep -E "^VIOLATION" | head -3
done
