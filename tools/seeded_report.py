#!/venv/bin/python
"""Run every seeded change under seeded/<id>/ against its property's quick check (scratch copy of /repo HEAD + patch,
POUPOOL_REPO) and write seeded/REPORT.md and seeded/<id>/result.json.   usage: tools/seeded_report.py [id ...]"""
import json
import os
import re
import shutil
import subprocess
import sys
import tempfile
import time

VERIF = os.path.dirname(os.path.dirname(os.path.abspath(__file__)))
SEEDED = os.path.join(VERIF, "seeded")


def run_one(sid):
    d = os.path.join(SEEDED, sid)
    meta = json.load(open(os.path.join(d, "meta.json")))
    pid = meta["property"]
    scr = tempfile.mkdtemp(prefix="seedrun.")
    try:
        subprocess.run(f"git -C /repo archive HEAD | tar -x -C {scr}", shell=True, check=True)
        subprocess.run(["git", "init", "-q", "."], cwd=scr, check=True)
        p = subprocess.run(["git", "apply", os.path.join(d, "patch.diff")], cwd=scr, capture_output=True, text=True)
        if p.returncode != 0:
            p = subprocess.run(["git", "apply", "-3", os.path.join(d, "patch.diff")], cwd=scr, capture_output=True, text=True)
        if p.returncode != 0:
            return {"id": sid, "property": pid, "applies": False, "detected": None, "detail": p.stderr[-300:]}
        t0 = time.time()
        env = dict(os.environ, POUPOOL_REPO=scr, VERIF_SEED=os.environ.get("VERIF_SEED", "1"))
        p = subprocess.run([os.path.join(VERIF, "check"), pid, "--tier", "quick"], cwd=VERIF, capture_output=True, text=True, env=env, timeout=3600)
        out = p.stdout + p.stderr
        viol = [l for l in out.split("\n") if l.startswith("VIOLATION")]
        summ = [l for l in out.split("\n") if l.startswith("[" + pid)]
        ev = {}
        try:
            ev = json.load(open(os.path.join(VERIF, ".cache", "evidence_alt", f"{pid}.json")))
        except Exception:  # noqa: BLE001
            pass
        cov = ev.get("coverage", {})
        broken_obl = [o["name"] for o in cov.get("obligation_list", []) if not o["ok"]]
        broken_corr = [k for k, v in cov.get("correspondence", {}).items() if v.get("disagreements")]
        how = []
        if broken_obl:
            how.append("proof")
        if broken_corr:
            how.append("corr")
        concrete = [v for v in viol if "no-failing-input-found" not in v]
        if concrete:
            how.append("replay")
        elif viol:
            how.append("nfi")
        return {"id": sid, "property": pid, "applies": True, "detected": p.returncode == 1 and bool(viol), "exit": p.returncode, "how": how, "violations": viol[:4],
                "broken_obligations": broken_obl[:8], "broken_correspondence": [c[:80] for c in broken_corr], "summary": summ[-1] if summ else "", "wall_s": round(time.time() - t0, 1)}
    finally:
        shutil.rmtree(scr, ignore_errors=True)


def main():
    report_only = "--report-only" in sys.argv
    args = [a for a in sys.argv[1:] if not a.startswith("--")]
    ids = [] if report_only else (args or sorted(x for x in os.listdir(SEEDED) if os.path.isdir(os.path.join(SEEDED, x))))
    rows = []
    for sid in ids:
        r = run_one(sid)
        rows.append(r)
        with open(os.path.join(SEEDED, sid, "result.json"), "w") as fh:
            json.dump(r, fh, indent=1)
        print(json.dumps({k: r.get(k) for k in ("id", "detected", "how", "wall_s")}), flush=True)
    # merge with earlier results
    allrows = []
    for sid in sorted(x for x in os.listdir(SEEDED) if os.path.isdir(os.path.join(SEEDED, x))):
        p = os.path.join(SEEDED, sid, "result.json")
        if os.path.exists(p):
            allrows.append(json.load(open(p)))
    lines = ["# Seeded changes: which check catches which", "", "| id | property | what it needs (from the sub-agent's README) | detected | how | first violation line |", "|---|---|---|---|---|---|"]
    for r in allrows:
        readme = os.path.join(SEEDED, r["id"], "README.md")
        need = ""
        if os.path.exists(readme):
            txt = open(readme).read()
            m = re.search(r"(?is)(needs?|manifest|trigger)[^\n]*\n+(.{0,260})", txt)
            need = (m.group(2) if m else txt[:200]).replace("\n", " ").replace("|", "/")[:220]
        lines.append(f"| {r['id']} | {r['property']} | {need} | {'yes' if r.get('detected') else ('PATCH DOES NOT APPLY' if not r.get('applies') else 'NO')} | {'+'.join(r.get('how', []))} | {(r.get('violations') or [''])[0][:110]} |")
    with open(os.path.join(SEEDED, "REPORT.md"), "w") as fh:
        fh.write("\n".join(lines) + "\n")
    n_det = sum(1 for r in allrows if r.get("detected"))
    n_rep = sum(1 for r in allrows if "replay" in (r.get("how") or []))
    print(f"{len(allrows)} seeded changes, {n_det} detected, {n_rep} with a concrete replay")
    if report_only:
        return
    # restore the generated files for /repo
    subprocess.run([os.path.join(VERIF, "check"), "C01", "--tier", "quick"], cwd=VERIF, capture_output=True, text=True)


if __name__ == "__main__":
    main()
