#!/usr/bin/env python3
"""usage: tools/gen_mutation_prompt.py <wave> <property-id> [n]   -- creates the scratch worktree /tmp/mut<wave>_<pid> (at /repo HEAD) and the
prompt file /tmp/mut<wave>_<pid>_prompt.txt for a fresh sub-agent: the text of ONE property, the worktree, the ideas earlier sub-agents already
used (first lines of their READMEs) — nothing about /verif's machinery."""
import json, sys, os, re, subprocess
wave, pid = sys.argv[1], sys.argv[2]
n = int(sys.argv[3]) if len(sys.argv) > 3 else 2
wt = f"/tmp/mut{wave}_{pid}"
if not os.path.isdir(wt):
    subprocess.run(["git", "-C", "/repo", "worktree", "add", "--detach", wt, "HEAD"], check=True, capture_output=True)
for l in open('/verif/properties.jsonl'):
    d = json.loads(l)
    if d['id'] == pid:
        prop = json.dumps({k: d[k] for k in ('id', 'title', 'statement', 'quantifier', 'why_tests_cant', 'anchors') if k in d}, indent=1)
avoid = []
for k in range(1, 20):
    r = f'/verif/seeded/{pid}_M{k}/README.md'
    if os.path.exists(r):
        first = open(r).read().strip().split('\n')[0]
        first = re.sub(r'^#\s*MUTATION_\d+\s*[-—:]*\s*', '', first)
        avoid.append(f"({k}) {first[:160]}")
nw = {1: "ONE", 2: "TWO different", 3: "THREE different"}[n]
open(f'/tmp/mut{wave}_{pid}_prompt.txt', 'w').write(f"""You are helping to evaluate a verification effort by mutation testing. You work ONLY inside the scratch git worktree {wt} (a checkout of the project lostcontrol/poupool, a Raspberry Pi swimming-pool controller in Python with an Arduino sketch). Do not look at, read or use anything outside that directory (in particular nothing under /verif or /repo). The project's tests run with: cd {wt} && /venv/bin/python -m pytest -q -p no:cacheprovider --timeout=900 test   (99 tests pass on the unchanged tree).

Here is a semantic property the project is supposed to satisfy (JSON):

{prop}

Your task: produce {nw} realistic code change(s) (the kind of change a maintainer could plausibly make: a refactor, an optimisation, a "fix", a small feature), each of which BREAKS this property while the code still imports/compiles and ALL 99 existing tests still pass. Each change must need something specific to manifest — a particular interleaving of messages/timers, a crash or fault at a particular point, a multi-step sequence of operations, an unusual input or configuration, or TWO COOPERATING SITES that each look fine alone (e.g. a helper whose contract is changed slightly and a caller that relied on the old contract; a default value and the code path that only runs when the default is used) — rather than breaking everything at once in ordinary use. Be inventive and subtle: previous rounds already used the ideas listed below, so look elsewhere — in helper classes and utilities the controllers rely on (controller/actor.py, controller/util.py, controller/sensor.py, controller/device.py, controller/config.py, controller/mqtt.py, controller/encoder.py, controller/dispatcher.py, controller/arduino.py, poupool.py, config.ini, the openHAB files, the Arduino sketch where the property concerns it), in interactions between two or three controllers, in timing (durations, polls, time-in-state, units), in configuration handling, in error handling / sensor faults / device faults, in state that survives from one phase to the next or across a restart, in the order of statements inside one handler. Ideas that were already used and that you must NOT repeat:
{chr(10).join(avoid)}

For each change k in 1..{n} create the directory {wt}/MUTATION_k/ containing:
 - patch.diff : a unified diff (git diff format, paths relative to the worktree root) of the change against HEAD, applying cleanly with `git apply`;
 - demo.py : a pytest file (name it demo.py, NOT *_test.py, so the normal suite does not collect it) with one or more tests that FAIL with the change applied and PASS on the unchanged tree; it must run from the worktree root with  /venv/bin/python -m pytest -q -p no:cacheprovider MUTATION_k/demo.py  ; it may use mocks/fakes of the hardware and of time, must be deterministic and finish within about a minute, and must exercise the real project code;
 - README.md : first line `# MUTATION_k - <one-line summary>`, then what was changed (file, function, lines), why it breaks the property, what specific circumstances it needs to manifest, and how to run the demo.

Procedure for each: make the change in the worktree, run the full suite (must be 99 passed), write and run the demo (must fail), save `git diff` to patch.diff, then `git checkout -- .` to restore the tracked files and run the demo again (must pass). Each patch must apply on its own to the untouched HEAD. Leave the worktree's tracked files unmodified at the end; only the MUTATION_k directories remain as untracked files. Do not commit anything. Work in small steps and keep your messages short.

Report at the end, for each mutation: files/lines changed, what it needs to manifest, and the exact demo command and its outcome with and without the change.""")
print(wt)
