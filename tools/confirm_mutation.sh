#!/bin/bash
# usage: tools/confirm_mutation.sh <mutation_dir> <id> <property>  -- confirms in a scratch worktree: patch applies, suite passes with it,
# the demo fails with it and passes without; then stores it under /verif/seeded/<id>/
mdir="$1"; id="$2"; prop="$3"; base="${4:-890e303}"
wt=$(mktemp -d /tmp/confirm.XXXXXX); rmdir "$wt"
git -C /repo worktree add --detach "$wt" "$base" >/dev/null 2>&1 || { echo "$id: worktree failed"; exit 2; }
cd "$wt"
demo=$(ls "$mdir" | grep -E "^demo.*\.py$" | head -1)
mname=$(basename "$mdir")
cp -r "$mdir" "$wt/$mname"
res="$id:"
if git apply "$mdir/patch.diff" 2>/dev/null; then res="$res applies"; else res="$res PATCH-FAILS"; fi
suite=$(/venv/bin/python -m pytest -q -p no:cacheprovider --timeout=900 test/ 2>&1 | tail -1)
res="$res | suite-with-patch: $suite"
/venv/bin/python -m pytest -q -p no:cacheprovider --timeout=300 "$mname/$demo" >/dev/null 2>&1; d1=$?
git checkout -q -- . 
/venv/bin/python -m pytest -q -p no:cacheprovider --timeout=300 "$mname/$demo" >/dev/null 2>&1; d0=$?
res="$res | demo with patch rc=$d1, without rc=$d0"
echo "$res"
cd /verif
git -C /repo worktree remove --force "$wt"
if [ "$d1" != "0" ] && [ "$d0" = "0" ] && echo "$suite" | grep -q "99 passed"; then
  mkdir -p "/verif/seeded/$id"
  cp "$mdir/patch.diff" "/verif/seeded/$id/patch.diff"; cp "$mdir/$demo" "/verif/seeded/$id/$demo"; cp "$mdir/README.md" "/verif/seeded/$id/README.md" 2>/dev/null; [ -f "$mdir/conftest.py" ] && cp "$mdir/conftest.py" "/verif/seeded/$id/conftest.py"
  echo "{\"id\": \"$id\", \"property\": \"$prop\", \"base_commit\": \"$base\", \"confirmed\": {\"suite_with_patch\": \"$suite\", \"demo_rc_with_patch\": $d1, \"demo_rc_without\": $d0, \"cmd\": \"pytest $demo in a scratch worktree of /repo at $base, the MUTATION dir copied into the worktree and the demo run from the worktree root\"}}" > "/verif/seeded/$id/meta.json"
  echo "$id: STORED"
else
  echo "$id: NOT CONFIRMED"
fi
