#!/bin/bash
# copy seeded/<id>/result.json from the snapshots of finished `vp run` sweeps (in the given order: later runs override)
for n in "$@"; do
  d=/root/.vp/runs/$n/verif/seeded
  [ -d "$d" ] || { echo "run $n: no snapshot"; continue; }
  c=0
  for r in $d/*/result.json; do
    id=$(basename $(dirname $r))
    if [ -d /verif/seeded/$id ] && grep -q '"summary"' $r; then
      # only results produced by that run (newer than its setup)
      if [ $r -nt /root/.vp/runs/$n/verif/setup.sh ]; then cp $r /verif/seeded/$id/result.json; c=$((c+1)); fi
    fi
  done
  echo "run $n: $c results copied"
done
