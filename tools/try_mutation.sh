#!/bin/bash
# usage: tools/try_mutation.sh <patch.diff> <Cxx> [Cyy ...]   -- runs the quick checks against a scratch copy of /repo HEAD
# with the patch applied (POUPOOL_REPO), prints the VIOLATION / summary lines, removes the scratch copy.
patch="$1"; shift
scr=$(mktemp -d /tmp/scrmut.XXXXXX)
git -C /repo archive HEAD | tar -x -C "$scr"
if ! (cd "$scr" && git init -q . && git apply "$patch"); then echo "PATCH DOES NOT APPLY"; rm -rf "$scr"; exit 3; fi
cd /verif
for pid in "$@"; do
  POUPOOL_REPO="$scr" VERIF_SEED=${VERIF_SEED:-1} ./check "$pid" --tier ${TIER:-quick} 2>&1 | grep -E "VIOLATION|KNOWN-FINDING|^\[C" | sed "s|^|$pid: |"
done
rm -rf "$scr"
